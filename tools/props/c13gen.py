"""C13 input generators (seeded): raw byte junk, structurally valid messages of all ten kinds
whose fields range over boundary values, and mixed sequences over sessions in every state.
Placeholders @U1@ @U2@ @U3@ @GG@ @GC@ @CC@ @GO@ @PP@ @PR@ are replaced by the driver with the real
names of the population (users, loaded group, channel as grp/chn, unloaded group, p2p topic)."""
import base64
import json

SESSIONS = ["nohi", "hi", "in", "att", "peer", "root"]
SESS_W = [1, 3, 4, 6, 3, 3]
KINDS = ["hi", "acc", "login", "sub", "leave", "pub", "get", "set", "del", "note"]


def b64(s):
    if isinstance(s, str):
        s = s.encode()
    return base64.b64encode(s).decode()


TOPICS_VALID = ["me", "fnd", "sys", "new", "nch", "newabc", "@U1@", "@U2@", "@U3@", "@GG@", "@GC@", "@CC@", "@GO@", "@PP@", "@PR@"]
TOPICS_BAD = ["", "a", "ab", "m", "fn", "sy", "slf", "usr", "grp", "p2p", "chn", "new", "nch", "usrAAAAAAAAAAA", "usr!!!", "usr@@",
              "usrAAAAAAAAAAAAAAAAAAAAAAAAAAAA", "p2pAAAA", "p2p@@@@", "p2pAAAAAAAAAAAAAAAAAAAAAA", "grpNonexistent", "chnNonexistent",
              "xyzzy", "ME", " me", "me ", "grp\u0000", "\u0442\u0435\u043c\u0430", "\U0001F600x", "usr" + "A" * 400, "x" * 3000,
              "newtopic", "nch!", "sysx", "fndx", "mex", "p2p@U1@", "usr@GG@", "grp@U1@", "chn@U1@", "@PP@x", "@U2@x", "ab\ud800"]
IDS = ["1", "7", "", "x" * 200, "\u0000", "id\"q", "\u00e9\u4e2d", "12345678901234567890"]
NUMS = [0, 1, 2, 3, -1, -5, 100, 2 ** 31 - 1, 2 ** 31, 2 ** 53, 2 ** 63 - 1, -2 ** 63, 2 ** 63, 10 ** 30, 1.5, 1e3, -0.0]
NUMS_OK = [0, 1, 2, 3, -1, 100, 2 ** 31 - 1, 2 ** 31, 2 ** 62]
MODES = ["JRWPASDO", "JRWPS", "N", "", "JRW", "O", "RO", "junk", "+R-W", "\u0000", "jrwp", "JRWPASDOX", "N+R", " "]
WHAT_GET = ["desc", "sub", "data", "del", "tags", "cred", "desc sub data del tags cred", "", "junk", "desc junk", "DESC", "sub desc", " "]
WHAT_DEL = ["msg", "topic", "sub", "user", "cred", "", "junk", "TOPIC"]
WHAT_NOTE = ["kp", "kpa", "kpv", "read", "recv", "call", "data", "", "junk", "CALL"]
EVENTS = ["", "ringing", "accept", "hang-up", "invite", "answer", "offer", "ice-candidate", "junk"]
SCHEMES = ["basic", "token", "anonymous", "anon", "code", "rest", "bogus", "", "BASIC", "reset", "\u0000"]
SECRETS = ["", b64("alice:alice123"), b64("bobb:bobb123"), b64(":"), b64("a:b"), b64("alice:wrongpass"), b64(b"\xff\xfe\x00"), b64("x" * 300),
           b64("basic:vfy:x@example.com"), b64("basic:email:x@example.com"), b64("bogus:vfy:x"), b64("a:b:c:d"), b64("123456"),
           b64("alice"), b64(b"\x00" * 50)]
USERS_ACC = ["new", "newabc", "", "@U1@", "@U2@", "usrAAAAAAAAAAA", "me", "xyz", "usr", "ne", "NEW"]
ATTACH = [["/v0/file/s/abc.jpg"], ["junk"], [""], ["http://evil/../../x"], ["/v0/file/s/" + "A" * 300], ["a"] * 50, ["\u0000"], ["/v0/file/s/mfHLxDWFhfU.jpg"]]
TAGS = [["a"], ["abc", "def"], ["basic:alice"], ["vfy:x"], [""], ["x" * 200], ["t%d" % i for i in range(40)], ["\u0442\u0435\u0433"],
        [" , "], ["dup", "dup"], [], ["email:a@b.c"], ["ab"], ["a:b:c"], ["\u2421"]]
ANY = ["x", "", 5, None, True, {}, [], {"fn": "n"}, {"fn": 5, "photo": {"data": "\u2421", "ref": "/v0/file/s/abc.jpg"}}, [1, [2, [3]]],
       "\u2421", {"a": {"b": {"c": {"d": {}}}}}, 1e300, -1, "z" * 2000, {"note": "\u2421"}, {"": ""}]
DRAFTY = [
    {"txt": "hello", "fmt": [{"at": 0, "len": 5, "tp": "ST"}]},
    {"txt": "hello", "fmt": [{"at": -1, "len": 1, "key": 0}], "ent": [{"tp": "IM", "data": {"mime": "image/jpeg", "val": "AAAA"}}]},
    {"txt": "hi", "fmt": [{"at": 5, "len": 100, "tp": "EM"}]},
    {"txt": "hi", "fmt": [{"at": 0, "len": -3, "tp": "EM"}, {"at": 1, "len": 2 ** 31, "key": 7}]},
    {"txt": "a\U0001F600b\u0301", "fmt": [{"at": 1, "len": 1, "tp": "ST"}, {"at": 2, "len": 5}]},
    {"txt": 5, "fmt": "x", "ent": 7},
    {"txt": "x", "fmt": [5, "a", None, {"at": "0", "len": "1", "tp": 5}], "ent": [5, None, {"tp": 5, "data": 5}]},
    {"txt": "", "fmt": [{"at": 0, "len": 0, "key": -1}], "ent": []},
    {"txt": " ", "fmt": [{"at": -1, "len": 0, "key": 0}], "ent": [{"tp": "VC", "data": {"state": "started"}}]},
    {"txt": "abc", "fmt": [{"at": 0, "len": 3, "key": 0}], "ent": [{"tp": "MN", "data": {"val": "usrX"}}, {"tp": "QQ"}]},
    {"fmt": [{"at": 0, "len": 1, "key": 2 ** 40}], "ent": [{"tp": "EX", "data": {"ref": "/v0/file/s/abc", "mime": 5, "size": "x"}}]},
    {"txt": "x" * 500, "fmt": [{"at": i, "len": 500 - i, "tp": "ST"} for i in range(60)]},
]
HEADS = [None, {"mime": "text/x-drafty"}, {"mime": 5}, {"mime": None}, {"replace": ":1"}, {"replace": ":2"}, {"replace": ":abc"}, {"replace": 5},
         {"replace": ":99999"}, {"replace": ":-1"}, {"replace": ":"}, {"replace": ""}, {"replace": "1"}, {"webrtc": "started"}, {"webrtc": "junk"}, {"webrtc": 5},
         {"webrtc": "started", "aonly": True}, {"webrtc": "started", "aonly": "x"}, {"forwarded": "@GG@:1"}, {"forwarded": 5}, {"reply": "1"}, {"sender": "@U2@"}, {"sender": 5},
         {"priority": []}, {"x" * 100: "y"}, {"thread": "1", "hashtags": ["a"], "mentions": [5]}, {"auto": True}, {"attachments": ["x"]},
         {"webrtc": "accepted", "replace": ":1"}, {"webrtc": "finished", "replace": ":3", "webrtc-duration": "x"}, {"webrtc": "started", "replace": ":1"}]
CRED = [None, {"meth": "vfy", "val": "x@example.com"}, {"meth": "vfy", "val": "x@example.com", "resp": "123456"}, {"meth": "vfy", "resp": "000"},
        {"meth": "email", "val": "a@b.c"}, {"meth": "tel", "val": "+123"}, {"meth": "", "val": ""}, {"meth": "junk", "val": "x", "params": {"a": [1]}},
        {"meth": "vfy", "val": "x" * 100}, {"meth": "VFY", "val": "X@EXAMPLE.COM", "resp": "123456"}]
OBO = ["@U2@", "@U1@", "usrjunk", "junk", "usrAAAAAAAAAAA", "usr"]
AUTHLVL = ["", "auth", "root", "anon", "junk"]


def pick(rng, pool):
    return pool[rng.randrange(len(pool))]


def topic(rng, pvalid=0.6):
    return pick(rng, TOPICS_VALID) if rng.random() < pvalid else pick(rng, TOPICS_BAD)


def ident(rng):
    return "1" if rng.random() < 0.5 else pick(rng, IDS)


def num(rng, pok=0.8):
    return pick(rng, NUMS_OK) if rng.random() < pok else pick(rng, NUMS)


def maybe(rng, p, f):
    return f() if rng.random() < p else None


def desc(rng):
    d = {}
    if rng.random() < 0.4:
        d["defacs"] = {"auth": pick(rng, MODES), "anon": pick(rng, MODES)}
        if rng.random() < 0.2:
            d["defacs"] = pick(rng, [{}, {"auth": "JRW"}, {"anon": "N"}])
    for k in ("public", "trusted", "private"):
        if rng.random() < 0.4:
            d[k] = pick(rng, ANY)
    return d


def setq(rng):
    q = {}
    if rng.random() < 0.6:
        q["desc"] = desc(rng)
    if rng.random() < 0.5:
        s = {}
        if rng.random() < 0.7:
            s["mode"] = pick(rng, MODES)
        if rng.random() < 0.5:
            s["user"] = pick(rng, ["@U1@", "@U2@", "@U3@", "usrAAAAAAAAAAA", "junk", "", "usr"])
        q["sub"] = s
    if rng.random() < 0.3:
        q["tags"] = pick(rng, TAGS)
    if rng.random() < 0.25:
        q["cred"] = pick(rng, CRED)
    return q


def getopts(rng):
    o = {}
    for k in ("since", "before", "limit"):
        if rng.random() < 0.5:
            o[k] = num(rng, 0.85)
    if rng.random() < 0.3:
        o["user"] = pick(rng, ["@U1@", "@U2@", "junk", ""])
    if rng.random() < 0.3:
        o["topic"] = topic(rng)
    if rng.random() < 0.2:
        o["ims"] = pick(rng, ["2020-01-01T00:00:00Z", "2999-01-01T00:00:00.000Z"])
    return o


def getq(rng):
    q = {"what": pick(rng, WHAT_GET) if rng.random() < 0.8 else " ".join(pick(rng, WHAT_GET) for _ in range(3))}
    for k in ("desc", "sub", "data", "del"):
        if rng.random() < 0.3:
            q[k] = getopts(rng)
    return q


def ranges(rng):
    n = pick(rng, [0, 1, 1, 2, 3, 200])
    rs = []
    for _ in range(n):
        r = {}
        if rng.random() < 0.9:
            r["low"] = num(rng, 0.9)
        if rng.random() < 0.5:
            r["hi"] = num(rng, 0.9)
        rs.append(r)
    return rs


def content(rng):
    r = rng.random()
    if r < 0.4:
        return pick(rng, ["x", "hello world", "", "\u0000", "z" * 5000])
    if r < 0.75:
        return pick(rng, DRAFTY)
    return pick(rng, ANY)


def extra(rng, m, p_att=0.12, p_obo=0.08):
    e = {}
    if rng.random() < p_att:
        e["attachments"] = pick(rng, ATTACH)
    if rng.random() < p_obo:
        e["obo"] = pick(rng, OBO)
        if rng.random() < 0.5:
            e["authlevel"] = pick(rng, AUTHLVL)
    if e:
        m["extra"] = e
    return m


def gen_msg(rng, kind):
    """Returns a python dict (a structurally valid client message of the given kind)."""
    if kind == "hi":
        b = {"id": ident(rng), "ver": pick(rng, ["0.22", "0.22", "0.17", "0.15", "", "abc", "99999.99999", "0", "1.2.3.4", "-1", "0.22-rc1", "1"])}
        if rng.random() < 0.5:
            b["ua"] = pick(rng, ["TinodeWeb/0.22 (Chrome/1; Linux); tinodejs/0.22", "", "x" * 500, "\u0000", "tindroid (Android 10)"])
        if rng.random() < 0.4:
            b["dev"] = pick(rng, ["", "devX", "\u2421", "d" * 300])
        if rng.random() < 0.4:
            b["lang"] = pick(rng, ["en", "zh_CN_#Hans", "x" * 100, "", "en-US", "ru_RU", "\u0000"])
        if rng.random() < 0.3:
            b["platf"] = pick(rng, ["web", "android", "ios", "junk", ""])
        if rng.random() < 0.2:
            b["bkg"] = rng.random() < 0.5
        return {"hi": b}
    if kind == "acc":
        b = {"id": ident(rng), "user": pick(rng, USERS_ACC) if rng.random() < 0.7 else "new"}
        if rng.random() < 0.8:
            b["scheme"] = pick(rng, SCHEMES)
        if rng.random() < 0.8:
            b["secret"] = pick(rng, SECRETS) if rng.random() < 0.7 else b64("u%d:passw%d" % (rng.randrange(10 ** 6), rng.randrange(10 ** 6)))
        if rng.random() < 0.4:
            b["login"] = rng.random() < 0.5
        if rng.random() < 0.3:
            b["tags"] = pick(rng, TAGS)
        if rng.random() < 0.5:
            b["desc"] = desc(rng)
        if rng.random() < 0.3:
            b["cred"] = [c for c in [pick(rng, CRED), pick(rng, CRED)] if c is not None]
        if rng.random() < 0.3:
            b["tmpscheme"] = pick(rng, SCHEMES)
            b["tmpsecret"] = pick(rng, SECRETS)
        if rng.random() < 0.15:
            b["status"] = pick(rng, ["", "ok", "suspended", "junk"])
        return extra(rng, {"acc": b}, 0.15, 0.05)
    if kind == "login":
        b = {"id": ident(rng), "scheme": pick(rng, SCHEMES), "secret": pick(rng, SECRETS)}
        if rng.random() < 0.3:
            b["cred"] = [c for c in [pick(rng, CRED)] if c is not None]
        return {"login": b}
    if kind == "sub":
        b = {"id": ident(rng), "topic": topic(rng)}
        if rng.random() < 0.4:
            b["set"] = setq(rng)
        if rng.random() < 0.4:
            b["get"] = getq(rng)
        if rng.random() < 0.1:
            b["bkg"] = True
        return extra(rng, {"sub": b})
    if kind == "leave":
        b = {"id": ident(rng), "topic": topic(rng)}
        if rng.random() < 0.4:
            b["unsub"] = rng.random() < 0.7
        return extra(rng, {"leave": b}, 0.02)
    if kind == "pub":
        b = {"id": ident(rng), "topic": topic(rng, 0.75), "content": content(rng)}
        if rng.random() < 0.3:
            b["noecho"] = rng.random() < 0.5
        h = pick(rng, HEADS)
        if h is not None and rng.random() < 0.6:
            b["head"] = h
        return extra(rng, {"pub": b}, 0.2)
    if kind == "get":
        b = {"id": ident(rng), "topic": topic(rng)}
        b.update(getq(rng))
        return extra(rng, {"get": b}, 0.02)
    if kind == "set":
        b = {"id": ident(rng), "topic": topic(rng)}
        b.update(setq(rng))
        return extra(rng, {"set": b}, 0.2)
    if kind == "del":
        b = {"id": ident(rng), "topic": topic(rng, 0.5), "what": pick(rng, WHAT_DEL)}
        if b["what"] in ("user",) and rng.random() < 0.9:
            # deleting the acting user ends the scenario for that user's sessions: mostly name someone else
            b["user"] = pick(rng, ["usrAAAAAAAAAAA", "junk", "usr"])
        if b["what"] == "topic" and b["topic"] in ("@GG@", "@GC@", "@CC@", "@PP@") and rng.random() < 0.7:
            b["topic"] = pick(rng, TOPICS_BAD)
        if rng.random() < 0.5:
            b["delseq"] = ranges(rng)
        if rng.random() < 0.3 and "user" not in b:
            b["user"] = pick(rng, ["@U2@", "usrAAAAAAAAAAA", "junk", ""])
        if rng.random() < 0.2:
            b["cred"] = pick(rng, CRED)
        if rng.random() < 0.3:
            b["hard"] = rng.random() < 0.5
        return extra(rng, {"del": b}, 0.02)
    if kind == "note":
        b = {"topic": topic(rng, 0.5), "what": pick(rng, WHAT_NOTE)}
        if rng.random() < 0.8:
            b["seq"] = num(rng, 0.85)
        if rng.random() < 0.5:
            b["event"] = pick(rng, EVENTS)
        if rng.random() < 0.2:
            b["unread"] = num(rng)
        if rng.random() < 0.3:
            b["payload"] = pick(rng, ANY)
        return extra(rng, {"note": b}, 0.02)
    raise ValueError(kind)


def dumps(m):
    return json.dumps(m, ensure_ascii=False, separators=(",", ":")).encode("utf-8", "surrogatepass")


def gen_raw(rng):
    """Byte strings that are not (or barely) client messages."""
    r = rng.randrange(16)
    if r == 0:
        return bytes(rng.randrange(256) for _ in range(rng.choice([0, 1, 2, 7, 64, 700])))
    if r == 1:
        s = dumps(gen_msg(rng, pick(rng, KINDS)))
        return s[:rng.randrange(len(s) + 1)]
    if r == 2:
        k = pick(rng, KINDS)
        return dumps({k: pick(rng, [5, "x", [], None, True, [{}], {"id": 5}, {"id": ["x"]}, {"topic": 7}, {"id": None, "topic": None}, {"what": {}}, {"seq": "1"}, {}])})
    if r == 3:
        n = pick(rng, [50, 2000, 9999, 10001, 100000])
        return pick(rng, [b"[" * n, b"{\"a\":" * n, b"[" * n + b"]" * n, b"{\"pub\":" + b"[" * n])
    if r == 4:
        k = pick(rng, ["seq", "unread"])
        v = pick(rng, ["1e999", "-1e999", "9" * 400, "0.0000000001", "1E+2", "-0", "0x10", "NaN", "Infinity", "01", "1.", ".5", "--1"])
        return ('{"note":{"topic":"me","what":"read","%s":%s}}' % (k, v)).encode()
    if r == 5:
        s = bytearray(dumps(gen_msg(rng, pick(rng, KINDS))))
        for _ in range(rng.randrange(1, 4)):
            if s:
                s[rng.randrange(len(s))] = rng.randrange(256)
        return bytes(s)
    if r == 6:
        return pick(rng, [b"1", b"0", b"11", b" 1", b"null", b"true", b"[]", b"{}", b"\"x\"", b"", b" ", b"\x00", b"{\"\":{}}", b"{\"unknown\":{}}",
                          b"{\"ctrl\":{\"id\":\"1\",\"code\":200}}", b"{\"data\":{}}", b"{\"extra\":{\"obo\":\"usrX\"}}", b"\xef\xbb\xbf{}"])
    if r == 7:
        a, b = pick(rng, KINDS), pick(rng, KINDS)
        m = gen_msg(rng, a)
        m.update(gen_msg(rng, b))
        return dumps(m)
    if r == 8:
        k = pick(rng, KINDS)
        m = gen_msg(rng, k)
        s = dumps(m)
        return s.replace(b'"' + k.encode() + b'"', b'"' + k.upper().encode() + b'"', 1)
    if r == 9:
        return b'{"pub":{"id":"1","topic":"me","content":"' + b"\xff\xfe\xc0\xaf" * rng.randrange(1, 50) + b'"}}'
    if r == 10:
        return b'{"hi":{"id":"1","ver":"0.22"},"hi":{"id":"2","ver":"junk"}}'
    if r == 11:
        return dumps({"pub": {"id": "1", "topic": "@GG@", "content": "x" * pick(rng, [1 << 16, 1 << 18, (1 << 18) + 100])}})
    if r == 12:
        return ('{"get":{"id":"1","topic":"me","what":"data","data":{"since":%s,"before":%s,"limit":%s}}}' % (
            pick(rng, ["-1", "1e2", "2147483648", "9223372036854775808", "\"1\"", "null", "[]"]), pick(rng, ["0", "-9", "1.0"]), pick(rng, ["0", "-1", "1e9"]))).encode()
    if r == 13:
        return ('{"del":{"id":"1","topic":"@GG@","what":"msg","delseq":%s}}' % pick(rng, ["null", "5", "[5]", "[null]", "[[]]", "{}", "[{\"low\":\"1\"}]", "[{\"low\":1e1}]"])).encode()
    if r == 14:
        return ('{"login":{"id":"1","scheme":"basic","secret":%s}}' % pick(rng, ["\"!!!\"", "5", "null", "[]", "\"YQ\"", "\"YQ==\\n\"", "\"" + "A" * 5000 + "\""])).encode()
    return dumps(gen_msg(rng, pick(rng, KINDS))) + pick(rng, [b"", b" ", b"\n", b"x", b"{}", b"\x00"])


# ---- protobuf (gRPC path): minimal wire encoder, field numbers from pbx/model.proto ----

def _varint(n):
    out = bytearray()
    n &= (1 << 64) - 1
    while True:
        b = n & 0x7F
        n >>= 7
        if n:
            out.append(b | 0x80)
        else:
            out.append(b)
            return bytes(out)


def pb_len(field, payload):
    return _varint(field << 3 | 2) + _varint(len(payload)) + payload


def pb_str(field, s):
    return pb_len(field, s.encode()) if s != "" else b""


def pb_int(field, n):
    return _varint(field << 3) + _varint(n)


def gen_pb(rng):
    r = rng.randrange(10)
    tid = pb_str(1, "1")
    if r == 0:   # set with a present but empty SetQuery
        return pb_len(8, tid + pb_str(2, pick(rng, ["me", "@GG@", "xyzzy"])) + pb_len(3, b""))
    if r == 1:   # set whose query has an empty sub
        return pb_len(8, tid + pb_str(2, "me") + pb_len(3, pb_len(2, b"")))
    if r == 2:   # set without query
        return pb_len(8, tid + pb_str(2, pick(rng, ["me", "@GG@", ""])))
    if r == 3:   # set with desc
        return pb_len(8, tid + pb_str(2, "@GG@") + pb_len(3, pb_len(1, pb_len(2, b"{\"fn\":\"x\"}"))))
    if r == 4:   # hi
        return pb_len(1, tid + pb_str(3, pick(rng, ["0.22", "", "junk"])))
    if r == 5:   # get with empty query / no query
        return pb_len(7, tid + pb_str(2, "me") + pick(rng, [b"", pb_len(3, b""), pb_len(3, pb_str(1, "desc"))]))
    if r == 6:   # sub with empty set/get queries
        return pb_len(4, tid + pb_str(2, pick(rng, ["me", "new", "@GG@", "ab"])) + pb_len(3, b"") + pb_len(4, b""))
    if r == 7:   # note call on a short name
        return pb_len(10, pb_str(1, pick(rng, ["ab", "xyzzy", "@PP@", "me"])) + pb_int(2, rng.randrange(0, 12)) + pb_int(3, 1))
    if r == 8:   # del topic
        return pb_len(9, tid + pb_str(2, pick(rng, ["ab", "xyzzy", "grpNonexistent"])) + pb_int(3, rng.randrange(0, 8)))
    # empty oneof / unknown field / extra only
    return pick(rng, [b"", pb_len(13, pb_str(2, "usrX")), pb_len(15, b"abc"), pb_len(6, tid + pb_str(2, "@GG@") + pb_len(5, b"\xff\xfe"))])


APIKEYS = ["", "\r\n" * 16, "A" * 32, "AQEAAAABAAD_rAp4DJh05a1HAwFT3A6K", "=" * 32, "A" * 31 + "=", " " * 32, "\n" * 32, "A" * 33, "-_" * 16, "\x00" * 32,
           "AQ" + "\r" * 30, "A" * 30 + "\r\n", "\r" * 31 + "A"]
