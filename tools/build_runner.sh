#!/bin/bash
# Extract the Coq models to OCaml and build the model runner (build/runner).
set -e
cd "$(dirname "$0")/.."
rm -rf build/extract && mkdir -p build/extract
python3 tools/gen_shared.py build/extract
cd build/extract
timeout 900 coqc -Q ../../coq Tinode Extract.v > extract.log 2>&1 || { cat extract.log; exit 1; }
cp ../../harness/runner/*.ml .
files=$(ocamlfind ocamldep -sort *.mli *.ml)
timeout 900 ocamlfind ocamlopt -w -a -o ../runner $files > ocaml.log 2>&1 || { cat ocaml.log; exit 1; }
echo "runner built"
