#!/bin/bash
# usage: tools/harmlessrun.sh <framework root> <patch ids...> : every check against each behaviour-preserving patch;
# a VIOLATION here is a false alarm.  Output: one line per (patch, property).
root=$1; shift
for i in "$@"; do
  out=$(cd $root && python3 tools/seedrun.py /verif/harmless/$i/patch.diff C01 C02 C03 C04 C05 C06 C07 C08 C09 C10 C11 C12 C13 C14 C15 C16 C17 C18 C19 C20 2>&1 | grep "exit=" | cut -c1-260)
  echo "$out" | sed "s/^/H$i /"
done
