#!/usr/bin/env python3
"""Confirm a candidate seeded change before it is kept under /verif/seeded/<id>/:

  python3 tools/seedverify.py <dir with patch.diff, notes.json (or meta.json) and the demonstration>

In a scratch `git worktree` of /repo under /tmp (removed afterwards):
  1. the demonstration passes on the unchanged tree,
  2. the patch applies, the tree builds, the existing tests of the touched module still pass,
  3. the demonstration FAILS (test failure, not a build failure) with the patch applied.
Prints a JSON summary; exit 0 iff all three hold."""
import json
import os
import re
import shutil
import subprocess
import sys

ENV = dict(os.environ, GOFLAGS="-mod=mod", GOPROXY="off", GOSUMDB="off", GOTOOLCHAIN="local")


def sh(cmd, cwd):
    p = subprocess.run(cmd, shell=True, cwd=cwd, env=ENV, stdout=subprocess.PIPE, stderr=subprocess.STDOUT, text=True, timeout=1800)
    return p.returncode, p.stdout


def main():
    d = os.path.abspath(sys.argv[1])
    meta = {}
    for n in ("meta.json", "notes.json"):
        if os.path.exists(os.path.join(d, n)):
            meta = json.load(open(os.path.join(d, n)))
            break
    demo_rel = (meta.get("demo_path_in_tree") or "").split(" ")[0].strip() or None
    demo_cmd = meta.get("demo_cmd")
    demos = [f for f in os.listdir(d) if f.endswith(".go")]
    wt = "/tmp/seedverify_%d" % os.getpid()
    subprocess.run(["git", "-C", "/repo", "worktree", "add", "-f", "--detach", wt, "HEAD"], stdout=subprocess.DEVNULL, stderr=subprocess.DEVNULL)
    res = {"dir": d}
    try:
        if not demo_rel or not demos:
            res["error"] = "no demo_path_in_tree or demo file"
            print(json.dumps(res, indent=1))
            return 2
        demo_src = os.path.join(d, os.path.basename(demo_rel)) if os.path.exists(os.path.join(d, os.path.basename(demo_rel))) else os.path.join(d, demos[0])
        dst = os.path.join(wt, demo_rel)
        os.makedirs(os.path.dirname(dst), exist_ok=True)
        shutil.copy(demo_src, dst)
        # normalise the command: run inside the scratch worktree
        cmd = re.sub(r"cd\s+\S+\s*&&\s*", "", demo_cmd)
        cmd = re.sub(r"/tmp/mut\d*_c\d\d", wt, cmd)
        rc0, out0 = sh(cmd, wt)
        res["demo_without_patch"] = "pass" if rc0 == 0 else "FAIL"
        rc, out = sh("git apply %s" % os.path.join(d, "patch.diff"), wt)
        res["patch_applies"] = rc == 0
        if rc != 0:
            res["error"] = out[-500:]
            print(json.dumps(res, indent=1))
            return 2
        rcb, outb = sh("go build ./server/... 2>&1 | tail -5", wt)
        res["builds"] = "ok" if not outb.strip() else outb[-400:]
        os.remove(dst)
        rct, outt = sh("go test -vet=off -count=1 ./server/... 2>&1 | grep -v 'no test files'", wt)
        bad = [l for l in outt.split("\n") if l.startswith("FAIL") or l.startswith("--- FAIL")]
        bad = [l for l in bad if "mongodb/tests" not in l and l.strip() != "FAIL"]
        res["existing_tests_with_patch"] = "pass" if not bad else "FAIL: " + "; ".join(bad)[:400]
        shutil.copy(demo_src, dst)
        rc1, out1 = sh(cmd, wt)
        built = "[build failed]" not in out1 and "cannot find" not in out1
        res["demo_with_patch"] = ("FAIL (as required)" if rc1 != 0 and built else ("pass (NOT a regression demo)" if rc1 == 0 else "BUILD FAILURE"))
        res["demo_with_patch_tail"] = "\n".join([l for l in out1.split("\n") if "FAIL" in l or "expected" in l.lower()][:6])[:800]
        ok = rc0 == 0 and not bad and rc1 != 0 and built and not outb.strip()
        res["confirmed"] = ok
        print(json.dumps(res, indent=1))
        return 0 if ok else 1
    finally:
        subprocess.run(["git", "-C", "/repo", "worktree", "remove", "--force", wt], stdout=subprocess.DEVNULL, stderr=subprocess.DEVNULL)
        subprocess.run(["git", "-C", "/repo", "worktree", "prune"], stdout=subprocess.DEVNULL, stderr=subprocess.DEVNULL)


if __name__ == "__main__":
    sys.exit(main())
