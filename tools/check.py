#!/usr/bin/env python3
"""Single entry point: check.py <property id> --tier quick|thorough [--replay file]"""
import argparse
import importlib
import os
import sys

sys.path.insert(0, os.path.dirname(os.path.abspath(__file__)))
import vlib


def main():
    ap = argparse.ArgumentParser()
    ap.add_argument("pid")
    ap.add_argument("--tier", default=os.environ.get("VERIF_TIER", "quick"))
    ap.add_argument("--replay", default=None)
    a = ap.parse_args()
    seed = int(os.environ.get("VERIF_SEED", "1"))
    pid = a.pid.upper()
    mod = importlib.import_module("props." + pid.lower())
    ctx = vlib.Ctx(pid, a.tier, seed)
    ctx.replay = a.replay
    mod.run(ctx)


if __name__ == "__main__":
    main()
