#!/usr/bin/env python3
"""Single entry point: check.py <property id> --tier quick|thorough [--replay file]"""
import argparse
import importlib
import os
import sys

sys.path.insert(0, os.path.dirname(os.path.abspath(__file__)))
import vlib


def main():
    ap = argparse.ArgumentParser()
    ap.add_argument("pid")
    ap.add_argument("--tier", default=os.environ.get("VERIF_TIER", "quick"))
    ap.add_argument("--replay", default=None)
    a = ap.parse_args()
    seed = int(os.environ.get("VERIF_SEED", "1"))
    pid = a.pid.upper()
    mod = importlib.import_module("props." + pid.lower())
    ctx = vlib.Ctx(pid, a.tier, seed)
    ctx.replay = a.replay
    # watchdog: a driver that never returns (e.g. a change to tinode/chat that makes a handler wait for ever) must
    # end as a reported violation, not as a check that runs for ever.  The check becomes the leader of its own process
    # group so that the drivers it started can be killed with it.
    limit = int(os.environ.get("VERIF_WATCHDOG_S", "900" if a.tier == "quick" else "14400"))
    try:
        os.setpgrp()
    except OSError:
        pass

    def on_alarm(signum, frame):
        import json, signal as sg
        d = os.path.join(vlib.ROOT, "replays", pid)
        os.makedirs(d, exist_ok=True)
        path = os.path.join(d, "%s_check-did-not-terminate.json" % a.tier)
        json.dump({"property": pid, "seed": seed, "kind": "corr", "key": "check-did-not-terminate",
                   "what": "the check did not finish within %d s: a driver of the implementation (or the model runner) stopped answering; "
                           "the last files under build/run/%s show the scenario that was running" % (limit, pid),
                   "replay": {"correspondence": "termination of the drivers of %s" % pid, "work_dir": ctx.work}}, open(path, "w"), indent=1)
        print("corr: the check did not finish within %d s (driver hang)" % limit)
        print("VIOLATION property=%s replay=%s no-failing-input-found" % (pid, path), flush=True)
        sg.signal(sg.SIGTERM, sg.SIG_IGN)
        try:
            os.killpg(os.getpgrp(), sg.SIGTERM)
        except OSError:
            pass
        os._exit(1)
    import signal
    signal.signal(signal.SIGALRM, on_alarm)
    signal.alarm(limit)
    try:
        mod.run(ctx)
    except Exception:
        # an internal error of the check (a driver that timed out, an unreadable answer, a bug of the plugin): the property is
        # not shown to hold by this run, which the interface wants reported as a violation with the reason, not as a bare traceback
        import json, traceback
        tb = traceback.format_exc()
        d = os.path.join(vlib.ROOT, "replays", pid)
        os.makedirs(d, exist_ok=True)
        path = os.path.join(d, "%s_check-internal-error.json" % a.tier)
        json.dump({"property": pid, "seed": seed, "kind": "corr", "key": "check-internal-error",
                   "what": "the check ended with an internal error before reaching a verdict",
                   "replay": {"correspondence": "run of the check of %s" % pid, "traceback": tb[-4000:], "work_dir": ctx.work}}, open(path, "w"), indent=1)
        sys.stderr.write(tb)
        print("corr: the check ended with an internal error: %s" % tb.strip().split("\n")[-1][:300])
        print("VIOLATION property=%s replay=%s no-failing-input-found" % (pid, path), flush=True)
        sys.exit(1)


if __name__ == "__main__":
    main()
