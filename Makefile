# Build the verification framework from files on disk only (offline).
.PHONY: setup coq runner ext clean
setup: clean coq runner ext
coq:
	python3 tools/gen_shared.py
	cd coq && coq_makefile -f _CoqProject -o Makefile > /dev/null && timeout 3400 $(MAKE) -j16
runner:
	tools/build_runner.sh
ext:
	cp /repo/go.sum harness/ext/go.sum
	cd harness/ext && GOFLAGS=-mod=mod GOPROXY=off GOSUMDB=off GOTOOLCHAIN=local go build -o ../../build/ext .
clean:
	rm -rf build
	-cd coq && [ -f Makefile ] && $(MAKE) clean > /dev/null 2>&1; true
	find coq -name '*.vo' -o -name '*.vok' -o -name '*.vos' -o -name '*.glob' -o -name '.*.aux' | xargs rm -f
