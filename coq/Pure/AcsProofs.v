(* Proofs about Pure/Acs.v.  Finite sweeps (vm_compute over all 256 modes /
   256x256 pairs) are lifted to universally quantified statements with the
   bound in the statement; statements about strings are by induction. *)
From Coq Require Import NArith List Bool Lia Arith.
From Tinode Require Import Base.Util Pure.Acs.
Import ListNotations.
Open Scope N_scope.

(* ---------- canonical text round trip (all 256 modes) ---------- *)

Definition rt_ok (m : N) : bool :=
  match parse_acs (mode_string m) with
  | Some m0 => negb (m0 =? ModeUnset) && (N.land m0 ModeBitmask =? m)
  | None => false
  end.

Lemma rt_sweep : forallb rt_ok (nrange 256) = true.
Proof. vm_compute. reflexivity. Qed.

Lemma marshal_defined m : m < 256 -> marshal m = Some (mode_string m).
Proof.
  intros H. unfold mode_string, marshal.
  destruct (m =? ModeNone); [reflexivity|].
  destruct (m =? ModeInvalid) eqn:E; [|reflexivity].
  apply N.eqb_eq in E. unfold ModeInvalid in E. lia.
Qed.

Lemma parse_marshal m cur :
  m < 256 -> unmarshal_text cur (mode_string m) = (m, true).
Proof.
  intros H. pose proof (sweep1 rt_ok 256 rt_sweep m H) as R.
  unfold rt_ok in R. unfold unmarshal_text.
  destruct (parse_acs (mode_string m)) as [m0|]; [|discriminate].
  apply andb_true_iff in R. destruct R as [R1 R2].
  apply negb_true_iff in R1. rewrite R1. apply N.eqb_eq in R2. now rewrite R2.
Qed.

(* canonical: the text form is determined by the set, and distinct sets have
   distinct text *)
Lemma marshal_injective m1 m2 :
  m1 < 256 -> m2 < 256 -> mode_string m1 = mode_string m2 -> m1 = m2.
Proof.
  intros H1 H2 E.
  pose proof (parse_marshal m1 0 H1) as P1. pose proof (parse_marshal m2 0 H2) as P2.
  rewrite E in P1. rewrite P1 in P2. congruence.
Qed.

(* ---------- case insensitivity (all strings) ---------- *)

Lemma upper_idem c : upper (upper c) = upper c.
Proof.
  unfold upper.
  destruct ((97 <=? c) && (c <=? 122)) eqn:E; [|now rewrite E].
  apply andb_true_iff in E. destruct E as [E1 E2].
  apply N.leb_le in E1. apply N.leb_le in E2.
  destruct ((97 <=? c - 32) && (c - 32 <=? 122)) eqn:F; [|reflexivity].
  apply andb_true_iff in F. destruct F as [F1 F2]. apply N.leb_le in F1. lia.
Qed.

Lemma letter_bit_upper c : letter_bit (upper c) = letter_bit c.
Proof. unfold letter_bit. now rewrite upper_idem. Qed.

Lemma is_N_upper c : is_N (upper c) = is_N c.
Proof. unfold is_N. now rewrite upper_idem. Qed.

Lemma parse_loop_upper s : forall m0, parse_loop (map upper s) m0 = parse_loop s m0.
Proof.
  induction s as [|c r IH]; intros m0; [reflexivity|].
  cbn [map parse_loop]. rewrite letter_bit_upper, is_N_upper.
  destruct (letter_bit c); [apply IH|].
  destruct r; reflexivity.
Qed.

Lemma parse_case_insensitive s : parse_acs (map upper s) = parse_acs s.
Proof. apply parse_loop_upper. Qed.

(* ---------- unknown letters are rejected (all strings) ---------- *)

Definition known_letter (c : N) : bool :=
  match letter_bit c with Some _ => true | None => is_N c end.

Lemma parse_loop_known s : forall m0 m, parse_loop s m0 = Some m -> forallb known_letter s = true.
Proof.
  induction s as [|c r IH]; intros m0 m H; [reflexivity|].
  cbn [parse_loop] in H. cbn [forallb]. unfold known_letter at 1.
  destruct (letter_bit c) as [b|].
  - cbn. eapply IH; eauto.
  - destruct (is_N c); [|discriminate].
    destruct r as [|c' r']; [reflexivity|].
    rewrite andb_false_r in H. discriminate.
Qed.

Lemma parse_rejects_unknown s m : parse_acs s = Some m -> forallb known_letter s = true.
Proof. apply parse_loop_known. Qed.

(* 'N' stands alone *)
Lemma parse_loop_N_alone s : forall m0 m, parse_loop s m0 = Some m ->
  existsb is_N s = true -> exists c, s = [c] /\ m = ModeNone.
Proof.
  induction s as [|c r IH]; intros m0 m H E; [discriminate|].
  cbn [parse_loop] in H. cbn [existsb] in E.
  destruct (letter_bit c) as [b|] eqn:L.
  - assert (is_N c = false) as NC.
    { unfold letter_bit in L. unfold is_N.
      destruct (upper c =? cN) eqn:U; [|reflexivity].
      apply N.eqb_eq in U. rewrite U in L. vm_compute in L. discriminate. }
    rewrite NC in E. cbn in E.
    destruct (IH _ _ H E) as [c' [-> ->]].
    (* r = [c'] with is_N c': but then m0|b <> Unset makes the parse fail *)
    cbn [parse_loop] in H. cbn [existsb] in E. rewrite orb_false_r in E.
    assert (letter_bit c' = None) as L'.
    { unfold letter_bit. unfold is_N in E. apply N.eqb_eq in E. rewrite E. reflexivity. }
    rewrite L', E in H.
    destruct (N.lor m0 b =? ModeUnset) eqn:Q; cbn in H; [|discriminate].
    exfalso. apply N.eqb_eq in Q.
    assert (N.testbit (N.lor m0 b) 8 = true /\ b < 256 /\ b <> 0) as [_ [Hb Hb0]].
    { rewrite Q. split; [reflexivity|].
      unfold letter_bit in L.
      repeat match type of L with
             | (if ?x then _ else _) = _ => destruct x; [inversion L; subst; lia|]
             end. discriminate. }
    assert (N.land (N.lor m0 b) 255 = 0) as Z by (rewrite Q; reflexivity).
    rewrite N.land_lor_distr_l in Z. apply N.lor_eq_0_iff in Z. destruct Z as [_ Z].
    replace 255 with (N.ones 8) in Z by reflexivity. rewrite N.land_ones in Z.
    rewrite N.mod_small in Z by (cbn; lia). contradiction.
  - destruct (is_N c); [|discriminate].
    destruct r; [|rewrite andb_false_r in H; discriminate].
    rewrite andb_true_r in H. destruct (m0 =? ModeUnset); [|discriminate].
    inversion H. eauto.
Qed.

(* a rejected text leaves the target unchanged; empty text = no change *)
Lemma unmarshal_reject_keeps cur s : snd (unmarshal_text cur s) = false -> fst (unmarshal_text cur s) = cur.
Proof.
  unfold unmarshal_text. destruct (parse_acs s) as [m0|]; [|reflexivity].
  destruct (m0 =? ModeUnset); cbn; discriminate.
Qed.

Lemma unmarshal_empty cur : unmarshal_text cur [] = (cur, true).
Proof. reflexivity. Qed.

Lemma unmarshal_unknown_keeps cur s :
  forallb known_letter s = false -> unmarshal_text cur s = (cur, false).
Proof.
  intros H. unfold unmarshal_text.
  destruct (parse_acs s) as [m0|] eqn:P; [|reflexivity].
  apply parse_rejects_unknown in P. congruence.
Qed.

Lemma apply_delta_reject_keeps cur d : snd (apply_delta cur d) = false -> fst (apply_delta cur d) = cur.
Proof.
  unfold apply_delta. destruct d as [|c r]; [reflexivity|].
  destruct (list_eqb (c :: r) [cN]); [reflexivity|].
  destruct (apply_delta_loop _ _ _); cbn; [discriminate|reflexivity].
Qed.

Lemma apply_mutation_reject_keeps cur s :
  snd (apply_mutation cur s) = false -> fst (apply_mutation cur s) = cur.
Proof.
  unfold apply_mutation. destruct s as [|c r]; [reflexivity|].
  destruct (existsb is_sign (c :: r)).
  - apply apply_delta_reject_keeps.
  - apply unmarshal_reject_keeps.
Qed.

Lemma apply_mutation_empty cur : apply_mutation cur [] = (cur, true).
Proof. reflexivity. Qed.

(* ---------- unknown letters in a mutation (delta or assignment) ---------- *)

Definition known_char (c : N) : bool := known_letter c || is_sign c.

Lemma split_sign_spec s : forall ch tl, split_sign s = (ch, tl) ->
  s = ch ++ (match tl with Some t => t | None => [] end) /\
  (forall t, tl = Some t -> exists c r, t = c :: r /\ is_sign c = true) /\
  (length (match tl with Some t => t | None => [] end) <= length s)%nat.
Proof.
  induction s as [|c r IH]; intros ch tl H; cbn in H.
  - inversion H; subst. repeat split; auto. intros t E; discriminate.
  - destruct (is_sign c) eqn:S.
    + inversion H; subst. repeat split; auto.
      intros t E. inversion E; subst. eauto.
    + destruct (split_sign r) as [ch' tl'] eqn:R. inversion H; subst.
      destruct (IH _ _ eq_refl) as [E1 [E2 E3]].
      repeat split; auto.
      * cbn. now rewrite <- E1.
      * cbn. lia.
Qed.

Lemma forallb_known_letter_char s : forallb known_letter s = true -> forallb known_char s = true.
Proof.
  intros H. rewrite forallb_forall in *. intros x Hx. unfold known_char. now rewrite H.
Qed.

Lemma apply_delta_loop_known f : forall d m0 m,
  (length d <= f)%nat ->
  (match d with [c] => is_sign c = true | _ => True end) ->
  apply_delta_loop f d m0 = Some m -> forallb known_char d = true.
Proof.
  induction f as [|f IH]; intros d m0 m Hlen Hone H.
  - destruct d; [reflexivity|cbn in Hlen; lia].
  - cbn [apply_delta_loop] in H.
    destruct d as [|ch [|c2 r]]; [reflexivity| |].
    + cbn. unfold known_char. rewrite Hone. now rewrite orb_true_r.
    + destruct (split_sign (c2 :: r)) as [chunk tl] eqn:SP.
      destruct (split_sign_spec _ _ _ SP) as [E1 [E2 E3]].
      destruct (parse_acs chunk) as [upd|] eqn:P; [|discriminate].
      apply parse_rejects_unknown in P. apply forallb_known_letter_char in P.
      assert (is_sign ch = true) as Sch.
      { unfold is_sign. destruct (ch =? cPlus); [reflexivity|].
        destruct (ch =? cMinus); [reflexivity|discriminate]. }
      change (known_char ch && forallb known_char (c2 :: r) = true).
      rewrite E1, forallb_app, P.
      unfold known_char at 1. rewrite Sch, orb_true_r. cbn [andb].
      destruct tl as [t|]; [|reflexivity].
      destruct (E2 t eq_refl) as [c' [r' [-> Sc']]].
      destruct ((ch =? cPlus)); [|destruct (ch =? cMinus); [|discriminate]].
      * eapply IH; [| |exact H].
        -- cbn in Hlen, E3 |- *. lia.
        -- destruct r'; auto.
      * eapply IH; [| |exact H].
        -- cbn in Hlen, E3 |- *. lia.
        -- destruct r'; auto.
Qed.

Lemma list_eqb_eq a b : list_eqb a b = true -> a = b.
Proof.
  revert b. induction a as [|x a IH]; intros [|y b] H; try reflexivity;
    unfold list_eqb in H; cbn in H; try discriminate.
  apply andb_true_iff in H. destruct H as [H1 H2].
  apply andb_true_iff in H2. destruct H2 as [H2 H3]. apply N.eqb_eq in H2. subst.
  f_equal. apply IH. unfold list_eqb. now rewrite H1, H3.
Qed.

Lemma apply_mutation_rejects_unknown cur s :
  snd (apply_mutation cur s) = true -> forallb known_char s = true.
Proof.
  unfold apply_mutation. destruct s as [|c r]; [reflexivity|].
  destruct (existsb is_sign (c :: r)) eqn:X.
  - unfold apply_delta.
    destruct (list_eqb (c :: r) [cN]) eqn:LE.
    + apply list_eqb_eq in LE. rewrite LE. reflexivity.
    + destruct (apply_delta_loop _ _ _) as [m|] eqn:L; [|discriminate].
      intros _. eapply apply_delta_loop_known; [| |exact L]; [lia|].
      destruct r; [|exact I]. cbn in X. now rewrite orb_false_r in X.
  - unfold unmarshal_text. destruct (parse_acs (c :: r)) eqn:P; [|discriminate].
    intros _. apply forallb_known_letter_char. eapply parse_rejects_unknown; eauto.
Qed.

(* ---------- delta/apply (all 256 x 256 pairs) ---------- *)

Definition da_ok (o n : N) : bool :=
  let r := apply_delta o (delta o n) in snd r && (fst r =? n).

Lemma da_sweep : forallb (fun o => forallb (da_ok o) (nrange 256)) (nrange 256) = true.
Proof. vm_compute. reflexivity. Qed.

Lemma delta_apply o n : o < 256 -> n < 256 -> apply_delta o (delta o n) = (n, true).
Proof.
  intros Ho Hn. pose proof (sweep2 da_ok 256 256 da_sweep o n Ho Hn) as R.
  unfold da_ok in R. apply andb_true_iff in R. destruct R as [R1 R2].
  apply N.eqb_eq in R2. destruct (apply_delta o (delta o n)); cbn in *. congruence.
Qed.

(* the same through ApplyMutation, which is what trackers call *)
Definition dm_ok (o n : N) : bool :=
  let r := apply_mutation o (delta o n) in snd r && (fst r =? n).
Lemma dm_sweep : forallb (fun o => forallb (dm_ok o) (nrange 256)) (nrange 256) = true.
Proof. vm_compute. reflexivity. Qed.
Lemma delta_mutation o n : o < 256 -> n < 256 -> apply_mutation o (delta o n) = (n, true).
Proof.
  intros Ho Hn. pose proof (sweep2 dm_ok 256 256 dm_sweep o n Ho Hn) as R.
  unfold dm_ok in R. apply andb_true_iff in R. destruct R as [R1 R2].
  apply N.eqb_eq in R2. destruct (apply_mutation o (delta o n)); cbn in *. congruence.
Qed.

(* zero delta is the empty string *)
Lemma delta_same_sweep : forallb (fun o => match delta o o with [] => true | _ => false end) (nrange 256) = true.
Proof. vm_compute. reflexivity. Qed.
Lemma delta_same o : o < 256 -> delta o o = [].
Proof.
  intros H. pose proof (sweep1 _ 256 delta_same_sweep o H) as R. cbv beta in R.
  destruct (delta o o); [reflexivity|discriminate].
Qed.

(* ---------- tracking through notifications ---------- *)

(* the modes a topic can hold for a subscription: a set, Unset, or Invalid *)
Definition mode_domain : list N := nrange 257 ++ [ModeInvalid].
Definition norm (m : N) : N := if is_defined m then N.land m ModeBitmask else ModeNone.

Definition track_ok (o n : N) : bool := track (norm o) o n =? norm n.
Lemma track_sweep : forallb (fun o => forallb (track_ok o) mode_domain) mode_domain = true.
Proof. vm_compute. reflexivity. Qed.

Lemma track_step o n : In o mode_domain -> In n mode_domain -> track (norm o) o n = norm n.
Proof.
  intros Ho Hn.
  pose proof (sweep_list _ _ track_sweep o Ho) as R. cbv beta in R.
  pose proof (sweep_list _ _ R n Hn) as R2. unfold track_ok in R2. now apply N.eqb_eq.
Qed.

(* A tracker that starts in agreement and applies the notification of every
   change, in order, holds what the topic holds: for every sequence. *)
Fixpoint replay (tracked cur : N) (changes : list N) : N :=
  match changes with
  | [] => tracked
  | n :: rest => replay (track tracked cur n) n rest
  end.

Lemma last_cons_default {A} (x : A) l d d' : last (x :: l) d = last (x :: l) d'.
Proof. revert x. induction l as [|y l IH]; intros x; [reflexivity|]. cbn [last] in *. apply IH. Qed.

Lemma tracking cur changes :
  In cur mode_domain -> Forall (fun n => In n mode_domain) changes ->
  replay (norm cur) cur changes = norm (last changes cur).
Proof.
  revert cur. induction changes as [|n rest IH]; intros cur Hc Hall; [reflexivity|].
  inversion Hall as [|? ? Hn Hrest]; subst.
  cbn [replay]. rewrite track_step by assumption. rewrite IH by assumption.
  destruct rest; [reflexivity|]. f_equal. change (last (n :: n0 :: rest) cur) with (last (n0 :: rest) cur). apply last_cons_default.
Qed.

(* ---------- effective permission ---------- *)

Lemma effective_spec w g i : N.testbit (effective w g) i = N.testbit w i && N.testbit g i.
Proof. apply N.land_spec. Qed.

(* ---------- the unrepaired parser accepted junk after 'N' ---------- *)
Lemma parse_unrepaired_refuted :
  exists s m, parse_acs_unrepaired s = Some m /\ forallb known_letter s = false.
Proof. exists [cN; 63; 120], ModeNone. split; reflexivity. Qed.
