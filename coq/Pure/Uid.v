(* Model of server/store/types/types.go:56-233 (Uid and its textual forms,
   GrpToChn / ChnToGrp / IsChannel) and of server/store/types/uidgen.go:70-92
   (DecodeUid / EncodeInt64, the database form).

   A Uid is an N; every statement about it carries the bound u < 2^64.
   Strings are list N (bytes).  A method that returns an error and leaves the
   receiver unchanged is modelled as (new value of the receiver, ok).
   Definitions only; lemmas in UidProofs.v. *)
From Coq Require Import NArith ZArith List Bool.
From Tinode Require Import Base.Base64.
Import ListNotations.
Open Scope N_scope.

Definition two64 : N := 18446744073709551616.
Definition uidBase64Unpadded : nat := 11.
Definition p2pBase64Unpadded : nat := 22.

(* binary.LittleEndian.PutUint64: b[i] = byte(v >> (8*i)) *)
Fixpoint le_bytes (n : nat) (v : N) : list N :=
  match n with
  | O => []
  | S k => byte v :: le_bytes k (N.shiftr v 8)
  end.

(* binary.LittleEndian.Uint64 on the first 8 bytes of b:
   b[0] | b[1]<<8 | ... | b[7]<<56 *)
Fixpoint le_num (b : list N) : N :=
  match b with
  | [] => 0
  | x :: rest => N.lor x (N.shiftl (le_num rest) 8)
  end.
Definition le_uint64 (b : list N) : N := le_num (firstn 8 b).

(* MarshalBinary *)
Definition marshal_binary (u : N) : list N := le_bytes 8 u.

(* UnmarshalBinary: (value, ok) *)
Definition unmarshal_binary (cur : N) (b : list N) : N * bool :=
  if Nat.ltb (length b) 8 then (cur, false) else (le_uint64 b, true).

(* UnmarshalText *)
Definition unmarshal_text (cur : N) (src : list N) : N * bool :=
  if negb (Nat.eqb (length src) uidBase64Unpadded) then (cur, false)
  else
    let '(dec, _) := b64_decode src in
    if Nat.ltb (length dec) 8 then (cur, false)
    else (le_uint64 dec, true).

(* MarshalText: the zero id is the empty text *)
Definition marshal_text (u : N) : list N :=
  if u =? 0 then [] else b64_encode (le_bytes 8 u).

(* String *)
Definition uid_string (u : N) : list N := marshal_text u.

(* ParseUid: the error is dropped, the zero value stays *)
Definition parse_uid (s : list N) : N := fst (unmarshal_text 0 s).

Definition cQuote : N := 34.

(* MarshalJSON *)
Definition marshal_json (u : N) : list N := cQuote :: marshal_text u ++ [cQuote].

(* UnmarshalJSON *)
Definition unmarshal_json (cur : N) (b : list N) : N * bool :=
  if negb (Nat.eqb (length b) (uidBase64Unpadded + 2)) then (cur, false)
  else if negb (nth 0 b 0 =? cQuote) || negb (nth (length b - 1) b 0 =? cQuote) then (cur, false)
  else unmarshal_text cur (firstn (length b - 2) (skipn 1 b)).

(* String32: strings.ToLower(base32.StdEncoding.WithPadding(NoPadding).EncodeToString(data)) *)
Definition string32 (u : N) : list N := map lower_ascii (b32_encode (marshal_binary u)).

(* ParseUid32 as in the source before the repair: decodes with the UPPER-case
   alphabet (kept for the refutation theorem) *)
Definition parse_uid32_unrepaired (s : list N) : N :=
  match b32_decode dec32_char s with
  | Some data => fst (unmarshal_binary 0 data)
  | None => 0
  end.

(* ParseUid32 after the repair (findings/C20_uid32.diff): decodes with the
   lower-case alphabet String32 writes *)
Definition parse_uid32 (s : list N) : N :=
  match b32_decode dec32l_char s with
  | Some data => fst (unmarshal_binary 0 data)
  | None => 0
  end.

(* strings.HasPrefix *)
Fixpoint has_prefix (s p : list N) {struct p} : bool :=
  match p, s with
  | [], _ => true
  | x :: p', y :: s' => (x =? y) && has_prefix s' p'
  | _ :: _, [] => false
  end.

Definition s_usr : list N := [117; 115; 114].
Definition s_fnd : list N := [102; 110; 100].
Definition s_grp : list N := [103; 114; 112].
Definition s_chn : list N := [99; 104; 110].
Definition s_p2p : list N := [112; 50; 112].

(* PrefixId, UserId, FndName *)
Definition prefix_id (prefix : list N) (u : N) : list N :=
  if u =? 0 then [] else prefix ++ uid_string u.
Definition user_id (u : N) : list N := prefix_id s_usr u.
Definition fnd_name (u : N) : list N := prefix_id s_fnd u.

(* ParseUserId *)
Definition parse_user_id (s : list N) : N :=
  if has_prefix s s_usr then fst (unmarshal_text 0 (skipn 3 s)) else 0.

(* GrpToChn: strings.Replace(grp, "grp", "chn", 1) on a string that starts
   with "grp" rewrites those first three bytes *)
Definition grp_to_chn (s : list N) : list N :=
  if has_prefix s s_grp then s_chn ++ skipn 3 s
  else if has_prefix s s_chn then s
  else [].

Definition is_channel (s : list N) : bool := has_prefix s s_chn.

(* ChnToGrp *)
Definition chn_to_grp (s : list N) : list N :=
  if has_prefix s s_chn then s_grp ++ skipn 3 s
  else if has_prefix s s_grp then s
  else [].

(* ---- database form (uidgen.go).  The XTEA cipher is external: [enc]/[dec]
   map 8-byte blocks to 8-byte blocks; the theorems assume only that they are
   mutually inverse on 8-byte blocks. *)

(* uint64 -> int64 and back (two's complement reinterpretation) *)
Definition to_int64 (v : N) : Z :=
  if v <? 9223372036854775808 then Z.of_N v else (Z.of_N v - 18446744073709551616)%Z.
Definition of_int64 (z : Z) : N := Z.to_N (z mod 18446744073709551616)%Z.

Section Db.
  Variable enc dec : list N -> list N.

  (* DecodeUid *)
  Definition decode_uid (u : N) : Z := to_int64 (le_uint64 (dec (le_bytes 8 u))).
  (* EncodeInt64 *)
  Definition encode_int64 (z : Z) : N := le_uint64 (enc (le_bytes 8 (of_int64 z))).
End Db.
