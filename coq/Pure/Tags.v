(* Model of the tag functions of server/utils.go:
     normalizeTags (54-104), stringSliceDelta (111-151), restrictedTagsEqual
     (155-174), filterRestrictedTags (406-425), rewriteTag (431-466), the two
     tag regular expressions (33, 36), and of the masked-namespace gate of the
     fnd search (server/topic.go:2434-2442).

   Strings are lists of runes (code points, N) as Go's []rune(s) / range yield
   them; string order (sort.Strings, <, >) is lexicographic on code points
   (equal to byte order for valid UTF-8; the driver checks this on all code
   points).  A nil slice is None.  Unicode tables are Section variables:
     lower = unicode.ToLower, is_letter = unicode.IsLetter (= \pL),
     is_digit = unicode.IsDigit, is_number = unicode.IsNumber (= \pN);
   ext_val / ext_auth stand for the configured validators' PreCheck and the
   authenticators' AsTag ([] = "no rewrite").  Definitions only. *)
From Coq Require Import NArith List Bool Arith.
Require Import Tinode.Pure.Query.
Import ListNotations.
Open Scope N_scope.

Definition tag := list N.

Definition cColon : N := 58.
Definition null_value : tag := [9249].        (* "␡" *)
Definition minTagLength : nat := 2.
Definition maxTagLength : nat := 96.

(* string comparison *)
Fixpoint lex_ltb (a b : tag) : bool :=
  match a, b with
  | [], _ :: _ => true
  | x :: a', y :: b' => (x <? y) || ((x =? y) && lex_ltb a' b')
  | _, [] => false
  end.

(* sort.Strings: the result is the unique sorted permutation; insertion sort *)
Fixpoint insert_sorted (x : tag) (l : list tag) : list tag :=
  match l with
  | [] => [x]
  | y :: t => if lex_ltb y x then y :: insert_sorted x t else x :: l
  end.
Definition sort_strings (l : list tag) : list tag := fold_right insert_sorted [] l.

Fixpoint mem (x : tag) (l : list tag) : bool :=
  match l with [] => false | y :: t => list_eqb x y || mem x t end.

Definition is_az (r : N) : bool := (97 <=? r) && (r <=? 122).
(* \w *)
Definition is_word (r : N) : bool :=
  is_az r || (65 <=? r) && (r <=? 90) || (48 <=? r) && (r <=? 57) || (r =? 95).

(* the part of s before the first ':' and the part after it *)
Fixpoint split_colon (s : tag) : option (tag * tag) :=
  match s with
  | [] => None
  | r :: t => if r =? cColon then Some ([], t)
              else match split_colon t with
                   | None => None
                   | Some (p, b) => Some (r :: p, b)
                   end
  end.

(* [a-z]\w{1,15} *)
Definition prefix_ok (p : tag) : bool :=
  match p with
  | [] => false
  | r :: t => is_az r && (1 <=? length t)%nat && (length t <=? 15)%nat && forallb is_word t
  end.

Section Tags.
  Variable lower : N -> N.
  Variable is_letter : N -> bool.
  Variable is_digit : N -> bool.
  Variable is_number : N -> bool.
  Variable ext_val : tag -> tag.
  Variable ext_auth : tag -> tag.

  (* [-_+.!?#@\pL\pN] *)
  Definition is_body (r : N) : bool :=
    (r =? 45) || (r =? 95) || (r =? 43) || (r =? 46) || (r =? 33) || (r =? 63) || (r =? 35)
    || (r =? 64) || is_letter r || is_number r.

  (* [...]{1,96}$ *)
  Definition body_ok (b : tag) : bool :=
    (1 <=? length b)%nat && (length b <=? 96)%nat && forallb is_body b.

  (* prefixedTagRegexp = ^([a-z]\w{1,15}):[-_+.!?#@\pL\pN]{1,96}$ : group 1 of the match *)
  Definition prefixed_ns (s : tag) : option tag :=
    match split_colon s with
    | Some (p, b) => if prefix_ok p && body_ok b then Some p else None
    | None => None
    end.
  Definition prefixed (s : tag) : bool := match prefixed_ns s with Some _ => true | None => false end.

  (* tagRegexp = ^[-_+.!?#@\pL\pN]{1,96}$ *)
  Definition tag_ok (s : tag) : bool := body_ok s.

  (* rewriteTag(orig, countryCode, withLogin); [] = "" = invalid *)
  Definition rewrite_tag (with_login : bool) (orig : tag) : tag :=
    if prefixed orig then orig
    else match ext_val orig with
         | (_ :: _) as t => t
         | [] =>
           match (if with_login then ext_auth orig else []) with
           | (_ :: _) as t => t
           | [] => if tag_ok orig then orig else []
           end
         end.

  (* filterRestrictedTags *)
  Definition restricted (ns : list tag) (s : tag) : bool :=
    match prefixed_ns s with Some p => mem p ns | None => false end.
  Definition filter_restricted (tags : list tag) (ns : list tag) : list tag :=
    if is_nil ns then [] else filter (restricted ns) tags.

  Fixpoint tags_eqb (a b : list tag) : bool :=
    match a, b with
    | [], [] => true
    | x :: a', y :: b' => list_eqb x y && tags_eqb a' b'
    | _, _ => false
    end.

  (* restrictedTagsEqual *)
  Definition restricted_tags_equal (old new ns : list tag) : bool :=
    let rold := filter_restricted old ns in
    let rnew := filter_restricted new ns in
    if negb (length rold =? length rnew)%nat then false
    else tags_eqb (sort_strings rold) (sort_strings rnew).

  (* strings.ToLower(strings.TrimSpace(s)) *)
  Definition norm_one (s : tag) : tag := map lower (trim_space s).

  (* the filtering loop of normalizeTags; None = the null marker was met *)
  Fixpoint norm_loop (prev : tag) (src : list tag) : option (list tag) :=
    match src with
    | [] => Some []
    | curr :: rest =>
      if list_eqb curr null_value then None
      else if (length curr <? minTagLength)%nat || (maxTagLength <? length curr)%nat
              || list_eqb curr prev then norm_loop prev rest
      else if negb (is_letter (hd 0 curr)) && negb (is_digit (hd 0 curr)) then norm_loop prev rest
      else option_map (cons curr) (norm_loop curr rest)
    end.

  (* normalizeTags with globals.maxTagCount = max_count *)
  Definition normalize_tags (max_count : nat) (src : option (list tag)) : option (list tag) :=
    match src with
    | None => None
    | Some src =>
      let src := firstn max_count src in
      let src := sort_strings (map norm_one src) in
      match norm_loop [] src with
      | None => Some []                 (* make([]string, 0, 1) *)
      | Some [] => None                 (* dst stays nil *)
      | Some l => Some l
      end
    end.

  (* the merge loop of stringSliceDelta on the two sorted slices *)
  Fixpoint delta_loop (fuel : nat) (old new : list tag) : list tag * list tag * list tag :=
    match fuel with
    | O => ([], [], [])
    | S f =>
      match old, new with
      | [], [] => ([], [], [])
      | [], n :: ns => let '(a, r, i) := delta_loop f [] ns in (n :: a, r, i)
      | o :: os, [] => let '(a, r, i) := delta_loop f os [] in (a, o :: r, i)
      | o :: os, n :: ns =>
        if lex_ltb n o then let '(a, r, i) := delta_loop f old ns in (n :: a, r, i)
        else if lex_ltb o n then let '(a, r, i) := delta_loop f os new in (a, o :: r, i)
        else let '(a, r, i) := delta_loop f os ns in (a, r, o :: i)
      end
    end.

  (* stringSliceDelta: (added, removed, intersection) *)
  Definition string_slice_delta (old new : list tag) : list tag * list tag * list tag :=
    match old, new with
    | [], [] => ([], [], [])
    | [], _ => (new, [], [])
    | _, [] => ([], old, [])
    | _, _ => delta_loop (length old + length new) (sort_strings old) (sort_strings new)
    end.

  (* topic.go:2434-2442: the search runs only if no masked-namespace term is
     missing from the searcher's own tags; true = the search is executed *)
  Definition masked_gate (own terms masked : list tag) : bool :=
    let '(restr, _, _) := string_slice_delta own (filter_restricted terms masked) in
    is_nil restr.
End Tags.

(* The two deterministic rewriters installed by the drivers
   (harness/overlay/server/zz_verif_c19_test.go): used by the model runner. *)
Definition fake_val (s : tag) : tag :=
  match s with
  | 233 :: _ :: _ => [118; 109; 97; 105; 108; 58] ++ s      (* "vmail:" *)
  | _ => []
  end.
Definition fake_auth (s : tag) : tag :=
  match s with
  | 98 :: _ => if forallb is_az s then [108; 111; 103; 105; 110; 58] ++ s else []   (* "login:" *)
  | _ => []
  end.
