(* Lemmas about Pure/Url.v (model of media.GetIdFromUrl). *)
From Coq Require Import NArith List Bool Lia.
From Tinode Require Import Pure.Url.
Import ListNotations.
Open Scope N_scope.

(* ---- path.Split ---- *)
Lemma path_split_spec : forall p d f,
  path_split p = (d, f) -> p = d ++ f /\ ~ In cSlash f.
Proof.
  induction p as [|c r IH]; intros d f H; cbn [path_split] in H.
  - inversion H; subst. split; [reflexivity|intros []].
  - destruct (path_split r) as [d0 f0] eqn:E.
    destruct (IH d0 f0 eq_refl) as [Hr Hn].
    destruct (c =? cSlash) eqn:Ec.
    + inversion H; subst. split; [reflexivity|exact Hn].
    + destruct d0 as [|x d0'].
      * inversion H; subst. split; [reflexivity|].
        intros [Hc|Hin]; [|exact (Hn Hin)].
        apply N.eqb_neq in Ec. congruence.
      * inversion H; subst. split; [reflexivity|exact Hn].
Qed.

(* ---- the file-name pattern ---- *)
Lemma fname_prefix_rest : forall s, s = fname_prefix s ++ fname_rest s.
Proof.
  induction s as [|c r IH]; [reflexivity|].
  cbn [fname_prefix fname_rest]. destruct (fname_char c); [|reflexivity].
  cbn [app]. f_equal. exact IH.
Qed.

Lemma fname_prefix_class : forall s, forallb fname_char (fname_prefix s) = true.
Proof.
  induction s as [|c r IH]; [reflexivity|].
  cbn [fname_prefix]. destruct (fname_char c) eqn:E; [|reflexivity].
  cbn [forallb]. rewrite E, IH. reflexivity.
Qed.

Lemma fname_rest_head : forall s,
  match fname_rest s with [] => True | c :: _ => fname_char c = false end.
Proof.
  induction s as [|c r IH]; [exact I|].
  cbn [fname_rest]. destruct (fname_char c) eqn:E; [exact IH|exact E].
Qed.

Lemma parse_uid_nonzero : forall s, parse_uid s <> 0 ->
  length s = 11%nat /\ forallb fname_char s = true.
Proof.
  intros s H. unfold parse_uid in H.
  destruct (N.of_nat (length s) =? 11) eqn:El; [|cbn [andb] in H; congruence].
  destruct (forallb fname_char s) eqn:Ef; [|cbn [andb] in H; congruence].
  apply N.eqb_eq in El. split; [lia|reflexivity].
Qed.

Lemma list_N_eqb_true : forall a b, list_N_eqb a b = true -> a = b.
Proof.
  intros a b. unfold list_N_eqb. destruct (list_eq_dec N.eq_dec a b); [auto|discriminate].
Qed.

(* ---- the main statement ---- *)
Lemma url_names_upload : forall serve url id,
  get_id_from_url serve url = id -> id <> 0 ->
  exists dir name pre rest,
    path_clean url = dir ++ name /\ (dir = [] \/ dir = serve) /\ ~ In cSlash name /\
    name = pre ++ rest /\ length pre = 11%nat /\ forallb fname_char pre = true /\
    match rest with [] => True | c :: _ => fname_char c = false end /\
    parse_uid pre = id.
Proof.
  intros serve url id H Hnz. unfold get_id_from_url in H.
  destruct (path_split (path_clean url)) as [d f] eqn:Es.
  destruct (path_split_spec _ _ _ Es) as [Hcat Hns].
  assert (Hid : parse_uid (fname_prefix f) = id /\ (d = [] \/ d = serve)).
  { destruct d as [|x d'].
    - split; [exact H|left; reflexivity].
    - destruct (list_N_eqb (x :: d') serve) eqn:Ee.
      + split; [exact H|right; apply list_N_eqb_true; exact Ee].
      + exfalso. apply Hnz. symmetry. exact H. }
  destruct Hid as [Hid Hd].
  assert (Hp : parse_uid (fname_prefix f) <> 0) by (rewrite Hid; exact Hnz).
  destruct (parse_uid_nonzero _ Hp) as [Hlen Hcls].
  exists d, f, (fname_prefix f), (fname_rest f).
  repeat split; try assumption.
  - apply fname_prefix_rest.
  - apply fname_rest_head.
Qed.

(* the id is never taken from a path with another directory *)
Lemma foreign_dir_names_nothing : forall serve url d f,
  path_split (path_clean url) = (d, f) -> d <> [] -> d <> serve -> get_id_from_url serve url = 0.
Proof.
  intros serve url d f Es Hne Hns. unfold get_id_from_url. rewrite Es.
  destruct d as [|x d']; [congruence|].
  destruct (list_N_eqb (x :: d') serve) eqn:Ee; [|reflexivity].
  apply list_N_eqb_true in Ee. congruence.
Qed.

(* ---- path.Clean of an absolute path has no empty, "." or ".." element ---- *)
Lemma clean_step_rooted_real : forall st e,
  Forall real_elem st -> Forall real_elem (clean_step true st e).
Proof.
  intros st e Hst. unfold clean_step.
  destruct e as [|c r]; [exact Hst|].
  destruct (is_dot (c :: r)) eqn:Ed; [exact Hst|].
  destruct (is_dotdot (c :: r)) eqn:Edd.
  - destruct st as [|top rest]; [constructor|].
    inversion Hst as [|? ? Htop Hrest]; subst.
    destruct Htop as [_ [_ Htd]]. rewrite Htd. exact Hrest.
  - constructor; [|exact Hst]. split; [discriminate|split; assumption].
Qed.

Lemma fold_clean_rooted_real : forall es st,
  Forall real_elem st -> Forall real_elem (fold_left (clean_step true) es st).
Proof.
  induction es as [|e es IH]; intros st Hst; cbn [fold_left]; [exact Hst|].
  apply IH. apply clean_step_rooted_real. exact Hst.
Qed.

Lemma clean_elems_rooted_real : forall p,
  is_rooted p = true -> Forall real_elem (clean_elems p).
Proof.
  intros p Hr. unfold clean_elems. rewrite Hr.
  apply Forall_rev. apply fold_clean_rooted_real. constructor.
Qed.

Lemma path_clean_rooted : forall p,
  is_rooted p = true -> path_clean p = cSlash :: join_slash (clean_elems p).
Proof.
  intros p Hr. unfold path_clean. destruct p as [|c r]; [discriminate|]. rewrite Hr. reflexivity.
Qed.

(* the four spellings of an id: only the two low bits of the last digit are ignored *)
Example parse_uid_alias :
  parse_uid [86;102;51;107;81;57;95;45;97;90;48] = parse_uid [86;102;51;107;81;57;95;45;97;90;49].
Proof. vm_compute. reflexivity. Qed.

Example get_id_traversal :
  (* "/v0/file/s/x/../Vf3kQ9_-aZ0.jpg" names the same upload as "/v0/file/s/Vf3kQ9_-aZ0" *)
  get_id_from_url [47;118;48;47;102;105;108;101;47;115;47]
    [47;118;48;47;102;105;108;101;47;115;47;120;47;46;46;47;86;102;51;107;81;57;95;45;97;90;48;46;106;112;103]
  = parse_uid [86;102;51;107;81;57;95;45;97;90;48].
Proof. vm_compute. reflexivity. Qed.

Example get_id_foreign :
  (* "/v0/file/s/../../etc/Vf3kQ9_-aZ0" names nothing *)
  get_id_from_url [47;118;48;47;102;105;108;101;47;115;47]
    [47;118;48;47;102;105;108;101;47;115;47;46;46;47;46;46;47;101;116;99;47;86;102;51;107;81;57;95;45;97;90;48] = 0.
Proof. vm_compute. reflexivity. Qed.
