(* C13: the plain-text preview of a message in a push notification (server/push/fcm/payload.go,
   payloadToData, shared by the fcm and the tnpg adapters):

       data["content"], err = drafty.PlainText(pl.Content)
       if len(data["content"]) > push.MaxPayloadLength {          // BYTE length
           runes := []rune(data["content"])
           if len(runes) > push.MaxPayloadLength {                // RUNE length
               data["content"] = string(runes[:push.MaxPayloadLength]) + "…"
           }
       }

   Definitions only.  A Go string is modelled as the list of the units the conversion []rune(s) walks
   over: a well-formed UTF-8 sequence of a code point (1-4 bytes wide) or one byte that is not part of a
   well-formed sequence (1 byte wide, converted to U+FFFD).  The slice expression runes[:n] is a Panic
   when n exceeds the length (Go tests the capacity, which is >= the length: the model is the stricter
   one; the code as it is never reaches it either way). *)
From Coq Require Import List NArith Bool Arith.
Import ListNotations.

Inductive unit_c13 := UValid (cp : N) | UBadByte (b : N).

(* utf8.RuneLen for a code point that came out of a well-formed sequence *)
Definition rune_width_c13 (cp : N) : nat :=
  if (cp <? 128)%N then 1 else if (cp <? 2048)%N then 2 else if (cp <? 65536)%N then 3 else 4.

Definition unit_width_c13 (u : unit_c13) : nat :=
  match u with UValid cp => rune_width_c13 cp | UBadByte _ => 1 end.

Definition rune_error_c13 : N := 65533.      (* U+FFFD *)
Definition ellipsis_c13 : N := 8230.         (* "…" *)

Definition unit_rune_c13 (u : unit_c13) : N :=
  match u with UValid cp => cp | UBadByte _ => rune_error_c13 end.

(* len(s) *)
Fixpoint byte_len_c13 (s : list unit_c13) : nat :=
  match s with [] => 0 | u :: r => unit_width_c13 u + byte_len_c13 r end.

(* []rune(s) *)
Definition runes_c13 (s : list unit_c13) : list N := map unit_rune_c13 s.

Definition max_payload_c13 : nat := 128.     (* push.MaxPayloadLength *)

(* the new value of data["content"], again as units: an untrimmed text keeps its bytes, string(runes[:128]) is well formed *)
Inductive pres_c13 := POk (content : list unit_c13) | PPanicSlice (bound len : nat).

(* runes[:n] *)
Definition slice_to_c13 (runes : list N) (n : nat) : option (list N) :=
  if n <=? length runes then Some (firstn n runes) else None.

(* [inner = true]: the code as it is; [inner = false]: the variant without the rune-length test
   ("redundant with the byte-length test"). *)
Definition trim_c13 (inner : bool) (s : list unit_c13) : pres_c13 :=
  if max_payload_c13 <? byte_len_c13 s then
    let runes := runes_c13 s in
    if negb inner || (max_payload_c13 <? length runes) then
      match slice_to_c13 runes max_payload_c13 with
      | Some p => POk (map UValid p ++ [UValid ellipsis_c13])
      | None => PPanicSlice max_payload_c13 (length runes)
      end
    else POk s
  else POk s.

(* 65 Cyrillic letters: 130 bytes, 65 runes *)
Definition witness_cyrillic_c13 : list unit_c13 := repeat (UValid 1078) 65.
