(* Proofs about Pure/Ranges.v (C04 layer 1).  Everything is by induction over
   arbitrary lists: no bound on the number of ranges or on the IDs. *)
From Coq Require Import ZArith List Bool Lia Permutation Sorted ZifyBool.
From Tinode Require Import Pure.Ranges.
Import ListNotations.
Open Scope Z_scope.

(* ------------------------------------------------------------------ *)
(* vocabulary                                                           *)

(* IDs are not negative *)
Definition nonneg (r : range) : Prop := 0 <= low r.
(* a range as replyDelMsg builds it and as the dellog is read back: a single
   ID (hi = 0) or low < hi *)
Definition wf (r : range) : Prop := 0 <= low r /\ (hi r = 0 \/ low r < hi r).

Definition lessR (a b : range) : Prop := less a b = true.
Definition sorted_less (l : list range) : Prop := StronglySorted lessR l.
Definition le_low (a b : range) : Prop := low a <= low b.
(* b starts after the end of a with at least one ID between them *)
Definition gap (a b : range) : Prop := upper a < low b.
(* what Normalize guarantees about its result *)
Definition normal (l : list range) : Prop := Forall wf l /\ StronglySorted gap l.

(* ------------------------------------------------------------------ *)
(* meaning                                                              *)

Lemma in_range_spec x r : in_range x r = (low r <=? x) && (x <? upper r).
Proof. unfold in_range, upper. destruct (hi r =? 0); lia. Qed.

Lemma in_range_iff x r : in_range x r = true <-> low r <= x < upper r.
Proof. rewrite in_range_spec. lia. Qed.

Lemma wf_upper r : wf r -> low r < upper r.
Proof. unfold wf, upper. intros [_ [H|H]]; destruct (hi r =? 0) eqn:E; lia. Qed.

Lemma wf_nonneg r : wf r -> nonneg r.
Proof. unfold wf, nonneg. tauto. Qed.

Lemma in_ranges_app x l1 l2 : in_ranges x (l1 ++ l2) = in_ranges x l1 || in_ranges x l2.
Proof. apply existsb_app. Qed.

Lemma in_ranges_iff x l : in_ranges x l = true <-> exists r, In r l /\ in_range x r = true.
Proof. apply existsb_exists. Qed.

Lemma in_ranges_perm x l l' : Permutation l l' -> in_ranges x l = in_ranges x l'.
Proof.
  induction 1; cbn [in_ranges existsb] in *; try congruence.
  - fold (in_ranges x l) (in_ranges x l'). now rewrite IHPermutation.
  - now rewrite !orb_assoc, (orb_comm (in_range x y)).
Qed.

Lemma in_ranges_concat x ls : in_ranges x (concat ls) = existsb (in_ranges x) ls.
Proof.
  induction ls as [|l ls IH]; [reflexivity|].
  cbn [concat existsb]. now rewrite in_ranges_app, IH.
Qed.

(* ------------------------------------------------------------------ *)
(* Less and sort                                                        *)

Lemma less_spec a b :
  less a b = true <-> low a < low b \/ (low a = low b /\ hi b <= hi a).
Proof.
  unfold less. destruct (low a <? low b) eqn:E1; [lia|].
  destruct (low a =? low b) eqn:E2; lia.
Qed.

Lemma less_total a b : less a b = false -> less b a = true.
Proof.
  intros H. apply less_spec.
  destruct (less a b) eqn:E; [discriminate|].
  assert (~ (low a < low b \/ (low a = low b /\ hi b <= hi a))) by (rewrite <- less_spec; congruence).
  lia.
Qed.

Lemma less_trans a b c : lessR a b -> lessR b c -> lessR a c.
Proof. unfold lessR. rewrite !less_spec. lia. Qed.

Lemma less_antisym a b : lessR a b -> lessR b a -> a = b.
Proof.
  unfold lessR. rewrite !less_spec. destruct a as [la ha], b as [lb hb]. cbn [low hi].
  intros H1 H2. assert (la = lb) by lia. assert (ha = hb) by lia. now subst.
Qed.

Lemma less_le_low a b : lessR a b -> le_low a b.
Proof. unfold lessR, le_low. rewrite less_spec. lia. Qed.

Lemma insert_perm r l : Permutation (insert r l) (r :: l).
Proof.
  induction l as [|y t IH]; cbn [insert]; [reflexivity|].
  destruct (less r y); [reflexivity|].
  rewrite IH. apply perm_swap.
Qed.

Lemma sort_perm rs : Permutation (sort rs) rs.
Proof.
  induction rs as [|r rs IH]; cbn [sort fold_right]; [reflexivity|].
  fold (sort rs). rewrite insert_perm. now constructor.
Qed.

Lemma insert_sorted r l : sorted_less l -> sorted_less (insert r l).
Proof.
  unfold sorted_less. induction 1 as [|y t Hs IH Hf]; cbn [insert].
  - constructor; constructor.
  - destruct (less r y) eqn:E.
    + constructor; [now constructor|]. constructor; [exact E|].
      eapply Forall_impl; [|exact Hf]. intros z Hz. eapply less_trans; eauto.
    + constructor; [exact IH|].
      eapply Permutation_Forall; [symmetry; apply insert_perm|].
      constructor; [now apply less_total|exact Hf].
Qed.

Lemma sort_sorted rs : sorted_less (sort rs).
Proof.
  induction rs as [|r rs IH]; cbn [sort fold_right]; [constructor|].
  now apply insert_sorted.
Qed.

Lemma sort_sorted_id l : sorted_less l -> sort l = l.
Proof.
  unfold sorted_less. induction 1 as [|a t Hs IH Hf]; [reflexivity|].
  cbn [sort fold_right]. fold (sort t). rewrite IH.
  destruct t as [|y t']; [reflexivity|]. cbn [insert].
  inversion Hf as [|? ? Hy _]; subst. unfold lessR in Hy. now rewrite Hy.
Qed.

(* [less] is a total order on values, so the sorted permutation is unique:
   whatever sort.Sort does internally, if it returns a permutation ordered by
   Less, it returns [sort rs]. *)
Lemma sorted_perm_unique l1 : forall l2,
  sorted_less l1 -> sorted_less l2 -> Permutation l1 l2 -> l1 = l2.
Proof.
  unfold sorted_less. induction l1 as [|a t1 IH]; intros l2 H1 H2 HP.
  - apply Permutation_nil in HP. now subst.
  - destruct l2 as [|b t2]; [symmetry in HP; now apply Permutation_nil in HP|].
    inversion H1 as [|? ? Hs1 Hf1]; inversion H2 as [|? ? Hs2 Hf2]; subst.
    assert (Hab : a = b).
    { assert (Ha : In a (b :: t2)) by (eapply Permutation_in; [exact HP|now left]).
      assert (Hb : In b (a :: t1)) by (eapply Permutation_in; [symmetry; exact HP|now left]).
      destruct Ha as [Ha|Ha]; [now subst|]. destruct Hb as [Hb|Hb]; [now subst|].
      rewrite Forall_forall in Hf1, Hf2. apply less_antisym; auto. }
    subst b. f_equal. apply IH; auto. eapply Permutation_cons_inv; eauto.
Qed.

Lemma sort_unique rs s : Permutation s rs -> sorted_less s -> s = sort rs.
Proof.
  intros HP HS. apply sorted_perm_unique; [exact HS|apply sort_sorted|].
  rewrite HP. symmetry. apply sort_perm.
Qed.

Lemma StronglySorted_weaken {A} (R R' : A -> A -> Prop) l :
  (forall a b, R a b -> R' a b) -> StronglySorted R l -> StronglySorted R' l.
Proof.
  intros HR. induction 1; constructor; auto.
  eapply Forall_impl; [|eassumption]. auto.
Qed.

Lemma sorted_less_low l : sorted_less l -> StronglySorted le_low l.
Proof. apply StronglySorted_weaken. exact less_le_low. Qed.

(* ------------------------------------------------------------------ *)
(* the array program computes normalize_fun                             *)

Lemma upd_middle out x tl v : upd (out ++ x :: tl) (length out) v = out ++ v :: tl.
Proof. induction out as [|o out IH]; cbn [upd app length]; [reflexivity|]. now rewrite IH. Qed.

Lemma get_middle out x tl : get (out ++ x :: tl) (length out) = x.
Proof. unfold get. apply nth_middle. Qed.

Lemma firstn_middle (out : list range) x tl : firstn (S (length out)) (out ++ x :: tl) = out ++ [x].
Proof. induction out as [|o out IH]; [reflexivity|]. simpl. f_equal. exact IH. Qed.

(* loop invariant: the slice is  out ++ cur :: mid ++ rest  where out = rs[:prev]
   is final, cur = rs[prev], mid are cells already consumed (stale), rest =
   rs[i:] is the untouched input *)
Lemma loop_norm_go : forall rest out cur mid i arr prev,
  arr = out ++ cur :: mid ++ rest -> prev = length out ->
  i = S (length out + length mid) ->
  firstn (S (snd (loop step (length rest) i arr prev))) (fst (loop step (length rest) i arr prev))
  = out ++ norm_go cur rest.
Proof.
  induction rest as [|c rest IH]; intros out cur mid i arr prev Harr Hprev Hi.
  - cbn [loop length fst snd norm_go]. subst. apply firstn_middle.
  - cbn [length loop norm_go].
    assert (Hp : get arr prev = cur) by (subst; apply get_middle).
    assert (Hc : get arr i = c).
    { subst arr i. replace (out ++ cur :: mid ++ c :: rest) with ((out ++ cur :: mid) ++ c :: rest)
        by (rewrite <- app_assoc; reflexivity).
      replace (S (length out + length mid)) with (length (out ++ cur :: mid))
        by (rewrite app_length; cbn [length]; lia).
      apply get_middle. }
    unfold step at 1 3. rewrite Hp, Hc.
    destruct (low c <=? upper cur) eqn:Em.
    + destruct (upper cur <? upper c) eqn:Ex.
      * apply IH with (mid := mid ++ [c]).
        -- subst arr prev. rewrite upd_middle. rewrite <- app_assoc. reflexivity.
        -- exact Hprev.
        -- rewrite app_length. cbn [length]. lia.
      * apply IH with (mid := mid ++ [c]).
        -- subst arr. rewrite <- app_assoc. reflexivity.
        -- exact Hprev.
        -- rewrite app_length. cbn [length]. lia.
    + replace (out ++ cur :: norm_go c rest) with ((out ++ [cur]) ++ norm_go c rest)
        by (rewrite <- app_assoc; reflexivity).
      destruct mid as [|m mid0].
      * apply IH with (mid := []).
        -- subst arr prev. cbn [app].
           replace (out ++ cur :: c :: rest) with ((out ++ [cur]) ++ c :: rest)
             by (rewrite <- app_assoc; reflexivity).
           replace (S (length out)) with (length (out ++ [cur])) by (rewrite app_length; cbn [length]; lia).
           rewrite upd_middle. reflexivity.
        -- subst prev. rewrite app_length. cbn [length]. lia.
        -- rewrite app_length. cbn [length] in *. lia.
      * apply IH with (mid := mid0 ++ [c]).
        -- subst arr prev. cbn [app].
           replace (out ++ cur :: m :: mid0 ++ c :: rest) with ((out ++ [cur]) ++ m :: mid0 ++ c :: rest)
             by (rewrite <- app_assoc; reflexivity).
           replace (S (length out)) with (length (out ++ [cur])) by (rewrite app_length; cbn [length]; lia).
           rewrite upd_middle. rewrite <- (app_assoc mid0). reflexivity.
        -- subst prev. rewrite app_length. cbn [length]. lia.
        -- rewrite !app_length. cbn [length] in *. lia.
Qed.

Lemma normalize_fun_eq rs : normalize rs = normalize_fun rs.
Proof.
  unfold normalize, normalize_with, normalize_fun.
  destruct rs as [|r [|c rest]]; [reflexivity|reflexivity|].
  replace (1 <? length (r :: c :: rest))%nat with true by (cbn [length]; symmetry; apply Nat.ltb_lt; lia).
  replace (length (r :: c :: rest) - 1)%nat with (length (c :: rest)) by (cbn [length]; lia).
  pose proof (loop_norm_go (c :: rest) [] r [] 1%nat (r :: c :: rest) 0%nat eq_refl eq_refl eq_refl) as H.
  destruct (loop step (length (c :: rest)) 1 (r :: c :: rest) 0) as [a prev].
  exact H.
Qed.

(* ------------------------------------------------------------------ *)
(* exactness of Normalize                                               *)

Lemma norm_go_exact x : forall rest cur,
  Forall nonneg rest -> Forall (le_low cur) rest -> StronglySorted le_low rest ->
  in_ranges x (norm_go cur rest) = in_range x cur || in_ranges x rest.
Proof.
  induction rest as [|c rest IH]; intros cur Hn Hl Hs.
  - cbn [norm_go in_ranges existsb]. reflexivity.
  - inversion Hn as [|? ? Hnc Hn']; inversion Hl as [|? ? Hlc Hl']; inversion Hs as [|? ? Hs' Hfc]; subst.
    unfold nonneg in Hnc. unfold le_low in Hlc.
    cbn [norm_go]. change (in_ranges x (c :: rest)) with (in_range x c || in_ranges x rest).
    destruct (low c <=? upper cur) eqn:Em.
    + destruct (upper cur <? upper c) eqn:Ex.
      * assert (Hl2 : Forall (le_low (mkRange (low cur) (upper c))) rest).
        { eapply Forall_impl; [|exact Hfc]. unfold le_low. cbn [low]. intros z Hz. lia. }
        rewrite IH by auto.
        rewrite orb_assoc. f_equal.
        rewrite !in_range_spec. cbn [low].
        assert (Hu : upper (mkRange (low cur) (upper c)) = upper c).
        { unfold upper at 1. cbn [hi low]. destruct (upper c =? 0) eqn:E0; lia. }
        rewrite Hu. lia.
      * rewrite IH by auto.
        rewrite orb_assoc. f_equal.
        rewrite !in_range_spec. lia.
    + change (in_ranges x (cur :: norm_go c rest)) with (in_range x cur || in_ranges x (norm_go c rest)).
      rewrite IH by auto. reflexivity.
Qed.

Lemma normalize_fun_exact x s :
  Forall nonneg s -> StronglySorted le_low s -> in_ranges x (normalize_fun s) = in_ranges x s.
Proof.
  destruct s as [|r rest]; [reflexivity|]. intros Hn Hs.
  inversion Hn; inversion Hs; subst. cbn [normalize_fun]. now apply norm_go_exact.
Qed.

(* for ANY list s that is a permutation of rs ordered by Less *)
Lemma normalize_exact_any rs s x :
  Forall nonneg rs -> Permutation s rs -> sorted_less s ->
  in_ranges x (normalize s) = in_ranges x rs.
Proof.
  intros Hn HP HS. rewrite normalize_fun_eq, normalize_fun_exact.
  - now apply in_ranges_perm.
  - eapply Permutation_Forall; [symmetry; exact HP|exact Hn].
  - now apply sorted_less_low.
Qed.

Lemma normalize_exact rs x :
  Forall nonneg rs -> in_ranges x (normalize (sort rs)) = in_ranges x rs.
Proof. intros Hn. apply normalize_exact_any; [exact Hn|apply sort_perm|apply sort_sorted]. Qed.

(* ------------------------------------------------------------------ *)
(* shape of the result                                                  *)

Lemma norm_go_lows m : forall rest cur,
  m <= low cur -> Forall (fun c => m <= low c) rest ->
  Forall (fun e => m <= low e) (norm_go cur rest).
Proof.
  induction rest as [|c rest IH]; intros cur Hc Hf; cbn [norm_go].
  - now constructor.
  - inversion Hf; subst. destruct (low c <=? upper cur).
    + apply IH; auto. destruct (upper cur <? upper c); auto.
    + constructor; auto.
Qed.

Lemma norm_go_normal : forall rest cur,
  wf cur -> Forall wf rest -> Forall (le_low cur) rest -> StronglySorted le_low rest ->
  normal (norm_go cur rest).
Proof.
  unfold normal.
  induction rest as [|c rest IH]; intros cur Hw Hf Hl Hs; cbn [norm_go].
  - split; constructor; auto; constructor.
  - inversion Hf as [|? ? Hwc Hf']; inversion Hl as [|? ? Hlc Hl']; inversion Hs as [|? ? Hs' Hfc]; subst.
    unfold le_low in Hlc.
    destruct (low c <=? upper cur) eqn:Em.
    + destruct (upper cur <? upper c) eqn:Ex.
      * assert (Hw2 : wf (mkRange (low cur) (upper c))).
        { pose proof (wf_upper _ Hw). destruct Hw as [Hw0 _]. split; cbn [low hi]; lia. }
        assert (Hl2 : Forall (le_low (mkRange (low cur) (upper c))) rest).
        { eapply Forall_impl; [|exact Hfc]. unfold le_low. cbn [low]. intros z Hz. lia. }
        apply IH; auto.
      * apply IH; auto.
    + destruct (IH c Hwc Hf' Hfc Hs') as [IH1 IH2]. split; constructor; auto.
      assert (Hlows : Forall (fun e => low c <= low e) (norm_go c rest)).
      { apply norm_go_lows; [lia|]. exact Hfc. }
      eapply Forall_impl; [|exact Hlows]. unfold gap. intros e He. lia.
Qed.

Lemma normalize_fun_normal s :
  Forall wf s -> StronglySorted le_low s -> normal (normalize_fun s).
Proof.
  destruct s as [|r rest]; intros Hf Hs.
  - split; constructor.
  - inversion Hf; inversion Hs; subst. now apply norm_go_normal.
Qed.

Lemma normalize_normal_any rs s :
  Forall wf rs -> Permutation s rs -> sorted_less s -> normal (normalize s).
Proof.
  intros Hf HP HS. rewrite normalize_fun_eq. apply normalize_fun_normal.
  - eapply Permutation_Forall; [symmetry; exact HP|exact Hf].
  - now apply sorted_less_low.
Qed.

Lemma normalize_normal rs : Forall wf rs -> normal (normalize (sort rs)).
Proof. intros Hf. eapply normalize_normal_any; [exact Hf|apply sort_perm|apply sort_sorted]. Qed.

(* what [normal] means, spelled out *)
Lemma gap_trans_wf a b c : wf b -> gap a b -> gap b c -> gap a c.
Proof. unfold gap. intros Hb. pose proof (wf_upper _ Hb). lia. Qed.

(* two different positions of a normal list never share an ID, and are not even
   adjacent: the ID  upper a  lies strictly between them and is in neither *)
Lemma normal_disjoint l1 a l2 b l3 x :
  normal (l1 ++ a :: l2 ++ b :: l3) ->
  upper a < low b /\ (in_range x a = true -> in_range x b = true -> False)
  /\ in_range (upper a) a = false /\ in_range (upper a) b = false.
Proof.
  intros [_ Hs]. unfold gap in Hs.
  assert (Hg : upper a < low b).
  { induction l1 as [|y l1 IH]; cbn [app] in Hs.
    - inversion Hs as [|? ? _ Hf]; subst. rewrite Forall_forall in Hf. apply Hf.
      apply in_or_app. right. now left.
    - inversion Hs; subst. auto. }
  rewrite !in_range_spec. repeat split; try lia.
Qed.

Lemma normal_sorted_less l : normal l -> sorted_less l.
Proof.
  intros [Hw Hs]. unfold sorted_less.
  induction Hs as [|a t Hs IH Hf]; constructor.
  - apply IH. now inversion Hw.
  - inversion Hw as [|? ? Hwa _]; subst. pose proof (wf_upper _ Hwa).
    eapply Forall_impl; [|exact Hf]. unfold gap, lessR. intros z Hz. apply less_spec. lia.
Qed.

Lemma normal_nonempty l r : normal l -> In r l -> in_range (low r) r = true.
Proof.
  intros [Hw _] Hin. rewrite Forall_forall in Hw. pose proof (wf_upper _ (Hw r Hin)).
  rewrite in_range_spec. lia.
Qed.

Lemma norm_go_length : forall rest cur, (length (norm_go cur rest) <= S (length rest))%nat.
Proof.
  induction rest as [|c rest IH]; intros cur; cbn [norm_go length]; [lia|].
  destruct (low c <=? upper cur).
  - etransitivity; [apply IH|lia].
  - cbn [length]. specialize (IH c). lia.
Qed.

Lemma normalize_length s : (length (normalize s) <= length s)%nat.
Proof.
  rewrite normalize_fun_eq. destruct s as [|r rest]; [cbn; lia|]. apply norm_go_length.
Qed.

(* ------------------------------------------------------------------ *)
(* idempotence                                                          *)

Lemma norm_go_id : forall rest cur, StronglySorted gap (cur :: rest) -> norm_go cur rest = cur :: rest.
Proof.
  induction rest as [|c rest IH]; intros cur Hs; [reflexivity|].
  inversion Hs as [|? ? Hs' Hf]; subst. inversion Hf as [|? ? Hg _]; subst. unfold gap in Hg.
  cbn [norm_go]. replace (low c <=? upper cur) with false by lia.
  now rewrite IH.
Qed.

Lemma normalize_normal_id l : normal l -> normalize l = l.
Proof.
  intros [_ Hs]. rewrite normalize_fun_eq. destruct l as [|r rest]; [reflexivity|].
  now apply norm_go_id.
Qed.

Lemma normalize_idempotent rs :
  Forall wf rs -> normalize (sort (normalize (sort rs))) = normalize (sort rs).
Proof.
  intros Hf. pose proof (normalize_normal rs Hf) as Hn.
  rewrite (sort_sorted_id _ (normal_sorted_less _ Hn)). now apply normalize_normal_id.
Qed.

(* ------------------------------------------------------------------ *)
(* the code as it is in /repo is refuted                                *)

Definition normalize_exact_statement (norm : list range -> list range) : Prop :=
  forall rs x, Forall wf rs -> in_ranges x (norm (sort rs)) = in_ranges x rs.

(* no copy-down after a merge: IDs 10, 11 lost *)
Lemma normalize_unrepaired_refuted : ~ normalize_exact_statement normalize_unrepaired.
Proof.
  intros H. specialize (H [mkRange 1 3; mkRange 2 4; mkRange 10 12] 10).
  assert (Hw : Forall wf [mkRange 1 3; mkRange 2 4; mkRange 10 12])
    by (repeat constructor; cbn; lia).
  specialize (H Hw). vm_compute in H. discriminate.
Qed.

(* each of the four independent faults of the loop, on the sorted input *)
Lemma normalize_unrepaired_witnesses :
  (* no copy-down: 10, 11 lost *)
  normalize_unrepaired [mkRange 1 3; mkRange 2 4; mkRange 10 12] = [mkRange 1 4; mkRange 2 4]
  (* hi+1 >= low merges half-open ranges that are one ID apart: 3 added *)
  /\ normalize_unrepaired [mkRange 1 3; mkRange 4 5] = [mkRange 1 5]
  (* a single ID (hi = 0) at the end of a range is swallowed: 3 lost *)
  /\ normalize_unrepaired [mkRange 1 3; mkRange 3 0] = [mkRange 1 3]
  (* duplicates of a single ID: 5 lost *)
  /\ normalize_unrepaired [mkRange 1 0; mkRange 1 0; mkRange 5 0] = [mkRange 1 0; mkRange 1 0].
Proof. repeat split; vm_compute; reflexivity. Qed.

Lemma normalize_repaired_witnesses :
  normalize [mkRange 1 3; mkRange 2 4; mkRange 10 12] = [mkRange 1 4; mkRange 10 12]
  /\ normalize [mkRange 1 3; mkRange 4 5] = [mkRange 1 3; mkRange 4 5]
  /\ normalize [mkRange 1 3; mkRange 3 0] = [mkRange 1 4]
  /\ normalize [mkRange 1 0; mkRange 1 0; mkRange 5 0] = [mkRange 1 0; mkRange 5 0].
Proof. repeat split; vm_compute; reflexivity. Qed.

(* ------------------------------------------------------------------ *)
(* replyDelMsg: validation, clipping, what reaches the store            *)

(* the IDs a request entry (low, hi) denotes, clipped to IDs <= lastID:
   [low, hi); no upper bound (hi = 0) or hi = low: the single ID low *)
Definition req_covers (lastID : Z) (q : Z * Z) (x : Z) : Prop :=
  let '(lo, h) := q in
  lo <= x /\ x <= lastID /\ x < (if (h =? 0) || (h =? lo) then lo + 1 else h).

(* the entries the loop accepts *)
Definition req_valid (lastID : Z) (q : Z * Z) : Prop :=
  let '(lo, h) := q in
  0 <= lo <= lastID /\ 0 <= h /\ (h = 0 \/ lo <= h) /\ ~ (lo = 0 /\ h = 0).

Lemma clip_one_valid lastID q : req_valid lastID q <-> clip_one lastID q <> None.
Proof.
  destruct q as [lo h]. unfold req_valid, clip_one.
  destruct ((lo >? lastID) || (lo <? 0) || (h <? 0) || ((h >? 0) && (lo >? h)) || ((lo =? 0) && (h =? 0))) eqn:E.
  - split; [lia|]. intros H. now contradiction H.
  - split; [discriminate|]. intros _. lia.
Qed.

Lemma clip_one_spec lastID q r :
  clip_one lastID q = Some r ->
  wf r /\ forall x, in_range x r = true <-> req_covers lastID q x.
Proof.
  destruct q as [lo h]. unfold clip_one, req_covers.
  destruct ((lo >? lastID) || (lo <? 0) || (h <? 0) || ((h >? 0) && (lo >? h)) || ((lo =? 0) && (h =? 0))) eqn:E;
    [discriminate|].
  intros H. injection H as <-. unfold wf. cbn [low hi].
  split.
  - destruct (h >? lastID) eqn:E1; [lia|]. destruct ((lo =? h) || (lo + 1 =? h)) eqn:E2; lia.
  - intros x. rewrite in_range_iff. unfold upper. cbn [low hi].
    destruct (h >? lastID) eqn:E1.
    + replace (lastID + 1 =? 0) with false by lia.
      destruct ((h =? 0) || (h =? lo)) eqn:E3; lia.
    + destruct ((lo =? h) || (lo + 1 =? h)) eqn:E2.
      * replace (0 =? 0) with true by lia. destruct ((h =? 0) || (h =? lo)) eqn:E3; lia.
      * destruct (h =? 0) eqn:E4; cbn [orb]; [lia|].
        destruct (h =? lo) eqn:E5; lia.
Qed.

Lemma clip_all_spec lastID : forall req rs,
  clip_all lastID req = Some rs ->
  Forall wf rs /\ Forall (req_valid lastID) req /\ length rs = length req
  /\ forall x, in_ranges x rs = true <-> exists q, In q req /\ req_covers lastID q x.
Proof.
  induction req as [|q req IH]; intros rs H; cbn [clip_all] in H.
  - injection H as <-. repeat split; try constructor.
    + cbn. discriminate.
    + intros [q [[] _]].
  - destruct (clip_one lastID q) as [r|] eqn:E1; [|discriminate].
    destruct (clip_all lastID req) as [rs'|] eqn:E2; [|discriminate].
    injection H as <-.
    destruct (clip_one_spec _ _ _ E1) as [Hw Hx].
    destruct (IH _ eq_refl) as (Hf & Hv & Hlen & Hxs).
    repeat split.
    + now constructor.
    + constructor; [|exact Hv]. apply clip_one_valid. congruence.
    + cbn [length]. now rewrite Hlen.
    + cbn [in_ranges existsb]. fold (in_ranges x rs'). rewrite orb_true_iff, Hx, Hxs.
      intros [H|[q' [Hin Hc]]]; [exists q; split; [now left|exact H]|exists q'; split; [now right|exact Hc]].
    + cbn [in_ranges existsb]. fold (in_ranges x rs'). rewrite orb_true_iff, Hx, Hxs.
      intros [q' [[<-|Hin] Hc]]; [now left|right; now exists q'].
Qed.

Lemma clip_all_valid lastID : forall req,
  Forall (req_valid lastID) req -> exists rs, clip_all lastID req = Some rs.
Proof.
  induction req as [|q req IH]; intros Hf; [now exists []|].
  inversion Hf as [|? ? Hq Hf']; subst. cbn [clip_all].
  apply clip_one_valid in Hq. destruct (clip_one lastID q) as [r|]; [|congruence].
  destruct (IH Hf') as [rs ->]. now eexists.
Qed.

Lemma del_ranges_inv lastID req out :
  del_ranges lastID req = Some out ->
  exists rs, clip_all lastID req = Some rs /\ out = normalize (sort rs) /\ req <> [].
Proof.
  unfold del_ranges, del_ranges_with. destruct req as [|q req]; [discriminate|].
  destruct (clip_all lastID (q :: req)) as [rs|]; [|discriminate].
  destruct ((count_all rs >? max_delete_count) && (1 <? length (normalize (sort rs)))%nat); [discriminate|].
  intros H. injection H as <-. exists rs. repeat split. discriminate.
Qed.

(* the ranges handed to the store cover exactly the union of the requested
   ranges, each clipped to IDs <= lastID *)
Lemma del_ranges_exact lastID req out :
  del_ranges lastID req = Some out ->
  forall x, in_ranges x out = true <-> exists q, In q req /\ req_covers lastID q x.
Proof.
  intros H x. destruct (del_ranges_inv _ _ _ H) as (rs & Hc & -> & _).
  destruct (clip_all_spec _ _ _ Hc) as (Hw & _ & _ & Hx).
  rewrite normalize_exact; [apply Hx|].
  eapply Forall_impl; [|exact Hw]. exact wf_nonneg.
Qed.

Lemma del_ranges_normal lastID req out : del_ranges lastID req = Some out -> normal out.
Proof.
  intros H. destruct (del_ranges_inv _ _ _ H) as (rs & Hc & -> & _).
  destruct (clip_all_spec _ _ _ Hc) as (Hw & _). now apply normalize_normal.
Qed.

(* never an ID outside 0..lastID; never outside 1..lastID unless an entry has low = 0 *)
Lemma del_ranges_within lastID req out x :
  del_ranges lastID req = Some out -> in_ranges x out = true ->
  0 <= x <= lastID /\ (x = 0 -> exists h, In (0, h) req).
Proof.
  intros H Hx. destruct (del_ranges_inv _ _ _ H) as (rs & Hc & _ & _).
  destruct (clip_all_spec _ _ _ Hc) as (_ & Hv & _ & _).
  apply (del_ranges_exact _ _ _ H) in Hx. destruct Hx as [[lo h] [Hin Hcov]].
  rewrite Forall_forall in Hv. specialize (Hv _ Hin). unfold req_valid in Hv. unfold req_covers in Hcov.
  split; [lia|]. intros ->. exists h. assert (lo = 0) by lia. now subst.
Qed.

(* a request is refused only if it is empty, has an invalid entry, or is over
   the count limit with more than one range left after merging *)
Lemma del_ranges_accepts lastID req :
  req <> [] -> Forall (req_valid lastID) req ->
  (forall rs, clip_all lastID req = Some rs -> count_all rs <= max_delete_count) ->
  exists out, del_ranges lastID req = Some out.
Proof.
  intros Hne Hv Hcount. unfold del_ranges, del_ranges_with.
  destruct req as [|q req]; [congruence|].
  destruct (clip_all_valid _ _ Hv) as [rs Hrs]. rewrite Hrs.
  specialize (Hcount _ Hrs).
  replace (count_all rs >? max_delete_count) with false by lia. cbn [andb]. now eexists.
Qed.

Lemma del_ranges_rejects_invalid lastID req q :
  In q req -> ~ req_valid lastID q -> del_ranges lastID req = None.
Proof.
  intros Hin Hbad. destruct (del_ranges lastID req) as [out|] eqn:E; [|reflexivity].
  destruct (del_ranges_inv _ _ _ E) as (rs & Hc & _ & _).
  destruct (clip_all_spec _ _ _ Hc) as (_ & Hv & _). rewrite Forall_forall in Hv. now apply Hv in Hin.
Qed.

Definition del_ranges_exact_statement (del : Z -> list (Z * Z) -> option (list range)) : Prop :=
  forall lastID req out, del lastID req = Some out ->
  forall x, in_ranges x out = true <-> exists q, In q req /\ req_covers lastID q x.

Lemma del_ranges_unrepaired_refuted : ~ del_ranges_exact_statement del_ranges_unrepaired.
Proof.
  intros H.
  specialize (H 12 [(1, 3); (2, 4); (10, 12)] [mkRange 1 4; mkRange 2 4] eq_refl 10).
  destruct H as [_ H]. assert (in_ranges 10 [mkRange 1 4; mkRange 2 4] = true); [|discriminate].
  apply H. exists (10, 12). split; [cbn; tauto|]. cbn. lia.
Qed.

(* ------------------------------------------------------------------ *)
(* the deletion log                                                     *)

Lemma dellog_roundtrip r :
  wf r -> wf (dellog_load (dellog_store r))
          /\ forall x, in_range x (dellog_load (dellog_store r)) = in_range x r.
Proof.
  intros [H0 H]. unfold dellog_load, dellog_store, wf.
  destruct (hi r =? 0) eqn:E.
  - replace (low r + 1 <=? low r + 1) with true by lia. cbn [low hi]. split; [lia|].
    intros x. unfold in_range. cbn [low hi]. now rewrite E.
  - destruct (hi r <=? low r + 1) eqn:E1; cbn [low hi].
    + split; [lia|]. intros x. unfold in_range. cbn [low hi]. rewrite E.
      change (0 =? 0) with true. cbv iota. lia.
    + split; [lia|]. intros x. unfold in_range. cbn [low hi]. now rewrite E.
Qed.

Lemma report_deleted_exact logs x :
  Forall (Forall nonneg) logs ->
  in_ranges x (report_deleted logs) = existsb (in_ranges x) logs.
Proof.
  intros Hn. unfold report_deleted. rewrite normalize_exact; [apply in_ranges_concat|].
  induction Hn; cbn [concat]; [constructor|]. apply Forall_app. now split.
Qed.

Lemma report_deleted_normal logs : Forall (Forall wf) logs -> normal (report_deleted logs).
Proof.
  intros Hw. unfold report_deleted. apply normalize_normal.
  induction Hw; cbn [concat]; [constructor|]. apply Forall_app. now split.
Qed.

(* stored by messageDeleteList, read back by MessageGetDeleted, merged by
   GetDeleted: the reported log covers exactly the IDs of the logged ranges *)
Definition stored_log (outs : list (list range)) : list (list range) :=
  map (map (fun r => dellog_load (dellog_store r))) outs.

Lemma deletion_log_exact outs x :
  Forall (Forall wf) outs ->
  in_ranges x (report_deleted (stored_log outs)) = existsb (in_ranges x) outs.
Proof.
  intros Hw. rewrite report_deleted_exact.
  - unfold stored_log. induction Hw as [|l ls Hl Hls IH]; [reflexivity|].
    cbn [map existsb]. rewrite IH. f_equal.
    clear -Hl. induction Hl as [|r l Hr Hl IH]; [reflexivity|].
    cbn [map in_ranges existsb]. fold (in_ranges x l).
    fold (in_ranges x (map (fun r => dellog_load (dellog_store r)) l)).
    rewrite IH. now rewrite (proj2 (dellog_roundtrip r Hr)).
  - unfold stored_log. induction Hw as [|l ls Hl Hls IH]; [constructor|].
    cbn [map]. constructor; [|exact IH].
    clear -Hl. induction Hl as [|r l Hr Hl IH]; [constructor|].
    cbn [map]. constructor; [|exact IH]. apply wf_nonneg. apply (dellog_roundtrip r Hr).
Qed.

(* the log of the deletions accepted for one user: every logged transaction is
   the output of an accepted delete request *)
Lemma deletion_log_of_requests (reqs : list (Z * list (Z * Z))) outs x :
  Forall2 (fun rq out => del_ranges (fst rq) (snd rq) = Some out) reqs outs ->
  in_ranges x (report_deleted (stored_log outs)) = true <->
  exists rq q, In rq reqs /\ In q (snd rq) /\ req_covers (fst rq) q x.
Proof.
  intros HF.
  assert (Hw : Forall (Forall wf) outs).
  { induction HF as [|rq out reqs outs H HF IH]; constructor; auto.
    apply (del_ranges_normal _ _ _ H). }
  rewrite deletion_log_exact by exact Hw. clear Hw.
  induction HF as [|rq out reqs outs H HF IH].
  - cbn. split; [discriminate|]. intros (rq & q & [] & _).
  - cbn [existsb]. rewrite orb_true_iff, IH, (del_ranges_exact _ _ _ H x). split.
    + intros [[q [Hin Hc]]|(rq' & q & Hin & Hq & Hc)].
      * exists rq, q. repeat split; auto. now left.
      * exists rq', q. repeat split; auto. now right.
    + intros (rq' & q & [<-|Hin] & Hq & Hc).
      * left. now exists q.
      * right. now exists rq', q.
Qed.

(* ------------------------------------------------------------------ *)
(* side conditions are needed / satisfiable                             *)

(* IDs must not be negative: with hi = 0 reserved for "single ID" the range
   [-3, 0) has no representation.  (replyDelMsg rejects negative bounds.) *)
Lemma normalize_exact_needs_nonneg :
  in_ranges (-2) (normalize (sort [mkRange (-3) (-1); mkRange (-1) 0])) = false
  /\ in_ranges (-2) [mkRange (-3) (-1); mkRange (-1) 0] = true.
Proof. split; vm_compute; reflexivity. Qed.

(* why the existing tests (one single-range {del} each) cannot see the defect:
   on a one-entry request the old and the repaired code agree *)
Lemma del_ranges_unrepaired_single lastID q :
  del_ranges_unrepaired lastID [q] = del_ranges lastID [q].
Proof.
  unfold del_ranges_unrepaired, del_ranges, del_ranges_with. cbn [clip_all].
  destruct (clip_one lastID q) as [r|]; reflexivity.
Qed.
