From Coq Require Import ZArith List Bool Lia.
From Tinode Require Import Pure.Ranges.
Import ListNotations.
Open Scope Z_scope.

Definition normalize_exact_statement (norm : list range -> list range) : Prop :=
  forall rs x, in_ranges x (norm (sort rs)) = in_ranges x rs.

Lemma normalize_unrepaired_refuted : ~ normalize_exact_statement normalize_unrepaired.
Proof.
  intros H. specialize (H [mkRange 1 3; mkRange 2 4; mkRange 10 12] 10). vm_compute in H. discriminate.
Qed.
