(* Model of server/ringhash/ringhash.go (consistent-hash ring) and of the two
   places of server/cluster.go that read it (placement: nodeForTopic /
   isRemoteTopic; signature gate of Cluster.TopicMaster / Cluster.Route).
   Definitions only.  Strings are byte lists ([list N], bytes < 256), Go ints
   are [Z], slice indices are [nat].

   The hash function (crc32.ChecksumIEEE by default, anything in the package's
   tests) and the digest that turns the signature pre-image into the signature
   string (FNV-128a + ascii85) are Section variables: every theorem holds for
   every hash and every digest.  The concrete FNV-128a/ascii85 is also defined
   here ([fnv_ascii85]) so that the extracted model can be compared with
   Ring.Signature() byte for byte. *)
From Coq Require Import NArith ZArith List Bool Arith.
Import ListNotations.

Definition str := list N.

(* Go's [<] on strings: bytewise lexicographic, a proper prefix is smaller. *)
Fixpoint scmp (a b : str) : comparison :=
  match a, b with
  | [], [] => Eq
  | [], _ :: _ => Lt
  | _ :: _, [] => Gt
  | x :: a', y :: b' =>
    match N.compare x y with
    | Eq => scmp a' b'
    | c => c
    end
  end.
Definition sltb (a b : str) : bool := match scmp a b with Lt => true | _ => false end.
Definition seqb (a b : str) : bool := match scmp a b with Eq => true | _ => false end.

(* strconv.Itoa for i >= 0: decimal digits, no sign, no leading zeros. *)
Fixpoint itoa_loop (fuel : nat) (n : N) (acc : str) : str :=
  match fuel with
  | O => acc
  | S f =>
    let acc' := (48 + n mod 10)%N :: acc in
    if (n / 10 =? 0)%N then acc' else itoa_loop f (n / 10)%N acc'
  end.
Definition itoa (n : N) : str := itoa_loop (S (N.size_nat n)) n [].

(* elem{key, hash}: (hash, node name) *)
Definition elt := (N * str)%type.

(* sortable.Less, as written:
     if k[i].hash < k[j].hash { return true }
     if k[i].hash == k[j].hash { return k[i].key < k[j].key }
     return false *)
Definition eless (a b : elt) : bool :=
  if (fst a <? fst b)%N then true
  else if (fst a =? fst b)%N then sltb (snd a) (snd b)
  else false.

(* sort.Sort is modelled by insertion sort; RingProofs.sorted_unique shows that
   ANY permutation of the input that is sorted by [eless] is this very list
   (elements that compare equal are identical), so nothing depends on the
   sorting algorithm or on its (in)stability. *)
Fixpoint insert (e : elt) (l : list elt) : list elt :=
  match l with
  | [] => [e]
  | a :: l' => if eless e a then e :: l else a :: insert e l'
  end.
Definition isort (l : list elt) : list elt := fold_right insert [] l.

(* the predicate handed to sort.Search by Ring.Get:
     (el.hash > hash) || (el.hash == hash && el.key >= key) *)
Definition gepred (hk : N) (key : str) (el : elt) : bool :=
  (hk <? fst el)%N || ((fst el =? hk)%N && negb (sltb (snd el) key)).

(* sort.Search(n, f):
     i, j := 0, n
     for i < j { h := int(uint(i+j) >> 1); if !f(h) { i = h + 1 } else { j = h } }
     return i
   [fuel] = n is enough: j - i shrinks by at least one per iteration. *)
Fixpoint bsearch (fuel : nat) (f : nat -> bool) (i j : nat) : nat :=
  match fuel with
  | O => i
  | S fu =>
    if i <? j then
      let h := Nat.div2 (i + j) in
      if f h then bsearch fu f i h else bsearch fu f (S h) j
    else i
  end.
Definition sort_search (n : nat) (f : nat -> bool) : nat := bsearch n f 0 n.

(* little-endian 4 bytes of the hash as Ring.Add writes them: byte(h), byte(h>>8), ... *)
Definition le32 (h : N) : str :=
  [h mod 256; (h / 256) mod 256; (h / 65536) mod 256; (h / 16777216) mod 256]%N.

(* what Ring.Add feeds to the FNV hash, in this order, with no separators *)
Definition sig_preimage (ks : list elt) : str :=
  flat_map (fun e => le32 (fst e) ++ snd e) ks.

Section Ring.
  Variable hash : str -> N.
  Variable digest : str -> str.

  Record ring := mkRing { rkeys : list elt; rsig : str }.

  (* New(): no keys, signature is the empty string until the first Add *)
  Definition ring_new : ring := mkRing [] [].

  (* the [replicas] elements Add appends for one node name; [i < replicas] with
     Go ints: nothing for replicas <= 0 *)
  Definition replica_elts (replicas : Z) (name : str) : list elt :=
    map (fun i => (hash (itoa (N.of_nat i) ++ name), name)) (seq 0 (Z.to_nat replicas)).

  Definition appended (replicas : Z) (names : list str) : list elt :=
    flat_map (replica_elts replicas) names.

  (* Ring.Add(keys...) *)
  Definition ring_add (replicas : Z) (r : ring) (names : list str) : ring :=
    let ks := isort (rkeys r ++ appended replicas names) in
    mkRing ks (digest (sig_preimage ks)).

  (* rh.New(replicas, fn) followed by one Add: what Cluster.rehash builds *)
  Definition ring_of (replicas : Z) (names : list str) : ring :=
    ring_add replicas ring_new names.

  (* Ring.Get *)
  Definition ring_get (r : ring) (key : str) : str :=
    match rkeys r with
    | [] => []
    | e0 :: _ =>
      let n := length (rkeys r) in
      let hk := hash key in
      let idx := sort_search n (fun i => gepred hk key (nth i (rkeys r) e0)) in
      let idx := if idx =? n then 0 else idx in
      snd (nth idx (rkeys r) e0)
    end.

  (* specification of Get used by the proofs: first element >= (hash key, key), else the first one *)
  Definition get_spec (ks : list elt) (key : str) : str :=
    match ks with
    | [] => []
    | e0 :: _ =>
      match find (gepred (hash key) key) ks with
      | Some e => snd e
      | None => snd e0
      end
    end.

  Definition ring_signature (r : ring) : str := rsig r.

  (* cluster.go isRemoteTopic: c.ring.Get(topic) != c.thisNodeName *)
  Definition is_remote_topic (r : ring) (this topic : str) : bool :=
    negb (seqb (ring_get r topic) this).

  (* cluster.go nodeForTopic: None = "request to route to self" *)
  Definition node_for_topic (r : ring) (this topic : str) : option str :=
    let k := ring_get r topic in
    if seqb k this then None else Some k.

  (* cluster.go Cluster.TopicMaster / Cluster.Route:
       if msg.Signature != c.ring.Signature() { *rejected = true; return nil }
     true = request goes on to be served, false = rejected *)
  Definition sig_gate (r : ring) (msg_signature : str) : bool :=
    seqb msg_signature (ring_signature r).
End Ring.

(* ---------- the concrete digest of Ring.Add: hash/fnv New128a, then
   encoding/ascii85.Encode into a zeroed buffer of MaxEncodedLen(16) = 20 bytes,
   the whole buffer being the signature (the byte count returned by Encode is
   ignored by Ring.Add) ---------- *)
Definition fnv128_offset : N := 144066263297769815596495629667062367629%N.
Definition fnv128_prime : N := 309485009821345068724781371%N.
Definition two128 : N := 340282366920938463463374607431768211456%N.
(* one round: xor the byte in, multiply by the prime 2^88 + 0x13b modulo 2^128
   (written with shift/mask so that the extracted code is fast;
   RingProofs.fnv_step_eq: = ((h xor c) * fnv128_prime) mod 2^128) *)
Definition fnv_step (h c : N) : N :=
  let x := N.lxor h c in
  N.land (N.shiftl x 88 + 315 * x)%N (N.ones 128).
Definition fnv128a (s : str) : N := fold_left fnv_step s fnv128_offset.

(* big-endian bytes of v, [n] of them (hash.Sum appends big-endian) *)
Fixpoint be_bytes (n : nat) (v : N) : str :=
  match n with
  | O => []
  | S k => be_bytes k (v / 256)%N ++ [v mod 256]%N
  end.

(* five base-85 digits starting at '!' *)
Definition a85_group (v : N) : str :=
  if (v =? 0)%N then [122%N] (* 'z' *)
  else [33 + (v / 52200625) mod 85; 33 + (v / 614125) mod 85; 33 + (v / 7225) mod 85;
        33 + (v / 85) mod 85; 33 + v mod 85]%N.
Definition a85_16 (v : N) : str :=
  a85_group ((v / 79228162514264337593543950336) mod 4294967296)%N ++
  a85_group ((v / 18446744073709551616) mod 4294967296)%N ++
  a85_group ((v / 4294967296) mod 4294967296)%N ++
  a85_group (v mod 4294967296)%N.
Definition pad_to (n : nat) (s : str) : str := s ++ repeat 0%N (n - length s).
Definition fnv_ascii85 (s : str) : str := pad_to 20 (a85_16 (fnv128a s)).

(* entry points for the extracted runner *)
Definition ring_run (hash : str -> N) (replicas : Z) (adds : list (list str)) (keys : list str)
  : str * list str :=
  let r := fold_left (ring_add hash fnv_ascii85 replicas) adds (ring_new) in
  (ring_signature r, map (ring_get hash r) keys).
