(* Lemmas about Pure/Uid.v: little-endian layout, text / JSON / prefixed / database
   round trips for every u < 2^64, soundness of decoding (a text that decodes to
   a non-zero id is one of the four spellings of that id), group/channel names. *)
From Coq Require Import NArith ZArith List Bool Lia Arith.
From Coq Require Import ZifyBool ZifyNat ZifyN.
From Tinode Require Import Base.Util Base.Base64 Base.Base64Proofs Pure.Uid.
Import ListNotations.
Open Scope N_scope.

(* ------------------------------------------------ little-endian layout *)

Lemma lor_byte_shl b x : b < 256 -> N.lor b (N.shiftl x 8) = b + x * 256.
Proof.
  intros. rewrite shl_mul, N.lor_comm. pow_lit.
  rewrite (lor_add 8) by (pow_lit; dlia). lia.
Qed.

Lemma le_bytes_length n v : length (le_bytes n v) = n.
Proof. revert v. induction n; intros; cbn; auto. Qed.

Lemma le_bytes_lt256 n v : Forall lt256 (le_bytes n v).
Proof. revert v. induction n; intros; cbn [le_bytes]; constructor; auto. apply byte_lt. Qed.

Lemma le_bytes_le_num bs : Forall lt256 bs -> le_bytes (length bs) (le_num bs) = bs.
Proof.
  induction 1 as [|x l Hx HF IH]; [reflexivity|].
  cbn [le_bytes le_num length]. unfold lt256 in Hx. rewrite lor_byte_shl by assumption. f_equal.
  - rewrite byte_mod. dlia.
  - rewrite shr_div. pow_lit. replace ((x + le_num l * 256) / 256) with (le_num l) by dlia. exact IH.
Qed.

Lemma le_num_le_bytes n v : le_num (le_bytes n v) = v mod 2 ^ (8 * N.of_nat n).
Proof.
  revert v. induction n as [|k IH]; intros v.
  - cbn. now rewrite N.mod_1_r.
  - cbn [le_bytes le_num]. rewrite lor_byte_shl by apply byte_lt. rewrite IH, byte_mod, shr_div.
    rewrite Nat2N.inj_succ. replace (8 * N.succ (N.of_nat k)) with (8 + 8 * N.of_nat k) by lia.
    rewrite N.pow_add_r. pow_lit.
    rewrite N.mod_mul_r by (try (apply N.pow_nonzero; discriminate); discriminate). lia.
Qed.

Lemma le_num_bound bs : Forall lt256 bs -> le_num bs < 2 ^ (8 * N.of_nat (length bs)).
Proof.
  intros H. rewrite <- (le_bytes_le_num bs H) at 1. rewrite le_num_le_bytes.
  apply N.mod_lt. apply N.pow_nonzero. discriminate.
Qed.

Lemma le_uint64_le_bytes u : u < two64 -> le_uint64 (le_bytes 8 u) = u.
Proof.
  intros H. unfold le_uint64. rewrite firstn_all2 by (rewrite le_bytes_length; lia).
  rewrite le_num_le_bytes. apply N.mod_small. exact H.
Qed.

Lemma le_bytes_le_uint64 bs : length bs = 8%nat -> Forall lt256 bs -> le_bytes 8 (le_uint64 bs) = bs.
Proof.
  intros L F. unfold le_uint64. rewrite firstn_all2 by lia. rewrite <- L. now apply le_bytes_le_num.
Qed.

Lemma in_firstn' {A} n (l : list A) x : In x (firstn n l) -> In x l.
Proof.
  revert l. induction n as [|n IH]; intros l H; [destruct H|].
  destruct l as [|y l]; [destruct H|]. cbn in H. destruct H as [-> | H]; [now left|right; auto].
Qed.

Lemma le_uint64_bound bs : Forall lt256 bs -> le_uint64 bs < two64.
Proof.
  intros F. unfold le_uint64.
  assert (F' : Forall lt256 (firstn 8 bs)).
  { apply Forall_forall. intros x Hx. rewrite Forall_forall in F. apply F. eapply in_firstn'; eauto. }
  pose proof (le_num_bound _ F') as B. eapply N.lt_le_trans; [exact B|].
  pose proof (firstn_le_length 8 bs) as L. unfold two64.
  change 18446744073709551616 with (2 ^ 64). apply N.pow_le_mono_r; lia.
Qed.

(* ------------------------------------------------ text form *)

Lemma marshal_text_shape u : u <> 0 ->
  exists c0 c1 c2 c3 c4 c5 c6 c7 c8 c9 c10, marshal_text u = [c0; c1; c2; c3; c4; c5; c6; c7; c8; c9; c10].
Proof.
  intros H. unfold marshal_text. destruct (u =? 0) eqn:E; [lia|].
  cbn [le_bytes b64_encode b64_sextets map]. repeat eexists.
Qed.

Lemma unmarshal_text_fail cur s v : unmarshal_text cur s = (v, false) -> v = cur.
Proof.
  unfold unmarshal_text. destruct (negb _); [now inversion 1|].
  destruct (b64_decode s) as [dec fl]. destruct (Nat.ltb _ _); now inversion 1.
Qed.

Theorem text_roundtrip cur u : u < two64 -> u <> 0 -> unmarshal_text cur (marshal_text u) = (u, true).
Proof.
  intros Hu H0. destruct (marshal_text_shape u H0) as (c0&c1&c2&c3&c4&c5&c6&c7&c8&c9&c10&E).
  unfold unmarshal_text. rewrite E at 1. cbn [length uidBase64Unpadded Nat.eqb negb].
  unfold marshal_text in *. destruct (u =? 0) eqn:Z; [lia|]. clear E.
  pose proof (b64_decode_encode (le_bytes 8 u) (le_bytes_lt256 8 u)) as D.
  destruct (b64_decode (b64_encode (le_bytes 8 u))) as [dec fl]. cbn [fst] in D. subst dec.
  rewrite le_bytes_length. cbn [Nat.ltb Nat.leb]. now rewrite le_uint64_le_bytes.
Qed.

Theorem parse_uid_string u : u < two64 -> parse_uid (uid_string u) = u.
Proof.
  intros Hu. unfold parse_uid, uid_string. destruct (N.eq_dec u 0) as [->|H0]; [reflexivity|].
  now rewrite text_roundtrip.
Qed.

(* what an accepted text looks like *)
Lemma unmarshal_text_ok cur s v : unmarshal_text cur s = (v, true) ->
  exists l, length l = 11%nat /\ s = map enc_char l /\ Forall lt64 l /\
            v = le_uint64 (sx_bytes l) /\ v < two64 /\ b64_sextets (le_bytes 8 v) = canon l.
Proof.
  unfold unmarshal_text. destruct (Nat.eqb (length s) uidBase64Unpadded) eqn:L; cbn [negb]; [|discriminate].
  apply Nat.eqb_eq in L. unfold uidBase64Unpadded in L.
  destruct (b64_decode s) as [dec fl] eqn:D. destruct (Nat.ltb (length dec) 8) eqn:C; [discriminate|].
  apply Nat.ltb_ge in C. intros E. inversion E; subst v; clear E.
  destruct (decode_count_all_valid s 8) as (l & Es & Fl & Ed).
  { rewrite D. exact C. } { lia. }
  rewrite D in Ed. cbn [fst] in Ed. subst dec. exists l.
  assert (Ll : length l = 11%nat) by (rewrite <- L, Es; now rewrite map_length).
  repeat split; auto.
  - apply le_uint64_bound, sx_bytes_lt256.
  - rewrite <- (sextets_sx_bytes l Fl). f_equal. apply le_bytes_le_uint64; [|apply sx_bytes_lt256].
    do 12 (destruct l as [|? l]; try discriminate). reflexivity.
Qed.

(* ---- the spellings of an id: the canonical text, and the three texts that
   differ from it only in the two unused trailing bits of the last character *)
Definition uid_sextets (u : N) : list N := b64_sextets (le_bytes 8 u).
Definition spelling (u k : N) : list N :=
  map enc_char (firstn 10 (uid_sextets u) ++ [nth 10 (uid_sextets u) 0 + k]).
Definition spellings (u : N) : list (list N) := [spelling u 0; spelling u 1; spelling u 2; spelling u 3].

Lemma spelling_0 u : u <> 0 -> uid_string u = spelling u 0.
Proof.
  intros H. unfold uid_string, marshal_text, spelling, uid_sextets. destruct (u =? 0) eqn:E; [lia|].
  cbn [le_bytes b64_encode b64_sextets firstn nth app]. now rewrite N.add_0_r.
Qed.

Lemma in_spellings u k : k < 4 -> In (spelling u k) (spellings u).
Proof.
  intros H. unfold spellings.
  assert (k = 0 \/ k = 1 \/ k = 2 \/ k = 3) as [-> | [-> | [-> | ->]]] by lia; cbn [In];
    [left | right; left | right; right; left | right; right; right; left]; reflexivity.
Qed.

Lemma unmarshal_text_sound cur s v : unmarshal_text cur s = (v, true) ->
  v < two64 /\ exists k, k < 4 /\ s = spelling v k.
Proof.
  intros H. destruct (unmarshal_text_ok cur s v H) as (l & Ll & Es & Fl & Ev & Bv & C).
  split; [exact Bv|]. unfold spelling, uid_sextets. rewrite C.
  do 12 (destruct l as [|? l]; try discriminate). clear Ll.
  cbn [canon firstn nth app].
  match goal with |- context [?d / 4 * 4] => exists (d mod 4); split; [dlia|]; rewrite Es;
     replace (d / 4 * 4 + d mod 4) with d by dlia end.
  reflexivity.
Qed.

Lemma sx_tail3_mod4 a b : a < 256 -> b < 256 -> sx (enc_val a b 0) 6 mod 4 = 0.
Proof. intros. rewrite sx_arith, enc_val_arith by lia. pow_lit. dlia. Qed.

Lemma le_bytes8_shape u : exists b0 b1 b2 b3 b4 b5 b6 b7,
  le_bytes 8 u = [b0; b1; b2; b3; b4; b5; b6; b7] /\
  b0 < 256 /\ b1 < 256 /\ b2 < 256 /\ b3 < 256 /\ b4 < 256 /\ b5 < 256 /\ b6 < 256 /\ b7 < 256.
Proof. cbn [le_bytes]. repeat eexists; apply byte_lt. Qed.

(* each of the four spellings decodes to the id *)
Theorem spelling_decodes cur u k : u < two64 -> k < 4 -> unmarshal_text cur (spelling u k) = (u, true).
Proof.
  intros Hu Hk. unfold spelling, uid_sextets.
  pose proof (le_uint64_le_bytes u Hu) as R.
  destruct (le_bytes8_shape u) as (b0&b1&b2&b3&b4&b5&b6&b7&E&H0&H1&H2&H3&H4&H5&H6&H7).
  rewrite E in *. cbn [b64_sextets firstn nth app].
  set (s10 := sx (enc_val b6 b7 0) 6).
  assert (M : s10 mod 4 = 0) by (apply sx_tail3_mod4; assumption).
  assert (B : s10 < 64) by apply sx_lt.
  unfold unmarshal_text. cbn [map length uidBase64Unpadded Nat.eqb negb].
  match goal with |- context [b64_decode (?a0 :: ?a1 :: ?a2 :: ?a3 :: ?a4 :: ?a5 :: ?a6 :: ?a7 :: ?a8 :: ?a9 :: ?a10 :: nil)] =>
    change (a0 :: a1 :: a2 :: a3 :: a4 :: a5 :: a6 :: a7 :: a8 :: a9 :: a10 :: nil) with
      (map enc_char [sx (enc_val b0 b1 b2) 18; sx (enc_val b0 b1 b2) 12; sx (enc_val b0 b1 b2) 6; sx (enc_val b0 b1 b2) 0;
                     sx (enc_val b3 b4 b5) 18; sx (enc_val b3 b4 b5) 12; sx (enc_val b3 b4 b5) 6; sx (enc_val b3 b4 b5) 0;
                     sx (enc_val b6 b7 0) 18; sx (enc_val b6 b7 0) 12; s10 + k])
  end.
  match goal with |- context [b64_decode (map enc_char ?l)] =>
    assert (D : fst (b64_decode (map enc_char l)) = sx_bytes l);
    [ apply (dec_loop_all_valid l); repeat constructor; try apply sx_lt; unfold lt64; dlia
    | destruct (b64_decode (map enc_char l)) as [dec fl] ] end.
  cbn [fst] in D. subst dec.
  cbn [app sx_bytes]. rewrite q3_trailing by (try apply sx_lt; assumption).
  rewrite !q4_enc, q3_enc by assumption. cbn [app length Nat.ltb Nat.leb]. now rewrite R.
Qed.

Theorem spellings_decode u s : u < two64 -> In s (spellings u) -> parse_uid s = u.
Proof.
  intros Hu H. unfold parse_uid. unfold spellings in H. cbn [In] in H.
  destruct H as [<- | [<- | [<- | [<- | []]]]]; rewrite spelling_decodes; auto; lia.
Qed.

Theorem parse_uid_sound s u : parse_uid s = u -> u <> 0 -> u < two64 /\ In s (spellings u).
Proof.
  unfold parse_uid. intros H H0. destruct (unmarshal_text 0 s) as [v ok] eqn:E. cbn in H. subst v.
  destruct ok; [|apply unmarshal_text_fail in E; contradiction].
  destruct (unmarshal_text_sound _ _ _ E) as (B & k & Hk & ->). split; [exact B|]. now apply in_spellings.
Qed.

(* invalid text: wrong length, or a character outside the alphabet (CR and LF
   included: at the fixed length they make the decoded count too small) *)
Theorem parse_uid_invalid s :
  length s <> 11%nat \/ forallb valid_char s = false -> forall cur, unmarshal_text cur s = (cur, false).
Proof.
  intros H cur. destruct (unmarshal_text cur s) as [v ok] eqn:E. destruct ok.
  - exfalso. destruct (unmarshal_text_ok _ _ _ E) as (l & Ll & Es & Fl & _).
    destruct H as [H|H].
    + apply H. rewrite Es, map_length. exact Ll.
    + assert (forallb valid_char s = true); [|congruence].
      rewrite Es. clear -Fl. induction Fl as [|x l Hx _ IH]; [reflexivity|].
      cbn. unfold valid_char at 1. rewrite dec_enc_char by exact Hx. exact IH.
  - apply unmarshal_text_fail in E. now subst.
Qed.

(* ------------------------------------------------ JSON form *)

Theorem json_roundtrip cur u : u < two64 -> u <> 0 -> unmarshal_json cur (marshal_json u) = (u, true).
Proof.
  intros Hu H0. destruct (marshal_text_shape u H0) as (c0&c1&c2&c3&c4&c5&c6&c7&c8&c9&c10&E).
  unfold unmarshal_json, marshal_json. rewrite E.
  cbn [app length uidBase64Unpadded Nat.add Nat.eqb negb nth Nat.sub firstn skipn].
  rewrite !N.eqb_refl. cbn [negb orb]. rewrite <- E. now apply text_roundtrip.
Qed.

(* the zero id is rendered as "" (two quotes), which UnmarshalJSON refuses;
   the receiver keeps its value *)
Lemma json_zero cur : unmarshal_json cur (marshal_json 0) = (cur, false).
Proof. reflexivity. Qed.

Lemma unmarshal_json_fail cur b v : unmarshal_json cur b = (v, false) -> v = cur.
Proof.
  unfold unmarshal_json. destruct (negb _); [now inversion 1|].
  destruct (_ || _); [now inversion 1|]. apply unmarshal_text_fail.
Qed.

Theorem unmarshal_json_sound cur b v : unmarshal_json cur b = (v, true) ->
  v < two64 /\ exists k, k < 4 /\ b = cQuote :: spelling v k ++ [cQuote].
Proof.
  unfold unmarshal_json. destruct (Nat.eqb (length b) (uidBase64Unpadded + 2)) eqn:L; cbn [negb]; [|discriminate].
  apply Nat.eqb_eq in L. cbn in L.
  do 14 (destruct b as [|? b]; try discriminate). clear L.
  cbn [length Nat.sub nth firstn skipn].
  match goal with |- context [negb (?x =? cQuote) || negb (?y =? cQuote)] =>
    destruct (x =? cQuote) eqn:Q1; destruct (y =? cQuote) eqn:Q2; cbn [negb orb]; try discriminate end.
  apply N.eqb_eq in Q1, Q2. subst. intros H.
  destruct (unmarshal_text_sound _ _ _ H) as (B & k & Hk & E). split; [exact B|].
  exists k. split; [exact Hk|]. rewrite <- E. reflexivity.
Qed.

(* ------------------------------------------------ prefixed forms *)

Lemma has_prefix_app p s : has_prefix (p ++ s) p = true.
Proof. induction p as [|x p IH]; cbn; [reflexivity|]. now rewrite N.eqb_refl. Qed.

Lemma has_prefix3 s a b c : has_prefix s [a; b; c] = true -> s = [a; b; c] ++ skipn 3 s.
Proof.
  destruct s as [|x [|y [|z s]]]; cbn [has_prefix andb]; try discriminate;
    try (destruct (_ =? _); cbn; try discriminate; destruct (_ =? _); cbn; discriminate).
  intros H. apply andb_prop in H. destruct H as [H1 H]. apply andb_prop in H. destruct H as [H2 H].
  apply andb_prop in H. destruct H as [H3 _]. apply N.eqb_eq in H1, H2, H3. now subst.
Qed.

Lemma skipn_app3 (a b c : N) s : skipn 3 ([a; b; c] ++ s) = s.
Proof. reflexivity. Qed.

(* any three-character prefix: usr, fnd, grp, chn ... *)
Theorem prefix_roundtrip a b c u : u < two64 -> u <> 0 ->
  has_prefix (prefix_id [a; b; c] u) [a; b; c] = true /\
  parse_uid (skipn 3 (prefix_id [a; b; c] u)) = u.
Proof.
  intros Hu H0. unfold prefix_id. destruct (u =? 0) eqn:E; [lia|]. split.
  - apply has_prefix_app.
  - rewrite skipn_app3. now apply parse_uid_string.
Qed.

Theorem user_id_roundtrip u : u < two64 -> parse_user_id (user_id u) = u.
Proof.
  intros Hu. unfold parse_user_id, user_id, prefix_id. destruct (u =? 0) eqn:E.
  - apply N.eqb_eq in E. now subst.
  - unfold s_usr. rewrite has_prefix_app, skipn_app3. apply (parse_uid_string u Hu).
Qed.

Theorem parse_user_id_sound s u : parse_user_id s = u -> u <> 0 ->
  u < two64 /\ exists t, s = s_usr ++ t /\ In t (spellings u).
Proof.
  unfold parse_user_id. destruct (has_prefix s s_usr) eqn:P; [|intros <- H; contradiction].
  intros H H0. destruct (parse_uid_sound _ _ H H0) as [B I]. split; [exact B|].
  exists (skipn 3 s). split; [now apply has_prefix3|exact I].
Qed.

Theorem parse_user_id_bad_prefix s : has_prefix s s_usr = false -> parse_user_id s = 0.
Proof. unfold parse_user_id. now intros ->. Qed.

(* ------------------------------------------------ group / channel names *)

Theorem grp_chn_inverse s : has_prefix s s_grp = true ->
  chn_to_grp (grp_to_chn s) = s /\ is_channel (grp_to_chn s) = true /\
  skipn 3 (grp_to_chn s) = skipn 3 s /\ chn_to_grp s = s.
Proof.
  intros H. pose proof (has_prefix3 _ _ _ _ H) as E. unfold grp_to_chn. rewrite H.
  unfold chn_to_grp, is_channel. rewrite !has_prefix_app.
  change (skipn 3 (s_chn ++ skipn 3 s)) with (skipn 3 s).
  assert (C : has_prefix s s_chn = false) by (rewrite E; reflexivity). rewrite C, H.
  repeat split; auto.
Qed.

Theorem chn_grp_inverse s : has_prefix s s_chn = true ->
  grp_to_chn (chn_to_grp s) = s /\ is_channel s = true /\
  skipn 3 (chn_to_grp s) = skipn 3 s /\ grp_to_chn s = s.
Proof.
  intros H. pose proof (has_prefix3 _ _ _ _ H) as E. unfold chn_to_grp. rewrite H.
  unfold grp_to_chn, is_channel. rewrite !has_prefix_app.
  change (skipn 3 (s_grp ++ skipn 3 s)) with (skipn 3 s).
  assert (C : has_prefix s s_grp = false) by (rewrite E; reflexivity). rewrite C, H.
  repeat split; auto.
Qed.

Theorem grp_chn_other s : has_prefix s s_grp = false -> has_prefix s s_chn = false ->
  grp_to_chn s = [] /\ chn_to_grp s = [] /\ is_channel s = false.
Proof. intros G C. unfold grp_to_chn, chn_to_grp, is_channel. now rewrite G, C. Qed.

(* ------------------------------------------------ database form *)

Definition block8 (b : list N) : Prop := length b = 8%nat /\ Forall lt256 b.

Lemma of_to_int64 v : v < two64 -> of_int64 (to_int64 v) = v.
Proof.
  unfold two64, of_int64, to_int64. intros H. destruct (v <? 9223372036854775808) eqn:E.
  - rewrite Z.mod_small by lia. lia.
  - replace (Z.of_N v - 18446744073709551616)%Z with (Z.of_N v + (-1) * 18446744073709551616)%Z by lia.
    rewrite Z.mod_add by lia. rewrite Z.mod_small by lia. lia.
Qed.

Lemma to_of_int64 z : (-9223372036854775808 <= z < 9223372036854775808)%Z -> to_int64 (of_int64 z) = z.
Proof.
  unfold of_int64, to_int64. intros H.
  destruct (Z_lt_le_dec z 0) as [Hn|Hp].
  - replace (z mod 18446744073709551616)%Z with (z + 18446744073709551616)%Z.
    2:{ symmetry. rewrite <- (Z.mod_add z 1 18446744073709551616) by lia. apply Z.mod_small. lia. }
    destruct (_ <? _) eqn:E; lia.
  - rewrite Z.mod_small by lia. destruct (_ <? _) eqn:E; lia.
Qed.

Lemma of_int64_bound z : of_int64 z < two64.
Proof.
  unfold of_int64, two64. pose proof (Z.mod_pos_bound z 18446744073709551616 ltac:(lia)). lia.
Qed.

Section DbProofs.
  Variable enc dec : list N -> list N.
  Hypothesis enc_block : forall b, block8 b -> block8 (enc b).
  Hypothesis dec_block : forall b, block8 b -> block8 (dec b).
  Hypothesis dec_enc : forall b, block8 b -> dec (enc b) = b.
  Hypothesis enc_dec : forall b, block8 b -> enc (dec b) = b.

  Lemma block8_le_bytes v : block8 (le_bytes 8 v).
  Proof. split; [apply le_bytes_length|apply le_bytes_lt256]. Qed.

  Theorem db_roundtrip u : u < two64 -> encode_int64 enc (decode_uid dec u) = u.
  Proof.
    intros Hu. unfold encode_int64, decode_uid.
    destruct (dec_block _ (block8_le_bytes u)) as [L F].
    rewrite of_to_int64 by (now apply le_uint64_bound).
    rewrite le_bytes_le_uint64 by assumption. rewrite enc_dec by apply block8_le_bytes.
    now apply le_uint64_le_bytes.
  Qed.

  Theorem db_roundtrip_int z : (-9223372036854775808 <= z < 9223372036854775808)%Z ->
    decode_uid dec (encode_int64 enc z) = z.
  Proof.
    intros Hz. unfold encode_int64, decode_uid.
    destruct (enc_block _ (block8_le_bytes (of_int64 z))) as [L F].
    rewrite le_bytes_le_uint64 by assumption. rewrite dec_enc by apply block8_le_bytes.
    rewrite le_uint64_le_bytes by apply of_int64_bound. now apply to_of_int64.
  Qed.

  Theorem db_encode_bound z : encode_int64 enc z < two64.
  Proof.
    unfold encode_int64. apply le_uint64_bound.
    now destruct (enc_block _ (block8_le_bytes (of_int64 z))).
  Qed.
End DbProofs.

(* ------------------------------------------------ base32 form (String32 / ParseUid32) *)

Lemma unmarshal_binary_8 bs : length bs = 8%nat -> Forall lt256 bs ->
  fst (unmarshal_binary 0 bs) = le_uint64 bs.
Proof. intros L _. unfold unmarshal_binary. now rewrite L. Qed.

Theorem binary_roundtrip cur u : u < two64 -> unmarshal_binary cur (marshal_binary u) = (u, true).
Proof.
  intros H. unfold unmarshal_binary, marshal_binary. rewrite le_bytes_length. cbn [Nat.ltb Nat.leb].
  now rewrite le_uint64_le_bytes.
Qed.

Definition lt32 (v : N) : Prop := v < 32.

Lemma lower_map l : Forall lt32 l -> map lower_ascii (map enc32_char l) = map enc32l_char l.
Proof. induction 1 as [|x l Hx _ IH]; cbn [map]; [reflexivity|]. now rewrite lower_enc32, IH. Qed.

Lemma strip_plain l : Forall lt32 l -> strip_newlines (map enc32l_char l) = map enc32l_char l.
Proof.
  induction 1 as [|x l Hx _ IH]; [reflexivity|]. unfold strip_newlines in *. cbn [map filter].
  rewrite (proj2 (enc32l_plain x Hx)). cbn [negb]. now rewrite IH.
Qed.

Theorem uid32_roundtrip u : u < two64 -> parse_uid32 (string32 u) = u.
Proof.
  intros Hu. unfold parse_uid32, string32, marshal_binary.
  pose proof (le_uint64_le_bytes u Hu) as R.
  destruct (le_bytes8_shape u) as (b0&b1&b2&b3&b4&b5&b6&b7&E&H0&H1&H2&H3&H4&H5&H6&H7).
  rewrite E in *. unfold b32_encode. cbn [b32_quintets].
  pose proof (b32_group5 b0 b1 b2 b3 b4 H0 H1 H2 H3 H4) as G5. cbv zeta in G5.
  pose proof (b32_group3 b5 b6 b7 H5 H6 H7) as G3.
  remember (b32_tail [b5; b6; b7]) as tl eqn:Et. cbn [b32_tail] in Et.
  destruct tl as [|t0 [|t1 [|t2 [|t3 [|t4 [|? ?]]]]]]; try discriminate.
  assert (T : t0 < 32 /\ t1 < 32 /\ t2 < 32 /\ t3 < 32 /\ t4 < 32).
  { inversion Et. repeat split; apply q5_lt. }
  destruct T as (T0&T1&T2&T3&T4). clear Et.
  remember (b32_hi b0 b1 b2 b3) as hi. remember (b32_lo hi b4) as lo.
  remember (q5 hi 27) as a0 eqn:A0. remember (q5 hi 22) as a1 eqn:A1. remember (q5 hi 17) as a2 eqn:A2.
  remember (q5 hi 12) as a3 eqn:A3. remember (q5 hi 7) as a4 eqn:A4. remember (q5 hi 2) as a5 eqn:A5.
  remember (q5 lo 5) as a6 eqn:A6. remember (q5 lo 0) as a7 eqn:A7.
  assert (B : a0 < 32 /\ a1 < 32 /\ a2 < 32 /\ a3 < 32 /\ a4 < 32 /\ a5 < 32 /\ a6 < 32 /\ a7 < 32).
  { subst a0 a1 a2 a3 a4 a5 a6 a7. repeat split; apply q5_lt. }
  destruct B as (B0&B1&B2&B3&B4&B5&B6&B7). clear A0 A1 A2 A3 A4 A5 A6 A7 Heqhi Heqlo.
  assert (F : Forall lt32 [a0; a1; a2; a3; a4; a5; a6; a7; t0; t1; t2; t3; t4]) by (repeat constructor; assumption).
  rewrite (lower_map _ F). unfold b32_decode. rewrite (strip_plain _ F). cbn [map].
  do 13 (rewrite b32_loop_valid by assumption; cbn [app length Nat.eqb]).
  cbn [b32_dec_loop]. rewrite G5, G3. cbn [app].
  rewrite unmarshal_binary_8; [exact R|reflexivity|repeat constructor; assumption].
Qed.

(* before the repair: the lower-case text is decoded with the upper-case alphabet *)
Theorem uid32_roundtrip_unrepaired_refuted :
  ~ (forall u, u < two64 -> parse_uid32_unrepaired (string32 u) = u).
Proof. intros H. specialize (H 1 ltac:(reflexivity)). vm_compute in H. discriminate. Qed.
