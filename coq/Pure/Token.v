(* Model of server/auth/token/auth_token.go:26-39 (tokenLayout), 94-138
   (Authenticate) and 141-167 (GenSecret).

   Bytes are N (< 256).  Times are Z nanoseconds since the Unix epoch; Go ints
   (serial number, auth level, durations) are Z; the explicit conversions
   uint64()/uint32()/uint16() of the source are written as [mod 2^k].
   The keyed hash (HMAC-SHA256 in the source) is the Section variable [mac]:
   an arbitrary function of key and data.  Definitions only; proofs are in
   TokenProofs.v. *)
From Coq Require Import NArith ZArith List Bool.
Import ListNotations.
Open Scope N_scope.

(* encoding/binary, little endian: k bytes of v (the value is cut to 8k bits) *)
Fixpoint le_bytes (k : nat) (v : N) : list N :=
  match k with O => [] | S k' => (v mod 256) :: le_bytes k' (v / 256) end.

Fixpoint le_val (l : list N) : N :=
  match l with [] => 0 | b :: r => b + 256 * le_val r end.

Fixpoint bytes_eqb (a b : list N) : bool :=
  match a, b with
  | [], [] => true
  | x :: a', y :: b' => (x =? y) && bytes_eqb a' b'
  | _, _ => false
  end.

(* tokenLayout: Uid uint64, Expires uint32, AuthLevel uint16, SerialNumber uint16, Features uint16 *)
Record fields := mkF { f_uid : N; f_expires : N; f_level : N; f_serial : N; f_features : N }.

(* binary.Write(buf, binary.LittleEndian, &tl) *)
Definition encode_fields (f : fields) : list N :=
  le_bytes 8 (f_uid f) ++ le_bytes 4 (f_expires f) ++ le_bytes 2 (f_level f)
  ++ le_bytes 2 (f_serial f) ++ le_bytes 2 (f_features f).

(* binary.Read(buf, binary.LittleEndian, &tl) on (at least) 18 bytes *)
Definition decode_fields (d : list N) : fields :=
  mkF (le_val (firstn 8 d)) (le_val (firstn 4 (skipn 8 d))) (le_val (firstn 2 (skipn 12 d)))
      (le_val (firstn 2 (skipn 14 d))) (le_val (firstn 2 (skipn 16 d))).

Definition data_size : nat := 18.    (* binary.Size(&tl) *)
Definition sig_size : nat := 32.     (* sha256.Size *)
Definition token_size : nat := 50.
Definition level_root : N := 30.     (* auth.LevelRoot = 3 * 10 *)
Definition second : Z := 1000000000.

Inductive terr := TMalformed | TFailed | TExpired.
Record trec := mkR { r_uid : N; r_level : N; r_features : N }.
Inductive tres := TOk (r : trec) | TErr (e : terr).

(* what the caller of GenSecret passes in auth.Rec: Uid (uint64), AuthLevel (int),
   Features (uint16), Lifetime (int64 nanoseconds) *)
Record grec := mkG { g_uid : N; g_level : Z; g_features : N; g_lifetime : Z }.

(* int64 wrap of  time.Duration(config.ExpireIn) * time.Second  (Init) *)
Definition wrap64 (z : Z) : Z := ((z + 2 ^ 63) mod 2 ^ 64 - 2 ^ 63)%Z.
Definition default_lifetime (expire_in : Z) : Z := wrap64 (expire_in * second).

(* Time.Round(time.Millisecond): nearest multiple, halfway rounds up *)
Definition round_ms (t : Z) : Z :=
  let r := (t mod 1000000)%Z in
  if (2 * r <? 1000000)%Z then (t - r)%Z else (t + 1000000 - r)%Z.

(* Time.Unix(): whole seconds, floor *)
Definition unix_sec (t : Z) : Z := (t / second)%Z.

Section Token.
Variable mac : list N -> list N -> list N.

(* Authenticate(token) of an authenticator with key [key], configured serial
   number [serial] (Go int), when time.Now() = [now]. *)
Definition authenticate (key : list N) (serial : Z) (now : Z) (tok : list N) : tres :=
  if (length tok <? data_size + sig_size)%nat then TErr TMalformed else
  let tl := decode_fields (firstn data_size tok) in
  let hbuf := encode_fields tl in
  if negb (bytes_eqb (firstn sig_size (skipn data_size tok)) (mac key hbuf)) then TErr TFailed else
  if level_root <? f_level tl then TErr TMalformed else
  if negb (Z.of_N (f_serial tl) =? serial)%Z then TErr TFailed else
  (* expires.Before(time.Now().Add(1 * time.Second)) *)
  if (Z.of_N (f_expires tl) * second <? now + second)%Z then TErr TExpired else
  TOk (mkR (f_uid tl) (f_level tl) (f_features tl)).

(* the signed fields GenSecret writes for record g when the rounded expiry instant is [expires] *)
Definition issue_fields (serial : Z) (expires : Z) (g : grec) : fields :=
  mkF (g_uid g mod 2 ^ 64)
      (Z.to_N (unix_sec expires mod 2 ^ 32))
      (Z.to_N (g_level g mod 2 ^ 16))
      (Z.to_N (serial mod 2 ^ 16))
      (g_features g mod 2 ^ 16).

Definition issue_at (key : list N) (serial : Z) (expires : Z) (g : grec) : list N :=
  let d := encode_fields (issue_fields serial expires g) in d ++ mac key d.

(* the lifetime GenSecret uses; None = ErrExpired *)
Definition effective_lifetime (deflt : Z) (g : grec) : option Z :=
  if (g_lifetime g =? 0)%Z then Some deflt
  else if (g_lifetime g <? 0)%Z then None
  else Some (g_lifetime g).

(* GenSecret(rec) when time.Now() = [now]; [deflt] is ta.lifetime.
   Result: token and the expiry instant returned to the caller. *)
Definition gen_secret (key : list N) (serial : Z) (deflt : Z) (now : Z) (g : grec)
  : option (list N * Z) :=
  match effective_lifetime deflt g with
  | None => None
  | Some lt =>
    let expires := round_ms (now + lt) in
    Some (issue_at key serial expires g, expires)
  end.

End Token.

(* Init: len(config.Key) >= sha256.Size and config.ExpireIn > 0 *)
Definition token_init_ok (key : list N) (expire_in : Z) : bool :=
  (32 <=? length key)%nat && (0 <? expire_in)%Z.

(* harness helper: the expiry instant GenSecret returned lies between the values
   computed from clock readings taken before and after the call *)
Definition gen_bracket_ok (deflt t0 t1 : Z) (g : grec) (exp : Z) : bool :=
  match effective_lifetime deflt g with
  | None => false
  | Some lt => (round_ms (t0 + lt) <=? exp)%Z && (exp <=? round_ms (t1 + lt))%Z
  end.
