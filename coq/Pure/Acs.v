(* Model of server/store/types/types.go:524-835 (AccessMode, MarshalText,
   ParseAcs, UnmarshalText, Delta, ApplyDelta, ApplyMutation) and of the
   strings notifySubChange (server/topic.go:3369-3400) puts on the wire and
   updateAcsFromPresMsg (server/topic_proxy.go:287-310) applies.

   Modes are N; bytes are N < 256 (ASCII codes).  Definitions only: the proofs
   live in AcsProofs.v so the model still runs when a proof breaks. *)
From Coq Require Import NArith List Bool.
Import ListNotations.
Open Scope N_scope.

Definition ModeUnset : N := 256.
Definition ModeInvalid : N := 1048576.
Definition ModeBitmask : N := 255.
Definition ModeNone : N := 0.

Definition cJ := 74. Definition cR := 82. Definition cW := 87. Definition cP := 80.
Definition cA := 65. Definition cS := 83. Definition cD := 68. Definition cO := 79.
Definition cN := 78. Definition cPlus := 43. Definition cMinus := 45.

(* modes := []byte{'J','R','W','P','A','S','D','O'}, bit i <-> modes[i] *)
Definition mode_letters : list (N * N) :=
  [(0, cJ); (1, cR); (2, cW); (3, cP); (4, cA); (5, cS); (6, cD); (7, cO)].

Definition letters_of (m : N) : list N :=
  flat_map (fun p => if N.testbit m (fst p) then [snd p] else []) mode_letters.

(* MarshalText: None = error (ModeInvalid). *)
Definition marshal (m : N) : option (list N) :=
  if m =? ModeNone then Some [cN]
  else if m =? ModeInvalid then None
  else Some (letters_of m).

(* String(): "" on error *)
Definition mode_string (m : N) : list N :=
  match marshal m with Some s => s | None => [] end.

Definition upper (c : N) : N := if (97 <=? c) && (c <=? 122) then c - 32 else c.

(* bit contributed by one letter of ParseAcs' switch, either case *)
Definition letter_bit (c : N) : option N :=
  let u := upper c in
  if u =? cJ then Some 1 else if u =? cR then Some 2 else if u =? cW then Some 4
  else if u =? cP then Some 8 else if u =? cA then Some 16 else if u =? cS then Some 32
  else if u =? cD then Some 64 else if u =? cO then Some 128 else None.

Definition is_N (c : N) : bool := upper c =? cN.

(* ParseAcs as in the source before the repair (kept for the refutation
   theorem): after 'N' the loop is left (break Loop), so the rest of the
   input is not looked at.  None = error. *)
Fixpoint parse_loop_unrepaired (b : list N) (m0 : N) : option N :=
  match b with
  | [] => Some m0
  | c :: rest =>
    match letter_bit c with
    | Some bit => parse_loop_unrepaired rest (N.lor m0 bit)
    | None =>
      if is_N c then (if m0 =? ModeUnset then Some ModeNone else None)
      else None
    end
  end.
Definition parse_acs_unrepaired (b : list N) : option N := parse_loop_unrepaired b ModeUnset.

(* ParseAcs (repaired: 'N' is accepted only when it is the whole input:
   `if m0 != ModeUnset || i+1 < len(b) { return error }`).  None = error. *)
Fixpoint parse_loop (b : list N) (m0 : N) : option N :=
  match b with
  | [] => Some m0
  | c :: rest =>
    match letter_bit c with
    | Some bit => parse_loop rest (N.lor m0 bit)
    | None =>
      if is_N c then
        (if (m0 =? ModeUnset) && (match rest with [] => true | _ => false end)
         then Some ModeNone else None)
      else None
    end
  end.

Definition parse_acs (b : list N) : option N := parse_loop b ModeUnset.

(* UnmarshalText on a target holding [cur]: (new value, ok?) *)
Definition unmarshal_text (cur : N) (b : list N) : N * bool :=
  match parse_acs b with
  | None => (cur, false)
  | Some m0 => if m0 =? ModeUnset then (cur, true) else (N.land m0 ModeBitmask, true)
  end.

(* o.Delta(n) *)
Definition delta (o n : N) : list N :=
  let o2n := N.ldiff (N.land ModeBitmask o) n in
  let removed := if 0 <? o2n then
                   (match mode_string o2n with [] => [] | s => cMinus :: s end) else [] in
  let n2o := N.ldiff (N.land ModeBitmask n) o in
  let added := if 0 <? n2o then
                 (match mode_string n2o with [] => [] | s => cPlus :: s end) else [] in
  added ++ removed.

Definition is_sign (c : N) : bool := (c =? cPlus) || (c =? cMinus).

(* strings.IndexAny(s, "+-"): split s into the chunk before the first sign and
   the suffix starting at that sign (None when there is no sign). *)
Fixpoint split_sign (s : list N) : list N * option (list N) :=
  match s with
  | [] => ([], None)
  | c :: r => if is_sign c then ([], Some s)
              else let '(ch, tl) := split_sign r in (c :: ch, tl)
  end.

(* The index loop of ApplyDelta; [d] is delta[next:].  None = error. *)
Fixpoint apply_delta_loop (fuel : nat) (d : list N) (m0 : N) : option N :=
  match fuel with
  | O => Some m0
  | S f =>
    match d with
    | ch :: ((_ :: _) as rest) =>
      let '(chunk, tl) := split_sign rest in
      match parse_acs chunk with
      | None => None
      | Some upd =>
        let m1 :=
          if ch =? cPlus then
            Some (if upd =? ModeUnset then m0 else N.lor m0 (N.land upd ModeBitmask))
          else if ch =? cMinus then
            Some (if upd =? ModeUnset then m0 else N.ldiff m0 (N.land upd ModeBitmask))
          else None in
        match m1 with
        | None => None
        | Some m1 => match tl with
                     | None => Some m1           (* next = -1: loop ends *)
                     | Some t => apply_delta_loop f t m1
                     end
        end
      end
    | _ => Some m0                                (* next+1 >= len(delta) *)
    end
  end.

Definition list_eqb (a b : list N) : bool :=
  Nat.eqb (length a) (length b) && forallb (fun p => fst p =? snd p) (combine a b).

(* ApplyDelta on a target holding [cur]: (new value, ok?) *)
Definition apply_delta (cur : N) (d : list N) : N * bool :=
  match d with
  | [] => (cur, true)
  | _ => if list_eqb d [cN] then (cur, true)
         else match apply_delta_loop (length d) d cur with
              | Some m => (m, true)
              | None => (cur, false)
              end
  end.

(* ApplyMutation *)
Definition apply_mutation (cur : N) (mu : list N) : N * bool :=
  match mu with
  | [] => (cur, true)
  | _ => if existsb is_sign mu then apply_delta cur mu else unmarshal_text cur mu
  end.

Definition is_defined (m : N) : bool := negb (m =? ModeInvalid) && negb (m =? ModeUnset).

(* the dWant / dGiven string of notifySubChange *)
Definition notify_string (old new : N) : list N :=
  if is_defined new then
    (if is_defined old && negb (old =? ModeNone) then delta old new else mode_string new)
  else mode_string ModeNone.

(* what a tracker (updateAcsFromPresMsg; a client session) holds after the
   notification; on error it keeps its value *)
Definition track (tracked : N) (old new : N) : N :=
  fst (apply_mutation tracked (notify_string old new)).

(* effective mode *)
Definition effective (want given : N) : N := N.land want given.

(* BetterThan / BetterEqual *)
Definition better_than (grant want : N) : bool :=
  negb (N.ldiff (N.land ModeBitmask grant) want =? 0).
Definition better_equal (grant want : N) : bool :=
  N.land (N.land ModeBitmask grant) want =? want.
