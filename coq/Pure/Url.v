(* Model of media.GetIdFromUrl (server/media/media.go:44-55):

     dir, fname := path.Split(path.Clean(url))
     if dir != "" && dir != serveUrl { return ZeroUid }
     return types.ParseUid(fileNamePattern.FindString(fname))     // ^[-_A-Za-z0-9]+

   Bytes are N (< 256), strings are list N, a Uid is N (0 = ZeroUid).
   Definitions only; the lemmas are in Pure/UrlProofs.v.

   path.Clean (Go standard library, path/path.go) is modelled by its meaning:
   split on '/', run the elements through a stack ("" and "." are dropped,
   ".." pops a real element, or is kept when the path is not rooted and nothing
   can be popped, or is dropped at the root), join with '/'.  The driver compares
   it with Go's path.Clean byte for byte on every run. *)
From Coq Require Import NArith List Bool.
Import ListNotations.
Open Scope N_scope.

Definition cSlash : N := 47.
Definition cDot : N := 46.

(* elements between slashes; never the empty list: "" -> [""], "a/" -> ["a";""] *)
Fixpoint split_slash (s : list N) : list (list N) :=
  match s with
  | [] => [[]]
  | c :: r =>
    if c =? cSlash then [] :: split_slash r
    else match split_slash r with
         | e :: es => (c :: e) :: es
         | [] => [[c]]
         end
  end.

Definition is_dot (e : list N) : bool :=
  match e with [c] => c =? cDot | _ => false end.

Definition is_dotdot (e : list N) : bool :=
  match e with [c; d] => (c =? cDot) && (d =? cDot) | _ => false end.

(* the stack holds the output elements, last one first *)
Definition clean_step (rooted : bool) (st : list (list N)) (e : list N) : list (list N) :=
  match e with
  | [] => st                                   (* empty path element *)
  | _ =>
    if is_dot e then st                        (* . element *)
    else if is_dotdot e then                   (* .. element *)
      match st with
      | top :: rest =>
        if is_dotdot top then e :: st          (* leading ../.. of an unrooted path *)
        else rest                              (* can backtrack *)
      | [] => if rooted then [] else [e]
      end
    else e :: st                               (* real path element *)
  end.

Fixpoint join_slash (es : list (list N)) : list N :=
  match es with
  | [] => []
  | [e] => e
  | e :: r => e ++ cSlash :: join_slash r
  end.

Definition is_rooted (p : list N) : bool :=
  match p with c :: _ => c =? cSlash | [] => false end.

Definition clean_elems (p : list N) : list (list N) :=
  rev (fold_left (clean_step (is_rooted p)) (split_slash p) []).

Definition path_clean (p : list N) : list N :=
  match p with
  | [] => [cDot]
  | _ =>
    let body := join_slash (clean_elems p) in
    if is_rooted p then cSlash :: body
    else match body with [] => [cDot] | _ => body end
  end.

(* path.Split: everything up to and including the last slash, and the rest *)
Fixpoint path_split (p : list N) : list N * list N :=
  match p with
  | [] => ([], [])
  | c :: r =>
    let (d, f) := path_split r in
    if c =? cSlash then (c :: d, f)
    else match d with
         | [] => ([], c :: f)
         | _ => (c :: d, f)
         end
  end.

(* the class [-_A-Za-z0-9] *)
Definition fname_char (c : N) : bool :=
  (c =? 45) || (c =? 95) ||
  ((65 <=? c) && (c <=? 90)) || ((97 <=? c) && (c <=? 122)) || ((48 <=? c) && (c <=? 57)).

(* regexp ^[-_A-Za-z0-9]+ FindString: the longest prefix in the class ("" = no match) *)
Fixpoint fname_prefix (s : list N) : list N :=
  match s with
  | c :: r => if fname_char c then c :: fname_prefix r else []
  | [] => []
  end.

Fixpoint fname_rest (s : list N) : list N :=
  match s with
  | c :: r => if fname_char c then fname_rest r else s
  | [] => []
  end.

(* value of a base64url digit; only called on bytes of the class *)
Definition b64url_val (c : N) : N :=
  if (65 <=? c) && (c <=? 90) then c - 65
  else if (97 <=? c) && (c <=? 122) then c - 71
  else if (48 <=? c) && (c <=? 57) then c + 4
  else if c =? 45 then 62
  else 63.

Definition b64_number (s : list N) : N :=
  fold_left (fun acc c => acc * 64 + b64url_val c) s 0.

(* the 8 bytes, first byte first, of a 64-bit big-endian number *)
Definition be_bytes8 (v : N) : list N :=
  map (fun i => (v / 2 ^ (8 * i)) mod 256) [7; 6; 5; 4; 3; 2; 1; 0].

Definition le_number (bs : list N) : N :=
  fold_right (fun b acc => b + 256 * acc) 0 bs.

(* types.ParseUid restricted to strings over the class (the only strings
   GetIdFromUrl passes to it): exactly 11 digits, 66 bits, the last two bits are
   dropped by Go's non-strict decoder, the 8 bytes are read little-endian. *)
Definition parse_uid (s : list N) : N :=
  if (N.of_nat (length s) =? 11) && forallb fname_char s then
    le_number (be_bytes8 (b64_number s / 4))
  else 0.

Definition list_N_eqb (a b : list N) : bool :=
  if list_eq_dec N.eq_dec a b then true else false.

Definition get_id_from_url (serve url : list N) : N :=
  let (dir, fname) := path_split (path_clean url) in
  match dir with
  | [] => parse_uid (fname_prefix fname)
  | _ => if list_N_eqb dir serve then parse_uid (fname_prefix fname) else 0
  end.

(* vocabulary of the theorems: a path element that is neither empty nor "." nor ".." *)
Definition real_elem (e : list N) : Prop := e <> [] /\ is_dot e = false /\ is_dotdot e = false.
