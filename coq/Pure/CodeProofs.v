(* Lemmas about Pure/Code.v: at most one success between two GenSecret, lock-out
   after max_retries failures; every operation sequence, by induction. *)
From Coq Require Import NArith ZArith List Bool Lia ZifyBool ZifyNat ZifyN.
From Tinode Require Import Pure.Token Pure.TokenProofs Pure.Code.
Import ListNotations.
Open Scope Z_scope.

Definition wf (st : cstore) : Prop := NoDup (map fst st).

Lemma beq_true a b : bytes_eqb a b = true -> a = b.
Proof. apply bytes_eqb_eq. Qed.
Lemma beq_false a b : bytes_eqb a b = false -> a <> b.
Proof. intros H E. apply bytes_eqb_eq in E. congruence. Qed.
Lemma beq_neq a b : a <> b -> bytes_eqb a b = false.
Proof. intros H. destruct (bytes_eqb a b) eqn:E; [apply beq_true in E; contradiction|reflexivity]. Qed.

Lemma cget_in k st e : cget k st = Some e -> In (k, e) st.
Proof.
  induction st as [|[k' e'] r IH]; cbn [cget]; [discriminate|].
  destruct (bytes_eqb k k') eqn:E.
  - intros [= ->]. apply beq_true in E. subst. now left.
  - intros H. right. auto.
Qed.

Lemma cget_notin k st : ~ In k (map fst st) -> cget k st = None.
Proof.
  induction st as [|[k' e'] r IH]; cbn [cget map fst]; [reflexivity|]. intros H.
  destruct (bytes_eqb k k') eqn:E.
  - apply beq_true in E. subst. exfalso. apply H. now left.
  - apply IH. intros Hin. apply H. now right.
Qed.

Lemma cget_none_notin k st : cget k st = None -> ~ In k (map fst st).
Proof.
  induction st as [|[k' e'] r IH]; cbn [cget map fst]; [tauto|].
  destruct (bytes_eqb k k') eqn:E; [discriminate|]. apply beq_false in E.
  intros H [Hk|Hin]; [congruence|]. now apply IH.
Qed.

Lemma keys_cdel k x st : In x (map fst (cdel k st)) -> In x (map fst st) /\ x <> k.
Proof.
  induction st as [|[k' e'] r IH]; cbn [cdel map fst]; [tauto|].
  destruct (bytes_eqb k k') eqn:E.
  - intros H. destruct (IH H). split; [now right|assumption].
  - apply beq_false in E. cbn [map fst]. intros [->|H].
    + split; [now left|congruence].
    + destruct (IH H). split; [now right|assumption].
Qed.

Lemma wf_cdel k st : wf st -> wf (cdel k st).
Proof.
  unfold wf. induction st as [|[k' e'] r IH]; cbn [cdel map fst]; [auto|].
  intros H. inversion H as [|? ? Hn Hr]; subst.
  destruct (bytes_eqb k k'); [auto|]. cbn [map fst]. constructor; [|auto].
  intros Hin. apply keys_cdel in Hin. tauto.
Qed.

Lemma cget_cdel_same k st : cget k (cdel k st) = None.
Proof. apply cget_notin. intros H. apply keys_cdel in H. tauto. Qed.

Lemma cget_cdel_other k k' st : k <> k' -> cget k (cdel k' st) = cget k st.
Proof.
  intros Hne. induction st as [|[k2 e2] r IH]; cbn [cdel cget]; [reflexivity|].
  destruct (bytes_eqb k' k2) eqn:E.
  - apply beq_true in E. subst k2. rewrite (beq_neq k k') by assumption. exact IH.
  - cbn [cget]. destruct (bytes_eqb k k2); [reflexivity|exact IH].
Qed.

Lemma wf_cput k e st : wf st -> wf (cput k e st).
Proof.
  intros H. unfold wf, cput. cbn [map fst]. constructor; [|now apply wf_cdel].
  intros Hin. apply keys_cdel in Hin. tauto.
Qed.

Lemma cget_cput_same k e st : cget k (cput k e st) = Some e.
Proof. unfold cput. cbn [cget]. now rewrite bytes_eqb_refl. Qed.

Lemma cget_cput_other k k' e st : k <> k' -> cget k (cput k' e st) = cget k st.
Proof. intros H. unfold cput. cbn [cget]. rewrite (beq_neq _ _ H). now apply cget_cdel_other. Qed.

Lemma keys_filter (f : list N * centry -> bool) x st :
  In x (map fst (filter f st)) -> In x (map fst st).
Proof.
  induction st as [|p r IH]; cbn [filter map]; [tauto|].
  destruct (f p); cbn [map]; intros H; [destruct H; [now left|right; auto]|right; auto].
Qed.

Lemma wf_filter f st : wf st -> wf (filter f st).
Proof.
  unfold wf. induction st as [|p r IH]; cbn [filter map]; [auto|].
  intros H. inversion H as [|? ? Hn Hr]; subst.
  destruct (f p); [|auto]. cbn [map]. constructor; [|auto].
  intros Hin. apply Hn. now apply keys_filter in Hin.
Qed.

Lemma cget_filter f k st : wf st ->
  cget k (filter f st) = match cget k st with Some e => if f (k, e) then Some e else None | None => None end.
Proof.
  unfold wf. induction st as [|[k' e'] r IH]; cbn [filter cget map fst]; [reflexivity|].
  intros H. inversion H as [|? ? Hn Hr]; subst.
  destruct (bytes_eqb k k') eqn:E.
  - apply beq_true in E. subst k'. destruct (f (k, e')) eqn:F.
    + cbn [cget]. now rewrite bytes_eqb_refl.
    + apply cget_notin. intros Hin. apply Hn. now apply keys_filter in Hin.
  - destruct (f (k', e')); [cbn [cget]; rewrite E|]; now apply IH.
Qed.

(* ------------------------------------------------------------------ *)
(* effect of one operation, other than GenSecret for K, on the row of key K *)

Lemma step_effect cfg st op st' res K :
  wf (cs_store st) -> is_gen_for K op = false -> cstep cfg st op = (st', res) ->
  wf (cs_store st') /\
  if is_auth_for K op then
    match cget K (cs_store st) with
    | None => is_ok res = false /\ cget K (cs_store st') = None
    | Some e =>
      if cc_max_retries cfg <=? ce_count e
      then is_ok res = false /\ cget K (cs_store st') = Some e
      else (is_ok res = false /\ exists e', cget K (cs_store st') = Some e' /\ ce_count e' = ce_count e + 1)
           \/ (is_ok res = true /\ cget K (cs_store st') = None)
    end
  else cget K (cs_store st') = None \/ cget K (cs_store st') = cget K (cs_store st).
Proof.
  intros W G S. destruct op as [cred uid lt nc|secret|d]; cbn [cstep is_gen_for is_auth_for] in *.
  - (* GenSecret for another key *)
    apply beq_false in G.
    set (s1 := cexpire (cs_now st - cc_lifetime cfg) (cs_store st)) in *.
    assert (W1 : wf s1) by (apply wf_filter; exact W).
    assert (E1 : cget K s1 = None \/ cget K s1 = cget K (cs_store st)).
    { unfold s1, cexpire. rewrite cget_filter by exact W.
      destruct (cget K (cs_store st)); [|now left].
      match goal with |- context [if ?b then _ else _] => destruct b end; [now right|now left]. }
    destruct (lt <? 0); [injection S as <- <-; cbn; tauto|].
    destruct (cget (key_of_cred cred) s1); injection S as <- <-; cbn [cs_store]; [tauto|].
    split; [now apply wf_cput|]. rewrite cget_cput_other by exact G. exact E1.
  - (* Authenticate *)
    unfold auth_key. destruct (split_colon secret) as [[code cred]|].
    2:{ injection S as <- <-. split; [exact W|now right]. }
    set (k := key_of_cred cred) in *.
    destruct (bytes_eqb K k) eqn:EK.
    + apply beq_true in EK. subst K.
      destruct (cget k (cs_store st)) as [e|] eqn:Eg.
      2:{ injection S as <- <-. rewrite Eg. split; [exact W|split; reflexivity]. }
      destruct (cc_max_retries cfg <=? ce_count e).
      { injection S as <- <-. rewrite Eg. split; [exact W|split; reflexivity]. }
      destruct (bytes_eqb (ce_code e) code); cbn [negb] in S; injection S as <- <-; cbn [cs_store].
      * split; [now apply wf_cdel|]. right. split; [reflexivity|apply cget_cdel_same].
      * split; [now apply wf_cput|]. left. split; [reflexivity|].
        eexists. split; [apply cget_cput_same|reflexivity].
    + apply beq_false in EK.
      destruct (cget k (cs_store st)) as [e|] eqn:Eg.
      2:{ injection S as <- <-. split; [exact W|now right]. }
      destruct (cc_max_retries cfg <=? ce_count e).
      { injection S as <- <-. split; [exact W|now right]. }
      destruct (bytes_eqb (ce_code e) code); cbn [negb] in S; injection S as <- <-; cbn [cs_store].
      * split; [now apply wf_cdel|]. right. now apply cget_cdel_other.
      * split; [now apply wf_cput|]. right. now apply cget_cput_other.
  - injection S as <- <-. cbn. split; [exact W|now right].
Qed.

Definition no_gen (K : list N) (ops : list cop) : Prop := forallb (fun op => negb (is_gen_for K op)) ops = true.

Lemma no_gen_cons K op r : no_gen K (op :: r) -> is_gen_for K op = false /\ no_gen K r.
Proof.
  unfold no_gen. cbn [forallb]. intros H. apply andb_true_iff in H. destruct H as [H1 H2].
  split; [now apply negb_true_iff in H1|exact H2].
Qed.

Lemma no_gen_app K a b : no_gen K (a ++ b) -> no_gen K a /\ no_gen K b.
Proof. unfold no_gen. rewrite forallb_app. apply andb_true_iff. Qed.

(* a key without a row stays without a row, and nothing succeeds for it *)
Lemma absent_zero K cfg ops : forall st,
  wf (cs_store st) -> cget K (cs_store st) = None -> no_gen K ops -> succ_count K cfg st ops = O.
Proof.
  induction ops as [|op r IH]; intros st W A NG; cbn [succ_count]; [reflexivity|].
  apply no_gen_cons in NG. destruct NG as [G NG].
  destruct (cstep cfg st op) as [st1 res] eqn:S.
  destruct (step_effect _ _ _ _ _ K W G S) as [W1 E].
  destruct (is_auth_for K op); cbn [andb].
  - rewrite A in E. destruct E as [E1 E2]. rewrite E1. cbn. now apply IH.
  - cbn. apply IH; try assumption. destruct E as [E|E]; [exact E|congruence].
Qed.

Lemma once K cfg ops : forall st,
  wf (cs_store st) -> no_gen K ops -> (succ_count K cfg st ops <= 1)%nat.
Proof.
  induction ops as [|op r IH]; intros st W NG; cbn [succ_count]; [lia|].
  apply no_gen_cons in NG. destruct NG as [G NG].
  destruct (cstep cfg st op) as [st1 res] eqn:S.
  destruct (step_effect _ _ _ _ _ K W G S) as [W1 E].
  destruct (is_auth_for K op); cbn [andb].
  - destruct (cget K (cs_store st)) as [e|].
    + destruct (cc_max_retries cfg <=? ce_count e).
      * destruct E as [E1 _]. rewrite E1. cbn. now apply IH.
      * destruct E as [[E1 _]|[E1 E2]]; rewrite E1.
        -- cbn. now apply IH.
        -- rewrite (absent_zero K cfg r st1 W1 E2 NG). lia.
    + destruct E as [E1 E2]. rewrite E1. cbn. now apply IH.
  - cbn. now apply IH.
Qed.

(* lower bound m on the attempt counter of K's row (vacuous without a row) *)
Definition linv (K : list N) (m : Z) (st : cstate) : Prop :=
  match cget K (cs_store st) with None => True | Some e => m <= ce_count e end.

Lemma locked_zero K cfg ops : forall st,
  wf (cs_store st) -> linv K (cc_max_retries cfg) st -> no_gen K ops -> succ_count K cfg st ops = O.
Proof.
  induction ops as [|op r IH]; intros st W L NG; cbn [succ_count]; [reflexivity|].
  apply no_gen_cons in NG. destruct NG as [G NG].
  destruct (cstep cfg st op) as [st1 res] eqn:S.
  destruct (step_effect _ _ _ _ _ K W G S) as [W1 E]. unfold linv in *.
  destruct (is_auth_for K op); cbn [andb].
  - destruct (cget K (cs_store st)) as [e|].
    + destruct (Z.leb_spec (cc_max_retries cfg) (ce_count e)); [|lia].
      destruct E as [E1 E2]. rewrite E1. cbn. apply IH; try assumption. now rewrite E2.
    + destruct E as [E1 E2]. rewrite E1. cbn. apply IH; try assumption. now rewrite E2.
  - cbn. apply IH; try assumption. destruct E as [E|E]; rewrite E; [exact I|exact L].
Qed.

Lemma fail_progress K cfg ops : forall st m,
  wf (cs_store st) -> linv K m st -> no_gen K ops ->
  wf (cs_store (fst (crun cfg st ops))) /\
  linv K (Z.min (cc_max_retries cfg) (m + Z.of_nat (fail_count K cfg st ops))) (fst (crun cfg st ops)).
Proof.
  induction ops as [|op r IH]; intros st m W L NG; cbn [fail_count crun].
  - cbn [fst]. split; [exact W|]. unfold linv in *. destruct (cget K (cs_store st)); [lia|exact I].
  - apply no_gen_cons in NG. destruct NG as [G NG].
    destruct (cstep cfg st op) as [st1 res] eqn:S.
    destruct (step_effect _ _ _ _ _ K W G S) as [W1 E].
    destruct (crun cfg st1 r) as [st2 rs] eqn:R. cbn [fst].
    assert (IH' : forall m', linv K m' st1 ->
              wf (cs_store st2) /\
              linv K (Z.min (cc_max_retries cfg) (m' + Z.of_nat (fail_count K cfg st1 r))) st2).
    { intros m' L'. specialize (IH st1 m' W1 L' NG). rewrite R in IH. exact IH. }
    unfold linv in L.
    destruct (is_auth_for K op); cbn [andb].
    + destruct (cget K (cs_store st)) as [e|].
      * destruct (Z.leb_spec (cc_max_retries cfg) (ce_count e)).
        -- destruct E as [E1 E2]. rewrite E1. cbn [negb].
           destruct (IH' (Z.min (cc_max_retries cfg) (m + 1))) as [W2 L2].
           { unfold linv. rewrite E2. lia. }
           split; [exact W2|]. unfold linv in *. destruct (cget K (cs_store st2)); [lia|exact I].
        -- destruct E as [[E1 (e' & E2 & E3)]|[E1 E2]]; rewrite E1; cbn [negb].
           ++ destruct (IH' (m + 1)) as [W2 L2]. { unfold linv. rewrite E2. lia. }
              split; [exact W2|]. unfold linv in *. destruct (cget K (cs_store st2)); [lia|exact I].
           ++ destruct (IH' m) as [W2 L2]. { unfold linv. now rewrite E2. }
              split; [exact W2|]. unfold linv in *. destruct (cget K (cs_store st2)); [lia|exact I].
      * destruct E as [E1 E2]. rewrite E1. cbn [negb].
        destruct (IH' (m + 1)) as [W2 L2]. { unfold linv. now rewrite E2. }
        split; [exact W2|]. unfold linv in *. destruct (cget K (cs_store st2)); [lia|exact I].
    + destruct (IH' m) as [W2 L2].
      { unfold linv. destruct E as [E|E]; rewrite E; [exact I|exact L]. }
      split; [exact W2|]. unfold linv in *. destruct (cget K (cs_store st2)); [lia|exact I].
Qed.

Lemma lockout K cfg ops1 ops2 st :
  wf (cs_store st) -> linv K 0 st -> no_gen K (ops1 ++ ops2) ->
  cc_max_retries cfg <= Z.of_nat (fail_count K cfg st ops1) ->
  succ_count K cfg (fst (crun cfg st ops1)) ops2 = O.
Proof.
  intros W L NG F. apply no_gen_app in NG. destruct NG as [NG1 NG2].
  destruct (fail_progress K cfg ops1 st 0 W L NG1) as [W2 L2].
  apply locked_zero; try assumption.
  unfold linv in *. destruct (cget K (cs_store (fst (crun cfg st ops1)))); [lia|exact I].
Qed.

(* ------------------------------------------------------------------ *)
(* reachable states: unique keys, counters >= 0 *)

Definition counts_nonneg (st : cstore) : Prop := Forall (fun p => 0 <= ce_count (snd p)) st.

Lemma counts_cdel k st : counts_nonneg st -> counts_nonneg (cdel k st).
Proof.
  unfold counts_nonneg. induction 1 as [|[k' e'] r H1 H2 IH]; cbn [cdel]; [constructor|].
  destruct (bytes_eqb k k'); [exact IH|constructor; assumption].
Qed.

Lemma counts_filter f st : counts_nonneg st -> counts_nonneg (filter f st).
Proof.
  unfold counts_nonneg. induction 1 as [|p r H1 H2 IH]; cbn [filter]; [constructor|].
  destruct (f p); [constructor; assumption|exact IH].
Qed.

Lemma counts_linv K st : counts_nonneg (cs_store st) -> linv K 0 st.
Proof.
  intros H. unfold linv. destruct (cget K (cs_store st)) as [e|] eqn:E; [|exact I].
  apply cget_in in E. unfold counts_nonneg in H. rewrite Forall_forall in H. exact (H _ E).
Qed.

Lemma step_reach cfg st op :
  wf (cs_store st) -> counts_nonneg (cs_store st) ->
  wf (cs_store (fst (cstep cfg st op))) /\ counts_nonneg (cs_store (fst (cstep cfg st op))).
Proof.
  intros W C. destruct op as [cred uid lt nc|secret|d]; cbn [cstep].
  - set (s1 := cexpire _ _).
    assert (wf s1 /\ counts_nonneg s1) as [W1 C1] by (split; [now apply wf_filter|now apply counts_filter]).
    destruct (lt <? 0); [cbn; tauto|].
    destruct (cget (key_of_cred cred) s1); cbn [fst cs_store]; [tauto|].
    split; [now apply wf_cput|]. constructor; [cbn; lia|now apply counts_cdel].
  - destruct (split_colon secret) as [[code cred]|]; [|cbn; tauto].
    destruct (cget (key_of_cred cred) (cs_store st)) as [e|] eqn:E; [|cbn; tauto].
    destruct (cc_max_retries cfg <=? ce_count e); [cbn; tauto|].
    destruct (bytes_eqb (ce_code e) code); cbn [negb fst cs_store].
    + split; [now apply wf_cdel|now apply counts_cdel].
    + split; [now apply wf_cput|]. constructor; [|now apply counts_cdel].
      cbn [snd ce_count]. apply cget_in in E. unfold counts_nonneg in C. rewrite Forall_forall in C.
      specialize (C _ E). cbn in C. lia.
  - cbn. tauto.
Qed.

Lemma run_reach cfg ops : forall st,
  wf (cs_store st) -> counts_nonneg (cs_store st) ->
  wf (cs_store (fst (crun cfg st ops))) /\ counts_nonneg (cs_store (fst (crun cfg st ops))).
Proof.
  induction ops as [|op r IH]; intros st W C; cbn [crun]; [cbn; tauto|].
  destruct (step_reach cfg st op W C) as [W1 C1].
  destruct (cstep cfg st op) as [st1 res]. cbn [fst] in *.
  specialize (IH st1 W1 C1). destruct (crun cfg st1 r) as [st2 rs]. exact IH.
Qed.

Lemma init_reach : wf (cs_store cinit) /\ counts_nonneg (cs_store cinit).
Proof. split; constructor. Qed.

(* ------------------------------------------------------------------ *)
(* life time of a code *)

(* the code as it is never looks at the clock in Authenticate: a code stays valid
   until some later GenSecret (for any credential) collects it *)
Definition code_expiry_statement : Prop :=
  forall cfg st secret st' uid cred code,
  wf (cs_store st) -> split_colon secret = Some (code, cred) ->
  cstep cfg st (CAuth secret) = (st', CAuthOk uid cred) ->
  exists e, cget (key_of_cred cred) (cs_store st) = Some e /\ cs_now st - cc_lifetime cfg <= ce_created e.

Lemma code_expiry_refuted : ~ code_expiry_statement.
Proof.
  intros H.
  set (cfg := mkCC 3 10000000000).
  set (st := fst (crun cfg cinit [CGen [97%N] 9%N 0 [49%N; 50%N]; CAdv 24000000000])).
  destruct (H cfg st [49%N; 50%N; 58%N; 97%N] (mkCS [] 24000000000) 9%N [97%N] [49%N; 50%N]) as (e & G & L).
  - repeat constructor. intros [].
  - reflexivity.
  - reflexivity.
  - vm_compute in G. injection G as <-. vm_compute in L. apply L. reflexivity.
Qed.

Lemma code_expiry_fixed cfg st secret st' uid cred code :
  wf (cs_store st) -> split_colon secret = Some (code, cred) ->
  cstep_fixed cfg st (CAuth secret) = (st', CAuthOk uid cred) ->
  exists e, cget (key_of_cred cred) (cs_store st) = Some e /\ cs_now st - cc_lifetime cfg <= ce_created e.
Proof.
  intros W S. cbn [cstep_fixed cstep cs_store cs_now]. rewrite S.
  unfold cexpire. rewrite cget_filter by exact W.
  destruct (cget (key_of_cred cred) (cs_store st)) as [e|]; [|intros [= _ H]; discriminate].
  cbn [snd]. destruct (ce_created e <? cs_now st - cc_lifetime cfg) eqn:E; cbn [negb];
    [intros [= _ H]; discriminate|].
  intros _. exists e. split; [reflexivity|lia].
Qed.
