(* Lemmas about Pure/P2PName.v. *)
From Coq Require Import NArith ZArith List Bool Lia Arith.
From Coq Require Import ZifyBool ZifyNat ZifyN.
From Tinode Require Import Base.Util Base.Base64 Base.Base64Proofs Pure.Uid Pure.UidProofs Pure.P2PName.
Import ListNotations.
Open Scope N_scope.

Definition valid_uid (u : N) : Prop := u <> 0 /\ u < two64.

(* the name of an ordered pair lo < hi *)
Definition p2p_body (lo hi : N) : list N := b64_encode (le_bytes 8 lo ++ le_bytes 8 hi).

Lemma p2p_name_lt a b : a <> 0 -> a < b -> p2p_name a b = s_p2p ++ p2p_body a b.
Proof.
  intros Ha Hab. unfold p2p_name, p2p_body, marshal_binary.
  destruct (a =? 0) eqn:E1; [lia|]. destruct (b =? 0) eqn:E2; [lia|]. cbn [negb andb].
  destruct (a <? b) eqn:E3; [reflexivity|lia].
Qed.

Theorem p2p_commutes a b : p2p_name a b = p2p_name b a.
Proof.
  unfold p2p_name.
  destruct (a =? 0) eqn:E1; destruct (b =? 0) eqn:E2; cbn [negb andb]; try reflexivity.
  destruct (a <? b) eqn:E3; destruct (b <? a) eqn:E4; try reflexivity; lia.
Qed.

Lemma p2p_body_length a b : length (p2p_body a b) = 22%nat.
Proof. reflexivity. Qed.

Lemma le_uint64_app x r : x < two64 -> le_uint64 (le_bytes 8 x ++ r) = x.
Proof.
  intros H. unfold le_uint64. rewrite firstn_app, le_bytes_length. cbn [Nat.sub firstn].
  rewrite app_nil_r. exact (le_uint64_le_bytes x H).
Qed.

Lemma skipn8_app x r : skipn 8 (le_bytes 8 x ++ r) = r.
Proof. reflexivity. Qed.

Lemma parse_p2p_body a b : a < two64 -> b < two64 -> parse_p2p (s_p2p ++ p2p_body a b) = Some (a, b).
Proof.
  intros Ha Hb. unfold parse_p2p. rewrite has_prefix_app.
  change (skipn 3 (s_p2p ++ p2p_body a b)) with (p2p_body a b).
  rewrite p2p_body_length. cbn [p2pBase64Unpadded Nat.eqb negb]. unfold p2p_body.
  assert (F : Forall lt256 (le_bytes 8 a ++ le_bytes 8 b)).
  { apply Forall_app. split; apply le_bytes_lt256. }
  pose proof (b64_decode_encode _ F) as D.
  destruct (b64_decode (b64_encode (le_bytes 8 a ++ le_bytes 8 b))) as [dec fl]. cbn [fst] in D. subst dec.
  rewrite app_length, !le_bytes_length. cbn [Nat.add Nat.ltb Nat.leb].
  rewrite skipn8_app, le_uint64_app by assumption.
  rewrite <- (app_nil_r (le_bytes 8 b)). now rewrite le_uint64_app.
Qed.

Theorem p2p_parse a b : valid_uid a -> valid_uid b -> a <> b ->
  parse_p2p (p2p_name a b) = Some (N.min a b, N.max a b).
Proof.
  intros [Ha0 Ha] [Hb0 Hb] Hab. destruct (N.lt_ge_cases a b) as [L|L].
  - rewrite p2p_name_lt by assumption. rewrite parse_p2p_body by assumption. f_equal. f_equal; lia.
  - rewrite p2p_commutes, p2p_name_lt by lia. rewrite parse_p2p_body by assumption. f_equal. f_equal; lia.
Qed.

Theorem p2p_injective a b c d :
  valid_uid a -> valid_uid b -> valid_uid c -> valid_uid d -> a <> b -> c <> d ->
  p2p_name a b = p2p_name c d -> (a = c /\ b = d) \/ (a = d /\ b = c).
Proof.
  intros Ha Hb Hc Hd Hab Hcd E.
  pose proof (p2p_parse a b Ha Hb Hab) as P1. pose proof (p2p_parse c d Hc Hd Hcd) as P2.
  rewrite E, P2 in P1. inversion P1. lia.
Qed.

Theorem p2p_no_self a b : a = 0 \/ b = 0 \/ a = b -> p2p_name a b = [] /\ parse_p2p (p2p_name a b) = None.
Proof.
  intros H. assert (E : p2p_name a b = []).
  { unfold p2p_name. destruct (a =? 0) eqn:E1; destruct (b =? 0) eqn:E2; cbn [negb andb]; try reflexivity.
    destruct (a <? b) eqn:E3; destruct (b <? a) eqn:E4; try reflexivity; lia. }
  rewrite E. split; reflexivity.
Qed.

Theorem p2p_name_nonempty a b : valid_uid a -> valid_uid b -> a <> b ->
  exists body, p2p_name a b = s_p2p ++ body /\ length body = 22%nat.
Proof.
  intros [Ha0 _] [Hb0 _] Hab. destruct (N.lt_ge_cases a b) as [L|L].
  - exists (p2p_body a b). split; [now apply p2p_name_lt|reflexivity].
  - exists (p2p_body b a). split; [rewrite p2p_commutes; apply p2p_name_lt; lia|reflexivity].
Qed.

Theorem p2p_for_user a b : valid_uid a -> valid_uid b -> a <> b ->
  p2p_name_for_user a (p2p_name a b) = Some (user_id b) /\
  p2p_name_for_user b (p2p_name a b) = Some (user_id a).
Proof.
  intros Ha Hb Hab. unfold p2p_name_for_user. rewrite (p2p_parse a b Ha Hb Hab).
  destruct (N.lt_ge_cases a b) as [L|L].
  - rewrite N.min_l, N.max_r by lia. rewrite N.eqb_refl.
    destruct (b =? a) eqn:E; [lia|]. split; reflexivity.
  - rewrite N.min_r, N.max_l by lia. rewrite N.eqb_refl.
    destruct (a =? b) eqn:E; [lia|]. split; reflexivity.
Qed.

(* a name that does not parse is shown to nobody *)
Theorem p2p_for_user_unparsable u s : parse_p2p s = None -> p2p_name_for_user u s = None.
Proof. unfold p2p_name_for_user. now intros ->. Qed.

Theorem parse_p2p_bad_prefix s : has_prefix s s_p2p = false -> parse_p2p s = None.
Proof. unfold parse_p2p. now intros ->. Qed.
