(* Lemmas about Pure/P2PName.v. *)
From Coq Require Import NArith ZArith List Bool Lia Arith.
From Coq Require Import ZifyBool ZifyNat ZifyN.
From Tinode Require Import Base.Util Base.Base64 Base.Base64Proofs Pure.Uid Pure.UidProofs Pure.P2PName.
Import ListNotations.
Open Scope N_scope.

Definition valid_uid (u : N) : Prop := u <> 0 /\ u < two64.

(* the name of an ordered pair lo < hi *)
Definition p2p_body (lo hi : N) : list N := b64_encode (le_bytes 8 lo ++ le_bytes 8 hi).

Lemma p2p_name_lt a b : a <> 0 -> a < b -> p2p_name a b = s_p2p ++ p2p_body a b.
Proof.
  intros Ha Hab. unfold p2p_name, p2p_body, marshal_binary.
  destruct (a =? 0) eqn:E1; [lia|]. destruct (b =? 0) eqn:E2; [lia|]. cbn [negb andb].
  destruct (a <? b) eqn:E3; [reflexivity|lia].
Qed.

Theorem p2p_commutes a b : p2p_name a b = p2p_name b a.
Proof.
  unfold p2p_name.
  destruct (a =? 0) eqn:E1; destruct (b =? 0) eqn:E2; cbn [negb andb]; try reflexivity.
  destruct (a <? b) eqn:E3; destruct (b <? a) eqn:E4; try reflexivity; lia.
Qed.

Lemma p2p_body_length a b : length (p2p_body a b) = 22%nat.
Proof. reflexivity. Qed.

Lemma le_uint64_app x r : x < two64 -> le_uint64 (le_bytes 8 x ++ r) = x.
Proof.
  intros H. unfold le_uint64. rewrite firstn_app, le_bytes_length. cbn [Nat.sub firstn].
  rewrite app_nil_r. exact (le_uint64_le_bytes x H).
Qed.

Lemma skipn8_app x r : skipn 8 (le_bytes 8 x ++ r) = r.
Proof. reflexivity. Qed.

Lemma parse_p2p_body a b : a < two64 -> b < two64 -> parse_p2p (s_p2p ++ p2p_body a b) = Some (a, b).
Proof.
  intros Ha Hb. unfold parse_p2p. rewrite has_prefix_app.
  change (skipn 3 (s_p2p ++ p2p_body a b)) with (p2p_body a b).
  rewrite p2p_body_length. cbn [p2pBase64Unpadded Nat.eqb negb]. unfold p2p_body.
  assert (F : Forall lt256 (le_bytes 8 a ++ le_bytes 8 b)).
  { apply Forall_app. split; apply le_bytes_lt256. }
  pose proof (b64_decode_encode _ F) as D.
  destruct (b64_decode (b64_encode (le_bytes 8 a ++ le_bytes 8 b))) as [dec fl]. cbn [fst] in D. subst dec.
  rewrite app_length, !le_bytes_length. cbn [Nat.add Nat.ltb Nat.leb].
  rewrite skipn8_app, le_uint64_app by assumption.
  rewrite <- (app_nil_r (le_bytes 8 b)). now rewrite le_uint64_app.
Qed.

Theorem p2p_parse a b : valid_uid a -> valid_uid b -> a <> b ->
  parse_p2p (p2p_name a b) = Some (N.min a b, N.max a b).
Proof.
  intros [Ha0 Ha] [Hb0 Hb] Hab. destruct (N.lt_ge_cases a b) as [L|L].
  - rewrite p2p_name_lt by assumption. rewrite parse_p2p_body by assumption. f_equal. f_equal; lia.
  - rewrite p2p_commutes, p2p_name_lt by lia. rewrite parse_p2p_body by assumption. f_equal. f_equal; lia.
Qed.

Theorem p2p_injective a b c d :
  valid_uid a -> valid_uid b -> valid_uid c -> valid_uid d -> a <> b -> c <> d ->
  p2p_name a b = p2p_name c d -> (a = c /\ b = d) \/ (a = d /\ b = c).
Proof.
  intros Ha Hb Hc Hd Hab Hcd E.
  pose proof (p2p_parse a b Ha Hb Hab) as P1. pose proof (p2p_parse c d Hc Hd Hcd) as P2.
  rewrite E, P2 in P1. inversion P1. lia.
Qed.

Theorem p2p_no_self a b : a = 0 \/ b = 0 \/ a = b -> p2p_name a b = [] /\ parse_p2p (p2p_name a b) = None.
Proof.
  intros H. assert (E : p2p_name a b = []).
  { unfold p2p_name. destruct (a =? 0) eqn:E1; destruct (b =? 0) eqn:E2; cbn [negb andb]; try reflexivity.
    destruct (a <? b) eqn:E3; destruct (b <? a) eqn:E4; try reflexivity; lia. }
  rewrite E. split; reflexivity.
Qed.

Theorem p2p_name_nonempty a b : valid_uid a -> valid_uid b -> a <> b ->
  exists body, p2p_name a b = s_p2p ++ body /\ length body = 22%nat.
Proof.
  intros [Ha0 _] [Hb0 _] Hab. destruct (N.lt_ge_cases a b) as [L|L].
  - exists (p2p_body a b). split; [now apply p2p_name_lt|reflexivity].
  - exists (p2p_body b a). split; [rewrite p2p_commutes; apply p2p_name_lt; lia|reflexivity].
Qed.

Theorem p2p_for_user a b : valid_uid a -> valid_uid b -> a <> b ->
  p2p_name_for_user a (p2p_name a b) = Some (user_id b) /\
  p2p_name_for_user b (p2p_name a b) = Some (user_id a).
Proof.
  intros Ha Hb Hab. unfold p2p_name_for_user. rewrite (p2p_parse a b Ha Hb Hab).
  destruct (N.lt_ge_cases a b) as [L|L].
  - rewrite N.min_l, N.max_r by lia. rewrite N.eqb_refl.
    destruct (b =? a) eqn:E; [lia|]. split; reflexivity.
  - rewrite N.min_r, N.max_l by lia. rewrite N.eqb_refl.
    destruct (a =? b) eqn:E; [lia|]. split; reflexivity.
Qed.

(* a name that does not parse is shown to nobody *)
Theorem p2p_for_user_unparsable u s : parse_p2p s = None -> p2p_name_for_user u s = None.
Proof. unfold p2p_name_for_user. now intros ->. Qed.

Theorem parse_p2p_bad_prefix s : has_prefix s s_p2p = false -> parse_p2p s = None.
Proof. unfold parse_p2p. now intros ->. Qed.


(* ------------------------------------------------ soundness of ParseP2P on arbitrary names *)

Lemma forall_firstn {A} (P : A -> Prop) n l : Forall P l -> Forall P (firstn n l).
Proof. intros F. apply Forall_forall. intros x Hx. rewrite Forall_forall in F. apply F. eapply in_firstn'; eauto. Qed.

Lemma forall_skipn {A} (P : A -> Prop) n l : Forall P l -> Forall P (skipn n l).
Proof.
  revert l. induction n as [|n IH]; intros l F; [exact F|]. destruct l as [|x l]; [constructor|].
  inversion_clear F. now apply IH.
Qed.

Lemma le_bytes_le_uint64_firstn bs : (8 <= length bs)%nat -> Forall lt256 bs ->
  le_bytes 8 (le_uint64 bs) = firstn 8 bs.
Proof.
  intros L F. unfold le_uint64.
  rewrite <- (firstn_length_le bs L) at 1. apply le_bytes_le_num. now apply forall_firstn.
Qed.

(* the spellings of a pair: the canonical body, and the 15 bodies that differ
   from it only in the 4 unused trailing bits of the 22nd character *)
Definition pair_sextets (x y : N) : list N := b64_sextets (le_bytes 8 x ++ le_bytes 8 y).
Definition pair_spelling (x y k : N) : list N :=
  map enc_char (firstn 21 (pair_sextets x y) ++ [nth 21 (pair_sextets x y) 0 + k]).

Theorem parse_p2p_sound s x y : parse_p2p s = Some (x, y) ->
  x < two64 /\ y < two64 /\ exists k, k < 16 /\ s = s_p2p ++ pair_spelling x y k.
Proof.
  unfold parse_p2p. destruct (has_prefix s s_p2p) eqn:P; [|discriminate].
  pose proof (has_prefix3 _ _ _ _ P) as Es. remember (skipn 3 s) as src eqn:Esrc. clear Esrc P.
  destruct (Nat.eqb (length src) p2pBase64Unpadded) eqn:L; cbn [negb]; [|discriminate].
  apply Nat.eqb_eq in L. unfold p2pBase64Unpadded in L.
  destruct (b64_decode src) as [dec fl] eqn:D. destruct (Nat.ltb (length dec) 16) eqn:C; [discriminate|].
  apply Nat.ltb_ge in C. intros E.
  assert (Ex : x = le_uint64 dec) by congruence. assert (Ey : y = le_uint64 (skipn 8 dec)) by congruence.
  clear E. subst x y.
  destruct (decode_count_all_valid src 16) as (l & El & Fl & Ed).
  { rewrite D. exact C. } { lia. }
  rewrite D in Ed. cbn [fst] in Ed.
  assert (F : Forall lt256 dec) by (rewrite Ed; apply sx_bytes_lt256).
  assert (Ll : length l = 22%nat) by (rewrite <- L, El; now rewrite map_length).
  assert (Ld : length dec = 16%nat).
  { rewrite Ed. do 23 (destruct l as [|? l]; try discriminate). reflexivity. }
  split; [apply le_uint64_bound; exact F|]. split; [apply le_uint64_bound; exact (forall_skipn lt256 8 dec F)|].
  unfold pair_spelling, pair_sextets.
  rewrite le_bytes_le_uint64_firstn by (try lia; assumption).
  rewrite (le_bytes_le_uint64_firstn (skipn 8 dec)) by (try (rewrite skipn_length; lia); now apply forall_skipn).
  rewrite (firstn_all2 (skipn 8 dec)) by (rewrite skipn_length; lia).
  rewrite firstn_skipn. rewrite Ed, (sextets_sx_bytes l Fl).
  do 23 (destruct l as [|? l]; try discriminate). clear Ll.
  cbn [canon firstn nth app].
  match goal with |- context [?d / 16 * 16] => exists (d mod 16); split; [dlia|];
     replace (d / 16 * 16 + d mod 16) with d by dlia end.
  rewrite Es. f_equal. exact El.
Qed.

Lemma filter_length_lt {A} (f : A -> bool) l : forallb f l = false -> (length (filter f l) < length l)%nat.
Proof.
  induction l as [|x l IH]; cbn; [discriminate|].
  assert (L : (length (filter f l) <= length l)%nat).
  { clear. induction l as [|y l IH]; cbn; [lia|]. destruct (f y); cbn; lia. }
  destruct (f x); cbn; intros H; [specialize (IH H)|]; lia.
Qed.

(* bad prefix, wrong length, or any character outside the alphabet (CR, LF included): rejected *)
Theorem parse_p2p_rejects s : has_prefix s s_p2p = false \/ length (skipn 3 s) <> 22%nat \/
  forallb valid_char (skipn 3 s) = false -> parse_p2p s = None.
Proof.
  intros H. unfold parse_p2p. destruct (has_prefix s s_p2p); [|reflexivity].
  destruct (Nat.eqb (length (skipn 3 s)) p2pBase64Unpadded) eqn:L; cbn [negb]; [|reflexivity].
  apply Nat.eqb_eq in L. unfold p2pBase64Unpadded in L.
  destruct H as [H|[H|H]]; [discriminate|contradiction|].
  pose proof (dec_loop_count (skipn 3 s) [] [] ltac:(cbn; lia)) as C. cbn [length] in C.
  pose proof (filter_length_lt _ _ H) as V. unfold b64_decode.
  destruct (b64_dec_loop (skipn 3 s) [] []) as [dec fl]. cbn [fst] in C.
  destruct (Nat.ltb (length dec) 16) eqn:E; [reflexivity|]. apply Nat.ltb_ge in E. lia.
Qed.
