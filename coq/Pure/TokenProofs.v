(* Lemmas about Pure/Token.v. *)
From Coq Require Import NArith ZArith List Bool Lia ZifyBool ZifyNat ZifyN.
From Tinode Require Import Pure.Token.
Import ListNotations.
Open Scope N_scope.

Definition is_bytes (l : list N) : Prop := Forall (fun b => b < 256) l.

Lemma bytes_eqb_eq a b : bytes_eqb a b = true <-> a = b.
Proof.
  revert b. induction a as [|x a IH]; intros [|y b]; cbn [bytes_eqb]; split; intros H;
    try reflexivity; try discriminate.
  - apply andb_true_iff in H. destruct H as [H1 H2]. apply N.eqb_eq in H1. apply IH in H2. now subst.
  - injection H as -> ->. rewrite N.eqb_refl. cbn. now apply IH.
Qed.

Lemma bytes_eqb_refl a : bytes_eqb a a = true.
Proof. now apply bytes_eqb_eq. Qed.

Lemma length_le_bytes k v : length (le_bytes k v) = k.
Proof. revert v. induction k; intros v; cbn [le_bytes length]; auto. Qed.

Lemma le_bytes_is_bytes k v : is_bytes (le_bytes k v).
Proof.
  revert v. induction k; intros v; cbn [le_bytes]; constructor.
  - apply N.mod_lt. lia.
  - apply IHk.
Qed.

Lemma le_val_le_bytes k v : le_val (le_bytes k v) = v mod 2 ^ (8 * N.of_nat k).
Proof.
  revert v. induction k as [|k IH]; intros v.
  - cbn [le_bytes le_val]. change (8 * N.of_nat 0) with 0. rewrite N.pow_0_r, N.mod_1_r. reflexivity.
  - cbn [le_bytes le_val]. rewrite IH.
    replace (8 * N.of_nat (S k)) with (8 + 8 * N.of_nat k) by lia.
    rewrite N.pow_add_r. change (2 ^ 8) with 256.
    rewrite N.mod_mul_r by (try lia; apply N.pow_nonzero; lia). lia.
Qed.

Lemma le_bytes_le_val l : is_bytes l -> le_bytes (length l) (le_val l) = l.
Proof.
  induction 1 as [|b l Hb Hl IH]; cbn [length le_bytes le_val]; [reflexivity|].
  replace (b + 256 * le_val l) with (b + le_val l * 256) by lia.
  f_equal.
  - rewrite N.mod_add by lia. apply N.mod_small. exact Hb.
  - rewrite N.div_add by lia. rewrite (N.div_small b) by exact Hb.
    rewrite N.add_0_l. exact IH.
Qed.

Lemma le_bytes_le_val_k k l : is_bytes l -> length l = k -> le_bytes k (le_val l) = l.
Proof. intros H <-. now apply le_bytes_le_val. Qed.

Lemma firstn_plus {A} (n m : nat) (l : list A) :
  firstn (n + m) l = firstn n l ++ firstn m (skipn n l).
Proof.
  revert l. induction n as [|n IH]; intros l; [reflexivity|].
  destruct l as [|x l]; cbn [Nat.add firstn skipn app].
  - now rewrite firstn_nil.
  - now rewrite IH.
Qed.

Lemma is_bytes_firstn n l : is_bytes l -> is_bytes (firstn n l).
Proof. unfold is_bytes. intros H. revert n. induction H; intros [|n]; cbn [firstn]; auto. Qed.

Lemma is_bytes_skipn n l : is_bytes l -> is_bytes (skipn n l).
Proof. unfold is_bytes. intros H. revert n. induction H; intros [|n]; cbn [skipn]; auto. Qed.

Lemma is_bytes_app a b : is_bytes a -> is_bytes b -> is_bytes (a ++ b).
Proof. unfold is_bytes. intros. apply Forall_app. now split. Qed.

(* re-encoding what was read gives back the bytes read (the source signs hbuf, the re-encoding) *)
Lemma encode_decode d : is_bytes d -> length d = 18%nat -> encode_fields (decode_fields d) = d.
Proof.
  intros Hb Hl. unfold encode_fields, decode_fields.
  cbn [f_uid f_expires f_level f_serial f_features].
  assert (L : forall n m, (n + m <= 18)%nat -> length (firstn m (skipn n d)) = m).
  { intros n m H. rewrite firstn_length, skipn_length. lia. }
  rewrite (le_bytes_le_val_k 8 (firstn 8 d)); [|now apply is_bytes_firstn|rewrite firstn_length; lia].
  rewrite (le_bytes_le_val_k 4); [|now apply is_bytes_firstn, is_bytes_skipn|apply L; lia].
  rewrite (le_bytes_le_val_k 2); [|now apply is_bytes_firstn, is_bytes_skipn|apply L; lia].
  rewrite (le_bytes_le_val_k 2); [|now apply is_bytes_firstn, is_bytes_skipn|apply L; lia].
  rewrite (le_bytes_le_val_k 2); [|now apply is_bytes_firstn, is_bytes_skipn|apply L; lia].
  do 19 (destruct d as [|? d]; [discriminate Hl || reflexivity|]). discriminate Hl.
Qed.

Lemma length_encode_fields f : length (encode_fields f) = 18%nat.
Proof. unfold encode_fields. rewrite !app_length, !length_le_bytes. reflexivity. Qed.

Lemma encode_fields_is_bytes f : is_bytes (encode_fields f).
Proof. unfold encode_fields. repeat apply is_bytes_app; apply le_bytes_is_bytes. Qed.

Lemma firstn_app_exact {A} (a b : list A) n : length a = n -> firstn n (a ++ b) = a.
Proof. intros <-. rewrite firstn_app, Nat.sub_diag, firstn_all. cbn. apply app_nil_r. Qed.

Lemma skipn_app_exact {A} (a b : list A) n : length a = n -> skipn n (a ++ b) = b.
Proof. intros <-. rewrite skipn_app, Nat.sub_diag, skipn_all. reflexivity. Qed.

Lemma skipn_add {A} (n m : nat) (l : list A) : skipn (n + m) l = skipn m (skipn n l).
Proof.
  revert l. induction n as [|n IH]; intros l; [reflexivity|].
  destruct l as [|x l]; cbn [Nat.add skipn]; [now rewrite skipn_nil|apply IH].
Qed.

Lemma decode_encode f :
  decode_fields (encode_fields f) =
  mkF (f_uid f mod 2 ^ 64) (f_expires f mod 2 ^ 32) (f_level f mod 2 ^ 16)
      (f_serial f mod 2 ^ 16) (f_features f mod 2 ^ 16).
Proof.
  unfold decode_fields, encode_fields.
  set (A := le_bytes 8 (f_uid f)). set (B := le_bytes 4 (f_expires f)).
  set (C := le_bytes 2 (f_level f)). set (D := le_bytes 2 (f_serial f)).
  set (E := le_bytes 2 (f_features f)).
  assert (LA : length A = 8%nat) by apply length_le_bytes.
  assert (LB : length B = 4%nat) by apply length_le_bytes.
  assert (LC : length C = 2%nat) by apply length_le_bytes.
  assert (LD : length D = 2%nat) by apply length_le_bytes.
  assert (LE : length E = 2%nat) by apply length_le_bytes.
  set (X := A ++ B ++ C ++ D ++ E).
  assert (S8 : skipn 8 X = B ++ C ++ D ++ E) by (apply skipn_app_exact; exact LA).
  assert (S12 : skipn 12 X = C ++ D ++ E).
  { rewrite (skipn_add 8 4 X : skipn 12 X = _), S8. apply skipn_app_exact; exact LB. }
  assert (S14 : skipn 14 X = D ++ E).
  { rewrite (skipn_add 12 2 X : skipn 14 X = _), S12. apply skipn_app_exact; exact LC. }
  assert (S16 : skipn 16 X = E).
  { rewrite (skipn_add 14 2 X : skipn 16 X = _), S14. apply skipn_app_exact; exact LD. }
  rewrite S8, S12, S14, S16. unfold X.
  rewrite (firstn_app_exact A _ 8 LA), (firstn_app_exact B _ 4 LB),
    (firstn_app_exact C _ 2 LC), (firstn_app_exact D _ 2 LD).
  replace (firstn 2 E) with E by (symmetry; rewrite <- LE; apply firstn_all).
  unfold A, B, C, D, E. rewrite !le_val_le_bytes. reflexivity.
Qed.

(* ------------------------------------------------------------------ *)
(* arithmetic of the expiry computation *)

Lemma wrap64_le z : (0 <= z -> wrap64 z <= z)%Z.
Proof.
  unfold wrap64. change (2 ^ 63)%Z with 9223372036854775808%Z.
  change (2 ^ 64)%Z with 18446744073709551616%Z. intros H. Z.div_mod_to_equations. lia.
Qed.

Lemma wrap64_neg z : (0 <= z -> wrap64 z < 0 -> 2 ^ 63 <= z)%Z.
Proof.
  unfold wrap64. change (2 ^ 63)%Z with 9223372036854775808%Z.
  change (2 ^ 64)%Z with 18446744073709551616%Z. intros H. Z.div_mod_to_equations. lia.
Qed.

Lemma wrap64_small z : (- 2 ^ 63 <= z < 2 ^ 63 -> wrap64 z = z)%Z.
Proof.
  unfold wrap64. change (2 ^ 63)%Z with 9223372036854775808%Z.
  change (2 ^ 64)%Z with 18446744073709551616%Z. intros H. Z.div_mod_to_equations. lia.
Qed.

Lemma round_ms_bounds t : (t - 500000 <= round_ms t <= t + 500000)%Z.
Proof.
  unfold round_ms. destruct (2 * (t mod 1000000) <? 1000000)%Z eqn:E;
    Z.div_mod_to_equations; lia.
Qed.

(* the expiry second written into the token, as a function of the instant *)
Definition expiry_field (expires : Z) : Z := (unix_sec expires mod 2 ^ 32)%Z.

Lemma expiry_field_range x : (0 <= expiry_field x < 2 ^ 32)%Z.
Proof. unfold expiry_field. apply Z.mod_pos_bound. reflexivity. Qed.

(* uint32 wrap and millisecond rounding never give a LATER expiry than asked for
   (up to the second of slack Authenticate subtracts) *)
Lemma expiry_bound now0 lt req :
  (0 <= now0 -> lt <= req -> (lt < 0 -> 2 ^ 63 <= req) ->
   expiry_field (round_ms (now0 + lt)) * second < now0 + req + second)%Z.
Proof.
  intros H0 Hle Hneg. unfold expiry_field, unix_sec, second.
  pose proof (round_ms_bounds (now0 + lt)) as R.
  assert (P : (0 <= lt -> 0 <= round_ms (now0 + lt))%Z).
  { intros Hl. unfold round_ms.
    destruct (2 * ((now0 + lt) mod 1000000) <? 1000000)%Z; Z.div_mod_to_equations; lia. }
  set (x := round_ms (now0 + lt)) in *. clearbody x.
  change (2 ^ 32)%Z with 4294967296%Z. change (2 ^ 63)%Z with 9223372036854775808%Z in Hneg.
  destruct (Z.ltb_spec lt 0) as [Hl|Hl].
  - specialize (Hneg Hl).
    assert ((x / 1000000000) mod 4294967296 < 4294967296)%Z by (apply Z.mod_pos_bound; lia). lia.
  - specialize (P Hl).
    assert (0 <= x / 1000000000)%Z by (apply Z.div_pos; lia).
    assert ((x / 1000000000) mod 4294967296 <= x / 1000000000)%Z by (apply Z.mod_le; lia).
    assert (x / 1000000000 * 1000000000 <= x)%Z by (Z.div_mod_to_equations; lia).
    lia.
Qed.

(* ------------------------------------------------------------------ *)
Section TokenThms.
Variable mac : list N -> list N -> list N.

Definition tok_data (tok : list N) : list N := firstn 18 tok.
Definition tok_sig (tok : list N) : list N := firstn 32 (skipn 18 tok).

Lemma first50 tok : firstn 50 tok = tok_data tok ++ tok_sig tok.
Proof. exact (firstn_plus 18 32 tok). Qed.

(* everything Authenticate checked, on the re-encoded data *)
Lemma accept_inv key sn now tok r :
  authenticate mac key sn now tok = TOk r ->
  let f := decode_fields (tok_data tok) in
  (50 <= length tok)%nat /\
  tok_sig tok = mac key (encode_fields f) /\
  f_level f <= 30 /\
  Z.of_N (f_serial f) = sn /\
  (now + second <= Z.of_N (f_expires f) * second)%Z /\
  r = mkR (f_uid f) (f_level f) (f_features f).
Proof.
  unfold authenticate, tok_data, tok_sig, data_size, sig_size, level_root. intros H.
  destruct (length tok <? 18 + 32)%nat eqn:E1; [discriminate|]. apply Nat.ltb_ge in E1.
  destruct (bytes_eqb _ _) eqn:E2; cbn [negb] in H; [|discriminate]. apply bytes_eqb_eq in E2.
  destruct (30 <? _) eqn:E3; [discriminate|].
  destruct (Z.of_N _ =? sn)%Z eqn:E4; cbn [negb] in H; [|discriminate].
  destruct (_ <? _)%Z eqn:E5; [discriminate|]. injection H as <-.
  cbv zeta. repeat split; try assumption; try lia.
Qed.

Lemma tok_data_props tok : is_bytes tok -> (50 <= length tok)%nat ->
  encode_fields (decode_fields (tok_data tok)) = tok_data tok.
Proof.
  intros Hb Hl. apply encode_decode.
  - now apply is_bytes_firstn.
  - unfold tok_data. rewrite firstn_length. lia.
Qed.

Lemma accept_sound key sn now tok r :
  is_bytes tok ->
  authenticate mac key sn now tok = TOk r ->
  let f := decode_fields (tok_data tok) in
  (50 <= length tok)%nat /\
  tok_sig tok = mac key (tok_data tok) /\
  encode_fields f = tok_data tok /\
  f_level f <= 30 /\
  Z.of_N (f_serial f) = sn /\
  (now + second <= Z.of_N (f_expires f) * second)%Z /\
  r = mkR (f_uid f) (f_level f) (f_features f).
Proof.
  intros Hb H. apply accept_inv in H. cbv zeta in *.
  destruct H as (H1 & H2 & H3 & H4 & H5 & H6).
  pose proof (tok_data_props tok Hb H1) as E. rewrite E in H2.
  repeat split; assumption.
Qed.

Lemma truncated_refused key sn now tok :
  (length tok < 50)%nat -> authenticate mac key sn now tok = TErr TMalformed.
Proof.
  intros H. unfold authenticate, data_size, sig_size.
  destruct (length tok <? 18 + 32)%nat eqn:E; [reflexivity|]. apply Nat.ltb_ge in E. lia.
Qed.

(* acceptance of anything that is not (the first 50 bytes of) an issued token
   exhibits a valid MAC pair the signer never produced *)
Lemma mutation_is_forgery key sn now (issued : list (list N * list N)) tok' r :
  is_bytes tok' ->
  ~ In (firstn 50 tok') (map (fun p => fst p ++ snd p) issued) ->
  authenticate mac key sn now tok' = TOk r ->
  mac key (tok_data tok') = tok_sig tok' /\ ~ In (tok_data tok', tok_sig tok') issued.
Proof.
  intros Hb Hn H. apply accept_sound in H; [|exact Hb]. cbv zeta in H.
  destruct H as (_ & H2 & _). split; [now symmetry|].
  intros Hin. apply Hn. rewrite first50. apply in_map_iff.
  exists (tok_data tok', tok_sig tok'). split; [reflexivity|exact Hin].
Qed.

Lemma expired_refused key sn now tok r :
  (Z.of_N (f_expires (decode_fields (tok_data tok))) * second < now + second)%Z ->
  authenticate mac key sn now tok <> TOk r.
Proof. intros H A. apply accept_inv in A. cbv zeta in A. lia. Qed.

Lemma serial_checked key sn now tok r :
  authenticate mac key sn now tok = TOk r ->
  Z.of_N (f_serial (decode_fields (tok_data tok))) = sn.
Proof. intros A. apply accept_inv in A. cbv zeta in A. tauto. Qed.

(* ---- issued tokens ---- *)

Lemma issue_fields_fix sn exp g :
  decode_fields (encode_fields (issue_fields sn exp g)) = issue_fields sn exp g.
Proof.
  rewrite decode_encode. unfold issue_fields.
  cbn [f_uid f_expires f_level f_serial f_features]. f_equal.
  - apply N.mod_mod. discriminate.
  - apply N.mod_small.
    assert (0 <= unix_sec exp mod 2 ^ 32 < 2 ^ 32)%Z by (apply Z.mod_pos_bound; reflexivity).
    change (2 ^ 32)%Z with 4294967296%Z in *. change (2 ^ 32) with 4294967296. lia.
  - apply N.mod_small.
    assert (0 <= g_level g mod 2 ^ 16 < 2 ^ 16)%Z by (apply Z.mod_pos_bound; reflexivity).
    change (2 ^ 16)%Z with 65536%Z in *. change (2 ^ 16) with 65536. lia.
  - apply N.mod_small.
    assert (0 <= sn mod 2 ^ 16 < 2 ^ 16)%Z by (apply Z.mod_pos_bound; reflexivity).
    change (2 ^ 16)%Z with 65536%Z in *. change (2 ^ 16) with 65536. lia.
  - apply N.mod_mod. discriminate.
Qed.

Lemma issued_data key sn exp g :
  tok_data (issue_at mac key sn exp g) = encode_fields (issue_fields sn exp g).
Proof. unfold tok_data, issue_at. apply firstn_app_exact, length_encode_fields. Qed.

Lemma issued_sig key sn exp g :
  length (mac key (encode_fields (issue_fields sn exp g))) = 32%nat ->
  tok_sig (issue_at mac key sn exp g) = mac key (encode_fields (issue_fields sn exp g)).
Proof.
  intros L. unfold tok_sig, issue_at. rewrite (skipn_app_exact _ _ 18) by apply length_encode_fields.
  rewrite <- L. apply firstn_all.
Qed.

(* the exact acceptance condition of an issued token *)
Lemma issued_authenticate key sn sn' exp g now :
  length (mac key (encode_fields (issue_fields sn exp g))) = 32%nat ->
  authenticate mac key sn' now (issue_at mac key sn exp g) =
  let f := issue_fields sn exp g in
  if 30 <? f_level f then TErr TMalformed else
  if negb (Z.of_N (f_serial f) =? sn')%Z then TErr TFailed else
  if (Z.of_N (f_expires f) * second <? now + second)%Z then TErr TExpired else
  TOk (mkR (f_uid f) (f_level f) (f_features f)).
Proof.
  intros L. unfold authenticate.
  assert (Hlen : length (issue_at mac key sn exp g) = 50%nat).
  { unfold issue_at. rewrite app_length, length_encode_fields, L. reflexivity. }
  rewrite Hlen. change (50 <? data_size + sig_size)%nat with false. cbv iota.
  change (firstn data_size ?t) with (tok_data t).
  change (firstn sig_size (skipn data_size ?t)) with (tok_sig t).
  rewrite issued_data, issue_fields_fix, (issued_sig _ _ _ _ L), bytes_eqb_refl.
  reflexivity.
Qed.

Lemma roundtrip key sn deflt now0 g tok exp now :
  (forall k d, length (mac k d) = 32%nat) ->
  (0 <= sn < 65536)%Z -> (0 <= g_level g <= 30)%Z -> g_uid g < 2 ^ 64 -> g_features g < 2 ^ 16 ->
  gen_secret mac key sn deflt now0 g = Some (tok, exp) ->
  (now + second <= expiry_field exp * second)%Z ->
  authenticate mac key sn now tok = TOk (mkR (g_uid g) (Z.to_N (g_level g)) (g_features g)).
Proof.
  intros L Hsn Hlv Hu Hf G Hnow. unfold gen_secret in G.
  destruct (effective_lifetime deflt g) as [lt|]; [|discriminate]. injection G as <- <-.
  rewrite issued_authenticate by apply L. cbv zeta. unfold issue_fields.
  cbn [f_uid f_expires f_level f_serial f_features].
  change (2 ^ 16)%Z with 65536%Z. rewrite !Z.mod_small by lia.
  rewrite !N.mod_small by assumption.
  destruct (30 <? Z.to_N (g_level g)) eqn:E1; [lia|].
  rewrite Z2N.id by lia. rewrite Z.eqb_refl. cbn [negb].
  pose proof (expiry_field_range (round_ms (now0 + lt))) as R. unfold expiry_field in *.
  rewrite Z2N.id by lia.
  destruct (_ <? _)%Z eqn:E2; [lia|]. reflexivity.
Qed.

(* ---- serial numbers: uint16 on the wire, int in the configuration ---- *)

Lemma serial_alias key sn exp g :
  issue_at mac key sn exp g = issue_at mac key (sn mod 65536) exp g.
Proof.
  unfold issue_at, issue_fields. change (2 ^ 16)%Z with 65536%Z.
  rewrite Z.mod_mod by discriminate. reflexivity.
Qed.

Lemma issued_wrong_serial_refused key sn sn' exp g now r :
  (forall k d, length (mac k d) = 32%nat) ->
  sn' <> (sn mod 65536)%Z ->
  authenticate mac key sn' now (issue_at mac key sn exp g) <> TOk r.
Proof.
  intros L Hne A. apply serial_checked in A. rewrite issued_data, issue_fields_fix in A.
  unfold issue_fields in A. cbn [f_serial] in A. change (2 ^ 16)%Z with 65536%Z in A.
  assert (0 <= sn mod 65536 < 65536)%Z by (apply Z.mod_pos_bound; reflexivity).
  rewrite Z2N.id in A by lia. congruence.
Qed.

Lemma le_val_bound l : is_bytes l -> le_val l < 2 ^ (8 * N.of_nat (length l)).
Proof.
  intros H. rewrite <- (le_bytes_le_val l H) at 1. rewrite le_val_le_bytes.
  apply N.mod_lt. apply N.pow_nonzero. discriminate.
Qed.

Lemma serial_out_of_range_refuses_all key sn now tok r :
  is_bytes tok -> ~ (0 <= sn < 65536)%Z -> authenticate mac key sn now tok <> TOk r.
Proof.
  intros Hb Hsn A. pose proof (accept_inv _ _ _ _ _ A) as I. cbv zeta in I.
  destruct I as (Hl & _ & _ & Hs & _).
  unfold decode_fields in Hs. cbn [f_serial] in Hs.
  assert (B : le_val (firstn 2 (skipn 14 (tok_data tok))) < 2 ^ (8 * N.of_nat 2)).
  { assert (Hlen : length (firstn 2 (skipn 14 (tok_data tok))) = 2%nat).
    { unfold tok_data. rewrite firstn_length, skipn_length, firstn_length. lia. }
    pose proof (le_val_bound (firstn 2 (skipn 14 (tok_data tok)))) as LB.
    rewrite Hlen in LB. apply LB. apply is_bytes_firstn, is_bytes_skipn, is_bytes_firstn, Hb. }
  change (2 ^ (8 * N.of_nat 2)) with 65536 in B. lia.
Qed.

Lemma foreign_key_refused key key' sn now f :
  length (mac key' (encode_fields f)) = 32%nat ->
  mac key' (encode_fields f) <> mac key (encode_fields f) ->
  authenticate mac key sn now (encode_fields f ++ mac key' (encode_fields f)) = TErr TFailed.
Proof.
  intros L Hne. unfold authenticate.
  rewrite app_length, length_encode_fields, L. change (18 + 32 <? data_size + sig_size)%nat with false.
  cbv iota. unfold data_size, sig_size.
  rewrite (firstn_app_exact _ _ 18) by apply length_encode_fields.
  rewrite (skipn_app_exact _ _ 18) by apply length_encode_fields.
  rewrite encode_decode by (apply encode_fields_is_bytes || apply length_encode_fields).
  replace (firstn 32 (mac key' (encode_fields f))) with (mac key' (encode_fields f))
    by (symmetry; rewrite <- L; apply firstn_all).
  destruct (bytes_eqb _ _) eqn:E; [apply bytes_eqb_eq in E; contradiction|reflexivity].
Qed.

(* ---- validity never exceeds what was asked for ---- *)

Definition requested_lifetime (expire_in : Z) (g : grec) : Z :=
  if (g_lifetime g =? 0)%Z then (expire_in * second)%Z else g_lifetime g.

Lemma never_outlives key sn sn' expire_in now0 g tok exp now r :
  (0 <= now0)%Z -> (0 < expire_in)%Z ->
  gen_secret mac key sn (default_lifetime expire_in) now0 g = Some (tok, exp) ->
  authenticate mac key sn' now tok = TOk r ->
  (now < now0 + requested_lifetime expire_in g)%Z.
Proof.
  intros H0 He G A. unfold gen_secret, effective_lifetime, requested_lifetime in *.
  apply accept_inv in A. cbv zeta in A. destruct A as (_ & _ & _ & _ & A & _).
  assert (K : forall lt, tok = issue_at mac key sn (round_ms (now0 + lt)) g ->
            (lt <= requested_lifetime expire_in g)%Z ->
            (lt < 0 -> 2 ^ 63 <= requested_lifetime expire_in g)%Z ->
            (now < now0 + requested_lifetime expire_in g)%Z).
  { intros lt -> Hle Hneg. rewrite issued_data, issue_fields_fix in A.
    unfold issue_fields in A. cbn [f_expires] in A.
    pose proof (expiry_field_range (round_ms (now0 + lt))) as R.
    pose proof (expiry_bound now0 lt _ H0 Hle Hneg) as B. unfold expiry_field in *.
    rewrite Z2N.id in A by lia. lia. }
  unfold requested_lifetime in K.
  destruct (g_lifetime g =? 0)%Z eqn:E0.
  - injection G as G _. apply (K (default_lifetime expire_in)); [now symmetry| |].
    + apply wrap64_le. unfold second. lia.
    + apply wrap64_neg. unfold second. lia.
  - destruct (g_lifetime g <? 0)%Z eqn:E1; [discriminate|]. injection G as G _.
    apply (K (g_lifetime g)); [now symmetry|lia|lia].
Qed.

End TokenThms.

(* finding: configured serials 65541 and 5 *)
Definition wrong_serial_statement : Prop :=
  forall (mac : list N -> list N -> list N), (forall k d, length (mac k d) = 32%nat) ->
  forall key sn sn' exp g now r, sn' <> sn ->
  authenticate mac key sn' now (issue_at mac key sn exp g) <> TOk r.

Lemma wrong_serial_refuted : ~ wrong_serial_statement.
Proof.
  intros H.
  set (mac := fun (_ _ : list N) => repeat 0 32).
  assert (L : forall k d, length (mac k d) = 32%nat) by reflexivity.
  set (g := mkG 1 20 0 0).
  apply (H mac L [] 65541%Z 5%Z 3600000000000%Z g 0%Z (mkR 1 20 0)); [discriminate|].
  rewrite serial_alias. change (65541 mod 65536)%Z with 5%Z.
  rewrite issued_authenticate by apply L. reflexivity.
Qed.
