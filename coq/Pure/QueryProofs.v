(* Proof that the (repaired) parser loop of Query.v computes the reference
   semantics of QuerySpec.v on EVERY query string: induction over the items of
   the string with an invariant on the parser state.  No bound on length. *)
From Coq Require Import NArith ZArith List Bool Lia Arith.
From Coq Require Import ZifyBool ZifyNat ZifyN.
Require Import Tinode.Base.Util Tinode.Pure.Query Tinode.Pure.QuerySpec.
Import ListNotations.

(* ---------- byte length and slicing ---------- *)
Definition blen (l : list N) : Z := fold_right (fun r a => (width r + a)%Z) 0%Z l.

Lemma width_pos r : (0 < width r)%Z.
Proof. unfold width. repeat destruct (_ <? _)%N; lia. Qed.

Lemma blen_cons r l : blen (r :: l) = (width r + blen l)%Z.
Proof. reflexivity. Qed.

Lemma blen_app a b : blen (a ++ b) = (blen a + blen b)%Z.
Proof.
  induction a as [|r a IH]; [cbn [app]; change (blen []) with 0%Z; lia|].
  rewrite <- app_comm_cons, !blen_cons, IH. lia.
Qed.

Lemma blen_nonneg l : (0 <= blen l)%Z.
Proof. induction l as [|r l IH]; [cbn; lia|]. rewrite blen_cons. pose proof (width_pos r). lia. Qed.

Lemma blen_pos l : l <> [] -> (0 < blen l)%Z.
Proof. destruct l as [|r l]; [congruence|]. intros _. rewrite blen_cons. pose proof (width_pos r). pose proof (blen_nonneg l). lia. Qed.

Lemma slice_after c : forall pos s e, (e <= pos)%Z -> slice_from c pos s e = [].
Proof.
  induction c as [|r c IH]; intros pos s e H; [reflexivity|].
  cbn [slice_from]. pose proof (width_pos r).
  rewrite IH by lia.
  destruct ((s <=? pos)%Z && (pos + width r <=? e)%Z) eqn:E; [lia|].
  replace (Z.to_nat _) with 0%nat by lia. reflexivity.
Qed.

Lemma slice_inside b : forall c pos s e, (s <= pos)%Z -> e = (pos + blen b)%Z ->
  slice_from (b ++ c) pos s e = b.
Proof.
  induction b as [|r b IH]; intros c pos s e Hs He.
  - cbn [app]. apply slice_after. cbn in He. lia.
  - rewrite blen_cons in He. cbn [app slice_from]. pose proof (width_pos r). pose proof (blen_nonneg b).
    replace ((s <=? pos)%Z && (pos + width r <=? e)%Z) with true by lia.
    rewrite IH by lia. reflexivity.
Qed.

Lemma slice_before a : forall b c pos s e, s = (pos + blen a)%Z -> e = (s + blen b)%Z ->
  slice_from (a ++ b ++ c) pos s e = b.
Proof.
  induction a as [|r a IH]; intros b c pos s e Hs He.
  - cbn [app]. apply slice_inside; cbn in Hs; lia.
  - rewrite blen_cons in Hs. cbn [app slice_from]. pose proof (width_pos r). pose proof (blen_nonneg a).
    pose proof (blen_nonneg b).
    replace ((s <=? pos)%Z && (pos + width r <=? e)%Z) with false by lia.
    replace (Z.to_nat _) with 0%nat by lia. cbn [repeat app].
    apply IH; lia.
Qed.

Lemma substr_mid a b c : substr (a ++ b ++ c) (blen a) (blen a + blen b) = b.
Proof. unfold substr. apply slice_before; lia. Qed.

Ltac ltb_case := match goal with |- context [(?a <? ?b)%Z] => destruct (Z.ltb_spec a b) end.

(* ---------- the token a context is holding ---------- *)
Definition opl (b : bool) : lexeme := if b then OR else AND.

Definition tok_text (q : list N) (uq : bool) (st en : Z) : option (list N) :=
  let s := if uq then (st + 1)%Z else st in
  let e := if uq then (en - 1)%Z else en in
  if (s <? e)%Z then Some (substr q s e) else None.

Definition some_text (w : list N) : option (list N) := if is_nil w then None else Some w.

Definition wrap (qd : bool) (w : list N) : list N := if qd then [cQuote] ++ w ++ [cQuote] else w.

Lemma tok_text_term pre0 qd w post :
  tok_text (pre0 ++ wrap qd w ++ post) qd (blen pre0) (blen pre0 + blen (wrap qd w)) = some_text w.
Proof.
  unfold tok_text, some_text, wrap. destruct qd.
  - rewrite !blen_app. change (blen [cQuote]) with 1%Z.
    destruct w as [|r w]; cbn [is_nil].
    + cbn [blen fold_right]. ltb_case; [lia|reflexivity].
    + pose proof (blen_pos (r :: w) ltac:(congruence)).
      ltb_case; [|lia]. f_equal.
      replace (pre0 ++ ([cQuote] ++ (r :: w) ++ [cQuote]) ++ post)
        with ((pre0 ++ [cQuote]) ++ (r :: w) ++ ([cQuote] ++ post)) by (rewrite <- !app_assoc; reflexivity).
      replace (blen pre0 + 1)%Z with (blen (pre0 ++ [cQuote])) by (rewrite blen_app; reflexivity).
      replace (blen pre0 + (1 + (blen (r :: w) + 1)) - 1)%Z with (blen (pre0 ++ [cQuote]) + blen (r :: w))%Z
        by (rewrite blen_app; change (blen [cQuote]) with 1%Z; lia).
      apply substr_mid.
  - destruct w as [|r w]; cbn [is_nil].
    + cbn [blen fold_right]. ltb_case; [lia|reflexivity].
    + pose proof (blen_pos (r :: w) ltac:(congruence)).
      ltb_case; [|lia]. f_equal. apply substr_mid.
Qed.

Section Proofs.
  Variable lower : N -> N.
  Variable rewrite : list N -> list N.

  Definition toks_of (o : bool) (pend : option (list N)) : list token :=
    match pend with
    | None => []
    | Some w =>
      let original := to_lower lower w in
      let rw := rewrite original in
      if is_nil rw then []
      else [mkTok (opl o) original (if list_eqb rw original then [] else rw)]
    end.

  Lemma emit_token_eq q p po uq st en qo o :
    emit_token lower rewrite q (mkCtx (opl p) po qo uq st en) o
    = o ++ toks_of (p || lexeme_eqb po OR) (tok_text q uq st en).
  Proof.
    unfold emit_token, tok_text, toks_of. cbn [postOp preOp unquote cstart cend].
    assert (Hop : (if lexeme_eqb po OR then OR else opl p) = opl (p || lexeme_eqb po OR))
      by (destruct p, (lexeme_eqb po OR); reflexivity).
    rewrite Hop.
    destruct ((if uq then (st + 1)%Z else st) <? (if uq then (en - 1)%Z else en))%Z; [|now rewrite app_nil_r].
    cbv zeta. destruct (is_nil _); [now rewrite app_nil_r|reflexivity].
  Qed.

  (* ---------- the loop, cut at any point ---------- *)
  Notation body := (iter lower rewrite).

  Fixpoint steps (q : list N) (i : Z) (s : pstate) (l : list N) : result (Z * pstate) :=
    match l with
    | [] => Ok (i, s)
    | r :: t => match body q i s (Some r) with
                | Err => Err
                | Ok s' => steps q (i + width r)%Z s' t
                end
    end.

  Lemma loop_app q l1 : forall i s l2,
    loop body q i s (l1 ++ l2) =
    match steps q i s l1 with Err => Err | Ok (i', s') => loop body q i' s' l2 end.
  Proof.
    induction l1 as [|r l1 IH]; intros i s l2; [reflexivity|].
    cbn [app loop steps]. destruct (body q i s (Some r)); [apply IH|reflexivity].
  Qed.

  Lemma steps_app q l1 : forall i s l2,
    steps q i s (l1 ++ l2) =
    match steps q i s l1 with Err => Err | Ok (i', s') => steps q i' s' l2 end.
  Proof.
    induction l1 as [|r l1 IH]; intros i s l2; [reflexivity|].
    cbn [app steps]. destruct (body q i s (Some r)); [apply IH|reflexivity].
  Qed.

  (* ---------- lexemes ---------- *)
  Lemma lexeme_quote b r : is_quoteb r = true -> lexeme_of b (Some r) = QUO.
  Proof. unfold is_quoteb, lexeme_of. intros ->. reflexivity. Qed.

  Lemma lexeme_inquote r : is_quoteb r = false -> lexeme_of true (Some r) = ORD.
  Proof. unfold is_quoteb, lexeme_of. intros ->. reflexivity. Qed.

  Lemma lexeme_word r : is_wordb r = true -> lexeme_of false (Some r) = ORD.
  Proof.
    unfold is_wordb, is_sepb, is_quoteb, lexeme_of. intros H.
    destruct (r =? cQuote)%N; [cbn in H; lia|].
    destruct (r =? cSpace)%N; [cbn in H; lia|].
    destruct (r =? cTab)%N; [cbn in H; lia|].
    destruct (r =? cComma)%N; [cbn in H; lia|]. reflexivity.
  Qed.

  Definition is_commab (r : N) : bool := (r =? cComma)%N.

  Lemma lexeme_sep r : is_sepb r = true -> lexeme_of false (Some r) = opl (is_commab r).
  Proof.
    unfold is_sepb, lexeme_of, is_commab, cQuote, cSpace, cTab, cComma. intros H.
    destruct (r =? 34)%N eqn:E1; [lia|].
    destruct (r =? 32)%N eqn:E2; [replace (r =? 44)%N with false by lia; reflexivity|].
    destruct (r =? 9)%N eqn:E3; [replace (r =? 44)%N with false by lia; reflexivity|].
    destruct (r =? 44)%N eqn:E4; [reflexivity|]. cbn in H. discriminate.
  Qed.

  (* iter with the lexeme abstracted *)
  Definition iter_core (q : list N) (i : Z) (s : pstate) (curr : lexeme) : result pstate :=
    let c := ctx s in
    let qres :=
      if lexeme_eqb curr QUO then
        if quo c then Ok (set_quo c false, ORD, false, true)
        else if lexeme_eqb (prev s) ORD then Err
        else Ok (c, ORD, true, false)
      else if lexeme_eqb curr ORD && closed s then Err
      else Ok (c, curr, false, false) in
    match qres with
    | Err => Err
    | Ok (c, curr, opening, closing) =>
      match parser_switch i c (prev s) curr with
      | Err => Err
      | Ok (c, emit) =>
        let open c := if opening then set_unquote (set_quo c true) true else c in
        if emit then
          if quo c then Err
          else Ok (mkSt (open (emit_ctx i c)) curr (emit_token lower rewrite q c (out s)) closing)
        else Ok (mkSt (open c) curr (out s) closing)
      end
    end.

  Lemma iter_eq q i s r : body q i s r = iter_core q i s (lexeme_of (quo (ctx s)) r).
  Proof. reflexivity. Qed.

  Ltac run :=
    unfold iter_core, parser_switch, set_quo, set_unquote, set_postOp, set_end, emit_ctx;
    cbn [ctx prev out closed quo unquote preOp postOp cstart cend lexeme_eqb andb orb negb
         parser_switch set_quo set_unquote set_postOp set_end emit_ctx opl].

  (* ---------- runs of runes ---------- *)
  (* inside a word: nothing changes *)
  Lemma steps_word q w : forall i p uq st en o,
    forallb is_wordb w = true ->
    steps q i (mkSt (mkCtx p NONE false uq st en) ORD o false) w
    = Ok ((i + blen w)%Z, mkSt (mkCtx p NONE false uq st en) ORD o false).
  Proof.
    induction w as [|r w IH]; intros i p uq st en o H.
    - cbn. f_equal. f_equal. lia.
    - cbn [forallb] in H. apply andb_prop in H as [Hr Hw].
      cbn [steps]. rewrite iter_eq. cbn [ctx quo]. rewrite (lexeme_word r Hr). run.
      rewrite IH by assumption. rewrite blen_cons. f_equal. f_equal. lia.
  Qed.

  Definition no_quote (l : list N) : bool := forallb (fun r => negb (is_quoteb r)) l.

  (* inside a quoted string: nothing changes *)
  Lemma steps_quoted q w : forall i p st en o,
    no_quote w = true ->
    steps q i (mkSt (mkCtx p NONE true true st en) ORD o false) w
    = Ok ((i + blen w)%Z, mkSt (mkCtx p NONE true true st en) ORD o false).
  Proof.
    induction w as [|r w IH]; intros i p st en o H.
    - cbn. f_equal. f_equal. lia.
    - unfold no_quote in H. cbn [forallb] in H. apply andb_prop in H as [Hr Hw].
      apply negb_true_iff in Hr.
      cbn [steps]. rewrite iter_eq. cbn [ctx quo]. rewrite (lexeme_inquote r Hr). run.
      rewrite IH by assumption. rewrite blen_cons. f_equal. f_equal. lia.
  Qed.

  Definition b2n (b : bool) : nat := if b then 1%nat else 0%nat.

  Lemma commas_cons r s : commas (r :: s) = (b2n (is_commab r) + commas s)%nat.
  Proof. unfold commas, is_commab. cbn [filter]. destruct (r =? cComma)%N; reflexivity. Qed.

  Definition is_sep_lex (l : lexeme) : Prop := l = AND \/ l = OR.

  (* further separators after the first one of a run *)
  Lemma steps_sep q s : forall i p c uq st en pv o,
    is_sep_lex pv -> forallb is_sepb s = true ->
    steps q i (mkSt (mkCtx p (opl c) false uq st en) pv o false) s =
    if (2 <=? b2n c + commas s)%nat then Err
    else Ok ((i + blen s)%Z,
             mkSt (mkCtx p (opl (c || has_comma s)) false uq st en)
                  (match rev s with [] => pv | r :: _ => opl (is_commab r) end) o false).
  Proof.
    induction s as [|r s IH]; intros i p c uq st en pv o Hpv H.
    - cbn [steps commas filter length rev]. replace (2 <=? _)%nat with false by (destruct c; cbn; lia).
      unfold has_comma. cbn. rewrite orb_false_r. f_equal. f_equal. cbn. lia.
    - cbn [forallb] in H. apply andb_prop in H as [Hr Hs].
      cbn [steps]. rewrite iter_eq. cbn [ctx quo]. rewrite (lexeme_sep r Hr).
      rewrite commas_cons.
      assert (Hrev : forall d, match rev (r :: s) with [] => d | x :: _ => opl (is_commab x) end
                     = match rev s with [] => opl (is_commab r) | x :: _ => opl (is_commab x) end).
      { intros d. cbn [rev]. destruct (rev s); reflexivity. }
      rewrite Hrev.
      assert (Hhc : has_comma (r :: s) = is_commab r || has_comma s).
      { unfold has_comma. rewrite commas_cons. destruct (is_commab r); cbn; [reflexivity|reflexivity]. }
      rewrite Hhc.
      destruct (is_commab r) eqn:Ec; destruct c.
      + (* second comma *)
        destruct Hpv as [-> | ->]; run; cbn [b2n]; (destruct (2 <=? _)%nat eqn:E2; [reflexivity|lia]).
      + destruct Hpv as [-> | ->]; run;
          pose proof (IH (i + width r)%Z p true uq st en OR o (or_intror eq_refl) Hs) as E;
          cbn [opl b2n orb] in E |- *; rewrite E; rewrite blen_cons;
          replace (0 + (1 + commas s))%nat with (1 + commas s)%nat by lia;
          destruct (2 <=? 1 + commas s)%nat; try reflexivity; f_equal; f_equal; lia.
      + destruct Hpv as [-> | ->]; run;
          pose proof (IH (i + width r)%Z p true uq st en AND o (or_introl eq_refl) Hs) as E;
          cbn [opl b2n orb] in E |- *; rewrite E; rewrite blen_cons;
          replace (1 + (0 + commas s))%nat with (1 + commas s)%nat by lia;
          destruct (2 <=? 1 + commas s)%nat; try reflexivity; f_equal; f_equal; lia.
      + destruct Hpv as [-> | ->]; run;
          pose proof (IH (i + width r)%Z p false uq st en AND o (or_introl eq_refl) Hs) as E;
          cbn [opl b2n orb] in E |- *; rewrite E; rewrite blen_cons;
          replace (0 + (0 + commas s))%nat with (0 + commas s)%nat by lia;
          destruct (2 <=? 0 + commas s)%nat; try reflexivity; f_equal; f_equal; lia.
  Qed.

  (* ---------- list facts about the reference lexer ---------- *)
  Definition hd_not (p : N -> bool) (l : list N) : Prop :=
    match l with [] => True | x :: _ => p x = false end.

  Lemma span_spec p l : forall a b, span p l = (a, b) ->
    l = a ++ b /\ forallb p a = true /\ hd_not p b /\ (length b <= length l)%nat.
  Proof.
    induction l as [|r l IH]; intros a b H; cbn [span] in H.
    - inversion H. repeat split; cbn; auto.
    - destruct (p r) eqn:Er.
      + destruct (span p l) as [a' b'] eqn:E. inversion H; subst.
        destruct (IH _ _ eq_refl) as (H1 & H2 & H3 & H4).
        repeat split; [cbn; now f_equal|cbn; now rewrite Er, H2|assumption|cbn; lia].
      + inversion H; subst. repeat split; cbn; auto.
  Qed.

  Lemma is_quoteb_eq r : is_quoteb r = true -> r = cQuote.
  Proof. unfold is_quoteb. intros H. now apply N.eqb_eq. Qed.

  Lemma until_quote_some t : forall a b, until_quote t = Some (a, b) ->
    t = a ++ cQuote :: b /\ no_quote a = true /\ (length b < length t)%nat.
  Proof.
    induction t as [|r t IH]; intros a b H; cbn [until_quote] in H; [discriminate|].
    destruct (is_quoteb r) eqn:Er.
    - inversion H; subst. apply is_quoteb_eq in Er. subst. repeat split; cbn; auto.
    - destruct (until_quote t) as [[a' b']|]; [|discriminate]. inversion H; subst.
      destruct (IH _ _ eq_refl) as (H1 & H2 & H3).
      repeat split; [cbn; now f_equal|unfold no_quote in *; cbn; now rewrite Er, H2|cbn; lia].
  Qed.

  Lemma until_quote_none t : until_quote t = None -> no_quote t = true.
  Proof.
    induction t as [|r t IH]; intros H; [reflexivity|]. cbn [until_quote] in H.
    destruct (is_quoteb r) eqn:Er; [discriminate|].
    destruct (until_quote t) as [[a' b']|]; [discriminate|].
    unfold no_quote in *. cbn. now rewrite Er, IH.
  Qed.

  (* ---------- the invariant between two items ---------- *)
  Inductive astate :=
  | AInit
  | ATerm (p qd : bool) (wt : list N) (o : list token)
  | ASep (p : bool) (pend : option (list N)) (c : bool) (o : list token).

  Definition rel (q : list N) (a : astate) (pre : list N) (s : pstate) : Prop :=
    match a with
    | AInit => pre = [] /\ s = init_state
    | ATerm p qd wt o => exists pre0 en, pre = pre0 ++ wrap qd wt /\
        s = mkSt (mkCtx (opl p) NONE false qd (blen pre0) en) ORD o qd
    | ASep p pend c o => exists uq st en pv, is_sep_lex pv /\ tok_text q uq st en = pend /\
        s = mkSt (mkCtx (opl p) (opl c) false uq st en) pv o false
    end.

  Definition toks (ts : list (bool * list N)) : list token :=
    flat_map (fun t => toks_of (fst t) (some_text (snd t))) ts.

  Definition outa (a : astate) (its : list item) : list token :=
    match a with
    | AInit => toks (terms false its)
    | ATerm p qd wt o => o ++ toks_of (p || next_comma its) (some_text wt) ++ toks (terms false its)
    | ASep p pend c o => o ++ toks_of (p || c) pend ++ toks (terms c its)
    end.

  Definition wfa (a : astate) (its : list item) : bool :=
    match a with ATerm _ _ _ _ => wf_items true its | _ => wf_items false its end.

  Definition final (a : astate) (l : option (list item)) : result (list token) :=
    match l with
    | None => Err
    | Some its => if wfa a its then Ok (outa a its) else Err
    end.

  Definition astep_term (a : astate) (qd : bool) (wt : list N) : option astate :=
    match a with
    | AInit => Some (ATerm false qd wt [])
    | ASep p pend c o => Some (ATerm c qd wt (o ++ toks_of (p || c) pend))
    | ATerm _ _ _ _ => None
    end.

  Definition astep_sep (a : astate) (sp : list N) : astate :=
    match a with
    | AInit => ASep false None (has_comma sp) []
    | ATerm p qd wt o => ASep p (some_text wt) (has_comma sp) o
    | ASep _ _ _ _ => a
    end.

  Ltac run' :=
    unfold iter_core, parser_switch, set_quo, set_unquote, set_postOp, set_end, emit_ctx;
    cbn [ctx prev out closed quo unquote preOp postOp cstart cend lexeme_eqb andb orb negb].

  Lemma opl_or c : lexeme_eqb (opl c) OR = c.
  Proof. now destruct c. Qed.

  (* end of input *)
  Lemma end_item q a pre s : q = pre -> rel q a pre s ->
    loop body q (blen pre) s [] = Ok (outa a []).
  Proof.
    intros Hq Hrel. cbn [loop]. rewrite iter_eq. cbn [lexeme_of].
    destruct a as [|p qd wt o|p pend c o]; cbn [rel] in Hrel.
    - destruct Hrel as [-> ->]. unfold init_state. run'. apply f_equal.
      change AND with (opl false). rewrite emit_token_eq. reflexivity.
    - destruct Hrel as (pre0 & en & Hpre & ->). run'. apply f_equal.
      rewrite emit_token_eq. cbn [lexeme_eqb outa terms toks flat_map next_comma].
      rewrite app_nil_r. f_equal. f_equal. subst q pre.
      rewrite blen_app.
      replace (pre0 ++ wrap qd wt) with (pre0 ++ wrap qd wt ++ []) by now rewrite app_nil_r.
      apply tok_text_term.
    - destruct Hrel as (uq & st & en & pv & Hpv & Hpend & ->).
      destruct Hpv as [-> | ->]; run'; apply f_equal; rewrite emit_token_eq, opl_or; subst pend;
        cbn [outa terms toks flat_map]; now rewrite app_nil_r.
  Qed.

  (* a separator run *)
  Lemma sep_item q a pre r sp post s :
    q = pre ++ (r :: sp) ++ post -> forallb is_sepb (r :: sp) = true -> rel q a pre s ->
    match a with ASep _ _ _ _ => False | _ => True end ->
    if (2 <=? commas (r :: sp))%nat then steps q (blen pre) s (r :: sp) = Err
    else exists s', steps q (blen pre) s (r :: sp) = Ok (blen (pre ++ r :: sp), s')
                    /\ rel q (astep_sep a (r :: sp)) (pre ++ r :: sp) s'.
  Proof.
    intros Hq Hsp Hrel Ha. cbn [forallb] in Hsp. apply andb_prop in Hsp as [Hr Hs].
    assert (Hhc : has_comma (r :: sp) = is_commab r || has_comma sp).
    { unfold has_comma. rewrite commas_cons. destruct (is_commab r); reflexivity. }
    rewrite commas_cons.
    destruct a as [|p qd wt o|]; [| |contradiction]; cbn [rel] in Hrel.
    - destruct Hrel as [-> ->]. unfold init_state.
      cbn [steps]. rewrite iter_eq. cbn [ctx quo]. rewrite (lexeme_sep r Hr).
      destruct (is_commab r) eqn:Ec; run.
      + pose proof (steps_sep q sp (blen [] + width r)%Z AND true false 0%Z 0%Z OR [] (or_intror eq_refl) Hs) as E.
        cbn [opl] in E. rewrite E. cbn [b2n].
        destruct (2 <=? 1 + commas sp)%nat; [reflexivity|].
        eexists. split; [rewrite blen_app, blen_cons; f_equal; f_equal; lia|].
        cbn [astep_sep rel]. rewrite Hhc. cbn [orb].
        exists false, 0%Z, 0%Z. eexists. split; [|split; [reflexivity|reflexivity]].
        destruct (rev sp) as [|x ?]; [now right|destruct (is_commab x); [now right|now left]].
      + pose proof (steps_sep q sp (blen [] + width r)%Z AND false false 0%Z 0%Z AND [] (or_introl eq_refl) Hs) as E.
        cbn [opl] in E. rewrite E. cbn [b2n].
        destruct (2 <=? 0 + commas sp)%nat; [reflexivity|].
        eexists. split; [rewrite blen_app, blen_cons; f_equal; f_equal; lia|].
        cbn [astep_sep rel]. rewrite Hhc. cbn [orb].
        exists false, 0%Z, 0%Z. eexists. split; [|split; [reflexivity|reflexivity]].
        destruct (rev sp) as [|x ?]; [now left|destruct (is_commab x); [now right|now left]].
    - destruct Hrel as (pre0 & en & Hpre & ->).
      assert (Htt : tok_text q qd (blen pre0) (blen pre) = some_text wt).
      { subst q pre. rewrite <- app_assoc, blen_app. apply tok_text_term. }
      cbn [steps]. rewrite iter_eq. cbn [ctx quo]. rewrite (lexeme_sep r Hr).
      destruct (is_commab r) eqn:Ec; destruct qd; run;
          (match goal with
           | |- context [steps q ?i (mkSt (mkCtx ?p0 ?po false ?uq ?st ?en0) ?pv ?o0 false) sp] =>
             first [ pose proof (steps_sep q sp i p0 true uq st en0 pv o0 (or_intror eq_refl) Hs) as E
                   | pose proof (steps_sep q sp i p0 false uq st en0 pv o0 (or_introl eq_refl) Hs) as E ]
           end; cbn [opl] in E; rewrite E; cbn [b2n];
           match goal with |- context [(2 <=? ?n)%nat] => destruct (2 <=? n)%nat end; [reflexivity|];
           (eexists; split; [rewrite blen_app, blen_cons; f_equal; f_equal; lia|]);
           cbn [astep_sep rel]; rewrite Hhc; cbn [orb];
           (eexists; eexists; eexists; eexists; split; [|split; [|reflexivity]]; [|exact Htt]);
           destruct (rev sp) as [|x ?]; [first [now right|now left]|destruct (is_commab x); [now right|now left]]).
  Qed.

  Ltac blen_solve :=
    cbn [app]; repeat (rewrite blen_app || rewrite blen_cons); change (blen []) with 0%Z;
    change (width cQuote) with 1%Z; lia.
  Ltac ok_pair := apply f_equal; apply f_equal2; [blen_solve|reflexivity].

  (* a word *)
  Lemma word_item q a pre r w post s :
    q = pre ++ (r :: w) ++ post -> is_wordb r = true -> forallb is_wordb w = true -> rel q a pre s ->
    match a with ATerm _ false _ _ => False | _ => True end ->
    match astep_term a false (r :: w) with
    | None => steps q (blen pre) s (r :: w) = Err
    | Some a' => exists s', steps q (blen pre) s (r :: w) = Ok (blen (pre ++ r :: w), s')
                            /\ rel q a' (pre ++ r :: w) s'
    end.
  Proof.
    intros Hq Hr Hw Hrel Ha.
    destruct a as [|p qd wt o|p pend c o]; cbn [rel astep_term] in *.
    - destruct Hrel as [-> ->]. unfold init_state.
      cbn [steps]. rewrite iter_eq. cbn [ctx quo]. rewrite (lexeme_word r Hr). run'.
      rewrite steps_word by assumption.
      eexists. split; [ok_pair|].
      exists [], 0%Z. split; reflexivity.
    - destruct qd; [|contradiction]. destruct Hrel as (pre0 & en & Hpre & ->).
      cbn [steps]. rewrite iter_eq. cbn [ctx quo]. rewrite (lexeme_word r Hr). run'. reflexivity.
    - destruct Hrel as (uq & st & en & pv & Hpv & Hpend & ->).
      cbn [steps]. rewrite iter_eq. cbn [ctx quo]. rewrite (lexeme_word r Hr).
      destruct Hpv as [-> | ->]; run'; rewrite steps_word by assumption;
        (eexists; split; [ok_pair|]);
        exists pre, en; (split; [reflexivity|]); rewrite emit_token_eq, opl_or, Hpend; reflexivity.
  Qed.

  Lemma steps_close q i p st en o :
    steps q i (mkSt (mkCtx p NONE true true st en) ORD o false) [cQuote]
    = Ok ((i + 1)%Z, mkSt (mkCtx p NONE false true st en) ORD o true).
  Proof. reflexivity. Qed.

  (* a quoted string *)
  Lemma quoted_item q a pre w post s :
    q = pre ++ (cQuote :: w ++ [cQuote]) ++ post -> no_quote w = true -> rel q a pre s ->
    match astep_term a true w with
    | None => steps q (blen pre) s (cQuote :: w ++ [cQuote]) = Err
    | Some a' => exists s', steps q (blen pre) s (cQuote :: w ++ [cQuote])
                            = Ok (blen (pre ++ cQuote :: w ++ [cQuote]), s')
                            /\ rel q a' (pre ++ cQuote :: w ++ [cQuote]) s'
    end.
  Proof.
    intros Hq Hw Hrel.
    assert (Hl : forall b, lexeme_of b (Some cQuote) = QUO) by (intros b; now apply lexeme_quote).
    destruct a as [|p qd wt o|p pend c o]; cbn [rel astep_term] in *.
    - destruct Hrel as [-> ->]. unfold init_state.
      cbn [steps]. rewrite iter_eq, Hl. run'.
      rewrite steps_app, steps_quoted by assumption. rewrite steps_close.
      eexists. split; [ok_pair|].
      exists [], 0%Z. split; reflexivity.
    - destruct Hrel as (pre0 & en & Hpre & ->).
      cbn [steps]. rewrite iter_eq, Hl. run'. reflexivity.
    - destruct Hrel as (uq & st & en & pv & Hpv & Hpend & ->).
      cbn [steps]. rewrite iter_eq, Hl.
      destruct Hpv as [-> | ->]; run'; rewrite steps_app, steps_quoted by assumption; rewrite steps_close;
        (eexists; split; [ok_pair|]);
        exists pre, en; (split; [reflexivity|]); rewrite emit_token_eq, opl_or, Hpend; reflexivity.
  Qed.

  (* a quote that is never closed *)
  Lemma unterminated q a pre t s :
    no_quote t = true -> rel q a pre s -> loop body q (blen pre) s (cQuote :: t) = Err.
  Proof.
    intros Ht Hrel.
    assert (Hl : forall b, lexeme_of b (Some cQuote) = QUO) by (intros b; now apply lexeme_quote).
    replace (cQuote :: t) with ((cQuote :: t) ++ []) by apply app_nil_r.
    rewrite loop_app.
    destruct a as [|p qd wt o|p pend c o]; cbn [rel] in *.
    - destruct Hrel as [-> ->]. unfold init_state.
      cbn [steps]. rewrite iter_eq, Hl. run'. rewrite steps_quoted by assumption. reflexivity.
    - destruct Hrel as (pre0 & en & Hpre & ->).
      cbn [steps]. rewrite iter_eq, Hl. run'. reflexivity.
    - destruct Hrel as (uq & st & en & pv & Hpv & Hpend & ->).
      cbn [steps]. rewrite iter_eq, Hl.
      destruct Hpv as [-> | ->]; run'; rewrite steps_quoted by assumption; reflexivity.
  Qed.

  (* ---------- the spec side of one step ---------- *)
  Lemma final_sep a sp L :
    match a with ASep _ _ _ _ => False | _ => True end ->
    final a (option_map (cons (Sep sp)) L) =
    if (2 <=? commas sp)%nat then Err else final (astep_sep a sp) L.
  Proof.
    intros Ha. destruct L as [its|]; cbn [option_map final]; [|now destruct (2 <=? _)%nat].
    destruct a as [|p qd wt o|]; [| |contradiction]; cbn [wfa wf_items astep_sep outa terms next_comma];
      destruct (2 <=? commas sp)%nat eqn:E;
      (replace (Nat.leb (commas sp) 1) with false by lia) || (replace (Nat.leb (commas sp) 1) with true by lia);
      cbn [andb]; reflexivity.
  Qed.

  Lemma final_term a (qd : bool) wt L it :
    it = (if qd then Quoted wt else Word wt) ->
    final a (option_map (cons it) L) =
    match astep_term a qd wt with None => Err | Some a' => final a' L end.
  Proof.
    intros ->. destruct L as [its|]; cbn [option_map final]; [|now destruct (astep_term a qd wt)].
    destruct a as [|p qd' wt' o|p pend c o]; destruct qd;
      cbn [wfa wf_items astep_term outa terms next_comma negb andb toks flat_map fst snd orb];
      try reflexivity; destruct (wf_items true its); try reflexivity;
      rewrite <- ?app_assoc; reflexivity.
  Qed.

  (* ---------- the main induction ---------- *)
  Definition side (a : astate) (rest : list N) : Prop :=
    match a with
    | ATerm _ false _ _ => hd_not is_wordb rest
    | ASep _ _ _ _ => hd_not is_sepb rest
    | _ => True
    end.

  Lemma main q : forall fuel rest pre s a,
    (length rest <= fuel)%nat -> q = pre ++ rest -> rel q a pre s -> side a rest ->
    loop body q (blen pre) s rest = final a (lex fuel rest).
  Proof.
    induction fuel as [|f IH]; intros rest pre s a Hlen Hq Hrel Hside.
    - destruct rest; [|cbn in Hlen; lia]. rewrite app_nil_r in Hq.
      rewrite (end_item q a pre s Hq Hrel). cbn [lex final].
      destruct a; reflexivity.
    - destruct rest as [|r t].
      + rewrite app_nil_r in Hq. rewrite (end_item q a pre s Hq Hrel). cbn [lex final].
        destruct a; reflexivity.
      + cbn [lex]. destruct (is_sepb r) eqn:Esep.
        * (* separator run *)
          destruct (span is_sepb t) as [sp rest'] eqn:Espan.
          destruct (span_spec _ _ _ _ Espan) as (Ht & Hsp & Hhd & Hl). subst t.
          assert (Ha : match a with ASep _ _ _ _ => False | _ => True end).
          { destruct a; auto. cbn in Hside. congruence. }
          rewrite final_sep by assumption.
          change (r :: sp ++ rest') with ((r :: sp) ++ rest'). rewrite loop_app.
          pose proof (sep_item q a pre r sp rest' s Hq ltac:(cbn; now rewrite Esep, Hsp) Hrel Ha) as Hstep.
          destruct (2 <=? commas (r :: sp))%nat; [now rewrite Hstep|].
          destruct Hstep as (s' & -> & Hrel').
          apply IH; [cbn in Hlen; lia|now rewrite <- app_assoc|assumption|].
          destruct a; cbn [astep_sep side]; auto; contradiction.
        * destruct (is_quoteb r) eqn:Equo.
          -- (* quoted string *)
             apply is_quoteb_eq in Equo. subst r.
             destruct (until_quote t) as [[w rest']|] eqn:Eu.
             ++ destruct (until_quote_some _ _ _ Eu) as (Ht & Hw & Hl). subst t.
                rewrite (final_term a true w _ _ eq_refl).
                change (cQuote :: w ++ cQuote :: rest') with (cQuote :: w ++ [cQuote] ++ rest').
                rewrite app_assoc, app_comm_cons, loop_app.
                pose proof (quoted_item q a pre w rest' s) as Hstep.
                rewrite <- app_comm_cons, <- app_assoc in Hstep. specialize (Hstep Hq Hw Hrel).
                destruct (astep_term a true w) as [a'|] eqn:Ea; [|now rewrite Hstep].
                destruct Hstep as (s' & -> & Hrel').
                apply IH; [cbn in Hlen; lia| |assumption|].
                ** rewrite Hq, <- app_assoc. cbn [app]. rewrite <- app_assoc. reflexivity.
                ** destruct a; cbn in Ea; inversion Ea; exact I.
             ++ cbn [final]. apply (unterminated q a pre t s); [now apply until_quote_none|assumption].
          -- (* word *)
             assert (Hr : is_wordb r = true) by (unfold is_wordb; now rewrite Esep, Equo).
             destruct (span is_wordb t) as [w rest'] eqn:Espan.
             destruct (span_spec _ _ _ _ Espan) as (Ht & Hw & Hhd & Hl). subst t.
             rewrite (final_term a false (r :: w) _ _ eq_refl).
             change (r :: w ++ rest') with ((r :: w) ++ rest'). rewrite loop_app.
             assert (Ha : match a with ATerm _ false _ _ => False | _ => True end).
             { destruct a as [|? [] ? ?|]; auto. cbn in Hside. congruence. }
             pose proof (word_item q a pre r w rest' s Hq Hr Hw Hrel Ha) as Hstep.
             destruct (astep_term a false (r :: w)) as [a'|] eqn:Ea; [|now rewrite Hstep].
             destruct Hstep as (s' & -> & Hrel').
             apply IH; [cbn in Hlen; lia|now rewrite <- app_assoc|assumption|].
             destruct a; cbn in Ea; inversion Ea; exact Hhd.
  Qed.

  (* ---------- tokens to the two slices ---------- *)
  Lemma group_one (o : bool) w l :
    group (toks_of o (some_text w) ++ l) =
    let '(a, b) := group l in
    if o then (a, spellings lower rewrite w ++ b)
    else (if is_nil (spellings lower rewrite w) then a else spellings lower rewrite w :: a, b).
  Proof.
    unfold toks_of, some_text, spellings.
    destruct (is_nil w) eqn:Ew.
    - cbn [app is_nil]. destruct (group l), o; reflexivity.
    - cbv zeta. destruct (is_nil (rewrite (to_lower lower w))) eqn:Er.
      + cbn [app is_nil]. destruct (group l), o; reflexivity.
      + cbn [app group is_nil t_op]. destruct (group l) as [a b]. unfold with_rw. cbn [t_val t_rw].
        destruct (list_eqb (rewrite (to_lower lower w)) (to_lower lower w)) eqn:El.
        * destruct o; reflexivity.
        * rewrite Er. destruct o; reflexivity.
  Qed.

  Lemma group_toks ts :
    group (toks ts) =
    (filter (fun g => negb (is_nil g)) (map (fun t => spellings lower rewrite (snd t)) (filter (fun t => negb (fst t)) ts)),
     flat_map (fun t => spellings lower rewrite (snd t)) (filter (fun t => fst t) ts)).
  Proof.
    induction ts as [|[o w] ts IH]; [reflexivity|].
    unfold toks in *. cbn [flat_map fst snd filter].
    rewrite group_one, IH.
    destruct o; cbn [negb map flat_map filter fst snd]; [reflexivity|].
    destruct (is_nil (spellings lower rewrite w)); reflexivity.
  Qed.

  (* ---------- the parser computes the reference semantics ---------- *)
  Theorem parse_eq query :
    parse lower rewrite query =
    if well_formedb query then Ok (denote lower rewrite query) else Err.
  Proof.
    unfold parse, parse_with, well_formedb, denote, items.
    set (q := trim_space query).
    pose proof (main q (length q) q [] init_state AInit (le_n _) eq_refl (conj eq_refl eq_refl) I) as H.
    change (blen []) with 0%Z in H. rewrite H.
    destruct (lex (length q) q) as [its|]; cbn [final]; [|reflexivity].
    cbn [wfa outa]. destruct (wf_items false its); [|reflexivity].
    unfold denote_items. now rewrite group_toks.
  Qed.

  Theorem parse_sound_complete query r :
    parse lower rewrite query = Ok r <-> well_formed query /\ r = denote lower rewrite query.
  Proof.
    rewrite parse_eq. unfold well_formed. destruct (well_formedb query); split.
    - intros H. inversion H. auto.
    - intros [_ ->]. reflexivity.
    - discriminate.
    - intros [H _]. discriminate.
  Qed.

  Theorem parse_err_iff query : parse lower rewrite query = Err <-> ~ well_formed query.
  Proof.
    rewrite parse_eq. unfold well_formed. destruct (well_formedb query); split; intros H;
      try discriminate; try congruence.
  Qed.
End Proofs.
