(* Model of server/store/types/types.go:285-344: Uid.P2PName, ParseP2P,
   P2PNameForUser.  Definitions only; lemmas in P2PProofs.v. *)
From Coq Require Import NArith List Bool.
From Tinode Require Import Base.Base64 Pure.Uid.
Import ListNotations.
Open Scope N_scope.

(* uid.P2PName(u2): "" for a zero id or for uid = u2 *)
Definition p2p_name (u1 u2 : N) : list N :=
  if negb (u1 =? 0) && negb (u2 =? 0) then
    if u1 <? u2 then s_p2p ++ b64_encode (marshal_binary u1 ++ marshal_binary u2)
    else if u2 <? u1 then s_p2p ++ b64_encode (marshal_binary u2 ++ marshal_binary u1)
    else []
  else [].

(* ParseP2P: None = an error is returned (uid1 = uid2 = 0 then) *)
Definition parse_p2p (s : list N) : option (N * N) :=
  if has_prefix s s_p2p then
    let src := skipn 3 s in
    if negb (Nat.eqb (length src) p2pBase64Unpadded) then None
    else
      let '(dec, _) := b64_decode src in
      if Nat.ltb (length dec) 16 then None
      else Some (le_uint64 dec, le_uint64 (skipn 8 dec))
  else None.

(* P2PNameForUser: None = error *)
Definition p2p_name_for_user (u : N) (p2p : list N) : option (list N) :=
  match parse_p2p p2p with
  | None => None
  | Some (uid1, uid2) => if u =? uid1 then Some (user_id uid2) else Some (user_id uid1)
  end.
