(* Lemmas about Pure/Ring.v.  Everything is for an arbitrary hash function and
   digest (Section variables), arbitrary node-name lists, replica counts and
   keys; no bound on any size. *)
From Coq Require Import NArith ZArith List Bool Arith Lia Permutation Sorted.
From Coq Require Import ZifyBool ZifyNat ZifyN.
From Tinode Require Import Pure.Ring.
Import ListNotations.

(* ------------------------------------------------------------------ *)
(* the string order                                                    *)

Lemma scmp_refl a : scmp a a = Eq.
Proof. induction a as [|x a IH]; cbn; [reflexivity|]. rewrite N.compare_refl. exact IH. Qed.

Lemma scmp_eq a : forall b, scmp a b = Eq -> a = b.
Proof.
  induction a as [|x a IH]; destruct b as [|y b]; cbn; try discriminate; auto.
  destruct (N.compare x y) eqn:E; try discriminate.
  intros H. apply N.compare_eq in E. f_equal; auto.
Qed.

Lemma scmp_antisym a : forall b, scmp b a = CompOpp (scmp a b).
Proof.
  induction a as [|x a IH]; destruct b as [|y b]; cbn; auto.
  rewrite (N.compare_antisym x y). destruct (N.compare x y); cbn; auto.
Qed.

Lemma scmp_lt_trans a : forall b c, scmp a b = Lt -> scmp b c = Lt -> scmp a c = Lt.
Proof.
  induction a as [|x a IH]; destruct b as [|y b]; destruct c as [|z c]; cbn; try discriminate; auto.
  destruct (N.compare_spec x y) as [E1|E1|E1]; try discriminate;
  destruct (N.compare_spec y z) as [E2|E2|E2]; try discriminate; intros H1 H2.
  - subst. rewrite N.compare_refl. eauto.
  - subst. apply N.compare_lt_iff in E2. rewrite E2. reflexivity.
  - subst. apply N.compare_lt_iff in E1. rewrite E1. reflexivity.
  - assert (E : (x < z)%N) by lia. apply N.compare_lt_iff in E. rewrite E. reflexivity.
Qed.

Lemma seqb_eq a b : seqb a b = true <-> a = b.
Proof.
  unfold seqb. split.
  - destruct (scmp a b) eqn:E; try discriminate. intros _. now apply scmp_eq.
  - intros ->. now rewrite scmp_refl.
Qed.

Lemma seqb_neq a b : seqb a b = false <-> a <> b.
Proof.
  rewrite <- seqb_eq. destruct (seqb a b); split; congruence.
Qed.

(* ------------------------------------------------------------------ *)
(* the element order of sortable.Less                                  *)

Definition ecmp (a b : elt) : comparison :=
  match N.compare (fst a) (fst b) with
  | Eq => scmp (snd a) (snd b)
  | c => c
  end.

Lemma eless_ecmp a b : eless a b = match ecmp a b with Lt => true | _ => false end.
Proof.
  unfold eless, ecmp, sltb.
  destruct (N.compare_spec (fst a) (fst b)) as [E|E|E].
  - rewrite E, N.ltb_irrefl, N.eqb_refl. reflexivity.
  - apply N.ltb_lt in E. rewrite E. reflexivity.
  - assert (H1 : (fst a <? fst b)%N = false) by lia.
    assert (H2 : (fst a =? fst b)%N = false) by lia.
    rewrite H1, H2. reflexivity.
Qed.

Lemma ecmp_refl a : ecmp a a = Eq.
Proof. unfold ecmp. rewrite N.compare_refl. apply scmp_refl. Qed.

Lemma ecmp_eq a b : ecmp a b = Eq -> a = b.
Proof.
  destruct a as [h1 k1], b as [h2 k2]. unfold ecmp. cbn [fst snd].
  destruct (N.compare h1 h2) eqn:E; try discriminate.
  intros H. apply N.compare_eq in E. apply scmp_eq in H. congruence.
Qed.

Lemma ecmp_antisym a b : ecmp b a = CompOpp (ecmp a b).
Proof.
  unfold ecmp. rewrite (N.compare_antisym (fst a) (fst b)).
  destruct (N.compare (fst a) (fst b)); cbn; auto. apply scmp_antisym.
Qed.

Lemma ecmp_lt_trans a b c : ecmp a b = Lt -> ecmp b c = Lt -> ecmp a c = Lt.
Proof.
  unfold ecmp.
  destruct (N.compare_spec (fst a) (fst b)) as [E1|E1|E1]; try discriminate;
  destruct (N.compare_spec (fst b) (fst c)) as [E2|E2|E2]; try discriminate; intros H1 H2.
  - rewrite E1, E2, N.compare_refl. eapply scmp_lt_trans; eauto.
  - rewrite E1. apply N.compare_lt_iff in E2. rewrite E2. reflexivity.
  - rewrite <- E2. apply N.compare_lt_iff in E1. rewrite E1. reflexivity.
  - assert (E : (fst a < fst c)%N) by lia. apply N.compare_lt_iff in E. rewrite E. reflexivity.
Qed.

(* a <= b in the code's order: Less(b, a) is false *)
Definition ele (a b : elt) : Prop := eless b a = false.

Lemma ele_ecmp a b : ele a b <-> ecmp a b <> Gt.
Proof.
  unfold ele. rewrite eless_ecmp, (ecmp_antisym a b).
  destruct (ecmp a b); cbn; split; congruence.
Qed.

Lemma ele_refl a : ele a a.
Proof. apply ele_ecmp. rewrite ecmp_refl. discriminate. Qed.

Lemma ele_trans a b c : ele a b -> ele b c -> ele a c.
Proof.
  rewrite !ele_ecmp. intros H1 H2.
  destruct (ecmp a b) eqn:E1; try congruence.
  - apply ecmp_eq in E1. now subst.
  - destruct (ecmp b c) eqn:E2; try congruence.
    + apply ecmp_eq in E2. subst. rewrite E1. discriminate.
    + rewrite (ecmp_lt_trans _ _ _ E1 E2). discriminate.
Qed.

(* elements that the comparison cannot tell apart are identical: the order is
   a total order on (hash, name) pairs, ties included *)
Lemma ele_antisym a b : ele a b -> ele b a -> a = b.
Proof.
  rewrite !ele_ecmp, (ecmp_antisym a b). intros H1 H2.
  destruct (ecmp a b) eqn:E; cbn in *; try congruence. now apply ecmp_eq.
Qed.

Lemma ele_total a b : ele a b \/ ele b a.
Proof.
  rewrite !ele_ecmp, (ecmp_antisym a b). destruct (ecmp a b); cbn; [left|left|right]; discriminate.
Qed.

Lemma eless_true_ele a b : eless a b = true -> ele a b.
Proof.
  intros H. apply ele_ecmp. rewrite eless_ecmp in H. destruct (ecmp a b); congruence.
Qed.

(* Less is a strict order whose incomparable elements are equal *)
Lemma eless_irrefl a : eless a a = false.
Proof. rewrite eless_ecmp, ecmp_refl. reflexivity. Qed.

Lemma eless_trans a b c : eless a b = true -> eless b c = true -> eless a c = true.
Proof.
  rewrite !eless_ecmp. destruct (ecmp a b) eqn:E1; try discriminate.
  destruct (ecmp b c) eqn:E2; try discriminate. now rewrite (ecmp_lt_trans _ _ _ E1 E2).
Qed.

Lemma eless_trichotomy a b : eless a b = false -> eless b a = false -> a = b.
Proof. intros H1 H2. apply ele_antisym; assumption. Qed.

(* ------------------------------------------------------------------ *)
(* sorting                                                             *)

Definition sorted (l : list elt) : Prop := StronglySorted ele l.

Lemma insert_perm e l : Permutation (insert e l) (e :: l).
Proof.
  induction l as [|a l IH]; cbn; [reflexivity|].
  destruct (eless e a); [reflexivity|].
  rewrite IH. apply perm_swap.
Qed.

Lemma insert_sorted e l : sorted l -> sorted (insert e l).
Proof.
  unfold sorted. induction l as [|a l IH]; cbn; intros S.
  - constructor; constructor.
  - apply StronglySorted_inv in S as [S F].
    destruct (eless e a) eqn:E.
    + constructor; [constructor; assumption|].
      constructor; [now apply eless_true_ele|].
      eapply Forall_impl; [|exact F]. intros x Hx. eapply ele_trans; [|exact Hx]. now apply eless_true_ele.
    + constructor; [auto|].
      rewrite Forall_forall in *. intros x Hx.
      apply (Permutation_in _ (insert_perm e l)) in Hx. destruct Hx as [<-|Hx]; [exact E|auto].
Qed.

Lemma isort_perm l : Permutation (isort l) l.
Proof.
  induction l as [|a l IH]; cbn; [reflexivity|].
  unfold isort in *. cbn. rewrite insert_perm. now constructor.
Qed.

Lemma isort_sorted l : sorted (isort l).
Proof.
  induction l as [|a l IH]; cbn; [constructor|]. now apply insert_sorted.
Qed.

(* Whatever sort.Sort does: a sorted permutation of the input is unique. *)
Lemma sorted_unique l : forall l', sorted l -> sorted l' -> Permutation l l' -> l = l'.
Proof.
  unfold sorted. induction l as [|a l IH]; intros l' S S' P.
  - apply Permutation_nil in P. now subst.
  - destruct l' as [|b l']; [apply Permutation_sym, Permutation_nil in P; discriminate|].
    apply StronglySorted_inv in S as [S F]. apply StronglySorted_inv in S' as [S' F'].
    rewrite Forall_forall in F, F'.
    assert (Hab : a = b).
    { apply ele_antisym.
      - assert (In b (a :: l)) as [->|Hb] by (eapply Permutation_in; [apply Permutation_sym; exact P|now left]);
          [apply ele_refl|auto].
      - assert (In a (b :: l')) as [->|Ha] by (eapply Permutation_in; [exact P|now left]);
          [apply ele_refl|auto]. }
    subst b. f_equal. apply IH; auto. eapply Permutation_cons_inv; exact P.
Qed.

Lemma sorted_is_isort l s : sorted s -> Permutation s l -> s = isort l.
Proof.
  intros S P. apply sorted_unique; [assumption|apply isort_sorted|].
  rewrite P. symmetry. apply isort_perm.
Qed.

Lemma isort_perm_eq l l' : Permutation l l' -> isort l = isort l'.
Proof.
  intros P. apply sorted_is_isort; [apply isort_sorted|]. rewrite isort_perm. exact P.
Qed.

Lemma isort_app a b : isort (a ++ b) = fold_right insert (isort b) a.
Proof. unfold isort. apply fold_right_app. Qed.

Lemma sorted_filter q l : sorted l -> sorted (filter q l).
Proof.
  unfold sorted. induction l as [|a l IH]; cbn; intros S; [constructor|].
  apply StronglySorted_inv in S as [S F].
  destruct (q a); auto. constructor; auto.
  rewrite Forall_forall in *. intros x Hx. apply filter_In in Hx. apply F, Hx.
Qed.

Lemma filter_perm {A} (q : A -> bool) l l' : Permutation l l' -> Permutation (filter q l) (filter q l').
Proof.
  induction 1; cbn.
  - constructor.
  - destruct (q x); auto.
  - destruct (q x), (q y); auto. apply perm_swap.
  - etransitivity; eauto.
Qed.

(* ------------------------------------------------------------------ *)
(* sort.Search                                                         *)

Lemma bsearch_spec (f : nat -> bool) (n : nat) :
  (forall a b, a <= b -> b < n -> f a = true -> f b = true) ->
  forall fuel i j, j - i <= fuel -> i <= j -> j <= n ->
    (forall k, k < i -> f k = false) -> (j < n -> f j = true) ->
    let r := bsearch fuel f i j in
    r <= n /\ (forall k, k < r -> f k = false) /\ (r < n -> f r = true).
Proof.
  intros mono. induction fuel as [|fu IH]; intros i j Hf Hij Hjn Hlo Hhi; cbn [bsearch]; cbv zeta.
  - assert (i = j) by lia. subst. repeat split; auto; lia.
  - destruct (i <? j) eqn:E.
    + apply Nat.ltb_lt in E. cbv zeta in IH.
      pose proof (Nat.div2_div (i + j)) as Hd.
      assert (Hh : i <= Nat.div2 (i + j) < j).
      { rewrite Hd. split; [apply Nat.div_le_lower_bound|apply Nat.div_lt_upper_bound]; lia. }
      destruct (f (Nat.div2 (i + j))) eqn:Fh.
      * apply IH; try lia; auto.
      * apply IH; try lia; auto.
        intros k Hk. destruct (f k) eqn:Fk; [|reflexivity].
        rewrite <- Fh. symmetry. apply (mono k); auto; lia.
    + apply Nat.ltb_ge in E. assert (i = j) by lia. subst. repeat split; auto; lia.
Qed.

Lemma find_first_index {A} (p : A -> bool) (d : A) : forall (l : list A) (r : nat),
  r <= length l ->
  (forall k, k < r -> p (nth k l d) = false) ->
  (r < length l -> p (nth r l d) = true) ->
  find p l = nth_error l r.
Proof.
  induction l as [|a l IH]; intros r Hr Hlo Hhi; cbn in *.
  - assert (r = 0) by lia. subst. reflexivity.
  - destruct r as [|r].
    + rewrite Hhi by lia. reflexivity.
    + rewrite (Hlo 0) by lia. cbn.
      apply IH; [lia | intros k Hk; apply (Hlo (S k)); lia | intros H; apply Hhi; lia].
Qed.

Lemma gepred_ecmp hk key el : gepred hk key el = true <-> ecmp el (hk, key) <> Lt.
Proof.
  unfold gepred, ecmp, sltb. cbn [fst snd].
  destruct (N.compare_spec (fst el) hk) as [E|E|E].
  - rewrite E, N.ltb_irrefl, N.eqb_refl. cbn.
    destruct (scmp (snd el) key); cbn; split; congruence.
  - assert (H1 : (hk <? fst el)%N = false) by lia.
    assert (H2 : (fst el =? hk)%N = false) by lia.
    rewrite H1, H2. cbn. split; congruence.
  - assert (H1 : (hk <? fst el)%N = true) by lia. rewrite H1. cbn. split; congruence.
Qed.

(* the predicate is monotone along the code's order, which is what sort.Search needs *)
Lemma gepred_mono hk key a b : ele a b -> gepred hk key a = true -> gepred hk key b = true.
Proof.
  rewrite !gepred_ecmp, ele_ecmp. intros Hab Ha Hb. apply Ha.
  destruct (ecmp a b) eqn:E; try congruence.
  - apply ecmp_eq in E. now subst.
  - eapply ecmp_lt_trans; eauto.
Qed.

Lemma sorted_nth_ele l d : sorted l -> forall a b, a <= b -> b < length l -> ele (nth a l d) (nth b l d).
Proof.
  unfold sorted. induction l as [|x l IH]; intros S a b Hab Hb; cbn in Hb; [lia|].
  apply StronglySorted_inv in S as [S F].
  destruct a as [|a], b as [|b]; cbn; try lia.
  - apply ele_refl.
  - rewrite Forall_forall in F. apply F, nth_In. lia.
  - apply IH; auto; lia.
Qed.

Lemma fnv_step_eq h c : fnv_step h c = (((N.lxor h c) * fnv128_prime) mod two128)%N.
Proof.
  unfold fnv_step, fnv128_prime, two128. cbv zeta.
  rewrite N.land_ones, N.shiftl_mul_pow2.
  change (2 ^ 88)%N with 309485009821345068724781056%N.
  change (2 ^ 128)%N with 340282366920938463463374607431768211456%N.
  f_equal. lia.
Qed.

Section RingProofs.
  Variable hash : str -> N.
  Variable digest : str -> str.

  Notation ring_add := (ring_add hash digest).
  Notation ring_of := (ring_of hash digest).
  Notation ring_get := (ring_get hash).
  Notation get_spec := (get_spec hash).
  Notation appended := (appended hash).
  Notation replica_elts := (replica_elts hash).

  (* Ring.Get (binary search) = the first element >= (hash key, key), else the first *)
  Lemma ring_get_spec r key : sorted (rkeys r) -> ring_get r key = get_spec (rkeys r) key.
  Proof.
    intros S. unfold Ring.ring_get, Ring.get_spec.
    destruct (rkeys r) as [|e0 l]; [reflexivity|].
    remember (e0 :: l) as ks eqn:K.
    set (n := length ks).
    set (f := fun i => gepred (hash key) key (nth i ks e0)).
    assert (mono : forall a b, a <= b -> b < n -> f a = true -> f b = true).
    { intros a b Hab Hb. unfold f. apply gepred_mono. now apply sorted_nth_ele. }
    assert (Hn0 : 0 < n) by (unfold n; rewrite K; cbn; lia).
    destruct (bsearch_spec f n mono n 0 n) as (Hr & Hlo & Hhi); try lia.
    fold (sort_search n f) in Hr, Hlo, Hhi. cbv zeta. set (idx := sort_search n f) in *.
    rewrite (find_first_index _ e0 ks idx Hr Hlo Hhi).
    destruct (idx =? n) eqn:E.
    - apply Nat.eqb_eq in E. rewrite E.
      assert (Hn : nth_error ks n = None) by (apply nth_error_None; unfold n; lia).
      rewrite Hn, K. reflexivity.
    - apply Nat.eqb_neq in E.
      rewrite (nth_error_nth' ks e0) by (unfold n in *; lia). reflexivity.
  Qed.

  Lemma ring_add_keys reps r names :
    rkeys (ring_add reps r names) = isort (rkeys r ++ appended reps names).
  Proof. reflexivity. Qed.

  Lemma ring_of_keys reps names : rkeys (ring_of reps names) = isort (appended reps names).
  Proof. reflexivity. Qed.

  Lemma ring_add_sorted reps r names : sorted (rkeys (ring_add reps r names)).
  Proof. apply isort_sorted. Qed.

  Lemma ring_of_sorted reps names : sorted (rkeys (ring_of reps names)).
  Proof. apply isort_sorted. Qed.

  Lemma ring_add_get_spec reps r names key :
    ring_get (ring_add reps r names) key = get_spec (rkeys (ring_add reps r names)) key.
  Proof. apply ring_get_spec, ring_add_sorted. Qed.

  (* the signature is a function of the sorted keys *)
  Lemma ring_add_signature reps r names :
    ring_signature (ring_add reps r names) = digest (sig_preimage (rkeys (ring_add reps r names))).
  Proof. reflexivity. Qed.

  Lemma appended_perm reps ns ns' : Permutation ns ns' -> Permutation (appended reps ns) (appended reps ns').
  Proof. intros P. unfold Ring.appended. now apply Permutation_flat_map. Qed.

  (* Add in any order of the names *)
  Lemma ring_add_perm reps r ns ns' : Permutation ns ns' -> ring_add reps r ns = ring_add reps r ns'.
  Proof.
    intros P. unfold Ring.ring_add.
    assert (E : isort (rkeys r ++ appended reps ns) = isort (rkeys r ++ appended reps ns')).
    { apply isort_perm_eq. apply Permutation_app_head. now apply appended_perm. }
    rewrite E. reflexivity.
  Qed.

  Lemma ring_perm reps ns ns' : Permutation ns ns' -> ring_of reps ns = ring_of reps ns'.
  Proof. apply ring_add_perm. Qed.

  (* with whatever result of sort.Sort: any sorted permutation of the appended
     replicas is the model's key list *)
  Lemma ring_keys_any_sort reps r names ks :
    sorted ks -> Permutation ks (rkeys r ++ appended reps names) ->
    ks = rkeys (ring_add reps r names).
  Proof. intros S P. rewrite ring_add_keys. now apply sorted_is_isort. Qed.

  (* Add called twice = Add called once with both lists *)
  Lemma ring_add_add reps r a b :
    ring_add reps (ring_add reps r a) b = ring_add reps r (a ++ b).
  Proof.
    unfold Ring.ring_add. cbn [rkeys].
    assert (E : isort (isort (rkeys r ++ appended reps a) ++ appended reps b)
                = isort (rkeys r ++ appended reps (a ++ b))).
    { apply isort_perm_eq. unfold Ring.appended. rewrite flat_map_app, app_assoc.
      apply Permutation_app_tail. apply isort_perm. }
    rewrite E. reflexivity.
  Qed.

  Lemma replica_elts_snd reps name e : In e (replica_elts reps name) -> snd e = name.
  Proof.
    unfold Ring.replica_elts. rewrite in_map_iff. intros (i & <- & _). reflexivity.
  Qed.

  Lemma appended_snd reps ns e : In e (appended reps ns) -> In (snd e) ns.
  Proof.
    unfold Ring.appended. rewrite in_flat_map. intros (n & Hn & He).
    apply replica_elts_snd in He. now subst.
  Qed.

  Lemma replica_elts_length reps name : length (replica_elts reps name) = Z.to_nat reps.
  Proof. unfold Ring.replica_elts. now rewrite map_length, seq_length. Qed.

  (* ---- Get on arbitrary key lists ---- *)

  Lemma get_spec_in ks key : ks <> [] -> exists e, In e ks /\ get_spec ks key = snd e.
  Proof.
    destruct ks as [|e0 l]; [congruence|]. intros _. unfold Ring.get_spec.
    destruct (find _ (e0 :: l)) as [e|] eqn:F.
    - apply find_some in F. exists e. tauto.
    - exists e0. split; [now left|reflexivity].
  Qed.

  Lemma find_insert p e l : find p (insert e l) = Some e \/ find p (insert e l) = find p l.
  Proof.
    induction l as [|a l IH]; cbn.
    - destruct (p e); auto.
    - destruct (eless e a); cbn.
      + destruct (p e); auto.
      + destruct (p a); auto.
  Qed.

  Lemma hd_insert e a l : exists x l', insert e (a :: l) = x :: l' /\ (x = e \/ x = a).
  Proof. cbn. destruct (eless e a); eauto. Qed.

  Lemma get_spec_insert e l key :
    get_spec (insert e l) key = snd e \/ get_spec (insert e l) key = get_spec l key.
  Proof.
    destruct l as [|a l].
    - left. cbn. destruct (gepred _ _ e); reflexivity.
    - destruct (hd_insert e a l) as (x & l' & E & Hx).
      pose proof (find_insert (gepred (hash key) key) e (a :: l)) as F.
      unfold Ring.get_spec at 1 2. rewrite E. rewrite <- E.
      destruct F as [F|F]; rewrite F.
      + now left.
      + unfold Ring.get_spec. destruct (find _ (a :: l)); [now right|].
        destruct Hx as [->| ->]; auto.
  Qed.

  Lemma get_spec_inserts es n l key :
    (forall e, In e es -> snd e = n) ->
    get_spec (fold_right insert l es) key = get_spec l key \/
    get_spec (fold_right insert l es) key = n.
  Proof.
    induction es as [|e es IH]; cbn; intros H; [now left|].
    destruct (get_spec_insert e (fold_right insert l es) key) as [E|E]; rewrite E.
    - right. apply H. now left.
    - apply IH. intros x Hx. apply H. now right.
  Qed.

  Lemma find_filter_some {A} (p q : A -> bool) l x :
    find p l = Some x -> q x = true -> find p (filter q l) = Some x.
  Proof.
    induction l as [|a l IH]; cbn; [discriminate|].
    destruct (p a) eqn:Pa.
    - intros [= ->] Q. rewrite Q. cbn. now rewrite Pa.
    - intros F Q. destruct (q a); cbn; [rewrite Pa|]; auto.
  Qed.

  Lemma find_filter_none {A} (p q : A -> bool) l :
    find p l = None -> find p (filter q l) = None.
  Proof.
    induction l as [|a l IH]; cbn; [reflexivity|].
    destruct (p a) eqn:Pa; [discriminate|]. intros F.
    destruct (q a); cbn; [rewrite Pa|]; auto.
  Qed.

  (* dropping elements that are not the chosen one does not change the choice *)
  Lemma get_spec_filter (q : elt -> bool) n l key :
    (forall e, snd e <> n -> q e = true) ->
    get_spec l key <> n -> get_spec (filter q l) key = get_spec l key.
  Proof.
    intros Q. destruct l as [|e0 l]; [reflexivity|].
    unfold Ring.get_spec at 1 3.
    destruct (find _ (e0 :: l)) as [e|] eqn:F; intros Hn.
    - pose proof (find_filter_some _ q _ _ F (Q _ Hn)) as F'.
      unfold Ring.get_spec. destruct (filter q (e0 :: l)); [discriminate|]. now rewrite F'.
    - pose proof (find_filter_none _ q _ F) as F'.
      unfold Ring.get_spec. cbn [filter] in *. rewrite (Q _ Hn) in *. now rewrite F'.
  Qed.

  (* ---- the ring theorems ---- *)

  Lemma ring_total reps ns key :
    ns <> [] -> (0 < reps)%Z -> In (ring_get (ring_of reps ns) key) ns.
  Proof.
    intros Hns Hreps. rewrite ring_get_spec by apply ring_of_sorted.
    rewrite ring_of_keys.
    destruct (get_spec_in (isort (appended reps ns)) key) as (e & He & ->).
    - intros E. pose proof (isort_perm (appended reps ns)) as P. rewrite E in P.
      apply Permutation_nil in P. destruct ns as [|n ns]; [congruence|].
      unfold Ring.appended in P. cbn in P. apply app_eq_nil in P as [P _].
      apply (f_equal (@length _)) in P. rewrite replica_elts_length in P. cbn in P. lia.
    - apply appended_snd with reps. eapply Permutation_in; [apply isort_perm|exact He].
  Qed.

  Lemma ring_minimal_add_cons reps n ns key :
    ring_get (ring_of reps (n :: ns)) key = ring_get (ring_of reps ns) key \/
    ring_get (ring_of reps (n :: ns)) key = n.
  Proof.
    rewrite !ring_get_spec by apply ring_of_sorted. rewrite !ring_of_keys.
    unfold Ring.appended. cbn [flat_map]. rewrite isort_app.
    apply get_spec_inserts. intros e. apply replica_elts_snd.
  Qed.

  (* the new node listed anywhere *)
  Lemma ring_minimal_add reps n ns ms key :
    Permutation ms (n :: ns) ->
    ring_get (ring_of reps ms) key = ring_get (ring_of reps ns) key \/
    ring_get (ring_of reps ms) key = n.
  Proof. intros P. rewrite (ring_perm reps _ _ P). apply ring_minimal_add_cons. Qed.

  (* the new node added by a second Add call on the existing ring *)
  Lemma ring_minimal_add_incremental reps n ns key :
    ring_get (ring_add reps (ring_of reps ns) [n]) key = ring_get (ring_of reps ns) key \/
    ring_get (ring_add reps (ring_of reps ns) [n]) key = n.
  Proof.
    unfold Ring.ring_of at 1 3. rewrite ring_add_add. apply (ring_minimal_add reps n ns).
    cbn. symmetry. apply Permutation_cons_append.
  Qed.

  Definition without (n : str) (ns : list str) : list str := filter (fun m => negb (seqb m n)) ns.

  Lemma filter_replicas reps n m :
    filter (fun e => negb (seqb (snd e) n)) (replica_elts reps m) =
    if seqb m n then [] else replica_elts reps m.
  Proof.
    unfold Ring.replica_elts. destruct (seqb m n) eqn:E;
      induction (seq 0 (Z.to_nat reps)) as [|i l IH]; cbn [map filter snd]; try reflexivity;
      rewrite E; cbn [negb]; rewrite IH; reflexivity.
  Qed.

  Lemma appended_without reps n ns :
    filter (fun e => negb (seqb (snd e) n)) (appended reps ns) = appended reps (without n ns).
  Proof.
    unfold Ring.appended, without. induction ns as [|m ns IH]; [reflexivity|].
    simpl flat_map. simpl filter. rewrite filter_app.
    etransitivity; [apply (f_equal2 (@app _)); [apply filter_replicas|exact IH]|].
    destruct (seqb m n); reflexivity.
  Qed.

  (* the ring without node n = the old sorted keys with n's replicas dropped *)
  Lemma ring_of_without_keys reps n ns :
    rkeys (ring_of reps (without n ns)) =
    filter (fun e => negb (seqb (snd e) n)) (rkeys (ring_of reps ns)).
  Proof.
    rewrite !ring_of_keys. symmetry. apply sorted_is_isort.
    - apply sorted_filter, isort_sorted.
    - rewrite <- appended_without. apply filter_perm, isort_perm.
  Qed.

  Lemma ring_minimal_remove reps n ns key :
    ring_get (ring_of reps ns) key <> n ->
    ring_get (ring_of reps (without n ns)) key = ring_get (ring_of reps ns) key.
  Proof.
    rewrite !ring_get_spec by apply ring_of_sorted.
    rewrite ring_of_without_keys. apply get_spec_filter.
    intros e He. apply negb_true_iff, seqb_neq. exact He.
  Qed.

  (* ---- placement and the signature gate ---- *)

  Lemma is_remote_false r this topic :
    is_remote_topic hash r this topic = false <-> ring_get r topic = this.
  Proof. unfold is_remote_topic. rewrite negb_false_iff. apply seqb_eq. Qed.

  Lemma placement_agree reps ns ns' this topic :
    Permutation ns ns' ->
    is_remote_topic hash (ring_of reps ns) this topic = is_remote_topic hash (ring_of reps ns') this topic
    /\ node_for_topic hash (ring_of reps ns) this topic = node_for_topic hash (ring_of reps ns') this topic
    /\ ring_signature (ring_of reps ns) = ring_signature (ring_of reps ns').
  Proof. intros P. now rewrite (ring_perm reps _ _ P). Qed.

  Lemma exactly_one_local reps ns topic :
    ns <> [] -> (0 < reps)%Z ->
    exists owner, In owner ns /\
      forall this, is_remote_topic hash (ring_of reps ns) this topic = false <-> this = owner.
  Proof.
    intros Hns Hr. exists (ring_get (ring_of reps ns) topic). split; [now apply ring_total|].
    intros this. rewrite is_remote_false. split; congruence.
  Qed.

  Lemma sig_gate_refuses r s : s <> ring_signature r -> sig_gate r s = false.
  Proof. intros H. unfold sig_gate. now apply seqb_neq. Qed.

  Lemma sig_gate_accepts r s : sig_gate r s = true <-> s = ring_signature r.
  Proof. unfold sig_gate. apply seqb_eq. Qed.

  (* two nodes whose rings (sorted key lists) give different pre-images refuse
     each other, provided the digest does not collide on these two pre-images *)
  Lemma sig_gate_rings reps r1 ns1 r2 ns2 :
    let a := ring_add reps r1 ns1 in
    let b := ring_add reps r2 ns2 in
    (digest (sig_preimage (rkeys a)) = digest (sig_preimage (rkeys b)) ->
       sig_preimage (rkeys a) = sig_preimage (rkeys b)) ->
    sig_preimage (rkeys a) <> sig_preimage (rkeys b) ->
    sig_gate b (ring_signature a) = false /\ sig_gate a (ring_signature b) = false.
  Proof.
    intros a b Hinj Hne. split; apply sig_gate_refuses; unfold a, b; rewrite !ring_add_signature; auto.
  Qed.
End RingProofs.

(* the signature pre-image is a plain concatenation: with a hash function that
   collides, two different rings can share it *)
Lemma sig_preimage_unframed :
  exists (hash : str -> N) ns1 ns2 key, forall digest,
    ring_signature (ring_of hash digest 1 ns1) = ring_signature (ring_of hash digest 1 ns2) /\
    ring_get hash (ring_of hash digest 1 ns1) key <> ring_get hash (ring_of hash digest 1 ns2) key.
Proof.
  exists (fun _ => 1094795585%N), [[120]; [121]]%N, [[120; 65; 65; 65; 65; 121]]%N, [107%N].
  intros digest. split.
  - unfold ring_signature, ring_of, ring_add. cbn [rsig]. f_equal.
  - vm_compute. discriminate.
Qed.
