(* C13: lemmas about the Drafty span pipeline model (coq/Pure/Drafty.v).
   Main results: [to_tree_safe] (toTree never panics and never runs out of fuel, for every document),
   [preview_safe], [plain_text_safe], [unrepaired_panics] (the range check before /repo 6cc931e lets a
   wrapped at+len through), [unrepaired_same] (without overflow the two checks coincide). *)
From Coq Require Import List NArith ZArith Bool Lia ZifyBool ZifyNat ZifyN.
Import ListNotations.
Require Import Tinode.Pure.Drafty.
Open Scope Z_scope.

(* ---- Go int ---- *)
Lemma wrap_small x : - two63 <= x < two63 -> wrap x = x.
Proof. intros H. unfold wrap. rewrite Z.mod_small; unfold two63, two64 in *; lia. Qed.

Lemma wrap_le x : 0 <= x -> wrap x <= x.
Proof.
  intros H. unfold wrap.
  assert (K : (x + two63) mod two64 <= x + two63) by (apply Z.mod_le; unfold two63, two64; lia).
  lia.
Qed.

(* ---- sums of cluster sizes ---- *)
Fixpoint sum (l : list N) : Z := match l with [] => 0 | x :: r => Z.of_N x + sum r end.

Lemma sum_nonneg l : 0 <= sum l.
Proof. induction l as [|x r IH]; cbn [sum]; lia. Qed.

Lemma sum_app a b : sum (a ++ b) = sum a + sum b.
Proof. induction a as [|x r IH]; cbn [sum app]; lia. Qed.

Lemma sum_firstn_skipn n l : sum (firstn n l) + sum (skipn n l) = sum l.
Proof. rewrite <- sum_app, firstn_skipn. reflexivity. Qed.

Lemma sum_firstn_le n l : sum (firstn n l) <= sum l.
Proof. pose proof (sum_firstn_skipn n l). pose proof (sum_nonneg (skipn n l)). lia. Qed.

Definition g_wf (x : graphemes) : Prop := sum (g_sizes x) <= Z.of_nat (length (g_orig x)).
Definition gcs_wf (g : gcs) : Prop := match g with None => True | Some x => g_wf x end.

Lemma prepare_wf cl : g_wf (prepare cl).
Proof.
  unfold g_wf, prepare. cbn [g_sizes g_orig].
  induction cl as [|c r IH]; cbn [map sum concat]; [cbn; lia|].
  rewrite app_length.
  assert (K : (N.of_nat (length c) mod 256 <= N.of_nat (length c))%N) by (apply N.mod_le; lia).
  lia.
Qed.

Lemma d_gc_wf d : gcs_wf (d_gc d).
Proof. unfold d_gc. destruct (d_txt d); cbn [option_map gcs_wf]; [apply prepare_wf|exact I]. Qed.

(* ---- the index loops of graphemes.slice ---- *)
Lemma walk_done sizes i stop acc : stop <= i -> walk sizes i stop acc = Some (acc, sizes).
Proof. intros H. destruct sizes; cbn [walk]; destruct (i <? stop) eqn:E; try lia; reflexivity. Qed.

Lemma walk_ok : forall sizes i stop acc, i <= stop -> stop - i <= Z.of_nat (length sizes) ->
  walk sizes i stop acc = Some (acc + sum (firstn (Z.to_nat (stop - i)) sizes), skipn (Z.to_nat (stop - i)) sizes).
Proof.
  induction sizes as [|x r IH]; intros i stop acc H1 H2.
  - cbn [length] in H2. assert (stop = i) by lia. subst. rewrite walk_done by lia.
    replace (i - i) with 0 by lia. cbn. f_equal. f_equal. lia.
  - cbn [walk]. destruct (i <? stop) eqn:E.
    + cbn [length] in H2. rewrite IH by lia.
      replace (Z.to_nat (stop - i)) with (S (Z.to_nat (stop - (i + 1)))) by lia.
      cbn [firstn skipn sum]. f_equal. f_equal. lia.
    + assert (stop = i) by lia. subst. replace (i - i) with 0 by lia. cbn. f_equal. f_equal. lia.
Qed.

Lemma sub_list_length {A} (l : list A) a b : 0 <= a -> a <= b -> b <= Z.of_nat (length l) ->
  Z.of_nat (length (sub_list l a b)) = b - a.
Proof. intros. unfold sub_list. rewrite firstn_length, skipn_length. lia. Qed.

Lemma sum_firstn_add a k l : sum (firstn a l) + sum (firstn k (skipn a l)) = sum (firstn (a + k) l).
Proof.
  revert l. induction a as [|a IH]; intros l; [cbn; reflexivity|].
  destruct l as [|x r]; [cbn; destruct k; reflexivity|].
  cbn [firstn skipn sum Nat.add]. rewrite <- IH. lia.
Qed.

(* g.slice(a, b) with 0 <= a <= b <= len on a well-formed non-nil container *)
Lemma g_slice_ok x a b : g_wf x -> 0 <= a -> a <= b -> b <= Z.of_nat (length (g_sizes x)) ->
  exists y, g_slice (Some x) a b = Ok (Some y) /\ g_wf y /\ Z.of_nat (length (g_sizes y)) = b - a.
Proof.
  intros Hwf Ha Hab Hb. unfold g_slice.
  rewrite (walk_ok (g_sizes x) 0 a 0) by lia.
  replace (a - 0) with a by lia.
  set (s := 0 + sum (firstn (Z.to_nat a) (g_sizes x))).
  set (rest := skipn (Z.to_nat a) (g_sizes x)).
  set (e := s + sum (firstn (Z.to_nat (b - a)) rest)).
  assert (Hr2 : (if a <? b then (if a <? 0 then None else option_map fst (walk rest a b s)) else Some s) = Some e).
  { destruct (a <? b) eqn:E.
    - destruct (a <? 0) eqn:E0; [lia|].
      rewrite walk_ok; [reflexivity|lia|]. unfold rest. rewrite skipn_length. lia.
    - assert (b = a) by lia. subst b. unfold e. replace (a - a) with 0 by lia. cbn. f_equal. lia. }
  rewrite Hr2.
  assert (Hs0 : 0 <= s) by (unfold s; pose proof (sum_nonneg (firstn (Z.to_nat a) (g_sizes x))); lia).
  assert (Hse : s <= e) by (unfold e; pose proof (sum_nonneg (firstn (Z.to_nat (b - a)) rest)); lia).
  assert (He : e <= Z.of_nat (length (g_orig x))).
  { unfold e, s, rest. replace (0 + sum (firstn (Z.to_nat a) (g_sizes x)) + sum (firstn (Z.to_nat (b - a)) (skipn (Z.to_nat a) (g_sizes x))))
      with (sum (firstn (Z.to_nat a + Z.to_nat (b - a)) (g_sizes x))) by (rewrite <- sum_firstn_add; lia).
    pose proof (sum_firstn_le (Z.to_nat a + Z.to_nat (b - a)) (g_sizes x)). unfold g_wf in Hwf. lia. }
  replace ((0 <=? s) && (s <=? e) && (e <=? Z.of_nat (length (g_orig x)))) with true by lia.
  replace ((0 <=? a) && (a <=? b) && (b <=? Z.of_nat (length (g_sizes x)))) with true by lia.
  cbn [negb]. eexists. split; [reflexivity|]. split.
  - unfold g_wf. cbn [g_sizes g_orig]. rewrite sub_list_length by lia.
    unfold sub_list. fold rest. unfold e. lia.
  - cbn [g_sizes]. apply sub_list_length; lia.
Qed.

Lemma g_slice_gcs g a b : gcs_wf g -> 0 <= a -> a < b -> b <= g_length g ->
  exists r, g_slice g a b = Ok r /\ gcs_wf r.
Proof.
  intros Hwf Ha Hab Hb. destruct g as [x|]; [|cbn [g_length] in Hb; lia].
  cbn [g_length] in Hb. destruct (g_slice_ok x a b Hwf Ha ltac:(lia) Hb) as [y [E [W _]]].
  exists (Some y). split; [exact E|exact W].
Qed.

(* ---- trees whose grapheme containers are well-formed ---- *)
Fixpoint node_wf (n : node) : Prop :=
  match n with
  | Node gc _ children => gcs_wf gc /\ (fix all (l : list node) : Prop := match l with [] => True | c :: l' => node_wf c /\ all l' end) children
  end.

Fixpoint nodes_wf (l : list node) : Prop := match l with [] => True | c :: l' => node_wf c /\ nodes_wf l' end.

Lemma node_wf_eq gc sp ch : node_wf (Node gc sp ch) <-> gcs_wf gc /\ nodes_wf ch.
Proof.
  cbn [node_wf]. split; intros [H1 H2]; split; try exact H1.
  - induction ch as [|c r IH]; cbn [nodes_wf]; [exact I|]. destruct H2 as [A B]. split; [exact A|exact (IH B)].
  - induction ch as [|c r IH]; [exact I|]. cbn [nodes_wf] in H2. destruct H2 as [A B]. split; [exact A|exact (IH B)].
Qed.

Lemma nodes_wf_app a b : nodes_wf a -> nodes_wf b -> nodes_wf (a ++ b).
Proof. induction a as [|c r IH]; cbn [nodes_wf app]; [tauto|]. intros [A B] C. split; [exact A|exact (IH B C)]. Qed.

(* ---- forEach ---- *)
Definition span_ok (tl : Z) (s : span) : Prop := sp_at s < 0 \/ (0 <= sp_at s /\ sp_at s <= sp_end s /\ sp_end s <= tl).

Lemma take_while_forall {A} (P : A -> Prop) p l : Forall P l -> Forall P (take_while p l).
Proof. induction 1 as [|x r Hx Hr IH]; cbn [take_while]; [constructor|]. destruct (p x); [constructor; assumption|constructor]. Qed.

Lemma drop_while_forall {A} (P : A -> Prop) p l : Forall P l -> Forall P (drop_while p l).
Proof. induction 1 as [|x r Hx Hr IH]; cbn [drop_while]; [constructor|]. destruct (p x); [assumption|constructor; assumption]. Qed.

Lemma take_while_length {A} (p : A -> bool) l : (length (take_while p l) <= length l)%nat.
Proof. induction l as [|x r IH]; cbn [take_while length]; [lia|]. destruct (p x); cbn [length]; lia. Qed.

Lemma drop_while_length {A} (p : A -> bool) l : (length (drop_while p l) <= length l)%nat.
Proof. induction l as [|x r IH]; cbn [drop_while length]; [lia|]. destruct (p x); cbn [length]; lia. Qed.

(* forEach terminates (fuel above the number of spans is enough) and never panics, for ANY list of spans
   that passed the range check, in any order *)
Lemma for_each_ok : forall fuel g start end_ spans,
  gcs_wf g -> (length spans < fuel)%nat -> 0 <= start -> end_ <= g_length g -> Forall (span_ok (g_length g)) spans ->
  exists nodes, for_each fuel g start end_ spans = Ok nodes /\ nodes_wf nodes.
Proof.
  induction fuel as [|f IH]; intros g start end_ spans Hwf Hlen Hs He Hok; [lia|].
  cbn [for_each]. destruct spans as [|sp rest].
  - destruct (start <? end_) eqn:E.
    + destruct (g_slice_gcs g start end_ Hwf Hs ltac:(lia) He) as [r [Er Wr]]. rewrite Er. cbn [bind].
      eexists. split; [reflexivity|]. cbn [nodes_wf]. split; [|exact I]. apply node_wf_eq. split; [exact Wr|exact I].
    + exists []. split; [reflexivity|exact I].
  - cbn [length] in Hlen. inversion Hok as [|? ? Hsp Hrest]; subst.
    destruct (sp_at sp <? 0) eqn:Eat.
    + destruct (IH g start end_ rest Hwf ltac:(lia) Hs He Hrest) as [tl [Et Wt]]. rewrite Et. cbn [bind].
      eexists. split; [reflexivity|]. cbn [nodes_wf]. split; [|exact Wt]. apply node_wf_eq. split; exact I.
    + destruct Hsp as [Hneg | [H0 [H1 H2]]]; [lia|].
      (* the un-styled range before the span *)
      assert (Hpre : exists pre, (if start <? sp_at sp then (r <- g_slice g start (sp_at sp) ;; Ok ([Node r None []], sp_at sp)) else Ok ([], start)) = Ok pre
                                 /\ nodes_wf (fst pre) /\ 0 <= snd pre).
      { destruct (start <? sp_at sp) eqn:E.
        - destruct (g_slice_gcs g start (sp_at sp) Hwf Hs ltac:(lia) ltac:(lia)) as [r [Er Wr]]. rewrite Er. cbn [bind].
          eexists. split; [reflexivity|]. cbn [fst snd nodes_wf]. split; [|lia]. split; [|exact I]. apply node_wf_eq. split; [exact Wr|exact I].
        - eexists. split; [reflexivity|]. cbn [fst snd nodes_wf]. split; [exact I|lia]. }
      destruct Hpre as [pre [Epre [Wpre Hs1]]]. rewrite Epre. cbn [bind].
      set (p := fun s : span => sp_at s <? sp_end sp).
      assert (Hnd : exists nd, (if is_void (sp_tp sp) then Ok (Node None (Some sp) [])
                                else (children <- for_each f g (snd pre) (sp_end sp) (take_while p rest) ;; Ok (Node None (Some sp) children))) = Ok nd
                               /\ node_wf nd).
      { destruct (is_void (sp_tp sp)).
        - eexists. split; [reflexivity|]. apply node_wf_eq. split; exact I.
        - destruct (IH g (snd pre) (sp_end sp) (take_while p rest) Hwf) as [ch [Ec Wc]];
            [pose proof (take_while_length p rest); lia|exact Hs1|lia|apply take_while_forall; exact Hrest|].
          rewrite Ec. cbn [bind]. eexists. split; [reflexivity|]. apply node_wf_eq. split; [exact I|exact Wc]. }
      destruct Hnd as [nd [End Wnd]]. rewrite End. cbn [bind].
      destruct (IH g (sp_end sp) end_ (drop_while p rest) Hwf) as [tl [Et Wt]];
        [pose proof (drop_while_length p rest); lia|lia|exact He|apply drop_while_forall; exact Hrest|].
      rewrite Et. cbn [bind]. eexists. split; [reflexivity|].
      apply nodes_wf_app; [exact Wpre|]. cbn [nodes_wf]. split; [exact Wnd|exact Wt].
Qed.

(* ---- the loop over Fmt ---- *)
Lemma index_ent_some ents k : 0 <= k -> k < Z.of_nat (length ents) -> exists e, index_ent ents k = Some e.
Proof.
  intros H0 H1. unfold index_ent. replace ((k <? 0) || (Z.of_nat (length ents) <=? k)) with false by lia.
  destruct (nth_error ents (Z.to_nat k)) eqn:E; [eauto|]. apply nth_error_None in E. lia.
Qed.

Lemma style_to_span_cases i : (exists e, style_to_span i = Err e) \/
  (exists s, style_to_span i = Ok s /\ sp_at s = st_at i /\ sp_end s = add64 (st_len i) (st_at i) /\ 0 <= st_len i).
Proof.
  unfold style_to_span. destruct (st_len i <? 0) eqn:E; [left; eauto|].
  destruct (is_empty (st_tp i)).
  - destruct (st_key i <? 0); [left; eauto|]. right. eexists. split; [reflexivity|]. cbn. repeat split; lia.
  - right. eexists. split; [reflexivity|]. cbn. repeat split; lia.
Qed.

(* the body of the loop (code as it is): an error or a span within range; never a panic *)
Lemma one_span_cases tl ents i : (exists e, one_span true tl ents i = Err e) \/ (exists s, one_span true tl ents i = Ok s /\ span_ok tl s).
Proof.
  unfold one_span. destruct (style_to_span_cases i) as [[e E] | [s [E [Hat [Hend Hlen]]]]]; rewrite E; cbn [bind]; [left; eauto|].
  destruct ((sp_at s <? -1) || (tl <? sp_end s) || (true && (sp_end s <? sp_at s))) eqn:Echk; [left; eauto|].
  assert (Hrange : -1 <= sp_at s /\ sp_at s <= sp_end s /\ sp_end s <= tl) by lia.
  assert (Hok : forall s', sp_at s' = sp_at s -> sp_end s' = sp_end s -> span_ok tl s').
  { intros s' A B. unfold span_ok. rewrite A, B. lia. }
  destruct (is_empty (sp_tp s) && (0 <? Z.of_nat (length ents))) eqn:Eent.
  - destruct ((sp_key s <? 0) || (Z.of_nat (length ents) <=? sp_key s)) eqn:Ekey; [cbn [bind]; left; eauto|].
    destruct (index_ent_some ents (sp_key s)) as [e Ee]; [lia|lia|]. rewrite Ee. cbn [bind].
    match goal with |- context [if ?c then _ else _] => destruct c end; [left; eauto|].
    right. eexists. split; [reflexivity|]. apply Hok; reflexivity.
  - cbn [bind]. match goal with |- context [if ?c then _ else _] => destruct c end; [left; eauto|].
    right. eexists. split; [reflexivity|]. apply Hok; reflexivity.
Qed.

Lemma all_spans_cases tl ents fmt : (exists e, all_spans true tl ents fmt = Err e) \/
  (exists l, all_spans true tl ents fmt = Ok l /\ Forall (span_ok tl) l).
Proof.
  induction fmt as [|i r IH]; cbn [all_spans]; [right; exists []; split; [reflexivity|constructor]|].
  destruct (one_span_cases tl ents i) as [[e E] | [s [E Hs]]]; rewrite E; cbn [bind]; [left; eauto|].
  destruct IH as [[e E2] | [l [E2 Hl]]]; rewrite E2; cbn [bind]; [left; eauto|].
  right. eexists. split; [reflexivity|]. constructor; assumption.
Qed.

Lemma insert_span_forall (P : span -> Prop) x l : P x -> Forall P l -> Forall P (insert_span x l).
Proof.
  intros Hx. induction 1 as [|y r Hy Hr IH]; cbn [insert_span]; [repeat constructor; exact Hx|].
  destruct (less x y); repeat constructor; assumption.
Qed.

Lemma sort_spans_forall (P : span -> Prop) l : Forall P l -> Forall P (sort_spans l).
Proof.
  unfold sort_spans. assert (G : forall acc, Forall P acc -> Forall P l -> Forall P (fold_left (fun a x => insert_span x a) l acc)).
  { induction l as [|x r IH]; intros acc Ha Hl; cbn [fold_left]; [exact Ha|].
    inversion Hl; subst. apply IH; [apply insert_span_forall; assumption|assumption]. }
  intros H. apply G; [constructor|exact H].
Qed.

Lemma filter_spans_forall (P : span -> Prop) l : forall e, Forall P l -> Forall P (filter_spans e l).
Proof.
  induction l as [|s r IH]; intros e H; cbn [filter_spans]; [constructor|].
  inversion H; subst. destruct ((sp_at s <? e) && (e <? sp_end s)); [apply IH; assumption|constructor; [assumption|apply IH; assumption]].
Qed.

(* ---- toTree ---- *)
Definition safe {A} (r : res A) : Prop := (exists a, r = Ok a) \/ (exists e, r = Err e).

Lemma safe_not_panic {A} (r : res A) : safe r -> (forall s, r <> Panic s) /\ r <> OutOfFuel.
Proof. intros [[a E] | [e E]]; rewrite E; split; try intros s; discriminate. Qed.

Lemma to_tree_cases d : (exists e, to_tree true d = Err e) \/ (exists t, to_tree true d = Ok t /\ node_wf t).
Proof.
  unfold to_tree. destruct (d_fmt d) as [|i r] eqn:Ef.
  - right. eexists. split; [reflexivity|]. apply node_wf_eq. split; [apply d_gc_wf|exact I].
  - destruct (all_spans_cases (g_length (d_gc d)) (d_ent d) (i :: r)) as [[e E] | [l [E Hl]]]; rewrite E; cbn [bind]; [left; eauto|].
    destruct (for_each_ok (S (length (filter_spans (-2) (sort_spans l)))) (d_gc d) 0 (g_length (d_gc d)) (filter_spans (-2) (sort_spans l)))
      as [nodes [En Wn]]; [apply d_gc_wf|lia|lia|lia|apply filter_spans_forall, sort_spans_forall; exact Hl|].
    rewrite En. cbn [bind]. right. eexists. split; [reflexivity|]. apply node_wf_eq. split; [exact I|exact Wn].
Qed.

Lemma to_tree_safe d : safe (to_tree true d).
Proof. destruct (to_tree_cases d) as [[e E] | [t [E _]]]; [right|left]; eauto. Qed.

Lemma plain_text_safe d : safe (plain_text true d).
Proof.
  unfold plain_text. destruct (to_tree_cases d) as [[e E] | [t [E _]]]; rewrite E; cbn [bind]; [right|left]; eauto.
Qed.

(* ---- previewFormatter ---- *)
Lemma g_length_nonneg g : 0 <= g_length g.
Proof. destruct g; cbn [g_length]; lia. Qed.

Lemma increment_range at_ max_len L : 0 <= at_ -> at_ < max_len -> max_len < two63 -> 0 < L ->
  let inc' := if max_len <? add64 at_ L then sub64 max_len at_ else L in 0 <= inc' <= L.
Proof.
  intros H0 H1 H2 H3. cbv zeta. destruct (max_len <? add64 at_ L) eqn:E; [|lia].
  unfold sub64. rewrite wrap_small by (unfold two63 in *; lia).
  unfold add64 in E. pose proof (wrap_le (at_ + L) ltac:(lia)). lia.
Qed.

Section NodeInd.
  Variable P : node -> Prop.
  Hypothesis H : forall gc sp ch, Forall P ch -> P (Node gc sp ch).
  Fixpoint node_ind' (n : node) : P n :=
    match n with
    | Node gc sp ch => H gc sp ch ((fix go (l : list node) : Forall P l :=
                                     match l with [] => Forall_nil P | c :: l' => Forall_cons c (node_ind' c) (go l') end) ch)
    end.
End NodeInd.

Lemma preview_fmt_ok max_len : max_len < two63 -> forall n, node_wf n -> forall st, exists st', preview_fmt max_len n st = Ok st'.
Proof.
  intros Hmax. apply (node_ind' (fun n => node_wf n -> forall st, exists st', preview_fmt max_len n st = Ok st')). intros gc sp ch IH Hwf st.
  apply (proj1 (node_wf_eq _ _ _)) in Hwf. destruct Hwf as [Wgc Wch].
  cbn [preview_fmt].
  destruct (max_len <=? g_length (p_gc st)) eqn:Emax; [eauto|].
  match goal with |- context [if ?c then Ok st else _] => destruct c end; [eauto|].
  match goal with |- exists st', bind ?X _ = Ok st' => assert (Hst1 : exists st1, X = Ok st1) end.
  { destruct ch as [|c r].
    - destruct (0 <? g_length gc) eqn:EL; [|eauto].
      pose proof (increment_range (g_length (p_gc st)) max_len (g_length gc) (g_length_nonneg _) ltac:(lia) Hmax ltac:(lia)) as Hinc.
      cbv zeta in Hinc.
      set (inc' := if max_len <? add64 (g_length (p_gc st)) (g_length gc) then sub64 max_len (g_length (p_gc st)) else g_length gc) in *.
      destruct gc as [x|]; [|cbn [g_length] in EL; lia].
      cbn [g_length] in Hinc. destruct (g_slice_ok x 0 inc' Wgc ltac:(lia) ltac:(lia) ltac:(lia)) as [y [Ey _]].
      rewrite Ey. cbn [bind]. eauto.
    - assert (G : forall l, Forall (fun n => node_wf n -> forall st, exists st', preview_fmt max_len n st = Ok st') l -> nodes_wf l ->
                forall s, exists s1, (fix go (l : list node) (s : pstate) : res pstate :=
                                        match l with [] => Ok s | c :: l' => s' <- preview_fmt max_len c s ;; go l' s' end) l s = Ok s1).
      { clear. induction l as [|c0 r0 IHl]; intros HF HW s; [eauto|].
        inversion HF as [|? ? Hc Hr]; subst. cbn [nodes_wf] in HW. destruct HW as [Wc Wr].
        destruct (Hc Wc s) as [s' Es]. rewrite Es. cbn [bind]. apply (IHl Hr Wr s'). }
      apply (G (c :: r) IH Wch st). }
  destruct Hst1 as [st1 E1]. rewrite E1. cbn [bind]. destruct sp; eauto.
Qed.

Lemma preview_safe max_len d : max_len < two63 -> safe (preview true max_len d).
Proof.
  intros Hmax. unfold preview. destruct (to_tree_cases d) as [[e E] | [t [E W]]]; rewrite E; cbn [bind]; [right; eauto|].
  destruct (preview_fmt_ok max_len Hmax t W {| p_gc := None; p_keymap := []; p_fmt := []; p_ent := [] |}) as [st' Es].
  rewrite Es. cbn [bind]. left. eauto.
Qed.

(* ---- the range check before /repo commit 6cc931e ---- *)
Lemma unrepaired_panics : to_tree false doc_overflow = Panic site_sizes_index.
Proof. vm_compute. reflexivity. Qed.

(* without overflow of at+len the old and the new check accept the same spans *)
Definition no_overflow (d : document) : Prop := forall i, In i (d_fmt d) -> - two63 <= st_len i + st_at i < two63.

Lemma one_span_same tl ents i : - two63 <= st_len i + st_at i < two63 -> one_span false tl ents i = one_span true tl ents i.
Proof.
  intros H. unfold one_span. destruct (style_to_span_cases i) as [[e E] | [s [E [Hat [Hend Hlen]]]]]; rewrite E; cbn [bind]; [reflexivity|].
  unfold add64 in Hend. rewrite wrap_small in Hend by exact H.
  replace (true && (sp_end s <? sp_at s)) with false by lia. reflexivity.
Qed.

Lemma all_spans_same tl ents fmt : (forall i, In i fmt -> - two63 <= st_len i + st_at i < two63) ->
  all_spans false tl ents fmt = all_spans true tl ents fmt.
Proof.
  induction fmt as [|i r IH]; intros H; [reflexivity|]. cbn [all_spans].
  rewrite one_span_same by (apply H; left; reflexivity). rewrite IH by (intros j Hj; apply H; right; exact Hj). reflexivity.
Qed.

Lemma unrepaired_same d : no_overflow d -> to_tree false d = to_tree true d.
Proof. intros H. unfold to_tree. destruct (d_fmt d) eqn:E; [reflexivity|]. rewrite all_spans_same; [reflexivity|]. rewrite <- E. exact H. Qed.
