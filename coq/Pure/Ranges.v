(* C04, layer 1: the pure range algebra of message deletion.

   Model of
     server/store/types/types.go:1193-1252  Range, RangeSorter.Less, Normalize
     server/topic.go:3005-3046              replyDelMsg: validation / clipping
                                            loop, sort, Normalize, count limit
     server/store/store.go:763-774          GetDeleted: flatten, sort, Normalize
     server/db/mysql/adapter.go:2670-2673,  meaning of a stored dellog row
                               2711-2717    (low, hi) and its read-back

   Go ints are Z.  A range is [low, hi); hi = 0 means the single ID low.
   Definitions only: the proofs live in RangesProofs.v so the model still runs
   when a proof breaks.

   Normalize is an in-place loop over a Go slice.  It is modelled on a list
   used as an array (get / upd by index), with the loop counter i, the write
   index prev and the mutated array as loop state, and the result is
   rs[:prev+1] of the MUTATED array, exactly as in the source.  Two bodies are
   given: [step_unrepaired] is the loop body of /repo as it is (refuted in
   RangesProofs.v), [step] is the loop body after the repair proposed in
   findings/C04_normalize.diff.  RangesProofs.v shows that the array program
   with [step] computes the same list as the plain recursive function
   [normalize_fun], about which the theorems are proved.

   Exported for the stateful model (layer 2):
     range, mkRange, low, hi, in_range, in_ranges, less, sort, normalize,
     del_ranges, report_deleted, dellog_store, dellog_load. *)
From Coq Require Import ZArith List Bool.
Import ListNotations.
Open Scope Z_scope.

(* type Range struct { Low int; Hi int } *)
Record range : Type := mkRange { low : Z; hi : Z }.

(* ---- meaning ---- *)

(* exclusive upper bound: Hi, or Low+1 for a single ID (Hi == 0) *)
Definition upper (r : range) : Z := if hi r =? 0 then low r + 1 else hi r.

(* x is one of the IDs denoted by r *)
Definition in_range (x : Z) (r : range) : bool :=
  if hi r =? 0 then x =? low r else (low r <=? x) && (x <? hi r).

Definition in_ranges (x : Z) (rs : list range) : bool := existsb (in_range x) rs.

(* ---- RangeSorter.Less: Low ascending, then Hi descending (so a single ID,
   Hi == 0, comes after every range that starts at the same Low) ---- *)
Definition less (a b : range) : bool :=
  if low a <? low b then true
  else if low a =? low b then hi a >=? hi b
  else false.

(* sort.Sort(RangeSorter(rs)).  [less] is a total order on the values (two
   ranges that are [less] both ways are equal), so the sorted permutation of a
   list is unique (RangesProofs.sorted_perm_unique) and it does not matter
   which algorithm produces it; insertion sort is used here.  The theorems are
   stated for ANY list that is a permutation of the input and ordered by
   [less], not for this function only. *)
Fixpoint insert (r : range) (l : list range) : list range :=
  match l with
  | [] => [r]
  | y :: t => if less r y then r :: y :: t else y :: insert r t
  end.
Definition sort (rs : list range) : list range := fold_right insert [] rs.

(* ---- a list used as a Go slice ---- *)
Definition dflt : range := mkRange 0 0.
(* rs[k]; every index used by Normalize is within bounds (prev < i < len), the
   default is never returned; RangesProofs.loop_norm_go gives the slice layout at every iteration *)
Definition get (a : list range) (k : nat) : range := nth k a dflt.
(* rs[k] = v *)
Fixpoint upd (a : list range) (k : nat) (v : range) : list range :=
  match a, k with
  | [], _ => []
  | _ :: t, O => v :: t
  | x :: t, S k' => x :: upd t k' v
  end.

(* for i := 1; i < ll; i++ { body }  with state (rs, prev) *)
Fixpoint loop (body : list range -> nat -> nat -> list range * nat)
         (n : nat) (i : nat) (a : list range) (prev : nat) : list range * nat :=
  match n with
  | O => (a, prev)
  | S n' => let '(a', prev') := body a prev i in loop body n' (S i) a' prev'
  end.

(* if ll := rs.Len(); ll > 1 { prev := 0; for ...; rs = rs[:prev+1] }; return rs *)
Definition normalize_with (body : list range -> nat -> nat -> list range * nat)
           (rs : list range) : list range :=
  if (1 <? length rs)%nat then
    let '(a, prev) := loop body (length rs - 1) 1 rs 0 in firstn (S prev) a
  else rs.

(* ---- Normalize as it is in /repo (types.go:1230-1247) ----
     if rs[prev].Low == rs[i].Low { continue }
     if rs[prev].Hi > 0 && rs[prev].Hi+1 >= rs[i].Low {
        if rs[prev].Hi < rs[i].Hi { rs[prev].Hi = rs[i].Hi }
        continue }
     prev++                                                          *)
Definition step_unrepaired (a : list range) (prev i : nat) : list range * nat :=
  let p := get a prev in
  let c := get a i in
  if low p =? low c then (a, prev)
  else if (hi p >? 0) && (hi p + 1 >=? low c) then
    ((if hi p <? hi c then upd a prev (mkRange (low p) (hi c)) else a), prev)
  else (a, S prev).

Definition normalize_unrepaired : list range -> list range :=
  normalize_with step_unrepaired.

(* ---- Normalize after the proposed repair (findings/C04_normalize.diff) ----
     prevHi, nextHi := rs[prev].Hi, rs[i].Hi
     if prevHi == 0 { prevHi = rs[prev].Low + 1 }
     if nextHi == 0 { nextHi = rs[i].Low + 1 }
     if rs[i].Low <= prevHi {
        if prevHi < nextHi { rs[prev].Hi = nextHi }
        continue }
     prev++
     rs[prev] = rs[i]                                                *)
Definition step (a : list range) (prev i : nat) : list range * nat :=
  let p := get a prev in
  let c := get a i in
  let prevHi := upper p in
  let nextHi := upper c in
  if low c <=? prevHi then
    ((if prevHi <? nextHi then upd a prev (mkRange (low p) nextHi) else a), prev)
  else (upd a (S prev) c, S prev).

Definition normalize : list range -> list range := normalize_with step.

(* The same function written by plain recursion: [cur] is rs[prev], the
   ranges already passed over are emitted.  RangesProofs.normalize_fun_eq:
   normalize rs = normalize_fun rs for every rs. *)
Fixpoint norm_go (cur : range) (rest : list range) : list range :=
  match rest with
  | [] => [cur]
  | c :: rest' =>
    if low c <=? upper cur then
      norm_go (if upper cur <? upper c then mkRange (low cur) (upper c) else cur) rest'
    else cur :: norm_go c rest'
  end.
Definition normalize_fun (rs : list range) : list range :=
  match rs with [] => [] | r :: rest => norm_go r rest end.

(* ---- replyDelMsg, topic.go:3007-3046 ---- *)

(* defaultMaxDeleteCount, main.go:95 *)
Definition max_delete_count : Z := 1024.

(* one iteration of the validation / clipping loop; None = "invalid entry in
   list" *)
Definition clip_one (lastID : Z) (q : Z * Z) : option range :=
  let '(lo, h) := q in
  if (lo >? lastID) || (lo <? 0) || (h <? 0) || ((h >? 0) && (lo >? h))
     || ((lo =? 0) && (h =? 0))
  then None
  else
    let h' := if h >? lastID then lastID + 1
              else if (lo =? h) || (lo + 1 =? h) then 0
              else h in
    Some (mkRange lo h').

(* the loop: ranges in request order, None on the first invalid entry *)
Fixpoint clip_all (lastID : Z) (req : list (Z * Z)) : option (list range) :=
  match req with
  | [] => Some []
  | q :: rest =>
    match clip_one lastID q with
    | None => None
    | Some r =>
      match clip_all lastID rest with
      | None => None
      | Some rs => Some (r :: rs)
      end
    end
  end.

(* count++ / count += Hi - Low *)
Definition count_one (r : range) : Z := if hi r =? 0 then 1 else hi r - low r.
Definition count_all (rs : list range) : Z := fold_right (fun r n => count_one r + n) 0 rs.

(* The ranges handed to store.Messages.DeleteList; None = the request is
   answered ErrMalformed and nothing is deleted.  Parameterised by the
   normaliser so that the behaviour of /repo as it is can be stated too. *)
Definition del_ranges_with (norm : list range -> list range)
           (lastID : Z) (req : list (Z * Z)) : option (list range) :=
  match req with
  | [] => None                                   (* "no IDs to delete" *)
  | _ =>
    match clip_all lastID req with
    | None => None
    | Some rs =>
      let out := norm (sort rs) in
      if (count_all rs >? max_delete_count) && (1 <? length out)%nat
      then None                                  (* "too many messages to delete" *)
      else Some out
    end
  end.

Definition del_ranges : Z -> list (Z * Z) -> option (list range) :=
  del_ranges_with normalize.
Definition del_ranges_unrepaired : Z -> list (Z * Z) -> option (list range) :=
  del_ranges_with normalize_unrepaired.

(* ---- the deletion log ---- *)

(* messageDeleteList: "Dellog must contain valid Low and *Hi*":
   if rng.Hi == 0 { rng.Hi = rng.Low + 1 }; row (low, hi) *)
Definition dellog_store (r : range) : Z * Z :=
  (low r, if hi r =? 0 then low r + 1 else hi r).
(* MessageGetDeleted: if dellog.Hi <= dellog.Low+1 { dellog.Hi = 0 } *)
Definition dellog_load (row : Z * Z) : range :=
  let '(lo, h) := row in mkRange lo (if h <=? lo + 1 then 0 else h).

(* store.Messages.GetDeleted: the ranges of all selected transactions
   flattened, sorted, normalised *)
Definition report_deleted (logs : list (list range)) : list range :=
  normalize (sort (concat logs)).
Definition report_deleted_unrepaired (logs : list (list range)) : list range :=
  normalize_unrepaired (sort (concat logs)).
