(* C13: lemmas about the push preview truncation (coq/Pure/PushPreviewC13.v). *)
From Coq Require Import List NArith Bool Arith Lia.
Import ListNotations.
Require Import Tinode.Pure.PushPreviewC13.

Lemma unit_width_pos : forall u, 1 <= unit_width_c13 u.
Proof.
  intros [cp|b]; cbn [unit_width_c13]; [|lia]. unfold rune_width_c13.
  destruct (cp <? 128)%N; [lia|]. destruct (cp <? 2048)%N; [lia|]. destruct (cp <? 65536)%N; lia.
Qed.

Lemma unit_width_le4 : forall u, unit_width_c13 u <= 4.
Proof.
  intros [cp|b]; cbn [unit_width_c13]; [|lia]. unfold rune_width_c13.
  destruct (cp <? 128)%N; [lia|]. destruct (cp <? 2048)%N; [lia|]. destruct (cp <? 65536)%N; lia.
Qed.

(* every rune takes at least one byte: len([]rune(s)) <= len(s) *)
Lemma runes_le_bytes : forall s, length (runes_c13 s) <= byte_len_c13 s.
Proof.
  induction s as [|u r IH]; cbn [runes_c13 map length byte_len_c13]; [lia|].
  pose proof (unit_width_pos u). unfold runes_c13 in IH. lia.
Qed.

Lemma bytes_le_4runes : forall s, byte_len_c13 s <= 4 * length (runes_c13 s).
Proof.
  induction s as [|u r IH]; cbn [runes_c13 map length byte_len_c13]; [lia|].
  pose proof (unit_width_le4 u). unfold runes_c13 in IH. lia.
Qed.

(* exact description of the result of the code as it is *)
Lemma trim_spec : forall s,
  (length (runes_c13 s) <= max_payload_c13 /\ trim_c13 true s = POk s) \/
  (max_payload_c13 < length (runes_c13 s) /\ trim_c13 true s = POk (map UValid (firstn max_payload_c13 (runes_c13 s)) ++ [UValid ellipsis_c13])).
Proof.
  intros s. unfold trim_c13. cbn [negb orb].
  destruct (max_payload_c13 <? byte_len_c13 s) eqn:Hb.
  - destruct (max_payload_c13 <? length (runes_c13 s)) eqn:Hr.
    + apply Nat.ltb_lt in Hr. right. split; [exact Hr|].
      unfold slice_to_c13. destruct (max_payload_c13 <=? length (runes_c13 s)) eqn:Hs; [reflexivity|].
      apply Nat.leb_gt in Hs. lia.
    + apply Nat.ltb_ge in Hr. left. split; [exact Hr|reflexivity].
  - apply Nat.ltb_ge in Hb. left. split; [|reflexivity]. pose proof (runes_le_bytes s). lia.
Qed.

Lemma trim_no_panic : forall s b l, trim_c13 true s <> PPanicSlice b l.
Proof. intros s b l. destruct (trim_spec s) as [[_ ->]|[_ ->]]; discriminate. Qed.

(* the content is a prefix of the text of at most 128 runes, followed by the ellipsis exactly when runes were dropped *)
Lemma trim_prefix : forall s, exists p,
  length p <= max_payload_c13 /\ p = firstn (length p) (runes_c13 s) /\
  (trim_c13 true s = POk s /\ p = runes_c13 s \/ trim_c13 true s = POk (map UValid p ++ [UValid ellipsis_c13]) /\ length p < length (runes_c13 s)).
Proof.
  intros s. destruct (trim_spec s) as [[Hl ->]|[Hl ->]].
  - exists (runes_c13 s). split; [exact Hl|]. split; [symmetry; apply firstn_all|]. left. split; reflexivity.
  - exists (firstn max_payload_c13 (runes_c13 s)).
    assert (Hn : length (firstn max_payload_c13 (runes_c13 s)) = max_payload_c13) by (apply firstn_length_le; lia).
    split; [lia|]. split; [rewrite Hn; reflexivity|]. right. split; [reflexivity|lia].
Qed.

(* the variant without the rune-length test *)
Lemma variant_panics : trim_c13 false witness_cyrillic_c13 = PPanicSlice 128 65.
Proof. vm_compute. reflexivity. Qed.

(* the variant panics exactly on the texts of more than 128 bytes and fewer than 128 runes *)
Lemma variant_trigger : forall s,
  (exists b l, trim_c13 false s = PPanicSlice b l) <-> (max_payload_c13 < byte_len_c13 s /\ length (runes_c13 s) < max_payload_c13).
Proof.
  intros s. unfold trim_c13. cbn [negb orb]. unfold slice_to_c13.
  destruct (max_payload_c13 <? byte_len_c13 s) eqn:Hb.
  - apply Nat.ltb_lt in Hb. destruct (max_payload_c13 <=? length (runes_c13 s)) eqn:Hs.
    + apply Nat.leb_le in Hs. split; [intros (b & l & H); discriminate H|intros [_ H]; lia].
    + apply Nat.leb_gt in Hs. split; [intros _; split; assumption|intros _; eauto].
  - apply Nat.ltb_ge in Hb. split; [intros (b & l & H); discriminate H|intros [H _]; lia].
Qed.
