(* Model of server/utils.go:474-641 parseSearchQuery (the hand-written
   lexer/parser of fnd search queries), rune by rune.

   A Go string is modelled as the list of runes its `for range` /
   utf8.DecodeRuneInString loop yields (code points, N).  Positions are BYTE
   offsets (Z) as in the Go code: the loop variable i advances by the UTF-8
   width of the rune, ctx.start / ctx.end hold values of i, and
   query[start:end] is [substr] below, which slices the rune list by byte
   offsets; a rune cut by a slice boundary contributes one U+FFFD per byte left
   inside the slice (that is what strings.ToLower makes of the bytes of a
   truncated UTF-8 sequence).  Input strings are valid UTF-8 (width = width of
   the code point).

   External functions are Section variables: [lower] = unicode.ToLower,
   [rewrite] = rewriteTag(., countryCode, withLogin) for the fixed countryCode
   and withLogin of the call (modelled separately in Tags.v); the parser relies
   on nothing about them.

   Two versions of the loop body are kept: [iter_u] is the code as it is in
   the pinned tree (used by the refutation theorem), [iter] is the code after
   the repair of findings/C19_query.diff.  Definitions only. *)
From Coq Require Import NArith ZArith List Bool.
Require Import Tinode.Base.Util.
Import ListNotations.

Definition cTab : N := 9.
Definition cSpace : N := 32.
Definition cQuote : N := 34.
Definition cComma : N := 44.
Definition cFFFD : N := 65533.

(* UTF-8 width of a code point *)
Definition width (r : N) : Z :=
  if (r <? 128)%N then 1%Z else if (r <? 2048)%N then 2%Z
  else if (r <? 65536)%N then 3%Z else 4%Z.

(* unicode.IsSpace *)
Definition is_space (r : N) : bool :=
  ((9 <=? r) && (r <=? 13) || (r =? 32) || (r =? 133) || (r =? 160) || (r =? 5760)
   || (8192 <=? r) && (r <=? 8202) || (r =? 8232) || (r =? 8233) || (r =? 8239)
   || (r =? 8287) || (r =? 12288))%N.

Fixpoint drop_space (s : list N) : list N :=
  match s with
  | [] => []
  | r :: t => if is_space r then drop_space t else s
  end.

(* strings.TrimSpace *)
Definition trim_space (s : list N) : list N := rev (drop_space (rev (drop_space s))).

(* query[s:e] with byte offsets; [pos] = byte offset of the head of [q] *)
Fixpoint slice_from (q : list N) (pos s e : Z) : list N :=
  match q with
  | [] => []
  | r :: t =>
    let w := width r in
    (if (s <=? pos)%Z && (pos + w <=? e)%Z then [r]
     else repeat cFFFD (Z.to_nat (Z.min (pos + w) e - Z.max pos s)))
      ++ slice_from t (pos + w)%Z s e
  end.
Definition substr (q : list N) (s e : Z) : list N := slice_from q 0 s e.

Fixpoint list_eqb (a b : list N) : bool :=
  match a, b with
  | [], [] => true
  | x :: a', y :: b' => (x =? y)%N && list_eqb a' b'
  | _, _ => false
  end.

Definition is_nil {A} (l : list A) : bool := match l with [] => true | _ => false end.

(* const ( NONE = iota; QUO; AND; OR; END; ORD ) *)
Inductive lexeme := NONE | QUO | AND | OR | END | ORD.
Definition lexeme_eqb (a b : lexeme) : bool :=
  match a, b with
  | NONE, NONE | QUO, QUO | AND, AND | OR, OR | END, END | ORD, ORD => true
  | _, _ => false
  end.

(* type token struct { op int; val string; rewrittenVal string } *)
Record token := mkTok { t_op : lexeme; t_val : list N; t_rw : list N }.

(* type context struct { preOp, postOp int; quo, unquote bool; start, end int } *)
Record context := mkCtx {
  preOp : lexeme; postOp : lexeme; quo : bool; unquote : bool; cstart : Z; cend : Z }.

Definition set_postOp c v := mkCtx (preOp c) v (quo c) (unquote c) (cstart c) (cend c).
Definition set_quo c v := mkCtx (preOp c) (postOp c) v (unquote c) (cstart c) (cend c).
Definition set_unquote c v := mkCtx (preOp c) (postOp c) (quo c) v (cstart c) (cend c).
Definition set_end c v := mkCtx (preOp c) (postOp c) (quo c) (unquote c) (cstart c) v.

(* loop-carried variables: ctx, prev, out, and (repaired code only) closed *)
Record pstate := mkSt { ctx : context; prev : lexeme; out : list token; closed : bool }.

Definition init_state : pstate := mkSt (mkCtx AND NONE false false 0 0) NONE [] false.

Section Parser.
  Variable lower : N -> N.
  Variable rewrite : list N -> list N.

  (* strings.ToLower *)
  Definition to_lower (s : list N) : list N := map lower s.

  (* Lexer: r = None stands for w == 0 (end of input) *)
  Definition lexeme_of (inquo : bool) (r : option N) : lexeme :=
    match r with
    | None => END
    | Some r =>
      if (r =? cQuote)%N then QUO
      else if negb inquo then
        (if (r =? cSpace)%N || (r =? cTab)%N then AND else if (r =? cComma)%N then OR else ORD)
      else ORD
    end.

  (* The parser switch: new context and the emit flag; Err = "invalid operator sequence" *)
  Definition parser_switch (i : Z) (c : context) (pv curr : lexeme) : result (context * bool) :=
    match curr with
    | OR =>
      if lexeme_eqb (postOp c) OR then Err
      else let c := set_postOp c OR in
           Ok (if lexeme_eqb pv ORD then set_end c i else c, false)
    | AND =>
      if lexeme_eqb pv ORD then Ok (set_postOp (set_end c i) AND, false)
      else if negb (lexeme_eqb (postOp c) OR) then Ok (set_postOp c AND, false)
      else Ok (c, false)
    | ORD => Ok (c, lexeme_eqb pv OR || lexeme_eqb pv AND)
    | END => Ok (if lexeme_eqb pv ORD then set_end c i else c, true)
    | _ => Ok (c, false)
    end.

  (* The body of `if emit { ... }` after the unterminated-quote test:
     the token appended to out (if any) and the context for the next token. *)
  Definition emit_token (q : list N) (c : context) (o : list token) : list token :=
    let op := if lexeme_eqb (postOp c) OR then OR else preOp c in
    let s := if unquote c then (cstart c + 1)%Z else cstart c in
    let e := if unquote c then (cend c - 1)%Z else cend c in
    if (s <? e)%Z then
      let original := to_lower (substr q s e) in
      let rewritten := rewrite original in
      if is_nil rewritten then o
      else o ++ [mkTok op original (if list_eqb rewritten original then [] else rewritten)]
    else o.

  Definition emit_ctx (i : Z) (c : context) : context :=
    mkCtx (postOp c) NONE (quo c) false i (cend c).

  (* One iteration of the loop AS IT IS in the pinned tree.  Err = return of an error. *)
  Definition iter_u (q : list N) (i : Z) (s : pstate) (r : option N) : result pstate :=
    let c := ctx s in
    let curr := lexeme_of (quo c) r in
    let qres :=
      if lexeme_eqb curr QUO then
        if quo c then Ok (set_quo c false, ORD)
        else if lexeme_eqb (prev s) ORD then Err            (* quote glued after a word *)
        else Ok (set_unquote (set_quo c true) true, ORD)
      else Ok (c, curr) in
    match qres with
    | Err => Err
    | Ok (c, curr) =>
      match parser_switch i c (prev s) curr with
      | Err => Err
      | Ok (c, emit) =>
        if emit then
          if quo c then Err                                   (* unterminated quoted string *)
          else Ok (mkSt (emit_ctx i c) curr (emit_token q c (out s)) false)
        else Ok (mkSt c curr (out s) false)
      end
    end.

  (* One iteration of the loop AFTER THE REPAIR (findings/C19_query.diff):
     - a quote found after a separator is opened after the preceding token has
       been emitted (local variable `opening`);
     - an ordinary rune straight after a closing quote is an error (`closed`). *)
  Definition iter (q : list N) (i : Z) (s : pstate) (r : option N) : result pstate :=
    let c := ctx s in
    let curr := lexeme_of (quo c) r in
    let qres :=
      if lexeme_eqb curr QUO then
        if quo c then Ok (set_quo c false, ORD, false, true)
        else if lexeme_eqb (prev s) ORD then Err            (* quote glued after a word *)
        else Ok (c, ORD, true, false)
      else if lexeme_eqb curr ORD && closed s then Err      (* word glued after a closing quote *)
      else Ok (c, curr, false, false) in
    match qres with
    | Err => Err
    | Ok (c, curr, opening, closing) =>
      match parser_switch i c (prev s) curr with
      | Err => Err
      | Ok (c, emit) =>
        let open c := if opening then set_unquote (set_quo c true) true else c in
        if emit then
          if quo c then Err                                   (* unterminated quoted string *)
          else Ok (mkSt (open (emit_ctx i c)) curr (emit_token q c (out s)) closing)
        else Ok (mkSt (open c) curr (out s) closing)
      end
    end.

  (* for i, w := 0, 0; prev != END; i = i+w { r, w = DecodeRuneInString(query[i:]) ... } *)
  Section Loop.
    Variable body : list N -> Z -> pstate -> option N -> result pstate.
    Fixpoint loop (q : list N) (i : Z) (s : pstate) (rest : list N) : result (list token) :=
      match rest with
      | [] => match body q i s None with Err => Err | Ok s' => Ok (out s') end
      | r :: t => match body q i s (Some r) with
                  | Err => Err
                  | Ok s' => loop q (i + width r)%Z s' t
                  end
      end.
  End Loop.

  (* Convert tokens to two string slices *)
  Definition with_rw (t : token) : list (list N) :=
    t_val t :: (if is_nil (t_rw t) then [] else [t_rw t]).

  Fixpoint group (o : list token) : list (list (list N)) * list (list N) :=
    match o with
    | [] => ([], [])
    | t :: rest =>
      let '(a, b) := group rest in
      match t_op t with
      | AND => (with_rw t :: a, b)
      | OR => (a, with_rw t ++ b)
      | _ => (a, b)
      end
    end.

  Definition parse_with body (query : list N) : result (list (list (list N)) * list (list N)) :=
    let q := trim_space query in
    match loop body q 0 init_state q with
    | Err => Err
    | Ok o => Ok (group o)
    end.

  Definition parse_unrepaired := parse_with iter_u.
  Definition parse := parse_with iter.
End Parser.
