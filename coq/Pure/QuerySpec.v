(* Reference semantics of the fnd query language (docs/API.md "Query
   language", plus the quoting rules stated by property C19), written without
   any of the parser's machinery:

   - leading and trailing white space is ignored;
   - the string is cut into ITEMS: maximal runs of separators (space, tab,
     comma), quoted strings (from a quote to the next quote, anything in
     between is literal), and maximal runs of other characters (words);
   - it is MALFORMED when a quote is not closed, when two terms (word or quoted
     string) touch with no separator between them (a quote glued to a word, on
     either side, or to another quote), or when one separator run holds more
     than one comma;
   - a term is an OR term iff the separator run before it or after it holds a
     comma, else an AND term;
   - a term's value is its lower-cased text; empty terms and terms that
     rewriteTag maps to "" (not a valid tag) are dropped; a term whose
     rewritten form differs contributes both spellings;
   - result: the list of AND terms (each a list of spellings), the flat list
     of OR spellings, both in query order.  Definitions only. *)
From Coq Require Import NArith ZArith List Bool.
Require Import Tinode.Base.Util Tinode.Pure.Query.
Import ListNotations.
Open Scope N_scope.

Definition is_sepb (r : N) : bool := (r =? cSpace) || (r =? cTab) || (r =? cComma).
Definition is_quoteb (r : N) : bool := r =? cQuote.
Definition is_wordb (r : N) : bool := negb (is_sepb r) && negb (is_quoteb r).

Inductive item := Sep (s : list N) | Word (w : list N) | Quoted (w : list N).

(* longest prefix satisfying p, and the rest *)
Fixpoint span (p : N -> bool) (l : list N) : list N * list N :=
  match l with
  | [] => ([], [])
  | r :: t => if p r then let '(a, b) := span p t in (r :: a, b) else ([], l)
  end.

(* text up to the next quote, and what follows that quote *)
Fixpoint until_quote (l : list N) : option (list N * list N) :=
  match l with
  | [] => None
  | r :: t => if is_quoteb r then Some ([], t)
              else match until_quote t with
                   | None => None
                   | Some (a, b) => Some (r :: a, b)
                   end
  end.

(* items of q; None = unterminated quote.  fuel >= length q *)
Fixpoint lex (fuel : nat) (q : list N) : option (list item) :=
  match q with
  | [] => Some []
  | r :: t =>
    match fuel with
    | O => None
    | S f =>
      if is_sepb r then
        let '(s, rest) := span is_sepb t in option_map (cons (Sep (r :: s))) (lex f rest)
      else if is_quoteb r then
        match until_quote t with
        | None => None
        | Some (body, rest) => option_map (cons (Quoted body)) (lex f rest)
        end
      else
        let '(w, rest) := span is_wordb t in option_map (cons (Word (r :: w))) (lex f rest)
    end
  end.

Definition items (q : list N) : option (list item) := lex (length q) q.

Definition commas (s : list N) : nat := length (filter (fun r => r =? cComma) s).
Definition has_comma (s : list N) : bool := negb (Nat.eqb (commas s) 0).

(* no two terms touch; at most one comma per separator run *)
Fixpoint wf_items (after_term : bool) (its : list item) : bool :=
  match its with
  | [] => true
  | Sep s :: rest => Nat.leb (commas s) 1 && wf_items false rest
  | Word _ :: rest | Quoted _ :: rest => negb after_term && wf_items true rest
  end.

Definition well_formedb (query : list N) : bool :=
  match items (trim_space query) with
  | None => false
  | Some its => wf_items false its
  end.
Definition well_formed (query : list N) : Prop := well_formedb query = true.

Definition next_comma (its : list item) : bool :=
  match its with Sep s :: _ => has_comma s | _ => false end.

(* (is it an OR term, text) of every term; [before] = the separator run just
   passed holds a comma *)
Fixpoint terms (before : bool) (its : list item) : list (bool * list N) :=
  match its with
  | [] => []
  | Sep s :: rest => terms (has_comma s) rest
  | Word w :: rest | Quoted w :: rest => (before || next_comma rest, w) :: terms false rest
  end.

Section Denote.
  Variable lower : N -> N.
  Variable rewrite : list N -> list N.

  (* the spellings a term contributes: none, [value] or [value; rewritten] *)
  Definition spellings (w : list N) : list (list N) :=
    if is_nil w then []
    else let value := to_lower lower w in
         let rw := rewrite value in
         if is_nil rw then []
         else value :: (if list_eqb rw value then [] else [rw]).

  Definition denote_items (its : list item) : list (list (list N)) * list (list N) :=
    let ts := terms false its in
    (filter (fun g => negb (is_nil g)) (map (fun t => spellings (snd t)) (filter (fun t => negb (fst t)) ts)),
     flat_map (fun t => spellings (snd t)) (filter (fun t => fst t) ts)).

  Definition denote (query : list N) : list (list (list N)) * list (list N) :=
    match items (trim_space query) with
    | None => ([], [])
    | Some its => denote_items its
    end.
End Denote.
