(* Model of server/auth/code/auth_code.go:87-170 (reset codes in the persistent
   cache) over the store contract of db/mysql/adapter.go:3399-3465 (PCacheGet /
   PCacheUpsert INSERT vs REPLACE with createdat = now / PCacheDelete /
   PCacheExpire "createdat < olderThan").

   The cache row is "code:attempts:uid" under the key sanitize("code_" + cred);
   it is kept here as a record (the text is produced by GenSecret/Authenticate
   only: decimal digits, a decimal counter and a base64url uid, none of which
   contains ':', so the 3-way split of Authenticate cannot fail on rows this
   authenticator wrote).  The random code drawn by GenSecret is an input of the
   operation.  Time is a logical clock (Z nanoseconds).  Definitions only. *)
From Coq Require Import NArith ZArith List Bool.
From Tinode Require Import Pure.Token.
Import ListNotations.
Open Scope N_scope.

Definition code_prefix : list N := [99; 111; 100; 101; 95].   (* "code_" *)

(* sanitizeKey: strings.ReplaceAll(key, "%", "/") *)
Definition sanitize_key (k : list N) : list N := map (fun c => if c =? 37 then 47 else c) k.
Definition key_of_cred (cred : list N) : list N := sanitize_key (code_prefix ++ cred).

(* strings.SplitN(secret, ":", 2): None when there is no ':' *)
Fixpoint split_colon (s : list N) : option (list N * list N) :=
  match s with
  | [] => None
  | c :: r =>
    if c =? 58 then Some ([], r)
    else match split_colon r with Some (a, b) => Some (c :: a, b) | None => None end
  end.

Record centry := mkCE { ce_code : list N; ce_count : Z; ce_uid : N; ce_created : Z }.
Definition cstore := list (list N * centry).

Fixpoint cget (k : list N) (st : cstore) : option centry :=
  match st with
  | [] => None
  | (k', e) :: r => if bytes_eqb k k' then Some e else cget k r
  end.
Fixpoint cdel (k : list N) (st : cstore) : cstore :=
  match st with
  | [] => []
  | (k', e) :: r => if bytes_eqb k k' then cdel k r else (k', e) :: cdel k r
  end.
Definition cput (k : list N) (e : centry) (st : cstore) : cstore := (k, e) :: cdel k st.
(* DELETE ... WHERE key LIKE 'code_%' AND createdat < olderThan (every row of this model has the prefix) *)
Definition cexpire (older_than : Z) (st : cstore) : cstore :=
  filter (fun p => negb (ce_created (snd p) <? older_than)%Z) st.

Record ccfg := mkCC { cc_max_retries : Z; cc_lifetime : Z }.
Record cstate := mkCS { cs_store : cstore; cs_now : Z }.

Inductive cerr := CEMalformed | CEFailed | CEDuplicate | CEExpired.
Inductive cop :=
| CGen (cred : list N) (uid : N) (lifetime : Z) (newcode : list N)   (* GenSecret(rec) drawing newcode *)
| CAuth (secret : list N)                                            (* Authenticate("guess:cred") *)
| CAdv (d : Z).                                                      (* time passes *)
Inductive cres := CGenOk (code : list N) | CAuthOk (uid : N) (cred : list N) | CErr (e : cerr) | CAdvanced.

Definition cstep (cfg : ccfg) (st : cstate) (op : cop) : cstate * cres :=
  let now := cs_now st in
  match op with
  | CGen cred uid lt newcode =>
    (* garbage collection first, then the lifetime check, then INSERT *)
    let store1 := cexpire (now - cc_lifetime cfg) (cs_store st) in
    if (lt <? 0)%Z then (mkCS store1 now, CErr CEExpired) else
    let k := key_of_cred cred in
    match cget k store1 with
    | Some _ => (mkCS store1 now, CErr CEDuplicate)
    | None => (mkCS (cput k (mkCE newcode 0 uid now) store1) now, CGenOk newcode)
    end
  | CAuth secret =>
    match split_colon secret with
    | None => (st, CErr CEMalformed)
    | Some (code, cred) =>
      let k := key_of_cred cred in
      match cget k (cs_store st) with
      | None => (st, CErr CEFailed)
      | Some e =>
        if (cc_max_retries cfg <=? ce_count e)%Z then (st, CErr CEFailed)
        else if negb (bytes_eqb (ce_code e) code) then
          (mkCS (cput k (mkCE (ce_code e) (ce_count e + 1) (ce_uid e) now) (cs_store st)) now, CErr CEFailed)
        else (mkCS (cdel k (cs_store st)) now, CAuthOk (ce_uid e) cred)
      end
    end
  | CAdv d => (mkCS (cs_store st) (now + d), CAdvanced)
  end.

Fixpoint crun (cfg : ccfg) (st : cstate) (ops : list cop) : cstate * list cres :=
  match ops with
  | [] => (st, [])
  | op :: r =>
    let (st1, res) := cstep cfg st op in
    let (st2, rs) := crun cfg st1 r in (st2, res :: rs)
  end.

Definition cinit : cstate := mkCS [] 0.

(* the cache key an operation addresses *)
Definition auth_key (secret : list N) : option (list N) :=
  match split_colon secret with Some (_, cred) => Some (key_of_cred cred) | None => None end.

Definition is_gen_for (K : list N) (op : cop) : bool :=
  match op with CGen cred _ _ _ => bytes_eqb K (key_of_cred cred) | _ => false end.

Definition is_auth_for (K : list N) (op : cop) : bool :=
  match op with
  | CAuth secret => match auth_key secret with Some k => bytes_eqb K k | None => false end
  | _ => false
  end.

Definition is_ok (r : cres) : bool := match r with CAuthOk _ _ => true | _ => false end.

(* number of successful / failed Authenticate calls addressing key K in a run *)
Fixpoint succ_count (K : list N) (cfg : ccfg) (st : cstate) (ops : list cop) : nat :=
  match ops with
  | [] => O
  | op :: r =>
    let (st1, res) := cstep cfg st op in
    ((if is_auth_for K op && is_ok res then 1 else 0) + succ_count K cfg st1 r)%nat
  end.

Fixpoint fail_count (K : list N) (cfg : ccfg) (st : cstate) (ops : list cop) : nat :=
  match ops with
  | [] => O
  | op :: r =>
    let (st1, res) := cstep cfg st op in
    ((if is_auth_for K op && negb (is_ok res) then 1 else 0) + fail_count K cfg st1 r)%nat
  end.

(* Authenticate with the proposed repair (findings/C12_code_expiry.diff): stale rows are
   expired before the lookup, as GenSecret does *)
Definition cstep_fixed (cfg : ccfg) (st : cstate) (op : cop) : cstate * cres :=
  match op with
  | CAuth _ => cstep cfg (mkCS (cexpire (cs_now st - cc_lifetime cfg) (cs_store st)) (cs_now st)) op
  | _ => cstep cfg st op
  end.
