(* Model of server/auth/basic/auth_basic.go:56-68 (parseSecret), 113-152
   (AddRecord), 154-210 (UpdateRecord), 215-250 (Authenticate) over the store
   contract of the auth table (db/mysql: unique index on uname = "basic:"+login,
   unique index on (userid, scheme); AuthGetUniqueRecord returns the zero uid
   when there is no row).

   Section variables: [lower] = strings.ToLower, [login_ok] / [pw_ok] = the
   login and password policies, [verify] = bcrypt.CompareHashAndPassword = nil.
   The bcrypt hash GenerateFromPassword produces (salted, random) is an input
   of the operation.  Time is a logical clock.  Definitions only. *)
From Coq Require Import NArith ZArith List Bool.
From Tinode Require Import Pure.Token Pure.Code.
Import ListNotations.
Open Scope N_scope.

Record brec := mkBR { br_uid : N; br_level : Z; br_hash : list N; br_expires : option Z }.
Definition bstore := list (list N * brec).      (* key = login as stored (lower-cased by parseSecret) *)
Record bstate := mkBS { bs_store : bstore; bs_now : Z }.

Fixpoint bget (k : list N) (st : bstore) : option brec :=
  match st with
  | [] => None
  | (k', r) :: t => if bytes_eqb k k' then Some r else bget k t
  end.
Fixpoint bfind_uid (uid : N) (st : bstore) : option (list N * brec) :=
  match st with
  | [] => None
  | (k, r) :: t => if br_uid r =? uid then Some (k, r) else bfind_uid uid t
  end.
Fixpoint bdel_uid (uid : N) (st : bstore) : bstore :=
  match st with
  | [] => []
  | (k, r) :: t => if br_uid r =? uid then bdel_uid uid t else (k, r) :: bdel_uid uid t
  end.

Inductive berr := BEMalformed | BEPolicy | BEDuplicate | BEFailed | BEExpired | BENotFound.
Inductive bop :=
| BAdd (uid : N) (level : Z) (secret : list N) (hash : list N) (lifetime : Z)
| BAuth (secret : list N)
| BUpd (uid : N) (secret : list N) (hash : list N) (lifetime : Z)
| BAdv (d : Z).
Inductive bres := BAddOk (level : Z) | BAuthOk (uid : N) (level : Z) | BUpdOk | BErr (e : berr) | BAdvanced.

Section Basic.
Variable lower : list N -> list N.
Variable login_ok : list N -> bool.
Variable pw_ok : list N -> bool.
Variable verify : list N -> list N -> bool.

(* parseSecret: split at the first ':', lower-case the login *)
Definition parse_secret (s : list N) : option (list N * list N) :=
  match split_colon s with Some (u, p) => Some (lower u, p) | None => None end.

Definition expiry_of (now lifetime : Z) : option Z :=
  if (0 <? lifetime)%Z then Some (now + lifetime)%Z else None.

Definition bstep (st : bstate) (op : bop) : bstate * bres :=
  let now := bs_now st in
  let s := bs_store st in
  match op with
  | BAdd uid level secret hash lifetime =>
    match parse_secret secret with
    | None => (st, BErr BEMalformed)
    | Some (uname, pw) =>
      if negb (login_ok uname) then (st, BErr BEPolicy) else
      if negb (pw_ok pw) then (st, BErr BEPolicy) else
      let lvl := if (level =? 0)%Z then 20%Z else level in
      (* store.Users.AddAuthRecord: both unique indices *)
      match bget uname s, bfind_uid uid s with
      | None, None => (mkBS ((uname, mkBR uid lvl hash (expiry_of now lifetime)) :: s) now, BAddOk lvl)
      | _, _ => (st, BErr BEDuplicate)
      end
    end
  | BAuth secret =>
    match parse_secret secret with
    | None => (st, BErr BEMalformed)
    | Some (uname, pw) =>
      match bget uname s with
      | None => (st, BErr BEFailed)                       (* zero uid: unknown login *)
      | Some r =>
        if br_uid r =? 0 then (st, BErr BEFailed) else
        if (match br_expires r with Some e => (e <? now)%Z | None => false end) then (st, BErr BEExpired) else
        if negb (verify (br_hash r) pw) then (st, BErr BEFailed) else
        (st, BAuthOk (br_uid r) (br_level r))
      end
    end
  | BUpd uid secret hash lifetime =>
    match parse_secret secret with
    | None => (st, BErr BEMalformed)
    | Some (uname, pw) =>
      match bfind_uid uid s with
      | None => (st, BErr BENotFound)
      | Some (login, r) =>
        let keep := match uname with [] => true | _ => bytes_eqb uname login end in
        let uname' := if keep then login else uname in
        if negb keep && negb (login_ok uname) then (st, BErr BEPolicy) else
        if negb keep && (match bget uname s with Some r2 => negb (br_uid r2 =? 0) | None => false end)
        then (st, BErr BEDuplicate) else
        if negb (pw_ok pw) then (st, BErr BEPolicy) else
        (* UPDATE auth SET uname, secret, expires WHERE userid AND scheme; a clash on the
           unique index (a row of the zero uid) is a duplicate error *)
        match (if keep then None else bget uname s) with
        | Some _ => (st, BErr BEDuplicate)
        | None =>
          (mkBS ((uname', mkBR uid (br_level r) hash (expiry_of now lifetime)) :: bdel_uid uid s) now, BUpdOk)
        end
      end
    end
  | BAdv d => (mkBS s (now + d)%Z, BAdvanced)
  end.

Fixpoint brun (st : bstate) (ops : list bop) : bstate * list bres :=
  match ops with
  | [] => (st, [])
  | op :: r =>
    let (st1, res) := bstep st op in
    let (st2, rs) := brun st1 r in (st2, res :: rs)
  end.

End Basic.

Definition binit : bstate := mkBS [] 0.
