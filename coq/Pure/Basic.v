(* Model of server/auth/basic/auth_basic.go:56-68 (parseSecret), 113-152
   (AddRecord), 154-210 (UpdateRecord), 215-250 (Authenticate) over the store
   contract of the auth table (db/mysql: unique index on uname = "basic:"+login,
   unique index on (userid, scheme); AuthGetUniqueRecord returns the zero uid
   when there is no row).

   Section variables: [lower] = strings.ToLower, [login_ok] / [pw_ok] = the
   login and password policies, [cmp] = bcrypt.CompareHashAndPassword as a
   THREE-valued oracle over ARBITRARY stored bytes: nil (match),
   ErrMismatchedHashAndPassword, or any other error (hash too short, bad
   prefix, newer version, unparsable / out-of-range cost, bad salt ...).
   The bcrypt hash GenerateFromPassword produces (salted, random) is an input
   of the operation.  [BRaw] is the store anomaly: the secret column of a
   user's row replaced by arbitrary bytes (truncated / blanked column, row
   imported with another scheme).  [bc_header] is golang.org/x/crypto/bcrypt
   newFromHash (the checks made before any hashing) statement by statement.
   Time is a logical clock.  Definitions only. *)
From Coq Require Import NArith ZArith List Bool.
From Tinode Require Import Pure.Token Pure.Code.
Import ListNotations.
Open Scope N_scope.

Record brec := mkBR { br_uid : N; br_level : Z; br_hash : list N; br_expires : option Z }.
Definition bstore := list (list N * brec).      (* key = login as stored (lower-cased by parseSecret) *)
Record bstate := mkBS { bs_store : bstore; bs_now : Z }.

Fixpoint bget (k : list N) (st : bstore) : option brec :=
  match st with
  | [] => None
  | (k', r) :: t => if bytes_eqb k k' then Some r else bget k t
  end.
Fixpoint bfind_uid (uid : N) (st : bstore) : option (list N * brec) :=
  match st with
  | [] => None
  | (k, r) :: t => if br_uid r =? uid then Some (k, r) else bfind_uid uid t
  end.
Fixpoint bdel_uid (uid : N) (st : bstore) : bstore :=
  match st with
  | [] => []
  | (k, r) :: t => if br_uid r =? uid then bdel_uid uid t else (k, r) :: bdel_uid uid t
  end.

(* ---- bcrypt.CompareHashAndPassword: outcome; newFromHash's header checks ---- *)
Inductive bcerr := BcTooShort | BcPrefix | BcVersion | BcCostSyntax | BcCostRange | BcOther | BcIndexPanic.
Inductive bcres := BcMatch | BcMismatch | BcError (e : bcerr).
(* err == nil *)
Definition bc_is_nil (r : bcres) : bool := match r with BcMatch => true | _ => false end.

Definition bc_is_digit (b : N) : bool := (48 <=? b) && (b <=? 57).
(* strconv.Atoi(string(sbytes[0:2])): optional sign, then decimal digits only *)
Definition bc_atoi2 (a b : N) : option Z :=
  if bc_is_digit b then
    if bc_is_digit a then Some (Z.of_N (10 * (a - 48) + (b - 48)))
    else if a =? 43 then Some (Z.of_N (b - 48))
    else if a =? 45 then Some (- Z.of_N (b - 48))%Z
    else None
  else None.
(* newFromHash up to the copy of salt and hash: None = header accepted.  The index
   expressions sbytes[0..2] / sbytes[0:2] are guarded by len >= minHashSize = 59;
   an index out of range would be [BcIndexPanic] (proved unreachable) *)
Definition bc_header (h : list N) : option bcerr :=
  if N.of_nat (length h) <? 59 then Some BcTooShort else
  match h with
  | b0 :: b1 :: b2 :: rest =>
    if negb (b0 =? 36) then Some BcPrefix else              (* sbytes[0] != '$' *)
    if 50 <? b1 then Some BcVersion else                    (* sbytes[1] > majorVersion *)
    let cs := if negb (b2 =? 36) then tl rest else rest in  (* n := 3; if sbytes[2] != '$' { n++ } *)
    match cs with
    | c0 :: c1 :: _ =>
      match bc_atoi2 c0 c1 with
      | None => Some BcCostSyntax
      | Some c => if (c <? 4)%Z || (31 <? c)%Z then Some BcCostRange else None
      end
    | _ => Some BcIndexPanic
    end
  | _ => Some BcIndexPanic
  end.

Fixpoint bset_hash (uid : N) (hash : list N) (st : bstore) : bstore :=
  match st with
  | [] => []
  | (k, r) :: t =>
    (k, if br_uid r =? uid then mkBR (br_uid r) (br_level r) hash (br_expires r) else r) :: bset_hash uid hash t
  end.

Inductive berr := BEMalformed | BEPolicy | BEDuplicate | BEFailed | BEExpired | BENotFound.
Inductive bop :=
| BAdd (uid : N) (level : Z) (secret : list N) (hash : list N) (lifetime : Z)
| BAuth (secret : list N)
| BUpd (uid : N) (secret : list N) (hash : list N) (lifetime : Z)
| BAdv (d : Z)
| BRaw (uid : N) (hash : list N).
Inductive bres := BAddOk (level : Z) | BAuthOk (uid : N) (level : Z) | BUpdOk | BErr (e : berr) | BAdvanced | BRawOk.

Section Basic.
Variable lower : list N -> list N.
Variable login_ok : list N -> bool.
Variable pw_ok : list N -> bool.
Variable cmp : list N -> list N -> bcres.

(* parseSecret: split at the first ':', lower-case the login *)
Definition parse_secret (s : list N) : option (list N * list N) :=
  match split_colon s with Some (u, p) => Some (lower u, p) | None => None end.

Definition expiry_of (now lifetime : Z) : option Z :=
  if (0 <? lifetime)%Z then Some (now + lifetime)%Z else None.

Definition bstep (st : bstate) (op : bop) : bstate * bres :=
  let now := bs_now st in
  let s := bs_store st in
  match op with
  | BAdd uid level secret hash lifetime =>
    match parse_secret secret with
    | None => (st, BErr BEMalformed)
    | Some (uname, pw) =>
      if negb (login_ok uname) then (st, BErr BEPolicy) else
      if negb (pw_ok pw) then (st, BErr BEPolicy) else
      let lvl := if (level =? 0)%Z then 20%Z else level in
      (* store.Users.AddAuthRecord: both unique indices *)
      match bget uname s, bfind_uid uid s with
      | None, None => (mkBS ((uname, mkBR uid lvl hash (expiry_of now lifetime)) :: s) now, BAddOk lvl)
      | _, _ => (st, BErr BEDuplicate)
      end
    end
  | BAuth secret =>
    match parse_secret secret with
    | None => (st, BErr BEMalformed)
    | Some (uname, pw) =>
      match bget uname s with
      | None => (st, BErr BEFailed)                       (* zero uid: unknown login *)
      | Some r =>
        if br_uid r =? 0 then (st, BErr BEFailed) else
        if (match br_expires r with Some e => (e <? now)%Z | None => false end) then (st, BErr BEExpired) else
        let err := cmp (br_hash r) pw in                    (* err = bcrypt.CompareHashAndPassword(passhash, password) *)
        if negb (bc_is_nil err) then (st, BErr BEFailed) else (* if err != nil { return nil, nil, types.ErrFailed } *)
        (st, BAuthOk (br_uid r) (br_level r))
      end
    end
  | BUpd uid secret hash lifetime =>
    match parse_secret secret with
    | None => (st, BErr BEMalformed)
    | Some (uname, pw) =>
      match bfind_uid uid s with
      | None => (st, BErr BENotFound)
      | Some (login, r) =>
        let keep := match uname with [] => true | _ => bytes_eqb uname login end in
        let uname' := if keep then login else uname in
        if negb keep && negb (login_ok uname) then (st, BErr BEPolicy) else
        if negb keep && (match bget uname s with Some r2 => negb (br_uid r2 =? 0) | None => false end)
        then (st, BErr BEDuplicate) else
        if negb (pw_ok pw) then (st, BErr BEPolicy) else
        (* UPDATE auth SET uname, secret, expires WHERE userid AND scheme; a clash on the
           unique index (a row of the zero uid) is a duplicate error *)
        match (if keep then None else bget uname s) with
        | Some _ => (st, BErr BEDuplicate)
        | None =>
          (mkBS ((uname', mkBR uid (br_level r) hash (expiry_of now lifetime)) :: bdel_uid uid s) now, BUpdOk)
        end
      end
    end
  | BAdv d => (mkBS s (now + d)%Z, BAdvanced)
  | BRaw uid hash =>
    match bfind_uid uid s with
    | None => (st, BErr BENotFound)
    | Some _ => (mkBS (bset_hash uid hash s) now, BRawOk)
    end
  end.

Fixpoint brun (st : bstate) (ops : list bop) : bstate * list bres :=
  match ops with
  | [] => (st, [])
  | op :: r =>
    let (st1, res) := bstep st op in
    let (st2, rs) := brun st1 r in (st2, res :: rs)
  end.

End Basic.

Definition binit : bstate := mkBS [] 0.
