(* Model of server/api_key.go:36-74 (checkAPIKey).
   The keyed hash (HMAC-MD5 under globals.apiKeySalt) is the Section variable
   [mac].  [AKPanic] is the run-time panic of the Go code (index / slice bounds
   out of range) - reachable from client input, see PropC12.v.  Definitions only. *)
From Coq Require Import NArith List Bool.
From Tinode Require Import Base.Base64Lite Pure.Token.
Import ListNotations.
Open Scope N_scope.

Definition apikey_length : nat := 24.    (* 1 + 4 + 2 + 1 + 16 *)
Definition apikey_signed : nat := 8.     (* version + appid + sequence + who *)

Inductive akres := AKPanic | AKRefused | AKValid (is_root : bool).

Section ApiKey.
Variable mac : list N -> list N -> list N.

(* the code as it is *)
Definition check_api_key (salt : list N) (apikey : list N) : akres :=
  (* base64.URLEncoding.DecodedLen(len(apikey)) != apikeyLength *)
  if negb (Nat.eqb (decoded_len (length apikey)) apikey_length) then AKRefused else
  match b64url_decode apikey with
  | None => AKRefused
  | Some data =>
    match data with
    | [] => AKPanic                                  (* data[0]: index out of range [0] with length 0 *)
    | v :: _ =>
      if negb (v =? 1) then AKRefused else
      (* data[:8] is within the capacity (24) of the decode buffer; data[8:] is not
         when fewer than 8 bytes were decoded: slice bounds out of range [8:len] *)
      if Nat.ltb (length data) apikey_signed then AKPanic else
      let check := mac salt (firstn apikey_signed data) in
      if negb (bytes_eqb (skipn apikey_signed data) check) then AKRefused else
      AKValid (nth 7 data 0 =? 1)
    end
  end.

(* the code with the proposed repair (findings/C12_apikey.diff): the decoded
   length is checked before any byte is looked at *)
Definition check_api_key_fixed (salt : list N) (apikey : list N) : akres :=
  if negb (Nat.eqb (decoded_len (length apikey)) apikey_length) then AKRefused else
  match b64url_decode apikey with
  | None => AKRefused
  | Some data =>
    if negb (Nat.eqb (length data) apikey_length) then AKRefused else
    if negb (nth 0 data 0 =? 1) then AKRefused else
    let check := mac salt (firstn apikey_signed data) in
    if negb (bytes_eqb (skipn apikey_signed data) check) then AKRefused else
    AKValid (nth 7 data 0 =? 1)
  end.

End ApiKey.
