(* Laws of the tag functions of Tags.v: normalisation (count, validity of
   every kept tag, no duplicates, idempotence), the restricted-namespace gate
   of tag updates, the masked-namespace gate of fnd searches.  All lists, all
   namespace configurations, no bound.  The unicode functions are Section
   variables; the two hypotheses used (lowering is idempotent and maps
   non-space to non-space) are checked by the driver on all code points. *)
From Coq Require Import NArith List Bool Lia Arith Permutation.
From Coq Require Import ZifyBool ZifyNat ZifyN.
Require Import Tinode.Pure.Query Tinode.Pure.Tags.
Import ListNotations.
Open Scope N_scope.

(* ---------- string equality and order ---------- *)
Lemma list_eqb_eq a : forall b, list_eqb a b = true <-> a = b.
Proof.
  induction a as [|x a IH]; destruct b as [|y b]; cbn; split; try congruence; try discriminate.
  - intros H. apply andb_prop in H as [H1 H2]. apply N.eqb_eq in H1. apply IH in H2. congruence.
  - intros H. inversion H; subst. rewrite N.eqb_refl. cbn. now apply IH.
Qed.

Lemma list_eqb_refl a : list_eqb a a = true.
Proof. now apply list_eqb_eq. Qed.

Lemma list_eqb_neq a b : list_eqb a b = false <-> a <> b.
Proof.
  split.
  - intros H E. apply list_eqb_eq in E. congruence.
  - intros H. destruct (list_eqb a b) eqn:E; [apply list_eqb_eq in E; contradiction|reflexivity].
Qed.

Ltac nprop :=
  repeat match goal with
         | H : (_ <? _) = true |- _ => apply N.ltb_lt in H
         | H : (_ <? _) = false |- _ => apply N.ltb_ge in H
         | H : (_ =? _) = true |- _ => apply N.eqb_eq in H
         | H : (_ =? _) = false |- _ => apply N.eqb_neq in H
         end.

Lemma lex_irrefl a : lex_ltb a a = false.
Proof. induction a as [|x a IH]; cbn; [reflexivity|]. rewrite IH, N.ltb_irrefl, andb_false_r. reflexivity. Qed.

Lemma lex_trans a : forall b c, lex_ltb a b = true -> lex_ltb b c = true -> lex_ltb a c = true.
Proof.
  induction a as [|x a IH]; destruct b as [|y b]; destruct c as [|z c]; cbn; try congruence; try discriminate.
  intros H1 H2.
  apply orb_true_iff in H1. apply orb_true_iff in H2. apply orb_true_iff.
  destruct H1 as [H1|H1], H2 as [H2|H2].
  - left. nprop. apply N.ltb_lt. lia.
  - apply andb_prop in H2 as [H2 _]. left. nprop. apply N.ltb_lt. lia.
  - apply andb_prop in H1 as [H1 _]. left. nprop. apply N.ltb_lt. lia.
  - apply andb_prop in H1 as [H1 H1']. apply andb_prop in H2 as [H2 H2'].
    right. apply andb_true_intro. split; [nprop; apply N.eqb_eq; lia|]. eapply IH; eassumption.
Qed.

Lemma lex_total a : forall b, lex_ltb a b = false -> lex_ltb b a = false -> a = b.
Proof.
  induction a as [|x a IH]; destruct b as [|y b]; cbn; try congruence; try discriminate.
  intros H1 H2.
  apply orb_false_iff in H1 as [H1 H1']. apply orb_false_iff in H2 as [H2 H2'].
  assert (x = y) by (nprop; lia). subst y. rewrite N.eqb_refl in *. cbn in *. f_equal. now apply IH.
Qed.

Lemma lex_asym a b : lex_ltb a b = true -> lex_ltb b a = false.
Proof.
  intros H. destruct (lex_ltb b a) eqn:E; [|reflexivity].
  pose proof (lex_trans _ _ _ H E) as C. rewrite lex_irrefl in C. discriminate.
Qed.

(* a <= b <= c *)
Lemma lex_le_trans a b c : lex_ltb b a = false -> lex_ltb c b = false -> lex_ltb c a = false.
Proof.
  intros H1 H2. destruct (lex_ltb c a) eqn:E; [|reflexivity].
  destruct (lex_ltb a b) eqn:E2.
  - rewrite (lex_trans _ _ _ E E2) in H2. discriminate.
  - pose proof (lex_total _ _ E2 H1). subst. congruence.
Qed.

Lemma lex_le_lt_trans a b c : lex_ltb b a = false -> lex_ltb b c = true -> lex_ltb a c = true.
Proof.
  intros H1 H2. destruct (lex_ltb a b) eqn:E.
  - eapply lex_trans; eassumption.
  - pose proof (lex_total _ _ E H1). now subst.
Qed.

(* ---------- sorting ---------- *)
Fixpoint sorted (l : list tag) : Prop :=
  match l with
  | x :: ((y :: _) as t) => lex_ltb y x = false /\ sorted t
  | _ => True
  end.
Fixpoint ssorted (l : list tag) : Prop :=
  match l with
  | x :: ((y :: _) as t) => lex_ltb x y = true /\ ssorted t
  | _ => True
  end.

Lemma insert_perm x l : Permutation (insert_sorted x l) (x :: l).
Proof.
  induction l as [|y l IH]; cbn; [reflexivity|].
  destruct (lex_ltb y x); [|reflexivity].
  rewrite IH. apply perm_swap.
Qed.

Lemma sort_perm l : Permutation (sort_strings l) l.
Proof.
  induction l as [|x l IH]; cbn; [reflexivity|].
  unfold sort_strings in *. rewrite insert_perm. now constructor.
Qed.

Lemma insert_sorted_ok x l : sorted l -> sorted (insert_sorted x l).
Proof.
  induction l as [|y l IH]; intros H; cbn; [exact I|].
  destruct (lex_ltb y x) eqn:E.
  - destruct l as [|z l].
    + cbn. split; [now apply lex_asym|exact I].
    + cbn in H. destruct H as [H1 H2]. specialize (IH H2). cbn [insert_sorted] in *.
      destruct (lex_ltb z x) eqn:E2.
      * split; assumption.
      * split; [now apply lex_asym|]. exact IH.
  - cbn. split; [assumption|]. exact H.
Qed.

Lemma sort_sorted l : sorted (sort_strings l).
Proof. induction l as [|x l IH]; cbn; [exact I|]. now apply insert_sorted_ok. Qed.

Lemma sort_ssorted_id l : ssorted l -> sort_strings l = l.
Proof.
  induction l as [|x l IH]; intros H; [reflexivity|].
  unfold sort_strings in *. cbn [fold_right].
  destruct l as [|y l]; [reflexivity|].
  cbn in H. destruct H as [H1 H2]. rewrite (IH H2). cbn [insert_sorted].
  now rewrite (lex_asym _ _ H1).
Qed.

Lemma ssorted_all_gt x l : ssorted (x :: l) -> forall y, In y l -> lex_ltb x y = true.
Proof.
  revert x. induction l as [|z l IH]; intros x H y Hy; [contradiction|].
  cbn in H. destruct H as [H1 H2]. destruct Hy as [<-|Hy]; [assumption|].
  eapply lex_trans; [exact H1|]. now apply IH.
Qed.

Lemma ssorted_nodup l : ssorted l -> NoDup l.
Proof.
  induction l as [|x l IH]; intros H; constructor.
  - intros Hin. pose proof (ssorted_all_gt _ _ H _ Hin) as C. rewrite lex_irrefl in C. discriminate.
  - apply IH. destruct l; [exact I|]. cbn in H. tauto.
Qed.

(* ---------- trimming ---------- *)
Definition hd_ok (l : list N) : Prop := match l with [] => True | r :: _ => is_space r = false end.
Definition clean (t : list N) : Prop := hd_ok t /\ hd_ok (rev t).

Lemma drop_space_hd l : hd_ok (drop_space l).
Proof. induction l as [|r l IH]; cbn; [exact I|]. destruct (is_space r) eqn:E; [assumption|]. cbn. assumption. Qed.

Lemma drop_space_suffix l : exists p, l = p ++ drop_space l.
Proof.
  induction l as [|r l [p IH]]; [now exists []|]. cbn. destruct (is_space r).
  - exists (r :: p). cbn. now f_equal.
  - now exists [].
Qed.

Lemma drop_space_id l : hd_ok l -> drop_space l = l.
Proof. destruct l as [|r l]; cbn; [reflexivity|]. now intros ->. Qed.

Lemma trim_clean s : clean (trim_space s).
Proof.
  unfold trim_space, clean. set (a := drop_space s). set (b := drop_space (rev a)).
  split.
  - destruct (drop_space_suffix (rev a)) as [p Hp]. fold b in Hp.
    assert (Ha : a = rev b ++ rev p) by (rewrite <- rev_app_distr, <- Hp; now rewrite rev_involutive).
    pose proof (drop_space_hd s) as Hh. fold a in Hh.
    destruct (rev b) as [|x rb] eqn:E; [exact I|]. rewrite Ha in Hh. exact Hh.
  - rewrite rev_involutive. apply drop_space_hd.
Qed.

Lemma trim_id t : clean t -> trim_space t = t.
Proof.
  intros [H1 H2]. unfold trim_space. rewrite (drop_space_id _ H1), (drop_space_id _ H2).
  apply rev_involutive.
Qed.

Section TagLaws.
  Variable lower : N -> N.
  Variable is_letter : N -> bool.
  Variable is_digit : N -> bool.
  Variable is_number : N -> bool.
  Hypothesis lower_idem : forall r, lower (lower r) = lower r.
  Hypothesis lower_space : forall r, is_space (lower r) = is_space r.

  Notation norm_one := (norm_one lower).
  Notation norm_loop := (norm_loop is_letter is_digit).
  Notation normalize_tags := (normalize_tags lower is_letter is_digit).
  Notation filter_restricted := (filter_restricted is_letter is_number).
  Notation restricted := (restricted is_letter is_number).
  Notation restricted_tags_equal := (restricted_tags_equal is_letter is_number).
  Notation masked_gate := (masked_gate is_letter is_number).

  (* what "normalised" means for one stored tag *)
  Definition tag_valid (t : tag) : Prop :=
    (minTagLength <= length t <= maxTagLength)%nat /\
    (is_letter (hd 0 t) = true \/ is_digit (hd 0 t) = true) /\
    map lower t = t /\ trim_space t = t.

  Definition content (r : option (list tag)) : list tag := match r with None => [] | Some l => l end.

  Lemma map_lower_clean t : clean t -> clean (map lower t).
  Proof.
    intros [H1 H2]. split.
    - destruct t; cbn in *; [exact I|]. now rewrite lower_space.
    - rewrite <- map_rev. destruct (rev t); cbn in *; [exact I|]. now rewrite lower_space.
  Qed.

  Lemma norm_one_fix s : norm_one (norm_one s) = norm_one s.
  Proof.
    unfold Tags.norm_one.
    rewrite (trim_id (map lower (trim_space s))) by (apply map_lower_clean, trim_clean).
    rewrite map_map. apply map_ext. intros r. apply lower_idem.
  Qed.

  Lemma norm_one_props s : map lower (norm_one s) = norm_one s /\ trim_space (norm_one s) = norm_one s.
  Proof.
    unfold Tags.norm_one. split.
    - rewrite map_map. apply map_ext. intros r. apply lower_idem.
    - apply trim_id, map_lower_clean, trim_clean.
  Qed.

  (* the filtering loop: kept tags come from the input, pass the tests, and
     are strictly increasing when the input is sorted *)
  Lemma norm_loop_in src : forall prev out, norm_loop prev src = Some out ->
    (length out <= length src)%nat /\
    forall t, In t out -> In t src /\ (minTagLength <= length t <= maxTagLength)%nat /\
                          (is_letter (hd 0 t) = true \/ is_digit (hd 0 t) = true).
  Proof.
    induction src as [|curr rest IH]; intros prev out H; cbn [Tags.norm_loop] in H.
    - inversion H. split; [cbn; lia|intros t []].
    - destruct (list_eqb curr null_value); [discriminate|].
      destruct ((length curr <? minTagLength)%nat || (maxTagLength <? length curr)%nat || list_eqb curr prev) eqn:E1.
      + destruct (IH _ _ H) as [L1 L2]. split; [cbn; lia|]. intros t Ht. destruct (L2 t Ht) as (A & B). split; [now right|exact B].
      + destruct (negb (is_letter (hd 0 curr)) && negb (is_digit (hd 0 curr))) eqn:E2.
        * destruct (IH _ _ H) as [L1 L2]. split; [cbn; lia|]. intros t Ht. destruct (L2 t Ht) as (A & B). split; [now right|exact B].
        * destruct (Tags.norm_loop is_letter is_digit curr rest) as [out'|] eqn:E3; [|discriminate].
          cbn in H. inversion H; subst. destruct (IH _ _ E3) as [L1 L2]. split; [cbn; lia|].
          intros t [<-|Ht].
          -- split; [now left|]. split; [lia|]. destruct (is_letter (hd 0 curr)); [now left|]. destruct (is_digit (hd 0 curr)); [now right|discriminate].
          -- destruct (L2 t Ht) as (A & B). split; [now right|exact B].
  Qed.

  Lemma norm_loop_ssorted src : forall prev out, sorted (prev :: src) -> norm_loop prev src = Some out ->
    ssorted (prev :: out).
  Proof.
    induction src as [|curr rest IH]; intros prev out Hs H; cbn [Tags.norm_loop] in H.
    - inversion H. exact I.
    - assert (Hs' : sorted (prev :: rest)).
      { destruct rest as [|z rest]; [exact I|]. cbn in Hs. destruct Hs as (A & B & C).
        cbn. split; [eapply lex_le_trans; eassumption|exact C]. }
      assert (Hs2 : sorted (curr :: rest)) by (cbn in Hs; tauto).
      destruct (list_eqb curr null_value); [discriminate|].
      destruct ((length curr <? minTagLength)%nat || (maxTagLength <? length curr)%nat || list_eqb curr prev) eqn:E1;
        [now apply IH|].
      destruct (negb (is_letter (hd 0 curr)) && negb (is_digit (hd 0 curr))); [now apply IH|].
      destruct (Tags.norm_loop is_letter is_digit curr rest) as [out'|] eqn:E3; [|discriminate].
      cbn in H. inversion H; subst. cbn [ssorted]. split; [|now apply IH].
      apply orb_false_iff in E1 as [_ E1]. apply list_eqb_neq in E1.
      cbn in Hs. destruct Hs as [Hle _].
      destruct (lex_ltb prev curr) eqn:E; [reflexivity|].
      exfalso. apply E1. symmetry. now apply lex_total.
  Qed.

  Lemma sorted_nil_cons l : sorted l -> sorted ([] :: l).
  Proof. destruct l as [|x l]; cbn; [auto|]. intros H. split; [now destruct x|exact H]. Qed.

  Lemma ssorted_tail x l : ssorted (x :: l) -> ssorted l.
  Proof. destruct l; cbn; tauto. Qed.

  (* shape of the result *)
  Lemma normalize_cases mx src :
    normalize_tags mx src = None \/ normalize_tags mx src = Some [] \/
    exists l, normalize_tags mx src = Some l /\ l <> [] /\
              norm_loop [] (sort_strings (map norm_one (firstn mx (content src)))) = Some l.
  Proof.
    unfold Tags.normalize_tags. destruct src as [src|]; [|now left]. cbn [content].
    destruct (Tags.norm_loop _ _ _ _) as [[|t l]|] eqn:E; [now left| |now right; left].
    right; right. exists (t :: l). repeat split; congruence.
  Qed.

  Theorem norm_count mx src : (length (content (normalize_tags mx src)) <= mx)%nat.
  Proof.
    destruct (normalize_cases mx src) as [-> | [-> | (l & -> & _ & H)]]; cbn; try lia.
    destruct (norm_loop_in _ _ _ H) as [L _].
    pose proof (Permutation_length (sort_perm (map norm_one (firstn mx (content src))))) as P.
    rewrite map_length in P. pose proof (firstn_le_length mx (content src)). lia.
  Qed.

  Theorem norm_sorted mx src : ssorted (content (normalize_tags mx src)).
  Proof.
    destruct (normalize_cases mx src) as [-> | [-> | (l & -> & _ & H)]]; cbn [content]; try exact I.
    eapply ssorted_tail, norm_loop_ssorted; [|exact H]. apply sorted_nil_cons, sort_sorted.
  Qed.

  Theorem norm_nodup mx src : NoDup (content (normalize_tags mx src)).
  Proof. apply ssorted_nodup, norm_sorted. Qed.

  Theorem norm_each_tag_valid mx src : forall t, In t (content (normalize_tags mx src)) -> tag_valid t.
  Proof.
    destruct (normalize_cases mx src) as [-> | [-> | (l & -> & _ & H)]]; cbn [content]; try (intros t []).
    intros t Ht. destruct (norm_loop_in _ _ _ H) as [_ L]. destruct (L t Ht) as (A & B & C).
    apply (Permutation_in _ (sort_perm _)) in A. apply in_map_iff in A as (s0 & <- & _).
    destruct (norm_one_props s0). repeat split; try tauto; lia.
  Qed.

  (* a list of valid, strictly increasing tags goes through the loop unchanged *)
  Lemma norm_loop_id l : forall prev, ssorted (prev :: l) -> (forall t, In t l -> tag_valid t) ->
    norm_loop prev l = Some l.
  Proof.
    induction l as [|curr rest IH]; intros prev Hs Hv; [reflexivity|].
    cbn [Tags.norm_loop]. destruct (Hv curr (or_introl eq_refl)) as ((L1 & L2) & Hc & _).
    unfold minTagLength, maxTagLength in *.
    assert (E0 : list_eqb curr null_value = false).
    { apply list_eqb_neq. intros ->. cbn in L1. lia. }
    rewrite E0. cbn in Hs. destruct Hs as [Hlt Hs].
    assert (E1 : list_eqb curr prev = false).
    { apply list_eqb_neq. intros ->. rewrite lex_irrefl in Hlt. discriminate. }
    rewrite E1. replace (length curr <? 2)%nat with false by lia. replace (96 <? length curr)%nat with false by lia.
    cbn [orb]. replace (negb (is_letter (hd 0 curr)) && negb (is_digit (hd 0 curr))) with false
      by (destruct Hc as [-> | ->]; cbn; [reflexivity|now rewrite andb_false_r]).
    rewrite IH; [reflexivity|exact Hs|]. intros t Ht. apply Hv. now right.
  Qed.

  Theorem norm_idempotent mx src :
    content (normalize_tags mx (normalize_tags mx src)) = content (normalize_tags mx src).
  Proof.
    pose proof (norm_count mx src) as Hc. pose proof (norm_sorted mx src) as Hs.
    pose proof (norm_each_tag_valid mx src) as Hv.
    destruct (normalize_cases mx src) as [E | [E | (l & E & Hne & _)]]; rewrite E in *; cbn [content] in *.
    - reflexivity.
    - unfold Tags.normalize_tags. rewrite firstn_nil. reflexivity.
    - unfold Tags.normalize_tags. rewrite firstn_all2 by lia.
      assert (Hm : map norm_one l = l).
      { rewrite <- (map_id l) at 2. apply map_ext_in. intros t Ht. destruct (Hv t Ht) as (_ & _ & H1 & H2).
        unfold Tags.norm_one. now rewrite H2, H1. }
      rewrite Hm, (sort_ssorted_id _ Hs).
      rewrite norm_loop_id; [destruct l; [congruence|reflexivity]| |exact Hv].
      destruct l as [|x l]; [exact I|]. cbn [ssorted]. split; [|exact Hs].
      destruct (Hv x (or_introl eq_refl)) as ((L1 & _) & _). destruct x; [cbn in L1; unfold minTagLength in L1; lia|reflexivity].
  Qed.

  (* ---------- restricted namespaces ---------- *)
  Lemma tags_eqb_eq a : forall b, tags_eqb a b = true -> a = b.
  Proof.
    induction a as [|x a IH]; destruct b as [|y b]; cbn; try congruence; try discriminate.
    intros H. apply andb_prop in H as [H1 H2]. apply list_eqb_eq in H1. f_equal; auto.
  Qed.

  Theorem restricted_equal_sound old new ns :
    restricted_tags_equal old new ns = true ->
    Permutation (filter_restricted old ns) (filter_restricted new ns).
  Proof.
    unfold Tags.restricted_tags_equal. destruct (negb _); [discriminate|].
    intros H. apply tags_eqb_eq in H.
    rewrite <- (sort_perm (filter_restricted old ns)), H. apply sort_perm.
  Qed.

  Lemma mem_nil_false x ns : mem x ns = true -> ns <> [].
  Proof. destruct ns; [discriminate|congruence]. Qed.

  Lemma in_filter_restricted t l ns :
    In t (filter_restricted l ns) <-> In t l /\ restricted ns t = true.
  Proof.
    unfold Tags.filter_restricted. destruct ns as [|n ns]; cbn [is_nil].
    - split; [intros []|]. intros [_ H]. unfold Tags.restricted in H.
      destruct (prefixed_ns _ _ t); [cbn in H|]; discriminate.
    - apply filter_In.
  Qed.

  (* an accepted update neither adds nor removes a tag of a reserved namespace *)
  Theorem restricted_equal_no_change old new ns :
    restricted_tags_equal old new ns = true ->
    forall t, restricted ns t = true ->
      (In t new <-> In t old) /\ count_occ (list_eq_dec N.eq_dec) new t = count_occ (list_eq_dec N.eq_dec) old t.
  Proof.
    intros H t Ht. pose proof (restricted_equal_sound _ _ _ H) as P. split.
    - split; intros Hin.
      + assert (In t (filter_restricted new ns)) as X by (apply in_filter_restricted; auto).
        apply (Permutation_in _ (Permutation_sym P)) in X. now apply in_filter_restricted in X.
      + assert (In t (filter_restricted old ns)) as X by (apply in_filter_restricted; auto).
        apply (Permutation_in _ P) in X. now apply in_filter_restricted in X.
    - pose proof (proj1 (Permutation_count_occ (list_eq_dec N.eq_dec) _ _) P t) as C.
      assert (F : forall l, count_occ (list_eq_dec N.eq_dec) (filter_restricted l ns) t = count_occ (list_eq_dec N.eq_dec) l t).
      { intros l. unfold Tags.filter_restricted. destruct ns as [|n ns]; cbn [is_nil].
        - unfold Tags.restricted in Ht. destruct (prefixed_ns _ _ t); [cbn in Ht|]; discriminate.
        - induction l as [|x l IH]; [reflexivity|]. cbn [filter].
          destruct (list_eq_dec N.eq_dec x t) as [->|Hne].
          + rewrite Ht. cbn [count_occ]. destruct (list_eq_dec N.eq_dec t t); [|contradiction]. now rewrite IH.
          + destruct (Tags.restricted is_letter is_number (n :: ns) x); cbn [count_occ];
              destruct (list_eq_dec N.eq_dec x t); try contradiction; exact IH. }
      rewrite !F in C. now symmetry.
  Qed.

  (* ---------- masked namespaces ---------- *)
  Lemma delta_loop_added fuel : forall old new a r i,
    (length old + length new <= fuel)%nat ->
    delta_loop fuel old new = (a, r, i) -> a = [] -> forall x, In x new -> In x old.
  Proof.
    induction fuel as [|f IH]; intros old new a r i Hl H Ha x Hx.
    - destruct new; [contradiction|]. destruct old; cbn in Hl; lia.
    - cbn [delta_loop] in H. destruct old as [|o os], new as [|n ns]; try contradiction.
      + destruct (delta_loop f [] ns) as [[a' r'] i']. inversion H; subst. discriminate.
      + destruct (lex_ltb n o) eqn:E1.
        * destruct (delta_loop f (o :: os) ns) as [[a' r'] i']. inversion H; subst. discriminate.
        * destruct (lex_ltb o n) eqn:E2.
          -- destruct (delta_loop f os (n :: ns)) as [[a' r'] i'] eqn:E. inversion H; subst.
             right. eapply IH; [|exact E|reflexivity|exact Hx]. cbn in *. lia.
          -- pose proof (lex_total _ _ E2 E1). subst n.
             destruct (delta_loop f os ns) as [[a' r'] i'] eqn:E. inversion H; subst.
             destruct Hx as [<-|Hx]; [now left|]. right.
             eapply IH; [|exact E|reflexivity|exact Hx]. cbn in *. lia.
  Qed.

  Lemma delta_added_nil old new a r i :
    string_slice_delta old new = (a, r, i) -> a = [] -> forall x, In x new -> In x old.
  Proof.
    unfold string_slice_delta. intros H Ha x Hx.
    destruct old as [|o os], new as [|n ns]; try contradiction.
    - inversion H; subst. discriminate.
    - apply (Permutation_in _ (sort_perm (o :: os))).
      eapply delta_loop_added; [|exact H|exact Ha|].
      + rewrite (Permutation_length (sort_perm (o :: os))), (Permutation_length (sort_perm (n :: ns))). lia.
      + apply (Permutation_in _ (Permutation_sym (sort_perm (n :: ns)))). exact Hx.
  Qed.

  (* a search is executed only if every masked-namespace term is one of the
     searcher's own tags *)
  Theorem masked_filter_sound own terms masked :
    masked_gate own terms masked = true ->
    forall t, In t terms -> restricted masked t = true -> In t own.
  Proof.
    unfold Tags.masked_gate. intros H t Ht Hr.
    destruct (string_slice_delta own (filter_restricted terms masked)) as [[a r] i] eqn:E.
    destruct a; [|discriminate].
    eapply delta_added_nil; [exact E|reflexivity|]. apply in_filter_restricted. auto.
  Qed.
End TagLaws.
