(* C13: the Drafty span pipeline of server/drafty/drafty.go + grapheme.go (definitions only).

   Message content is client controlled and is rendered into push-notification previews by
   drafty.PlainText / drafty.Preview (server/push/fcm/payload.go) in goroutines without recover:
   a panic here terminates the server.

   Modelled statement by statement: graphemes.length / string / slice / append, prepareGraphemes'
   construction of the container from the clusters, styleToSpan, toTree (range check, entity
   denormalisation, sort, overlap filter), forEach, plainTextFormatter, previewFormatter, PlainText,
   Preview.
   OUTSIDE the model: JSON decoding (decodeAsDrafty / decodeAsStyle / decodeAsEntity: the model
   starts from the decoded document), the grapheme segmentation of uniseg (the model's input is the
   list of clusters), strings.TrimSpace at the end of PlainText, copyLight / json.Marshal at the end of
   Preview.

   Go [int] is 64-bit two's complement: where the code adds client-controlled integers the wrap is
   written explicitly ([add64], [sub64]).  A slice / index expression that Go would panic on is the
   outcome [Panic site]: [g.slice(a,b)] needs 0 <= a <= b <= len (the index loops and the two slice
   expressions are modelled one by one), [Ent[k]] needs 0 <= k < len.  [forEach] recurses on a strictly
   shorter list of spans: fuel = S (number of spans), and running out of fuel is the explicit outcome
   [OutOfFuel] (proved unreachable in DraftyProofs.v).

   [repaired = true] is the code as it is (range check of /repo commit 6cc931e: "s.end < s.at"
   rejects a wrapped at+len); [repaired = false] is the check before that commit. *)
From Coq Require Import List NArith ZArith Bool.
Import ListNotations.
Open Scope Z_scope.

Definition str := list N.      (* bytes *)

Fixpoint eqs (a b : str) : bool :=
  match a, b with
  | [], [] => true
  | x :: a', y :: b' => (x =? y)%N && eqs a' b'
  | _, _ => false
  end.

Definition is_empty (s : str) : bool := match s with [] => true | _ => false end.

(* ---- Go int ---- *)
Definition two63 : Z := 9223372036854775808.
Definition two64 : Z := 18446744073709551616.
Definition wrap (z : Z) : Z := (z + two63) mod two64 - two63.
Definition add64 (a b : Z) : Z := wrap (a + b).
Definition sub64 (a b : Z) : Z := wrap (a - b).

(* ---- outcomes ---- *)
Inductive err := ErrInvalid | ErrUnrecognized.   (* errInvalidContent, errUnrecognizedContent *)

Inductive res (A : Type) : Type :=
  | Ok (a : A)
  | Err (e : err)
  | Panic (site : N)
  | OutOfFuel.
Arguments Ok {A} a.
Arguments Err {A} e.
Arguments Panic {A} site.
Arguments OutOfFuel {A}.

Definition bind {A B} (r : res A) (f : A -> res B) : res B :=
  match r with Ok a => f a | Err e => Err e | Panic s => Panic s | OutOfFuel => OutOfFuel end.
Notation "x <- r ;; k" := (bind r (fun x => k)) (at level 61, r at next level, right associativity).

Definition site_sizes_index : N := 21.   (* g.sizes[i] in the loops of graphemes.slice *)
Definition site_orig_slice : N := 22.    (* g.original[s:e] *)
Definition site_sizes_slice : N := 23.   (* g.sizes[start:end] *)
Definition site_nil_gc : N := 24.        (* graphemes.slice on a nil receiver (g.original) *)
Definition site_ent_index : N := 25.     (* drafty.Ent[s.key] *)

(* ---- grapheme.go ---- *)
Record graphemes := { g_orig : str; g_sizes : list N }.
Definition gcs := option graphemes.        (* *graphemes: None = nil *)

(* prepareGraphemes: the clusters come from uniseg.StepString; sizes = byte(len(cluster)) *)
Definition prepare (clusters : list str) : graphemes :=
  {| g_orig := concat clusters; g_sizes := map (fun c => (N.of_nat (length c) mod 256)%N) clusters |}.

Definition g_length (g : gcs) : Z := match g with None => 0 | Some x => Z.of_nat (length (g_sizes x)) end.
Definition g_string (g : gcs) : str := match g with None => [] | Some x => g_orig x end.

(* for ; i < stop; i++ { acc += int(sizes[i]) } where [sizes] is the part of the slice from index i on
   (i >= 0): None = index out of range; also returns the part of the slice from the final index on *)
Fixpoint walk (sizes : list N) (i stop acc : Z) : option (Z * list N) :=
  if i <? stop then
    match sizes with
    | [] => None
    | x :: r => walk r (i + 1) stop (acc + Z.of_N x)
    end
  else Some (acc, sizes).

Definition sub_list {A} (l : list A) (a b : Z) : list A := firstn (Z.to_nat (b - a)) (skipn (Z.to_nat a) l).

Definition g_slice (g : gcs) (start end_ : Z) : res gcs :=
  match g with
  | None =>
    (* a nil receiver: g.sizes / g.original dereference nil.  (When the loops run, g.sizes[i] is the first
       dereference; otherwise g.original.) *)
    Panic site_nil_gc
  | Some x =>
    (* s := 0; for i := 0; i < start; i++ { s += int(g.sizes[i]) } *)
    match walk (g_sizes x) 0 start 0 with
    | None => Panic site_sizes_index
    | Some (s, rest) =>
      (* e := s; for i := start; i < end; i++ { e += int(g.sizes[i]) } *)
      let r2 := if start <? end_ then
                  (if start <? 0 then None else option_map fst (walk rest start end_ s))
                else Some s in
      match r2 with
      | None => Panic site_sizes_index
      | Some e =>
        (* original: g.original[s:e] *)
        if negb ((0 <=? s) && (s <=? e) && (e <=? Z.of_nat (length (g_orig x)))) then Panic site_orig_slice
        (* sizes: g.sizes[start:end]  (Go checks end against cap(sizes) >= len(sizes); whenever this
           point is reached with start < end the loops have established end <= len, and with start = end the
           first loop has established start <= len, so the bound len is the one that matters) *)
        else if negb ((0 <=? start) && (start <=? end_) && (end_ <=? Z.of_nat (length (g_sizes x)))) then Panic site_sizes_slice
        else Ok (Some {| g_orig := sub_list (g_orig x) s e; g_sizes := sub_list (g_sizes x) start end_ |})
      end
    end
  end.

(* append: g == nil -> other; else g.original += other.original; g.sizes = append(g.sizes, other.sizes...) *)
Definition g_append (g other : gcs) : gcs :=
  match g with
  | None => other
  | Some x => Some {| g_orig := g_orig x ++ g_string other;
                      g_sizes := g_sizes x ++ match other with None => [] | Some y => g_sizes y end |}
  end.

(* ---- drafty.go: the decoded document ---- *)
(* entity data as far as the formatters read it: nullableMapGet(data, "url" / "name") *)
Record edata := { d_url : option str; d_name : option str }.
Record style := { st_tp : str; st_at : Z; st_len : Z; st_key : Z }.
Record entity := { e_tp : str; e_data : option edata }.           (* Data == nil -> None *)
Record document := {
  d_txt : option (list str);     (* clusters of Txt; None: no "txt" in the content, gc stays nil *)
  d_fmt : list style;
  d_ent : list entity
}.
Definition d_gc (d : document) : gcs := option_map prepare (d_txt d).

Record span := { sp_tp : str; sp_at : Z; sp_end : Z; sp_key : Z; sp_data : option edata }.

Inductive node := Node (gc : gcs) (sp : option span) (children : list node).

Definition t_ST : str := [83;84]%N.
Definition t_EM : str := [69;77]%N.
Definition t_DL : str := [68;76]%N.
Definition t_CO : str := [67;79]%N.
Definition t_BR : str := [66;82]%N.
Definition t_EX : str := [69;88]%N.
Definition t_LN : str := [76;78]%N.
Definition t_MN : str := [77;78]%N.
Definition t_HT : str := [72;84]%N.
Definition t_AU : str := [65;85]%N.
Definition t_IM : str := [73;77]%N.
Definition t_VD : str := [86;68]%N.
Definition t_VC : str := [86;67]%N.
Definition t_QQ : str := [81;81]%N.

(* tags[tp].isVoid *)
Definition is_void (tp : str) : bool := eqs tp t_BR || eqs tp t_EX.

(* styleToSpan *)
Definition style_to_span (i : style) : res span :=
  let tp := st_tp i in
  let at_ := st_at i in
  let end0 := st_len i in
  if end0 <? 0 then Err ErrInvalid
  else
    let end_ := add64 end0 at_ in                       (* s.end += s.at *)
    if is_empty tp then
      let key := st_key i in
      if key <? 0 then Err ErrInvalid
      else Ok {| sp_tp := tp; sp_at := at_; sp_end := end_; sp_key := key; sp_data := None |}
    else Ok {| sp_tp := tp; sp_at := at_; sp_end := end_; sp_key := 0; sp_data := None |}.

(* drafty.Ent[k] *)
Definition index_ent (ents : list entity) (k : Z) : option entity :=
  if (k <? 0) || (Z.of_nat (length ents) <=? k) then None else nth_error ents (Z.to_nat k).

(* the body of the loop over drafty.Fmt in toTree *)
Definition one_span (repaired : bool) (text_len : Z) (ents : list entity) (i : style) : res span :=
  s <- style_to_span i ;;
  if (sp_at s <? -1) || (text_len <? sp_end s) || (repaired && (sp_end s <? sp_at s)) then Err ErrInvalid
  else
    s2 <- (if is_empty (sp_tp s) && (0 <? Z.of_nat (length ents)) then
             if (sp_key s <? 0) || (Z.of_nat (length ents) <=? sp_key s) then Err ErrInvalid
             else match index_ent ents (sp_key s) with
                  | None => Panic site_ent_index
                  | Some e => Ok {| sp_tp := e_tp e; sp_at := sp_at s; sp_end := sp_end s; sp_key := sp_key s; sp_data := e_data e |}
                  end
           else Ok s) ;;
    if is_empty (sp_tp s2) && (sp_at s2 =? 0) && (sp_end s2 =? 0) && (sp_key s2 =? 0) then Err ErrUnrecognized
    else Ok s2.

Fixpoint all_spans (repaired : bool) (text_len : Z) (ents : list entity) (fmt : list style) : res (list span) :=
  match fmt with
  | [] => Ok []
  | i :: rest =>
    s <- one_span repaired text_len ents i ;;
    l <- all_spans repaired text_len ents rest ;;
    Ok (s :: l)
  end.

(* sort.Slice(spans, less): by start index ascending, then longer first.  Modelled as the stable insertion
   sort (what sort.Slice runs for up to 12 elements); for longer inputs Go's pdqsort may order spans with
   equal (at, end) differently - no theorem below depends on the order. *)
Definition less (a b : span) : bool :=
  if sp_at a =? sp_at b then sp_end b <? sp_end a else sp_at a <? sp_at b.

Fixpoint insert_span (x : span) (l : list span) : list span :=
  match l with
  | [] => [x]
  | y :: l' => if less x y then x :: y :: l' else y :: insert_span x l'
  end.

Definition sort_spans (l : list span) : list span := fold_left (fun acc x => insert_span x acc) l [].

(* Drop the second format when spans overlap like '_first *second_ third*' *)
Fixpoint filter_spans (end_ : Z) (l : list span) : list span :=
  match l with
  | [] => []
  | s :: rest =>
    if (sp_at s <? end_) && (end_ <? sp_end s) then filter_spans end_ rest
    else s :: filter_spans (if end_ <? sp_end s then sp_end s else end_) rest
  end.

Fixpoint take_while {A} (p : A -> bool) (l : list A) : list A :=
  match l with [] => [] | x :: r => if p x then x :: take_while p r else [] end.
Fixpoint drop_while {A} (p : A -> bool) (l : list A) : list A :=
  match l with [] => [] | x :: r => if p x then drop_while p r else l end.

(* forEach(g, start, end, spans).  One unit of fuel per loop iteration / nested call. *)
Fixpoint for_each (fuel : nat) (g : gcs) (start end_ : Z) (spans : list span) : res (list node) :=
  match fuel with
  | O => OutOfFuel
  | S f =>
    match spans with
    | [] =>
      (* Add the remaining unformatted range. *)
      if start <? end_ then (r <- g_slice g start end_ ;; Ok [Node r None []]) else Ok []
    | sp :: rest =>
      if sp_at sp <? 0 then
        (* Attachment *)
        tail <- for_each f g start end_ rest ;;
        Ok (Node None (Some sp) [] :: tail)
      else
        (* Add un-styled range before the styled span starts. *)
        pre <- (if start <? sp_at sp then (r <- g_slice g start (sp_at sp) ;; Ok ([Node r None []], sp_at sp))
                else Ok ([], start)) ;;
        let start1 := snd pre in
        (* Get all spans which are within current span. *)
        let subspans := take_while (fun s => sp_at s <? sp_end sp) rest in
        let rest' := drop_while (fun s => sp_at s <? sp_end sp) rest in
        nd <- (if is_void (sp_tp sp) then Ok (Node None (Some sp) [])
               else (children <- for_each f g start1 (sp_end sp) subspans ;; Ok (Node None (Some sp) children))) ;;
        tail <- for_each f g (sp_end sp) end_ rest' ;;
        Ok (fst pre ++ nd :: tail)
    end
  end.

(* toTree *)
Definition to_tree (repaired : bool) (d : document) : res node :=
  match d_fmt d with
  | [] => Ok (Node (d_gc d) None [])
  | _ =>
    let text_len := g_length (d_gc d) in
    spans <- all_spans repaired text_len (d_ent d) (d_fmt d) ;;
    let filtered := filter_spans (-2) (sort_spans spans) in
    children <- for_each (S (length filtered)) (d_gc d) 0 text_len filtered ;;
    Ok (Node None None children)
  end.

(* ---- plainTextFormatter ---- *)
Definition s_star : str := [42]%N.
Definition s_under : str := [95]%N.
Definition s_tilde : str := [126]%N.
Definition s_tick : str := [96]%N.
Definition s_nl : str := [10]%N.
Definition s_call : str := [91;67;65;76;76;93]%N.           (* [CALL] *)
Definition s_audio : str := [65;85;68;73;79]%N.
Definition s_file : str := [70;73;76;69]%N.
Definition s_image : str := [73;77;65;71;69]%N.
Definition s_video : str := [86;73;68;69;79]%N.

Definition dec_of (tp : str) : str :=
  if eqs tp t_ST then s_star else if eqs tp t_EM then s_under else if eqs tp t_DL then s_tilde else s_tick.

(* nullableMapGet *)
Definition get_url (d : option edata) : option str := match d with None => None | Some x => d_url x end.
Definition get_name (d : option edata) : option str := match d with None => None | Some x => d_name x end.

Definition render_span (sp : span) (text : str) : str :=
  let tp := sp_tp sp in
  if eqs tp t_ST || eqs tp t_EM || eqs tp t_DL || eqs tp t_CO then dec_of tp ++ text ++ dec_of tp
  else if eqs tp t_LN then
    match get_url (sp_data sp) with
    | Some url => if eqs url text then text else [91]%N ++ text ++ [93;40]%N ++ url ++ [41]%N     (* [text](url) *)
    | None => text
    end
  else if eqs tp t_MN || eqs tp t_HT then text
  else if eqs tp t_BR then s_nl
  else if eqs tp t_AU || eqs tp t_EX || eqs tp t_IM || eqs tp t_VD then
    let name := match get_name (sp_data sp) with Some (c :: n) => c :: n | _ => [63]%N end in     (* "?" *)
    let kind := if eqs tp t_AU then s_audio else if eqs tp t_EX then s_file else if eqs tp t_IM then s_image else s_video in
    [91]%N ++ kind ++ [32;39]%N ++ name ++ [39;93]%N                                             (* [KIND 'name'] *)
  else if eqs tp t_VC then s_call
  else text.

Fixpoint plain_fmt (n : node) : str :=
  match n with
  | Node gc sp children =>
    if match sp with Some s => eqs (sp_tp s) t_QQ | None => false end then []
    else
      let text := match children with
                  | [] => g_string gc
                  | _ => (fix go (l : list node) : str := match l with [] => [] | c :: l' => plain_fmt c ++ go l' end) children
                  end in
      match sp with
      | None => text
      | Some s => render_span s text
      end
  end.

(* PlainText, before strings.TrimSpace *)
Definition plain_text (repaired : bool) (d : document) : res str :=
  tree <- to_tree repaired d ;;
  Ok (plain_fmt tree).

(* ---- previewFormatter ---- *)
Record pstate := {
  p_gc : gcs;                      (* state.drafty.gc *)
  p_keymap : list (Z * Z);         (* state.keymap *)
  p_fmt : list style;              (* state.drafty.Fmt *)
  p_ent : list str                 (* state.drafty.Ent: the types (Data = copyLight(..), not modelled) *)
}.

Fixpoint keymap_get (m : list (Z * Z)) (k : Z) : option Z :=
  match m with [] => None | (a, b) :: r => if a =? k then Some b else keymap_get r k end.

Definition emit_style (sp : span) (at_ end_ : Z) (st : pstate) : pstate :=
  let pos : option (Z * Z) :=
    if sp_at sp <? 0 then Some (-1, 0)
    else if (at_ <? end_) || is_void (sp_tp sp) then Some (at_, end_ - at_)
    else None in
  match pos with
  | None => st
  | Some (fa, fl) =>
    match sp_data sp with
    | Some _ =>
      match keymap_get (p_keymap st) (sp_key sp) with
      | Some key =>
        {| p_gc := p_gc st; p_keymap := p_keymap st;
           p_fmt := p_fmt st ++ [{| st_tp := []; st_at := fa; st_len := fl; st_key := key |}]; p_ent := p_ent st |}
      | None =>
        let key := Z.of_nat (length (p_ent st)) in
        {| p_gc := p_gc st; p_keymap := (sp_key sp, key) :: p_keymap st;
           p_fmt := p_fmt st ++ [{| st_tp := []; st_at := fa; st_len := fl; st_key := key |}];
           p_ent := p_ent st ++ [sp_tp sp] |}
      end
    | None =>
      {| p_gc := p_gc st; p_keymap := p_keymap st;
         p_fmt := p_fmt st ++ [{| st_tp := sp_tp sp; st_at := fa; st_len := fl; st_key := 0 |}]; p_ent := p_ent st |}
    end
  end.

Fixpoint preview_fmt (max_len : Z) (n : node) (st : pstate) : res pstate :=
  match n with
  | Node gc sp children =>
    let at_ := g_length (p_gc st) in
    if max_len <=? at_ then Ok st                          (* Maximum doc length reached. *)
    else if match sp with
            | Some s => eqs (sp_tp s) t_QQ || (eqs (sp_tp s) t_BR && (at_ =? 0))
            | None => false
            end then Ok st
    else
      st1 <- match children with
             | [] =>
               let increment := g_length gc in
               if 0 <? increment then
                 let inc' := if max_len <? add64 at_ increment then sub64 max_len at_ else increment in
                 let base := match p_gc st with None => Some (prepare []) | Some x => Some x end in
                 sl <- g_slice gc 0 inc' ;;
                 Ok {| p_gc := g_append base sl; p_keymap := p_keymap st; p_fmt := p_fmt st; p_ent := p_ent st |}
               else Ok st
             | _ =>
               (fix go (l : list node) (s : pstate) : res pstate :=
                  match l with [] => Ok s | c :: l' => s' <- preview_fmt max_len c s ;; go l' s' end) children st
             end ;;
      let end_ := g_length (p_gc st1) in
      match sp with
      | None => Ok st1
      | Some s => Ok (emit_style s at_ end_ st1)
      end
  end.

Record preview_out := { o_txt : str; o_fmt : list style; o_ent : list str }.

(* Preview(content, length) up to json.Marshal *)
Definition preview (repaired : bool) (max_len : Z) (d : document) : res preview_out :=
  tree <- to_tree repaired d ;;
  st <- preview_fmt max_len tree {| p_gc := None; p_keymap := []; p_fmt := []; p_ent := [] |} ;;
  Ok {| o_txt := g_string (p_gc st); o_fmt := p_fmt st; o_ent := p_ent st |}.

(* ---- concrete documents ---- *)
Definition hello : list str := [[104]; [101]; [108]; [108]; [111]]%N.
(* {"txt":"hello","fmt":[{"at":4611686018427387904,"len":4611686018427387904,"tp":"ST"}]}:
   at+len wraps to -2^63, which passes "end > textLen" *)
Definition doc_overflow : document :=
  {| d_txt := Some hello; d_fmt := [{| st_tp := t_ST; st_at := 4611686018427387904; st_len := 4611686018427387904; st_key := 0 |}]; d_ent := [] |}.
(* {"txt":"hello","fmt":[{"at":0,"len":5,"tp":"ST"},{"at":1,"len":2,"tp":"EM"},{"at":-1,"len":0,"key":0}],"ent":[{"tp":"EX","data":{"name":"f"}}]} *)
Definition doc_nested : document :=
  {| d_txt := Some hello;
     d_fmt := [{| st_tp := t_ST; st_at := 0; st_len := 5; st_key := 0 |}; {| st_tp := t_EM; st_at := 1; st_len := 2; st_key := 0 |};
               {| st_tp := []; st_at := -1; st_len := 0; st_key := 0 |}];
     d_ent := [{| e_tp := t_EX; e_data := Some {| d_url := None; d_name := Some [102]%N |} |}] |}.
