(* Lemmas about Pure/ApiKey.v and Pure/Basic.v. *)
From Coq Require Import NArith ZArith List Bool Lia ZifyBool ZifyNat ZifyN.
From Tinode Require Import Base.Base64Lite Pure.Token Pure.TokenProofs Pure.Code Pure.CodeProofs
  Pure.ApiKey Pure.Basic.
Import ListNotations.
Open Scope N_scope.

(* ------------------------------------------------------------------ *)
Section ApiKeyThms.
Variable mac : list N -> list N -> list N.

Lemma apikey_sound salt key r :
  check_api_key mac salt key = AKValid r ->
  decoded_len (length key) = 24%nat /\
  exists data, b64url_decode key = Some data /\
    nth 0 data 0 = 1 /\ (8 <= length data)%nat /\
    skipn 8 data = mac salt (firstn 8 data) /\
    r = (nth 7 data 0 =? 1).
Proof.
  unfold check_api_key, apikey_length, apikey_signed. intros H.
  destruct (Nat.eqb (decoded_len (length key)) 24) eqn:E0; cbn [negb] in H; [|discriminate].
  apply Nat.eqb_eq in E0. split; [exact E0|].
  destruct (b64url_decode key) as [data|]; [|discriminate]. exists data. split; [reflexivity|].
  destruct data as [|v l]; [discriminate|].
  destruct (v =? 1) eqn:E1; cbn [negb] in H; [|discriminate]. apply N.eqb_eq in E1.
  destruct (Nat.ltb (length (v :: l)) 8) eqn:E2; [discriminate|]. apply Nat.ltb_ge in E2.
  destruct (bytes_eqb _ _) eqn:E3; cbn [negb] in H; [|discriminate]. apply bytes_eqb_eq in E3.
  injection H as <-. repeat split; assumption.
Qed.

Lemma apikey_unsigned_refused salt key data :
  b64url_decode key = Some data ->
  skipn 8 data <> mac salt (firstn 8 data) ->
  forall r, check_api_key mac salt key <> AKValid r.
Proof.
  intros D Hne r H. apply apikey_sound in H. destruct H as (_ & d & D' & _ & _ & S & _).
  rewrite D in D'. injection D' as <-. contradiction.
Qed.

Lemma apikey_fixed_no_panic salt key : check_api_key_fixed mac salt key <> AKPanic.
Proof.
  unfold check_api_key_fixed.
  destruct (negb _); [discriminate|]. destruct (b64url_decode key); [|discriminate].
  destruct (negb _); [discriminate|]. destruct (negb _); [discriminate|].
  destruct (negb _); discriminate.
Qed.

(* the repair changes nothing but the panic *)
Lemma apikey_fixed_spec salt key :
  (forall k d, length (mac k d) = 16%nat) ->
  check_api_key_fixed mac salt key =
  match check_api_key mac salt key with AKPanic => AKRefused | r => r end.
Proof.
  intros L. unfold check_api_key_fixed, check_api_key, apikey_length, apikey_signed.
  destruct (negb (Nat.eqb (decoded_len (length key)) 24)); [reflexivity|].
  destruct (b64url_decode key) as [data|]; [|reflexivity].
  destruct data as [|v l]; [reflexivity|].
  cbn [nth].
  destruct (v =? 1) eqn:E1; cbn [negb].
  2:{ destruct (negb _); reflexivity. }
  destruct (Nat.ltb (length (v :: l)) 8) eqn:E2.
  { apply Nat.ltb_lt in E2. destruct (Nat.eqb (length (v :: l)) 24) eqn:E3; [|reflexivity].
    apply Nat.eqb_eq in E3. lia. }
  apply Nat.ltb_ge in E2.
  destruct (bytes_eqb (skipn 8 (v :: l)) (mac salt (firstn 8 (v :: l)))) eqn:E3; cbn [negb].
  - apply bytes_eqb_eq in E3.
    assert (length (v :: l) = 24%nat).
    { assert (length (skipn 8 (v :: l)) = 16%nat) by (rewrite E3; apply L).
      rewrite skipn_length in H. lia. }
    rewrite H. reflexivity.
  - destruct (negb _); reflexivity.
Qed.

(* 32 line feeds: pass the length gate, decode to nothing, data[0] panics.
   "AQAA" + 28 line feeds: version byte 1, 3 bytes decoded, data[8:] panics. *)
Lemma apikey_panic_witness salt :
  check_api_key mac salt (repeat 10 32) = AKPanic /\
  check_api_key mac salt ([65; 81; 65; 65] ++ repeat 10 28) = AKPanic.
Proof. split; reflexivity. Qed.

End ApiKeyThms.

(* ------------------------------------------------------------------ *)
Section BasicThms.
Variable lower : list N -> list N.
Variable login_ok : list N -> bool.
Variable pw_ok : list N -> bool.
Variable cmp : list N -> list N -> bcres.

Notation bstep := (bstep lower login_ok pw_ok cmp).
Notation brun := (brun lower login_ok pw_ok cmp).
Notation parse_secret := (parse_secret lower).

Lemma bget_in k st r : bget k st = Some r -> In (k, r) st.
Proof.
  induction st as [|[k' r'] t IH]; cbn [bget]; [discriminate|].
  destruct (bytes_eqb k k') eqn:E.
  - intros [= ->]. apply bytes_eqb_eq in E. subst. now left.
  - intros H. right. auto.
Qed.

Lemma bget_none k st : bget k st = None -> ~ In k (map fst st).
Proof.
  induction st as [|[k' r'] t IH]; cbn [bget map fst]; [tauto|].
  destruct (bytes_eqb k k') eqn:E; [discriminate|]. apply beq_false in E.
  intros H [Hk|Hin]; [congruence|]. now apply IH.
Qed.

(* an accepted password was verified against the stored hash of exactly that
   (lower-cased) login, which exists and has not expired *)
Lemma basic_auth_sound st secret st' uid lvl :
  bstep st (BAuth secret) = (st', BAuthOk uid lvl) ->
  exists u p r, split_colon secret = Some (u, p) /\
    bget (lower u) (bs_store st) = Some r /\
    cmp (br_hash r) p = BcMatch /\
    uid = br_uid r /\ lvl = br_level r /\ uid <> 0 /\
    (match br_expires r with Some e => (bs_now st <= e)%Z | None => True end) /\
    st' = st.
Proof.
  cbn [bstep]. unfold Basic.parse_secret.
  destruct (split_colon secret) as [[u p]|]; [|intros [= _ H]; discriminate].
  destruct (bget (lower u) (bs_store st)) as [r|] eqn:G; [|intros [= _ H]; discriminate].
  destruct (br_uid r =? 0) eqn:E0; [intros [= _ H]; discriminate|].
  destruct (match br_expires r with Some e => (e <? bs_now st)%Z | None => false end) eqn:E1;
    [intros [= _ H]; discriminate|].
  cbv zeta. destruct (cmp (br_hash r) p) eqn:E2; cbn [negb bc_is_nil]; try (intros [= _ H]; discriminate).
  intros [= <- <- <-]. exists u, p, r. repeat split; try assumption; try reflexivity.
  - lia.
  - destruct (br_expires r); [lia|exact I].
Qed.

Lemma basic_unknown_login_never st secret u p :
  split_colon secret = Some (u, p) -> bget (lower u) (bs_store st) = None ->
  bstep st (BAuth secret) = (st, BErr BEFailed).
Proof. intros S G. cbn [bstep]. unfold Basic.parse_secret. now rewrite S, G. Qed.

Lemma basic_wrong_password_never st secret u p r :
  split_colon secret = Some (u, p) -> bget (lower u) (bs_store st) = Some r ->
  cmp (br_hash r) p <> BcMatch ->
  exists e, bstep st (BAuth secret) = (st, BErr e).
Proof.
  intros S G V. cbn [bstep]. unfold Basic.parse_secret. rewrite S, G.
  destruct (br_uid r =? 0); [eexists; reflexivity|].
  destruct (match br_expires r with Some e => (e <? bs_now st)%Z | None => false end); [eexists; reflexivity|].
  cbv zeta. destruct (cmp (br_hash r) p); [congruence| |]; cbn [negb bc_is_nil]; eexists; reflexivity.
Qed.

(* for EVERY stored record (any bytes) and every password: success only on the oracle's "match" *)
Lemma basic_authenticates_only_on_match st secret u p r st' uid lvl :
  split_colon secret = Some (u, p) -> bget (lower u) (bs_store st) = Some r ->
  bstep st (BAuth secret) = (st', BAuthOk uid lvl) ->
  cmp (br_hash r) p = BcMatch.
Proof.
  intros S G H. destruct (basic_auth_sound _ _ _ _ _ H) as (u' & p' & r' & S' & G' & M & _).
  rewrite S in S'. injection S' as <- <-. rewrite G in G'. injection G' as <-. exact M.
Qed.

(* ... in particular never on an oracle error, whatever the error and the password *)
Lemma basic_never_on_oracle_error st secret u p r e :
  split_colon secret = Some (u, p) -> bget (lower u) (bs_store st) = Some r ->
  cmp (br_hash r) p = BcError e ->
  exists e', bstep st (BAuth secret) = (st, BErr e').
Proof.
  intros S G V. apply (basic_wrong_password_never st secret u p r S G). rewrite V. discriminate.
Qed.

(* stored bytes that newFromHash rejects never authenticate, with ANY password: premise = the oracle
   returns the error of its header check (CompareHashAndPassword starts with newFromHash) *)
Lemma basic_malformed_hash_never st secret u p r e :
  (forall h q e0, bc_header h = Some e0 -> cmp h q = BcError e0) ->
  split_colon secret = Some (u, p) -> bget (lower u) (bs_store st) = Some r ->
  bc_header (br_hash r) = Some e ->
  exists e', bstep st (BAuth secret) = (st, BErr e').
Proof.
  intros O S G Hh. exact (basic_never_on_oracle_error st secret u p r e S G (O _ _ _ Hh)).
Qed.

(* the store anomaly puts ANY bytes under an existing login *)
Lemma bset_hash_get uid hash st k r :
  bget k st = Some r -> br_uid r = uid ->
  bget k (bset_hash uid hash st) = Some (mkBR (br_uid r) (br_level r) hash (br_expires r)).
Proof.
  induction st as [|[k' r'] t IH]; cbn [bget bset_hash]; [discriminate|].
  destruct (bytes_eqb k k'); [|exact IH].
  intros [= ->] U. rewrite U, N.eqb_refl. now rewrite <- U.
Qed.

Lemma basic_raw_then_auth st uid hash secret u p r :
  split_colon secret = Some (u, p) -> bget (lower u) (bs_store st) = Some r -> br_uid r = uid ->
  exists st1, bstep st (BRaw uid hash) = (st1, BRawOk) /\
    bget (lower u) (bs_store st1) = Some (mkBR (br_uid r) (br_level r) hash (br_expires r)) /\
    (cmp hash p <> BcMatch -> exists e', bstep st1 (BAuth secret) = (st1, BErr e')).
Proof.
  intros S G U.
  assert (F : bfind_uid uid (bs_store st) <> None).
  { clear S. revert G. induction (bs_store st) as [|[k' r'] t IH]; cbn [bget bfind_uid]; [discriminate|].
    destruct (bytes_eqb (lower u) k').
    - intros [= ->]. rewrite U, N.eqb_refl. discriminate.
    - intros G. destruct (br_uid r' =? uid); [discriminate|auto]. }
  exists (mkBS (bset_hash uid hash (bs_store st)) (bs_now st)).
  pose proof (bset_hash_get uid hash _ _ _ G U) as G1.
  split; [|split].
  - cbn [bstep]. destruct (bfind_uid uid (bs_store st)) as [x|]; [reflexivity|congruence].
  - exact G1.
  - intros V. eapply basic_wrong_password_never; [exact S|cbn [bs_store]; exact G1|exact V].
Qed.

Lemma bc_header_no_panic h : bc_header h <> Some BcIndexPanic.
Proof.
  unfold bc_header. destruct (N.of_nat (length h) <? 59) eqn:L; [discriminate|].
  destruct h as [|b0 [|b1 [|b2 [|b3 [|b4 [|b5 t]]]]]]; try (vm_compute in L; discriminate).
  destruct (negb (b0 =? 36)); [discriminate|]. destruct (50 <? b1); [discriminate|].
  destruct (negb (b2 =? 36)); cbn [tl].
  - destruct (bc_atoi2 b4 b5); [destruct (_ || _)|]; discriminate.
  - destruct (bc_atoi2 b3 b4); [destruct (_ || _)|]; discriminate.
Qed.

(* ---- unique logins ---- *)
Hypothesis lower_idem : forall s, lower (lower s) = lower s.
Definition uidf (p : list N * brec) : N := br_uid (snd p).
Definition binv (s : bstore) : Prop :=
  NoDup (map fst s) /\ NoDup (map uidf s) /\ Forall (fun p => lower (fst p) = fst p) s.

Lemma bfind_uid_in uid st k r : bfind_uid uid st = Some (k, r) -> In (k, r) st /\ br_uid r = uid.
Proof.
  induction st as [|[k' r'] t IH]; cbn [bfind_uid]; [discriminate|].
  destruct (br_uid r' =? uid) eqn:E.
  - intros [= -> ->]. apply N.eqb_eq in E. split; [now left|exact E].
  - intros H. destruct (IH H). split; [now right|assumption].
Qed.

Lemma bfind_uid_none uid st : bfind_uid uid st = None -> ~ In uid (map uidf st).
Proof.
  induction st as [|[k' r'] t IH]; cbn [bfind_uid map]; [tauto|].
  destruct (br_uid r' =? uid) eqn:E; [discriminate|]. apply N.eqb_neq in E.
  intros H [Hk|Hin]; [unfold uidf in Hk; cbn in Hk; congruence|]. now apply IH.
Qed.

Lemma bdel_uid_in uid st p : In p (bdel_uid uid st) -> In p st /\ uidf p <> uid.
Proof.
  induction st as [|[k' r'] t IH]; cbn [bdel_uid]; [tauto|].
  destruct (br_uid r' =? uid) eqn:E.
  - intros H. destruct (IH H). split; [now right|assumption].
  - apply N.eqb_neq in E. intros [<-|H]; [split; [now left|exact E]|].
    destruct (IH H). split; [now right|assumption].
Qed.

Lemma bdel_uid_nodup {B} (f : list N * brec -> B) uid st :
  NoDup (map f st) -> NoDup (map f (bdel_uid uid st)).
Proof.
  induction st as [|[k' r'] t IH]; cbn [bdel_uid map]; [auto|].
  intros H. inversion H as [|? ? Hn Hr]; subst.
  destruct (br_uid r' =? uid); [auto|]. cbn [map]. constructor; [|auto].
  intros Hin. apply Hn. apply in_map_iff in Hin. destruct Hin as (p & <- & Hp).
  apply bdel_uid_in in Hp. apply in_map. tauto.
Qed.

Lemma nodup_fst_inj {B} (l : list (list N * B)) k a b :
  NoDup (map fst l) -> In (k, a) l -> In (k, b) l -> a = b.
Proof.
  induction l as [|[k' c] t IH]; cbn [map fst]; [intros _ []|].
  intros H. inversion H as [|? ? Hn Hr]; subst. intros [E1|H1] [E2|H2].
  - congruence.
  - injection E1 as -> ->. exfalso. apply Hn. change k with (fst (k, b)). now apply in_map.
  - injection E2 as -> ->. exfalso. apply Hn. change k with (fst (k, a)). now apply in_map.
  - now apply IH.
Qed.

Lemma parse_lower s u p : parse_secret s = Some (u, p) -> lower u = u.
Proof.
  unfold Basic.parse_secret. destruct (split_colon s) as [[u' p']|]; [|discriminate].
  intros [= <- <-]. apply lower_idem.
Qed.

Ltac same := cbn [fst]; unfold binv; tauto.

Lemma bset_hash_keys uid hash st : map fst (bset_hash uid hash st) = map fst st.
Proof. induction st as [|[k r] t IH]; cbn [bset_hash map fst]; [reflexivity|]. now rewrite IH. Qed.
Lemma bset_hash_uids uid hash st : map uidf (bset_hash uid hash st) = map uidf st.
Proof.
  induction st as [|[k r] t IH]; cbn [bset_hash map]; [reflexivity|]. rewrite IH. f_equal.
  unfold uidf. cbn [snd]. now destruct (br_uid r =? uid).
Qed.

Lemma bstep_inv st op : binv (bs_store st) -> binv (bs_store (fst (bstep st op))).
Proof.
  intros (K & U & F). destruct op as [uid level secret hash lt|secret|uid secret hash lt|d|uid hash]; cbn [bstep].
  - destruct (parse_secret secret) as [[uname pw]|] eqn:P; [|same].
    destruct (negb (login_ok uname)); [same|]. destruct (negb (pw_ok pw)); [same|].
    destruct (bget uname (bs_store st)) eqn:G; [same|].
    destruct (bfind_uid uid (bs_store st)) eqn:B; [same|].
    cbn [fst bs_store]. repeat split.
    + cbn [map fst]. constructor; [now apply bget_none|exact K].
    + cbn [map]. constructor; [|exact U]. unfold uidf at 1. cbn [snd br_uid]. now apply bfind_uid_none.
    + constructor; [cbn [fst]; eapply parse_lower; exact P|exact F].
  - destruct (parse_secret secret) as [[uname pw]|]; [|same].
    destruct (bget uname (bs_store st)) as [r|]; [|same].
    destruct (br_uid r =? 0); [same|]. destruct (match br_expires r with Some _ => _ | None => _ end); [same|].
    cbv zeta. destruct (negb _); same.
  - destruct (parse_secret secret) as [[uname pw]|] eqn:P; [|same].
    destruct (bfind_uid uid (bs_store st)) as [[login r]|] eqn:B; [|same].
    apply bfind_uid_in in B. destruct B as [Bin Buid].
    set (keep := match uname with [] => true | _ => bytes_eqb uname login end).
    destruct (negb keep && negb (login_ok uname)); [same|].
    destruct (negb keep && _); [same|].
    destruct (negb (pw_ok pw)); [same|].
    destruct keep eqn:EK.
    + cbn [fst bs_store]. repeat split.
      * cbn [map fst]. constructor; [|now apply bdel_uid_nodup].
        intros Hin. apply in_map_iff in Hin. destruct Hin as ([k2 r2] & Hk & Hp). cbn [fst] in Hk. subst k2.
        apply bdel_uid_in in Hp. destruct Hp as [Hp Hne].
        pose proof (nodup_fst_inj _ _ _ _ K Bin Hp) as ->. unfold uidf in Hne. cbn in Hne. congruence.
      * cbn [map]. constructor; [|now apply bdel_uid_nodup]. unfold uidf at 1. cbn [snd br_uid].
        intros Hin. apply in_map_iff in Hin. destruct Hin as (p & Hk & Hp).
        apply bdel_uid_in in Hp. tauto.
      * constructor.
        -- cbn [fst]. rewrite Forall_forall in F. exact (F _ Bin).
        -- rewrite Forall_forall in *. intros p Hp. apply bdel_uid_in in Hp. apply F. tauto.
    + destruct (bget uname (bs_store st)) eqn:G; [same|].
      cbn [fst bs_store]. repeat split.
      * cbn [map fst]. constructor; [|now apply bdel_uid_nodup].
        intros Hin. apply in_map_iff in Hin. destruct Hin as (p & Hk & Hp).
        apply bdel_uid_in in Hp. apply (bget_none _ _ G). rewrite <- Hk. apply in_map. tauto.
      * cbn [map]. constructor; [|now apply bdel_uid_nodup]. unfold uidf at 1. cbn [snd br_uid].
        intros Hin. apply in_map_iff in Hin. destruct Hin as (p & Hk & Hp).
        apply bdel_uid_in in Hp. tauto.
      * constructor.
        -- cbn [fst]. eapply parse_lower; exact P.
        -- rewrite Forall_forall in *. intros p Hp. apply bdel_uid_in in Hp. apply F. tauto.
  - cbn [fst bs_store]. unfold binv. tauto.
  - destruct (bfind_uid uid (bs_store st)); [|same].
    cbn [fst bs_store]. unfold binv. rewrite bset_hash_keys, bset_hash_uids. repeat split; [exact K|exact U|].
    rewrite Forall_forall in *. intros q Hq. apply (in_map fst) in Hq. rewrite bset_hash_keys in Hq.
    apply in_map_iff in Hq. destruct Hq as (q' & E & Hq'). rewrite <- E. exact (F _ Hq').
Qed.

Lemma brun_inv ops : forall st, binv (bs_store st) -> binv (bs_store (fst (brun st ops))).
Proof.
  induction ops as [|op r IH]; intros st H; cbn [Basic.brun]; [exact H|].
  pose proof (bstep_inv st op H) as H1. destruct (bstep st op) as [st1 res]. cbn [fst] in H1.
  specialize (IH st1 H1). destruct (brun st1 r) as [st2 rs]. exact IH.
Qed.

Lemma binv_init : binv (bs_store binit).
Proof. repeat split; constructor. Qed.

(* in every reachable store two records never carry logins that are equal up to letter case *)
Lemma logins_unique ops k1 r1 k2 r2 :
  let s := bs_store (fst (brun binit ops)) in
  In (k1, r1) s -> In (k2, r2) s -> lower k1 = lower k2 -> k1 = k2 /\ r1 = r2.
Proof.
  intros s H1 H2 E. destruct (brun_inv ops binit binv_init) as (K & _ & F). fold s in K, F.
  rewrite Forall_forall in F. pose proof (F _ H1) as F1. pose proof (F _ H2) as F2. cbn [fst] in F1, F2.
  assert (k1 = k2) by congruence. subst k2. split; [reflexivity|].
  exact (nodup_fst_inj _ _ _ _ K H1 H2).
Qed.

(* a login that exists in any spelling cannot be registered again in another spelling *)
Lemma add_other_case_refused st uid lvl secret hash lt u p r :
  split_colon secret = Some (u, p) -> bget (lower u) (bs_store st) = Some r ->
  exists e, bstep st (BAdd uid lvl secret hash lt) = (st, BErr e).
Proof.
  intros S G. cbn [bstep]. unfold Basic.parse_secret. rewrite S.
  destruct (negb (login_ok (lower u))); [eexists; reflexivity|].
  destruct (negb (pw_ok p)); [eexists; reflexivity|].
  rewrite G. eexists; reflexivity.
Qed.

End BasicThms.

Lemma apikey_no_panic_refuted :
  ~ (forall (mac : list N -> list N -> list N) salt key, check_api_key mac salt key <> AKPanic).
Proof.
  intros H. apply (H (fun _ _ => []) [] (repeat 10 32)). reflexivity.
Qed.
