(* C05  Access modes obey one consistent algebra in every representation.
   Theorems only; each is closed by [exact] of a lemma of Pure/AcsProofs.v. *)
From Coq Require Import NArith List Bool.
From Tinode Require Import Base.Util Pure.Acs Pure.AcsProofs.
Import ListNotations.
Open Scope N_scope.

(* every permission set has one canonical text that parses back to the set *)
Theorem c05_parse_marshal : forall m cur, m < 256 ->
  unmarshal_text cur (mode_string m) = (m, true).
Proof. exact parse_marshal. Qed.
Print Assumptions c05_parse_marshal.

Theorem c05_text_canonical : forall m1 m2, m1 < 256 -> m2 < 256 ->
  mode_string m1 = mode_string m2 -> m1 = m2.
Proof. exact marshal_injective. Qed.
Print Assumptions c05_text_canonical.

(* letters in any case *)
Theorem c05_case_insensitive : forall s, parse_acs (map upper s) = parse_acs s.
Proof. exact parse_case_insensitive. Qed.
Print Assumptions c05_case_insensitive.

(* text with unknown letters is rejected and leaves the target unchanged
   (all strings; the target is any N) *)
Theorem c05_unknown_rejected : forall cur s,
  forallb known_letter s = false -> unmarshal_text cur s = (cur, false).
Proof. exact unmarshal_unknown_keeps. Qed.
Print Assumptions c05_unknown_rejected.

Theorem c05_reject_keeps_target : forall cur s,
  snd (apply_mutation cur s) = false -> fst (apply_mutation cur s) = cur.
Proof. exact apply_mutation_reject_keeps. Qed.
Print Assumptions c05_reject_keeps_target.

Theorem c05_mutation_unknown_rejected : forall cur s,
  snd (apply_mutation cur s) = true -> forallb known_char s = true.
Proof. exact apply_mutation_rejects_unknown. Qed.
Print Assumptions c05_mutation_unknown_rejected.

(* 'N' means none and stands alone *)
Theorem c05_N_alone : forall s m, parse_acs s = Some m -> existsb is_N s = true ->
  exists c, s = [c] /\ m = ModeNone.
Proof. intros s m. exact (parse_loop_N_alone s ModeUnset m). Qed.
Print Assumptions c05_N_alone.

(* an empty string means no change *)
Theorem c05_empty_no_change : forall cur,
  unmarshal_text cur [] = (cur, true) /\ apply_mutation cur [] = (cur, true).
Proof. intros cur. split; [exact (unmarshal_empty cur)|exact (apply_mutation_empty cur)]. Qed.
Print Assumptions c05_empty_no_change.

(* effective permission = intersection *)
Theorem c05_effective_intersection : forall w g i,
  N.testbit (effective w g) i = N.testbit w i && N.testbit g i.
Proof. exact effective_spec. Qed.
Print Assumptions c05_effective_intersection.

(* the textual difference applied to the first yields the second: all 256x256 *)
Theorem c05_delta_apply : forall o n, o < 256 -> n < 256 ->
  apply_delta o (delta o n) = (n, true) /\ apply_mutation o (delta o n) = (n, true).
Proof. intros o n Ho Hn. split; [exact (delta_apply o n Ho Hn)|exact (delta_mutation o n Ho Hn)]. Qed.
Print Assumptions c05_delta_apply.

(* every party tracking permissions from change notifications ends up with the
   authoritative value: every sequence of changes, incl. Unset (removed) and
   Invalid *)
Theorem c05_tracking : forall cur changes,
  In cur mode_domain -> Forall (fun n => In n mode_domain) changes ->
  replay (norm cur) cur changes = norm (last changes cur).
Proof. exact tracking. Qed.
Print Assumptions c05_tracking.

(* non-vacuity: concrete instances *)
Example c05_ex_roundtrip : unmarshal_text 0 (mode_string 47) = (47, true).
Proof. reflexivity. Qed.
Example c05_ex_tracking : replay (norm 47) 47 [0; 256; 255; 3] = 3.
Proof. reflexivity. Qed.
Example c05_ex_reject : apply_mutation 47 [cPlus; cJ; 63] = (47, false).
Proof. reflexivity. Qed.

(* finding, repaired by a fix: commit: before the repair junk after 'N' was accepted *)
Theorem c05_unrepaired_refuted :
  exists s m, parse_acs_unrepaired s = Some m /\ forallb known_letter s = false.
Proof. exact parse_unrepaired_refuted. Qed.
Print Assumptions c05_unrepaired_refuted.
