(* C05  Access modes obey one consistent algebra in every representation.
   Theorems only; each is closed by [exact] of a lemma of Pure/AcsProofs.v. *)
From Coq Require Import NArith List Bool.
From Tinode Require Import Base.Util Pure.Acs Pure.AcsProofs Sys.AcsNotify Sys.AcsNotifyProofs.
From Tinode Require Import Sys.AcsSitesC05 Sys.AcsSitesC05Proofs.
Import ListNotations.
Open Scope N_scope.

(* every permission set has one canonical text that parses back to the set *)
Theorem c05_parse_marshal : forall m cur, m < 256 ->
  unmarshal_text cur (mode_string m) = (m, true).
Proof. exact parse_marshal. Qed.
Print Assumptions c05_parse_marshal.

Theorem c05_text_canonical : forall m1 m2, m1 < 256 -> m2 < 256 ->
  mode_string m1 = mode_string m2 -> m1 = m2.
Proof. exact marshal_injective. Qed.
Print Assumptions c05_text_canonical.

(* letters in any case *)
Theorem c05_case_insensitive : forall s, parse_acs (map upper s) = parse_acs s.
Proof. exact parse_case_insensitive. Qed.
Print Assumptions c05_case_insensitive.

(* text with unknown letters is rejected and leaves the target unchanged
   (all strings; the target is any N) *)
Theorem c05_unknown_rejected : forall cur s,
  forallb known_letter s = false -> unmarshal_text cur s = (cur, false).
Proof. exact unmarshal_unknown_keeps. Qed.
Print Assumptions c05_unknown_rejected.

Theorem c05_reject_keeps_target : forall cur s,
  snd (apply_mutation cur s) = false -> fst (apply_mutation cur s) = cur.
Proof. exact apply_mutation_reject_keeps. Qed.
Print Assumptions c05_reject_keeps_target.

Theorem c05_mutation_unknown_rejected : forall cur s,
  snd (apply_mutation cur s) = true -> forallb known_char s = true.
Proof. exact apply_mutation_rejects_unknown. Qed.
Print Assumptions c05_mutation_unknown_rejected.

(* 'N' means none and stands alone *)
Theorem c05_N_alone : forall s m, parse_acs s = Some m -> existsb is_N s = true ->
  exists c, s = [c] /\ m = ModeNone.
Proof. intros s m. exact (parse_loop_N_alone s ModeUnset m). Qed.
Print Assumptions c05_N_alone.

(* an empty string means no change *)
Theorem c05_empty_no_change : forall cur,
  unmarshal_text cur [] = (cur, true) /\ apply_mutation cur [] = (cur, true).
Proof. intros cur. split; [exact (unmarshal_empty cur)|exact (apply_mutation_empty cur)]. Qed.
Print Assumptions c05_empty_no_change.

(* effective permission = intersection *)
Theorem c05_effective_intersection : forall w g i,
  N.testbit (effective w g) i = N.testbit w i && N.testbit g i.
Proof. exact effective_spec. Qed.
Print Assumptions c05_effective_intersection.

(* the textual difference applied to the first yields the second: all 256x256 *)
Theorem c05_delta_apply : forall o n, o < 256 -> n < 256 ->
  apply_delta o (delta o n) = (n, true) /\ apply_mutation o (delta o n) = (n, true).
Proof. intros o n Ho Hn. split; [exact (delta_apply o n Ho Hn)|exact (delta_mutation o n Ho Hn)]. Qed.
Print Assumptions c05_delta_apply.

(* every party tracking permissions from change notifications ends up with the
   authoritative value: every sequence of changes, incl. Unset (removed) and
   Invalid *)
Theorem c05_tracking : forall cur changes,
  In cur mode_domain -> Forall (fun n => In n mode_domain) changes ->
  replay (norm cur) cur changes = norm (last changes cur).
Proof. exact tracking. Qed.
Print Assumptions c05_tracking.

(* non-vacuity: concrete instances *)
Example c05_ex_roundtrip : unmarshal_text 0 (mode_string 47) = (47, true).
Proof. reflexivity. Qed.
Example c05_ex_tracking : replay (norm 47) 47 [0; 256; 255; 3] = 3.
Proof. reflexivity. Qed.
Example c05_ex_reject : apply_mutation 47 [cPlus; cJ; 63] = (47, false).
Proof. reflexivity. Qed.

(* finding, repaired by a fix: commit: before the repair junk after 'N' was accepted *)
Theorem c05_unrepaired_refuted :
  exists s m, parse_acs_unrepaired s = Some m /\ forallb known_letter s = false.
Proof. exact parse_unrepaired_refuted. Qed.
Print Assumptions c05_unrepaired_refuted.

(* ------------------------------------------------------------------ *)
(* LAYER 2: the change notifications of a topic (Sys/AcsNotify.v: notifySubChange's
   acs parameters and recipients, updateAcsFromPresMsg, client sessions) *)

(* the difference put into a notification, applied to the old modes, yields the new modes and
   is never rejected: every (want, given) pair a topic can hold before and after, i.e. all
   sets, Unset (no subscription) and Invalid; [nmodes] reads Unset/Invalid as no permission *)
Theorem c05_notification_yields_new : forall ow og nw ng,
  In ow mode_domain -> In og mode_domain -> In nw mode_domain -> In ng mode_domain ->
  follow_opt (nmodes (ow, og)) (notify_params ow og nw ng) = Some (nmodes (nw, ng)).
Proof. exact follow_opt_notify. Qed.
Print Assumptions c05_notification_yields_new.

(* ... also when presParams.packAcs drops an all-empty payload *)
Theorem c05_client_follows_notification : forall ow og nw ng,
  In ow mode_domain -> In og mode_domain -> In nw mode_domain -> In ng mode_domain ->
  follow (nmodes (ow, og)) (pack_acs (notify_params ow og nw ng)) = nmodes (nw, ng).
Proof. exact follow_notify. Qed.
Print Assumptions c05_client_follows_notification.

(* proxyMasterResponse/updateAcsFromPresMsg: the entry of the notified user becomes the new
   modes, every other entry is untouched *)
Theorem c05_proxy_applies_notification : forall t target ow og nw ng,
  target <> 0 ->
  In ow mode_domain -> In og mode_domain -> In nw mode_domain -> In ng mode_domain ->
  tget t target = nmodes (ow, og) ->
  forall u, tget (proxy_pres t target (pack_acs (notify_params ow og nw ng))) u =
            if u =? target then nmodes (nw, ng) else tget t u.
Proof. exact proxy_pres_notify. Qed.
Print Assumptions c05_proxy_applies_notification.

(* who is told of a change that is not an unsubscribe: exactly the target's sessions attached
   to the topic / to 'me' only, except the requesting one *)
Theorem c05_target_sessions_told : forall ss target skip sid, NoDup (map fst ss) ->
  mem sid (direct_rcpt ss target skip false) =
    match lk sid ss with Some (u, it) => it && (u =? target) && negb (sid =? skip) | None => false end /\
  mem sid (me_rcpt ss target skip false) =
    match lk sid ss with Some (u, it) => negb it && (u =? target) && negb (sid =? skip) | None => false end.
Proof. intros ss target skip sid H. split; [exact (direct_rcpt_spec ss target skip sid H)|exact (me_rcpt_spec ss target skip sid H)]. Qed.
Print Assumptions c05_target_sessions_told.

(* every party that tracks permissions from change notifications holds exactly what the
   authoritative topic holds: for EVERY history of attach / detach / permission change
   (any users, any sessions, any sequence of (want, given) pairs, unsubscribes included)
   from any initial table, and after EVERY step k of it:
   - each tracking session (attached to the topic, or to the user's 'me' only; the requester
     of a change reads the full modes from its {ctrl}) holds the modes of its user,
   - the proxy's table holds the modes of every user. *)
Theorem c05_trackers_hold_authoritative : forall a h k,
  tbl_ok a -> wf_run (ninit a) h ->
  let s := nrun (ninit a) (firstn k h) in
  (forall sid u it, lk sid (sess s) = Some (u, it) -> lk sid (fol s) = Some (nmodes (aget (auth s) u))) /\
  (forall u, tget (prox s) u = nmodes (aget (auth s) u)).
Proof. exact trackers_hold_authoritative. Qed.
Print Assumptions c05_trackers_hold_authoritative.

(* non-vacuity: the member mutes the topic (want JRWPS -> JRWS) from session 10, then the owner
   (session 20) takes P from the member's given; sessions 11 (in the topic) and 12 (on 'me') of the
   member and the proxy all end with JRWS/JRWS *)
Definition c05_ex_hist : list nop :=
  [NAttach 10 2 true; NAttach 11 2 true; NAttach 12 2 false; NAttach 20 1 true;
   NChange 10 2 39 47; NChange 20 2 39 39].
Example c05_ex_hist_wf : tbl_ok [(1, (255, 255)); (2, (47, 47))] /\ wf_run (ninit [(1, (255, 255)); (2, (47, 47))]) c05_ex_hist.
Proof.
  split.
  - intros u m. cbn [lk]. destruct (u =? 1); [intros X; inversion X; subst; split; apply small_in_domain; reflexivity|].
    destruct (u =? 2); [intros X; inversion X; subst; split; apply small_in_domain; reflexivity|discriminate].
  - cbn. repeat split; try discriminate; left; split; reflexivity.
Qed.
Example c05_ex_hist_result :
  let s := nrun (ninit [(1, (255, 255)); (2, (47, 47))]) c05_ex_hist in
  (lk 10 (fol s), lk 11 (fol s), lk 12 (fol s), tget (prox s) 2) = (Some (39, 39), Some (39, 39), Some (39, 39), (39, 39)).
Proof. vm_compute. reflexivity. Qed.
(* the notification of the second change carries no want part and "-P" for given *)
Example c05_ex_params : notify_params 39 47 39 39 = ([], [cMinus; cP]).
Proof. reflexivity. Qed.

(* ------------------------------------------------------------------ *)
(* LAYER 3: the handlers that INTERPRET a client-supplied default-access mode text
   (Sys/AcsSitesC05.v: replySetDesc/assignAccess on 'me' and group topics, replyOfflineTopicSetSub,
   initTopicNewGrp, replyCreateUser, initTopicP2P; all on top of parseTopicAccess/UnmarshalText).
   A text is a [list N]; [] is both "" and an absent JSON key; [None] is an absent defacs object.
   "not a mode text" = ParseAcs rejects it, which by [c05_site_unknown_letters_not_parsed] covers
   every text with an unknown letter.  All statements are for ALL texts and ALL current modes. *)

Theorem c05_site_unknown_letters_not_parsed : forall s,
  forallb known_letter s = false -> parse_acs s = None.
Proof. exact unknown_not_parsed. Qed.
Print Assumptions c05_site_unknown_letters_not_parsed.

(* --- {set desc.defacs} on 'me' / a group topic (attached session of the user / the owner) --- *)

(* complete description: the request is answered 400 and nothing moves, or EVERY field holds exactly
   what its own text says - untouched when the text is empty, absent or not a mode text; the parsed
   set, sanitised (& ModeCAuth / & ModeCP2P, +A unless N) on 'me' ONLY, when one is supplied -
   answered 200, or 304 when nothing moved *)
Theorem c05_setdesc_result : forall cat a n acs,
  set_desc_defacs cat a n (Some acs) = (400, (a, n)) \/
  (snd (set_desc_defacs cat a n (Some acs)) =
     (field_spec (cat_sanitize cat ModeCAuth) a (da_auth acs),
      field_spec (cat_sanitize cat ModeCP2P) n (da_anon acs)) /\
   (fst (set_desc_defacs cat a n (Some acs)) = 200 \/
    fst (set_desc_defacs cat a n (Some acs)) = 304 /\
    (field_spec (cat_sanitize cat ModeCAuth) a (da_auth acs),
     field_spec (cat_sanitize cat ModeCP2P) n (da_anon acs)) = (a, n))).
Proof. exact set_desc_result. Qed.
Print Assumptions c05_setdesc_result.

(* an empty string means no change: per field, whatever the other field carries, whatever the
   category, whatever the field holds (sanitised or not) *)
Theorem c05_setdesc_empty_no_change : forall cat a n acs,
  (da_auth acs = [] -> fst (snd (set_desc_defacs cat a n (Some acs))) = a) /\
  (da_anon acs = [] -> snd (snd (set_desc_defacs cat a n (Some acs))) = n) /\
  (da_auth acs = [] -> da_anon acs = [] -> set_desc_defacs cat a n (Some acs) = (304, (a, n))) /\
  set_desc_defacs cat a n None = (304, (a, n)).
Proof.
  intros cat a n acs. split; [exact (set_desc_empty_auth cat a n acs)|].
  split; [exact (set_desc_empty_anon cat a n acs)|].
  split; [exact (set_desc_empty_both cat a n acs)|exact (set_desc_absent cat a n)].
Qed.
Print Assumptions c05_setdesc_empty_no_change.

(* text that is not a mode text leaves its target unchanged (always), and is rejected with
   everything unchanged when it is the anon text or when no anon text comes with it *)
Theorem c05_setdesc_rejected_keeps_target : forall cat a n acs,
  (parse_acs (da_auth acs) = None -> fst (snd (set_desc_defacs cat a n (Some acs))) = a) /\
  (parse_acs (da_anon acs) = None -> set_desc_defacs cat a n (Some acs) = (400, (a, n))).
Proof.
  intros cat a n acs. split; [exact (set_desc_rejected_auth_keeps cat a n acs)|exact (set_desc_rejected_anon cat a n acs)].
Qed.
Print Assumptions c05_setdesc_rejected_keeps_target.

(* FINDING (findings/C05.md #3): the full statement "rejected, everything unchanged" is REFUTED by
   the faithful model: parseTopicAccess overwrites the error of auth by the result for anon *)
Definition c05_setdesc_junk_rejected_statement : Prop := set_desc_junk_rejected_statement.
Theorem c05_setdesc_junk_rejected_refuted : ~ c05_setdesc_junk_rejected_statement.
Proof. exact set_desc_junk_rejected_refuted. Qed.
Print Assumptions c05_setdesc_junk_rejected_refuted.
(* ... and holds whenever the trigger (a bad auth text hidden by an accepted non-empty anon text) is excluded *)
Theorem c05_setdesc_junk_rejected_partial : forall cat a n acs,
  parse_acs (da_auth acs) = None \/ parse_acs (da_anon acs) = None ->
  (da_anon acs = [] \/ parse_acs (da_anon acs) = None) ->
  set_desc_defacs cat a n (Some acs) = (400, (a, n)).
Proof. exact set_desc_junk_rejected_partial. Qed.
Print Assumptions c05_setdesc_junk_rejected_partial.

(* the category-specific sanitising applies to supplied values (and, by c05_setdesc_empty_no_change,
   to nothing else) *)
Theorem c05_setdesc_supplied_sanitised : forall cat a n acs ma mn,
  da_auth acs <> [] -> da_anon acs <> [] ->
  parse_acs (da_auth acs) = Some ma -> parse_acs (da_anon acs) = Some mn ->
  is_owner (N.land ma ModeBitmask) || is_owner (N.land mn ModeBitmask) = false ->
  snd (set_desc_defacs cat a n (Some acs)) =
    (cat_sanitize cat ModeCAuth (N.land ma ModeBitmask), cat_sanitize cat ModeCP2P (N.land mn ModeBitmask)).
Proof. exact set_desc_supplied. Qed.
Print Assumptions c05_setdesc_supplied_sanitised.

(* the same request from a session that is not attached changes nothing *)
Theorem c05_offline_setdesc_unchanged : forall a n mode, offline_set_desc_defacs a n mode = (304, (a, n)).
Proof. exact offline_set_desc_unchanged. Qed.
Print Assumptions c05_offline_setdesc_unchanged.

(* --- {sub topic=new|nch set.desc.defacs}: the default of the category plays the current value --- *)
Theorem c05_newgrp_not_supplied_keeps_default : forall ch acs,
  new_grp_defacs ch None = (default_access_grp true ch, default_access_grp false ch) /\
  (da_auth acs = [] \/ parse_acs (da_auth acs) = None ->
     fst (new_grp_defacs ch (Some acs)) = default_access_grp true ch) /\
  (da_anon acs = [] \/ parse_acs (da_anon acs) = None ->
     snd (new_grp_defacs ch (Some acs)) = default_access_grp false ch).
Proof. intros ch acs. split; [exact (new_grp_absent ch)|exact (new_grp_field_keeps ch acs)]. Qed.
Print Assumptions c05_newgrp_not_supplied_keeps_default.

Theorem c05_newgrp_supplied_taken : forall ch acs ma mn,
  da_auth acs <> [] -> da_anon acs <> [] ->
  parse_acs (da_auth acs) = Some ma -> parse_acs (da_anon acs) = Some mn ->
  is_owner (N.land ma ModeBitmask) || is_owner (N.land mn ModeBitmask) = false ->
  new_grp_defacs ch (Some acs) = (N.land ma ModeBitmask, N.land mn ModeBitmask).
Proof. exact new_grp_supplied. Qed.
Print Assumptions c05_newgrp_supplied_taken.

(* --- {acc user=new desc.defacs} --- *)
Theorem c05_acc_empty_keeps_default : forall acs,
  acc_defacs None = (acc_default_auth, acc_default_anon) /\
  (da_auth acs = [] -> fst (acc_defacs (Some acs)) = acc_default_auth) /\
  (da_anon acs = [] -> snd (acc_defacs (Some acs)) = acc_default_anon).
Proof. intros acs. split; [exact acc_absent|exact (acc_empty_keeps acs)]. Qed.
Print Assumptions c05_acc_empty_keeps_default.

Theorem c05_acc_rejected_anon_keeps_default : forall acs,
  parse_acs (da_anon acs) = None -> snd (acc_defacs (Some acs)) = acc_default_anon.
Proof. exact acc_rejected_anon_keeps. Qed.
Print Assumptions c05_acc_rejected_anon_keeps_default.

(* FINDING (findings/C05.md #4): replyCreateUser ignores the error of UnmarshalText and sanitises the
   untouched default: a text that is not a mode text turns the default JRWPAS into JRWPA *)
Definition c05_acc_rejected_auth_keeps_statement : Prop := acc_rejected_auth_keeps_statement.
Theorem c05_acc_rejected_auth_keeps_refuted : ~ c05_acc_rejected_auth_keeps_statement.
Proof. exact acc_rejected_auth_keeps_refuted. Qed.
Print Assumptions c05_acc_rejected_auth_keeps_refuted.
Theorem c05_acc_rejected_auth_keeps_partial : forall acs,
  parse_acs (da_auth acs) = None ->
  fst (acc_defacs (Some acs)) = sanitize_p2p ModeCP2P acc_default_auth.
Proof. exact acc_rejected_auth_partial. Qed.
Print Assumptions c05_acc_rejected_auth_keeps_partial.

Theorem c05_acc_supplied_sanitised : forall acs ma mn,
  da_auth acs <> [] -> da_anon acs <> [] ->
  parse_acs (da_auth acs) = Some ma -> parse_acs (da_anon acs) = Some mn ->
  acc_defacs (Some acs) =
    (sanitize_p2p ModeCP2P (N.land ma ModeBitmask), sanitize_p2p ModeCP2P (N.land mn ModeBitmask)).
Proof. exact acc_supplied. Qed.
Print Assumptions c05_acc_supplied_sanitised.

(* --- {sub topic=usrX set.desc.defacs.auth} creating a p2p topic: the permissions given to the peer --- *)
Theorem c05_p2p_not_supplied_same_as_absent : forall u acs,
  da_auth acs = [] \/ parse_acs (da_auth acs) = None ->
  p2p_new_given u (Some acs) = p2p_new_given u None.
Proof. exact p2p_not_supplied_same. Qed.
Print Assumptions c05_p2p_not_supplied_same_as_absent.

Theorem c05_p2p_supplied_sanitised : forall u acs m,
  da_auth acs <> [] -> parse_acs (da_auth acs) = Some m ->
  p2p_new_given u (Some acs) = N.lor (N.land (N.land m ModeBitmask) ModeCP2P) ModeApprove.
Proof. exact p2p_supplied. Qed.
Print Assumptions c05_p2p_supplied_sanitised.

(* non-vacuity / the seeded shape: on 'me' holding JRWPAS/N, {defacs:{anon:"JRW"}} leaves auth alone
   and stores JRWA for anon; on a group topic the same text is stored as it is; "J!"+"JR" is the
   refutation witness; the account default after a bad auth text *)
Example c05_ex_me_anon_only :
  set_desc_defacs CatMe 63 0 (Some (mkDefacs [] [cJ; cR; cW])) = (200, (63, 23)).
Proof. reflexivity. Qed.
Example c05_ex_grp_anon_only :
  set_desc_defacs CatGrp 47 0 (Some (mkDefacs [] [cJ; cR; cW])) = (200, (47, 7)).
Proof. reflexivity. Qed.
Example c05_ex_me_unsanitised_kept :
  set_desc_defacs CatMe 111 0 (Some (mkDefacs [] [cN])) = (304, (111, 0)).
Proof. reflexivity. Qed.
Example c05_ex_junk_auth_hidden :
  set_desc_defacs CatGrp 47 0 (Some (mkDefacs [cJ; 33] [cJ; cR])) = (200, (47, 3)).
Proof. reflexivity. Qed.
Example c05_ex_acc_junk_auth : acc_defacs (Some (mkDefacs [cJ; 33] [])) = (31, 0) /\ acc_defacs None = (63, 0).
Proof. split; reflexivity. Qed.

(* --- the mode text of an EXISTING subscription: {set sub.mode} / {sub set.sub.mode} on a group or
   p2p topic (thisUserSub: the user's own want; anotherUserSub: the given set by an administrator /
   the p2p peer; replyOfflineTopicSetSub: own want from a session that is not attached).
   [ss_modes w g r] = the (want, given) the subscription holds after outcome r --- *)

(* an empty text changes neither want nor given (own want: for a subscription that has not banned
   itself; there the empty text means "default" by design, see c05_ex_unselfban) *)
Theorem c05_subtext_empty_no_change : forall cat af w g,
  (forall owner, is_joiner w = true ->
     ss_modes w g (this_user_sub_existing cat owner af w g []) = Some (w, g)) /\
  (forall hm ho to, ss_modes w g (another_user_sub_existing cat hm ho to w g []) = Some (w, g)) /\
  offline_set_sub cat w g [] = SsDone 304 w g.
Proof.
  intros cat af w g. split; [|split].
  - intros owner Hj. rewrite (this_empty_no_change cat owner af w g Hj). reflexivity.
  - intros hm ho to. rewrite (another_empty_no_change cat hm ho to w g). destruct (is_sharer hm); reflexivity.
  - exact (offline_sub_empty cat w g).
Qed.
Print Assumptions c05_subtext_empty_no_change.

(* text that is not a mode text is rejected with an error reply and nothing is written *)
Theorem c05_subtext_rejected_unchanged : forall cat af w g s, parse_acs s = None ->
  (forall owner, this_user_sub_existing cat owner af w g s = SsErr 400) /\
  (forall hm ho to, another_user_sub_existing cat hm ho to w g s = SsErr 400 \/
                    another_user_sub_existing cat hm ho to w g s = SsErr 403) /\
  offline_set_sub cat w g s = SsErr 500.
Proof.
  intros cat af w g s H. split; [|split].
  - intros owner. exact (this_rejected cat owner af w g s H).
  - intros hm ho to. rewrite (another_rejected cat hm ho to w g s H). destruct (is_sharer hm); [left|right]; reflexivity.
  - exact (offline_sub_rejected cat w g s H).
Qed.
Print Assumptions c05_subtext_rejected_unchanged.

(* the p2p sanitising (& ModeCP2P, +A) of the given applies to a supplied set (and by
   c05_subtext_empty_no_change to nothing else) *)
Theorem c05_subtext_p2p_supplied_sanitised : forall hm ho w g s m,
  s <> [] -> parse_acs s = Some m -> is_admin hm = true ->
  another_user_sub_existing SP2P hm ho false w g s =
    (let g' := N.lor (N.land (N.land m ModeBitmask) ModeCP2P) ModeApprove in
     if g' =? g then SsDone 304 w g else SsDone 200 w g').
Proof. exact another_p2p_supplied. Qed.
Print Assumptions c05_subtext_p2p_supplied_sanitised.

Example c05_ex_sub_empty : this_user_sub_existing SP2P false 0 23 95 [] = SsDone 304 23 95.
Proof. reflexivity. Qed.
Example c05_ex_unselfban : this_user_sub_existing SGrp false 47 46 47 [] = SsDone 200 47 47.
Proof. reflexivity. Qed.
Example c05_ex_peer_given : another_user_sub_existing SP2P 31 false false 31 31 [cJ; cR; cW; cD] = SsDone 200 31 23.
Proof. reflexivity. Qed.
