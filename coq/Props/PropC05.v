(* C05  Access modes obey one consistent algebra in every representation.
   Theorems only; each is closed by [exact] of a lemma of Pure/AcsProofs.v. *)
From Coq Require Import NArith List Bool.
From Tinode Require Import Base.Util Pure.Acs Pure.AcsProofs Sys.AcsNotify Sys.AcsNotifyProofs.
Import ListNotations.
Open Scope N_scope.

(* every permission set has one canonical text that parses back to the set *)
Theorem c05_parse_marshal : forall m cur, m < 256 ->
  unmarshal_text cur (mode_string m) = (m, true).
Proof. exact parse_marshal. Qed.
Print Assumptions c05_parse_marshal.

Theorem c05_text_canonical : forall m1 m2, m1 < 256 -> m2 < 256 ->
  mode_string m1 = mode_string m2 -> m1 = m2.
Proof. exact marshal_injective. Qed.
Print Assumptions c05_text_canonical.

(* letters in any case *)
Theorem c05_case_insensitive : forall s, parse_acs (map upper s) = parse_acs s.
Proof. exact parse_case_insensitive. Qed.
Print Assumptions c05_case_insensitive.

(* text with unknown letters is rejected and leaves the target unchanged
   (all strings; the target is any N) *)
Theorem c05_unknown_rejected : forall cur s,
  forallb known_letter s = false -> unmarshal_text cur s = (cur, false).
Proof. exact unmarshal_unknown_keeps. Qed.
Print Assumptions c05_unknown_rejected.

Theorem c05_reject_keeps_target : forall cur s,
  snd (apply_mutation cur s) = false -> fst (apply_mutation cur s) = cur.
Proof. exact apply_mutation_reject_keeps. Qed.
Print Assumptions c05_reject_keeps_target.

Theorem c05_mutation_unknown_rejected : forall cur s,
  snd (apply_mutation cur s) = true -> forallb known_char s = true.
Proof. exact apply_mutation_rejects_unknown. Qed.
Print Assumptions c05_mutation_unknown_rejected.

(* 'N' means none and stands alone *)
Theorem c05_N_alone : forall s m, parse_acs s = Some m -> existsb is_N s = true ->
  exists c, s = [c] /\ m = ModeNone.
Proof. intros s m. exact (parse_loop_N_alone s ModeUnset m). Qed.
Print Assumptions c05_N_alone.

(* an empty string means no change *)
Theorem c05_empty_no_change : forall cur,
  unmarshal_text cur [] = (cur, true) /\ apply_mutation cur [] = (cur, true).
Proof. intros cur. split; [exact (unmarshal_empty cur)|exact (apply_mutation_empty cur)]. Qed.
Print Assumptions c05_empty_no_change.

(* effective permission = intersection *)
Theorem c05_effective_intersection : forall w g i,
  N.testbit (effective w g) i = N.testbit w i && N.testbit g i.
Proof. exact effective_spec. Qed.
Print Assumptions c05_effective_intersection.

(* the textual difference applied to the first yields the second: all 256x256 *)
Theorem c05_delta_apply : forall o n, o < 256 -> n < 256 ->
  apply_delta o (delta o n) = (n, true) /\ apply_mutation o (delta o n) = (n, true).
Proof. intros o n Ho Hn. split; [exact (delta_apply o n Ho Hn)|exact (delta_mutation o n Ho Hn)]. Qed.
Print Assumptions c05_delta_apply.

(* every party tracking permissions from change notifications ends up with the
   authoritative value: every sequence of changes, incl. Unset (removed) and
   Invalid *)
Theorem c05_tracking : forall cur changes,
  In cur mode_domain -> Forall (fun n => In n mode_domain) changes ->
  replay (norm cur) cur changes = norm (last changes cur).
Proof. exact tracking. Qed.
Print Assumptions c05_tracking.

(* non-vacuity: concrete instances *)
Example c05_ex_roundtrip : unmarshal_text 0 (mode_string 47) = (47, true).
Proof. reflexivity. Qed.
Example c05_ex_tracking : replay (norm 47) 47 [0; 256; 255; 3] = 3.
Proof. reflexivity. Qed.
Example c05_ex_reject : apply_mutation 47 [cPlus; cJ; 63] = (47, false).
Proof. reflexivity. Qed.

(* finding, repaired by a fix: commit: before the repair junk after 'N' was accepted *)
Theorem c05_unrepaired_refuted :
  exists s m, parse_acs_unrepaired s = Some m /\ forallb known_letter s = false.
Proof. exact parse_unrepaired_refuted. Qed.
Print Assumptions c05_unrepaired_refuted.

(* ------------------------------------------------------------------ *)
(* LAYER 2: the change notifications of a topic (Sys/AcsNotify.v: notifySubChange's
   acs parameters and recipients, updateAcsFromPresMsg, client sessions) *)

(* the difference put into a notification, applied to the old modes, yields the new modes and
   is never rejected: every (want, given) pair a topic can hold before and after, i.e. all
   sets, Unset (no subscription) and Invalid; [nmodes] reads Unset/Invalid as no permission *)
Theorem c05_notification_yields_new : forall ow og nw ng,
  In ow mode_domain -> In og mode_domain -> In nw mode_domain -> In ng mode_domain ->
  follow_opt (nmodes (ow, og)) (notify_params ow og nw ng) = Some (nmodes (nw, ng)).
Proof. exact follow_opt_notify. Qed.
Print Assumptions c05_notification_yields_new.

(* ... also when presParams.packAcs drops an all-empty payload *)
Theorem c05_client_follows_notification : forall ow og nw ng,
  In ow mode_domain -> In og mode_domain -> In nw mode_domain -> In ng mode_domain ->
  follow (nmodes (ow, og)) (pack_acs (notify_params ow og nw ng)) = nmodes (nw, ng).
Proof. exact follow_notify. Qed.
Print Assumptions c05_client_follows_notification.

(* proxyMasterResponse/updateAcsFromPresMsg: the entry of the notified user becomes the new
   modes, every other entry is untouched *)
Theorem c05_proxy_applies_notification : forall t target ow og nw ng,
  target <> 0 ->
  In ow mode_domain -> In og mode_domain -> In nw mode_domain -> In ng mode_domain ->
  tget t target = nmodes (ow, og) ->
  forall u, tget (proxy_pres t target (pack_acs (notify_params ow og nw ng))) u =
            if u =? target then nmodes (nw, ng) else tget t u.
Proof. exact proxy_pres_notify. Qed.
Print Assumptions c05_proxy_applies_notification.

(* who is told of a change that is not an unsubscribe: exactly the target's sessions attached
   to the topic / to 'me' only, except the requesting one *)
Theorem c05_target_sessions_told : forall ss target skip sid, NoDup (map fst ss) ->
  mem sid (direct_rcpt ss target skip false) =
    match lk sid ss with Some (u, it) => it && (u =? target) && negb (sid =? skip) | None => false end /\
  mem sid (me_rcpt ss target skip false) =
    match lk sid ss with Some (u, it) => negb it && (u =? target) && negb (sid =? skip) | None => false end.
Proof. intros ss target skip sid H. split; [exact (direct_rcpt_spec ss target skip sid H)|exact (me_rcpt_spec ss target skip sid H)]. Qed.
Print Assumptions c05_target_sessions_told.

(* every party that tracks permissions from change notifications holds exactly what the
   authoritative topic holds: for EVERY history of attach / detach / permission change
   (any users, any sessions, any sequence of (want, given) pairs, unsubscribes included)
   from any initial table, and after EVERY step k of it:
   - each tracking session (attached to the topic, or to the user's 'me' only; the requester
     of a change reads the full modes from its {ctrl}) holds the modes of its user,
   - the proxy's table holds the modes of every user. *)
Theorem c05_trackers_hold_authoritative : forall a h k,
  tbl_ok a -> wf_run (ninit a) h ->
  let s := nrun (ninit a) (firstn k h) in
  (forall sid u it, lk sid (sess s) = Some (u, it) -> lk sid (fol s) = Some (nmodes (aget (auth s) u))) /\
  (forall u, tget (prox s) u = nmodes (aget (auth s) u)).
Proof. exact trackers_hold_authoritative. Qed.
Print Assumptions c05_trackers_hold_authoritative.

(* non-vacuity: the member mutes the topic (want JRWPS -> JRWS) from session 10, then the owner
   (session 20) takes P from the member's given; sessions 11 (in the topic) and 12 (on 'me') of the
   member and the proxy all end with JRWS/JRWS *)
Definition c05_ex_hist : list nop :=
  [NAttach 10 2 true; NAttach 11 2 true; NAttach 12 2 false; NAttach 20 1 true;
   NChange 10 2 39 47; NChange 20 2 39 39].
Example c05_ex_hist_wf : tbl_ok [(1, (255, 255)); (2, (47, 47))] /\ wf_run (ninit [(1, (255, 255)); (2, (47, 47))]) c05_ex_hist.
Proof.
  split.
  - intros u m. cbn [lk]. destruct (u =? 1); [intros X; inversion X; subst; split; apply small_in_domain; reflexivity|].
    destruct (u =? 2); [intros X; inversion X; subst; split; apply small_in_domain; reflexivity|discriminate].
  - cbn. repeat split; try discriminate; left; split; reflexivity.
Qed.
Example c05_ex_hist_result :
  let s := nrun (ninit [(1, (255, 255)); (2, (47, 47))]) c05_ex_hist in
  (lk 10 (fol s), lk 11 (fol s), lk 12 (fol s), tget (prox s) 2) = (Some (39, 39), Some (39, 39), Some (39, 39), (39, 39)).
Proof. vm_compute. reflexivity. Qed.
(* the notification of the second change carries no want part and "-P" for given *)
Example c05_ex_params : notify_params 39 47 39 39 = ([], [cMinus; cP]).
Proof. reflexivity. Qed.
