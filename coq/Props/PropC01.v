(* C01  Per-topic message IDs are unique, gapless and follow acceptance order.
   Theorems only, about the topic model Sys/Topic.v, for EVERY history
   (list of (fault, request) of any length: any number of publishers and
   sessions, any interleaving with unload/restart, a failing or crashing
   adapter call at any position of any request). *)
From Coq Require Import ZArith NArith List Bool.
From Tinode Require Import Base.Util Pure.Acs Sys.Topic Sys.TopicTac Sys.TopicFrame Sys.TopicNum Sys.TopicOut Sys.TopicNumThm.
Import ListNotations.
Open Scope Z_scope.

Section C01.
Variable dr : Z -> list (Z * Z) -> option (list (Z * Z)).   (* any range validator *)
Variable nr : list (Z * Z) -> list (Z * Z).                 (* any range normaliser *)
Variable sm : sessmap.                                      (* any assignment of sessions to users *)

(* In every reachable state no number is stored twice, every stored number lies in
   1..seqid, and while the topic is loaded lastID <= seqid <= lastID+1 with every
   stored number <= lastID. *)
Theorem c01_invariant : forall s h, fresh s -> inv_num (fst (run dr nr sm (mkState s None 0) h)).
Proof. intros s h F. apply run_inv_num. apply fresh_inv. exact F. Qed.

(* An accepted publish is numbered lastID+1; that number is acknowledged, stored with
   the published content and author, becomes lastID, was never stored before, and
   every copy broadcast carries it.  Otherwise nothing is numbered: one error reply to
   the sender, lastID and the stored messages unchanged ("a publish whose save failed
   consumes no number"), for every failing adapter call. *)
Theorem c01_publish : forall f s c n sid u content noecho,
  let h := publish f s c n sid u content noecho in
  (h_ca h = c /\ seqs (h_st h) = seqs s /\ msgs (h_st h) = msgs s /\
   (t_seqid (h_st h) = t_seqid s \/ t_seqid (h_st h) = c_lastid c + 1) /\ no_ack (h_out h) /\
   exists code, h_out h = [(sid, Ctrl code [])] /\ 400 <= code)
  \/
  (c_lastid (h_ca h) = c_lastid c + 1 /\ t_seqid (h_st h) = c_lastid c + 1 /\
   msgs (h_st h) = msgs s ++ [mkMsg (c_lastid c + 1) u content 0] /\
   ~ In (c_lastid c + 1) (seqs s) /\
   h_out h = (sid, Ctrl 202 [(P_seq, c_lastid c + 1)]) ::
             fanout_data (h_ca h) (if noecho then sid else 0%N) (Data (c_lastid c + 1) u content)
             ++ push_out (h_ca h) (c_lastid c + 1) u).
Proof. exact publish_cases. Qed.

(* every copy of a broadcast is the same frame: same number, author, content *)
Theorem c01_copies_agree : forall c skip fr x, In x (fanout_data c skip fr) -> snd x = fr.
Proof. exact fanout_data_frames. Qed.

(* No other request acknowledges a number or moves lastID (gapless between loads):
   together with c01_publish, between two loads the acknowledged numbers are
   consecutive in acceptance order. *)
Theorem c01_only_publish_numbers : forall f x o c,
  ca x = Some c ->
  (forall sid content noecho, o = OPub sid content noecho -> attached c sid = false) ->
  all_out nonack (snd (step dr nr sm f x o)) /\
  (forall c', ca (fst (step dr nr sm f x o)) = Some c' -> c_lastid c' = c_lastid c).
Proof. exact (step_nonpub dr nr sm). Qed.

(* Restart / reload / crash: every number shown to any client anywhere in the history
   (acknowledgements, broadcast and history copies, description, receipts) is at most
   the persisted high-water mark at the end of the history, and a (re)load restores
   lastID from that mark: numbering continues strictly above everything ever shown. *)
Theorem c01_restart_above_shown : forall s h, fresh s ->
  let r := run dr nr sm (mkState s None 0) h in
  Forall (shown_le (c_lastid (load (st (fst r))))) (snd r).
Proof.
  intros s h F r. destruct (run_shown dr nr sm h (mkState s None 0) (fresh_inv s 0 F)) as [R _]. exact R.
Qed.

(* the persisted mark never decreases along any history *)
Theorem c01_mark_monotone : forall h x, inv_num x ->
  t_seqid (st x) <= t_seqid (st (fst (run dr nr sm x h))).
Proof. intros h x I. destruct (run_shown dr nr sm h x I) as [_ R]. exact R. Qed.
End C01.

Print Assumptions c01_invariant.
Print Assumptions c01_publish.
Print Assumptions c01_copies_agree.
Print Assumptions c01_only_publish_numbers.
Print Assumptions c01_restart_above_shown.
Print Assumptions c01_mark_monotone.

(* non-vacuity: a concrete history reaches acknowledged numbers 1 and 2 *)
Example c01_ex :
  let s0 := ad_sub_create (mkStore true 0 0 0 47 0 [] [] [] [(1%N, 47%N)]) 1%N 255%N 255%N in
  let r := run (fun _ _ => None) (fun x => x) [(1%N, 1%N)] (mkState s0 None 0)
               [(NoFault, OSub 1 [] false); (NoFault, OPub 1 7 false); (FailAt 2, OPub 1 8 false); (NoFault, OPub 1 9 false)] in
  map (fun o => out_seqs o) (snd r) = [[]; [1; 1; 1]; []; [2; 2; 2]] /\ t_seqid (st (fst r)) = 2.
Proof. vm_compute. split; reflexivity. Qed.
