(* C01  Per-topic message IDs are unique, gapless and follow acceptance order.
   Theorems only, about the topic model Sys/Topic.v, for EVERY history
   (list of (fault, request) of any length: any number of publishers and
   sessions, any interleaving with unload/restart, a failing or crashing
   adapter call at any position of any request). *)
From Coq Require Import ZArith NArith List Bool.
From Tinode Require Import Base.Util Pure.Acs Sys.Topic Sys.TopicTac Sys.TopicFrame Sys.TopicNum Sys.TopicOut Sys.TopicNumThm.
Import ListNotations.
Open Scope Z_scope.

Section C01.
Variable dr : Z -> list (Z * Z) -> option (list (Z * Z)).   (* any range validator *)
Variable nr : list (Z * Z) -> list (Z * Z).                 (* any range normaliser *)
Variable sm : sessmap.                                      (* any assignment of sessions to users *)

(* In every reachable state no number is stored twice, every stored number lies in
   1..seqid, and while the topic is loaded lastID <= seqid <= lastID+1 with every
   stored number <= lastID. *)
Theorem c01_invariant : forall s h, fresh s -> inv_num (fst (run dr nr sm (mkState s None 0) h)).
Proof. intros s h F. apply run_inv_num. apply fresh_inv. exact F. Qed.

(* An accepted publish is numbered lastID+1; that number is acknowledged, stored with
   the published content and author, becomes lastID, was never stored before, and
   every copy broadcast carries it.  Otherwise nothing is numbered: one error reply to
   the sender, lastID and the stored messages unchanged ("a publish whose save failed
   consumes no number"), for every failing adapter call. *)
Theorem c01_publish : forall f s c n sid u content noecho,
  let h := publish f s c n sid u content noecho in
  (h_ca h = c /\ seqs (h_st h) = seqs s /\ msgs (h_st h) = msgs s /\
   (t_seqid (h_st h) = t_seqid s \/ t_seqid (h_st h) = c_lastid c + 1) /\ no_ack (h_out h) /\
   exists code, h_out h = [(sid, Ctrl code [])] /\ 400 <= code)
  \/
  (c_lastid (h_ca h) = c_lastid c + 1 /\ t_seqid (h_st h) = c_lastid c + 1 /\
   msgs (h_st h) = msgs s ++ [mkMsg (c_lastid c + 1) u content 0] /\
   ~ In (c_lastid c + 1) (seqs s) /\
   h_out h = (sid, Ctrl 202 [(P_seq, c_lastid c + 1)]) ::
             fanout_data (h_ca h) (if noecho then sid else 0%N) (Data (c_lastid c + 1) u content)
             ++ push_out (h_ca h) (c_lastid c + 1) u).
Proof. exact publish_cases. Qed.

(* every copy of a broadcast is the same frame: same number, author, content *)
Theorem c01_copies_agree : forall c skip fr x, In x (fanout_data c skip fr) -> snd x = fr.
Proof. exact fanout_data_frames. Qed.

(* No other request acknowledges a number or moves lastID (gapless between loads):
   together with c01_publish, between two loads the acknowledged numbers are
   consecutive in acceptance order. *)
Theorem c01_only_publish_numbers : forall f x o c,
  ca x = Some c ->
  (forall sid content noecho, o = OPub sid content noecho -> attached c sid = false) ->
  all_out nonack (snd (step dr nr sm f x o)) /\
  (forall c', ca (fst (step dr nr sm f x o)) = Some c' -> c_lastid c' = c_lastid c).
Proof. exact (step_nonpub dr nr sm). Qed.

(* Restart / reload / crash: every number shown to any client anywhere in the history
   (acknowledgements, broadcast and history copies, description, receipts) is at most
   the persisted high-water mark at the end of the history, and a (re)load restores
   lastID from that mark: numbering continues strictly above everything ever shown. *)
Theorem c01_restart_above_shown : forall s h, fresh s ->
  let r := run dr nr sm (mkState s None 0) h in
  Forall (shown_le (c_lastid (load (st (fst r))))) (snd r).
Proof.
  intros s h F r. destruct (run_shown dr nr sm h (mkState s None 0) (fresh_inv s 0 F)) as [R _]. exact R.
Qed.

(* the persisted mark never decreases along any history *)
Theorem c01_mark_monotone : forall h x, inv_num x ->
  t_seqid (st x) <= t_seqid (st (fst (run dr nr sm x h))).
Proof. intros h x I. destruct (run_shown dr nr sm h x I) as [_ R]. exact R. Qed.
End C01.

Print Assumptions c01_invariant.
Print Assumptions c01_publish.
Print Assumptions c01_copies_agree.
Print Assumptions c01_only_publish_numbers.
Print Assumptions c01_restart_above_shown.
Print Assumptions c01_mark_monotone.

(* non-vacuity: a concrete history reaches acknowledged numbers 1 and 2 *)
Example c01_ex :
  let s0 := ad_sub_create (mkStore true 0 0 0 47 0 [] [] [] [(1%N, 47%N)]) 1%N 255%N 255%N in
  let r := run (fun _ _ => None) (fun x => x) [(1%N, 1%N)] (mkState s0 None 0)
               [(NoFault, OSub 1 [] false); (NoFault, OPub 1 7 false); (FailAt 2, OPub 1 8 false); (NoFault, OPub 1 9 false)] in
  map (fun o => out_seqs o) (snd r) = [[]; [1; 1; 1]; []; [2; 2; 2]] /\ t_seqid (st (fst r)) = 2.
Proof. vm_compute. split; reflexivity. Qed.

(* ================================================================== *)
(* Load paths of ALL topic kinds (server/init_topic.go) and the numbering of
   peer-to-peer and 'sys' topics: model Sys/TopicLoad.v.  Same quantifier: every
   history of requests (sub / leave / leave+unsub / pub / get data / get desc /
   idle unload / restart) with a failing or crashing adapter call at any position. *)
From Coq Require Import Lia.
From Tinode Require Import Sys.TopicLoad Sys.TopicLoadProofs.

Section C01Load.
Variable k : lkind.                    (* peer-to-peer or 'sys' *)
Variable sm : sessmap.                 (* any assignment of sessions to users *)
Variable roots : list N.               (* any set of root users *)
Variable ua ub : N.                    (* the two parties of the p2p topic *)

(* After ANY successful load - initTopicP2P with both subscriptions / with one subscription
   missing or soft-deleted (recreated) / of a brand-new topic, initTopicGrp, initTopicSys -
   lastID is the seqid of the stored topic row, which the load does not change.  ('me' and
   'fnd' carry no messages: their lastID and delID stay 0, init_me_fnd_ok.) *)
Theorem c01_load_restores_lastid : forall kd f s n u1 u2 s' c n' ns,
  init_topic kd f s n u1 u2 = LOk s' c n' ns -> carries_messages kd = true ->
  l_lastid c = t_seqid s' /\ (t_exists s = true -> t_seqid s' = t_seqid s).
Proof. exact load_restores_lastid. Qed.

(* the same on the group model's own load function *)
Theorem c01_load_grp : forall f s n n1 c,
  try_load f s n = (n1, inl c) -> c_lastid c = t_seqid s /\ c_delid c = t_delid s.
Proof. intros f s n n1 c H. apply try_load_cases in H. subst c. split; reflexivity. Qed.

(* ... and delID is the delid of the stored topic row, which the load does not change: every
   kind that carries messages, every branch (initTopicSys since /repo 91f0ab5). *)
Theorem c01_load_restores_delid : forall kd f s n u1 u2 s' c n' ns,
  init_topic kd f s n u1 u2 = LOk s' c n' ns -> carries_messages kd = true ->
  l_delid c = t_delid s' /\ (t_exists s = true -> t_delid s' = t_delid s).
Proof. exact load_restores_delid. Qed.

(* The loader as it was before /repo 91f0ab5 (initTopicSys did not assign t.delID,
   [init_sys_unrepaired]) refutes the statement: a 'sys' row with seqid 5, delid 3 loads delID 0. *)
Definition c01_load_restores_delid_unrepaired_statement : Prop := forall kd f s n u1 u2 s' c n' ns,
  init_topic_unrepaired kd f s n u1 u2 = LOk s' c n' ns -> carries_messages kd = true -> l_delid c = t_delid s'.
Theorem c01_load_restores_delid_unrepaired_refuted : ~ c01_load_restores_delid_unrepaired_statement.
Proof. exact load_restores_delid_unrepaired_refuted. Qed.

(* In every reachable state of a p2p / sys history: stored numbers are unique and lie in
   1..seqid, a topic row that does not exist (p2p topic deleted by its last unsubscribe) has
   no messages and mark 0, and while loaded lastID <= seqid <= lastID+1 with every stored
   number <= lastID.  [boot] = what a fresh process holds (nothing; 'sys' loaded by the hub). *)
Theorem c01_kinds_invariant : forall s h, sinv s ->
  linv (fst (lrun k sm roots ua ub (mkLS s (boot k s) 0) h)).
Proof. intros s h S. apply lrun_inv. split; [exact S|apply boot_inv; exact S]. Qed.

(* publish on a p2p / sys topic: numbered lastID+1, acknowledged, stored, broadcast with that
   number - or nothing is numbered and one error is returned (a failed save consumes nothing) *)
Theorem c01_kinds_publish : forall f s c n sid u content noecho,
  let h := lpublish k f s c n sid u content noecho in
  (lh_ca h = c /\ msgs (lh_st h) = msgs s /\ t_exists (lh_st h) = t_exists s /\
   (t_seqid (lh_st h) = t_seqid s \/ (t_exists s = true /\ t_seqid (lh_st h) = l_lastid c + 1)) /\ lno_ack (lh_out h) /\
   exists code, lh_out h = [(sid, LCtrl code None)] /\ 400 <= code)
  \/
  (l_lastid (lh_ca h) = l_lastid c + 1 /\ t_seqid (lh_st h) = l_lastid c + 1 /\ t_exists (lh_st h) = true /\
   msgs (lh_st h) = msgs s ++ [mkMsg (l_lastid c + 1) u content 0] /\
   ~ In (l_lastid c + 1) (seqs s) /\
   lh_out h = (sid, LCtrl 202 (Some (l_lastid c + 1))) ::
              lfanout (lh_ca h) (if noecho then sid else 0%N) (LData (l_lastid c + 1) u content)).
Proof. exact (lpublish_cases k). Qed.

Theorem c01_kinds_copies_agree : forall c skip fr x, In x (lfanout c skip fr) -> snd x = fr.
Proof. exact lfanout_frames. Qed.

(* no other request acknowledges a number or moves lastID of a loaded topic *)
Theorem c01_kinds_only_publish_numbers : forall f x o c,
  x_ca x = Some c -> o <> LRestart ->
  (forall sid content noecho, o = LPub sid content noecho -> lattached c sid = false /\ k = LP2P) ->
  all_lout lnonack (snd (lstep k sm roots ua ub f x o)) /\
  (forall c', x_ca (fst (lstep k sm roots ua ub f x o)) = Some c' -> l_lastid c' = l_lastid c).
Proof. exact (lstep_nonpub k sm roots ua ub). Qed.

(* every transition from "not loaded" to "loaded" - through whichever branch of the load -
   and every process start set lastID to the stored mark *)
Theorem c01_kinds_reload_continues : forall f x o c',
  x_ca x = None -> x_ca (fst (lstep k sm roots ua ub f x o)) = Some c' ->
  l_lastid c' = t_seqid (x_st (fst (lstep k sm roots ua ub f x o))).
Proof. exact (lstep_load_lastid k sm roots ua ub). Qed.
Theorem c01_kinds_boot_continues : forall s c, boot k s = Some c -> l_lastid c = t_seqid s.
Proof. exact (boot_lastid k). Qed.

(* Restart / reload / crash: along a history that does not delete the topic row, every number
   shown to any client is at most the persisted mark at the end of the history - which the
   next load, by the two theorems above, makes lastID: numbering continues strictly above. *)
Theorem c01_kinds_restart_above_shown : forall s h, sinv s ->
  let x0 := mkLS s (boot k s) 0 in
  keeps_row k sm roots ua ub x0 h ->
  Forall (lshown_le (t_seqid (x_st (fst (lrun k sm roots ua ub x0 h))))) (snd (lrun k sm roots ua ub x0 h)) /\
  t_seqid s <= t_seqid (x_st (fst (lrun k sm roots ua ub x0 h))).
Proof.
  intros s h S x0 K. apply (lrun_shown k sm roots ua ub h x0); [|exact K].
  split; [exact S|apply boot_inv; exact S].
Qed.
End C01Load.

(* the 'sys' row is never deleted: the statement holds for every sys history *)
Theorem c01_sys_restart_above_shown : forall sm roots s h, sinv s ->
  let x0 := mkLS s (boot LSys s) 0 in
  Forall (lshown_le (t_seqid (x_st (fst (lrun LSys sm roots 0%N 0%N x0 h))))) (snd (lrun LSys sm roots 0%N 0%N x0 h)) /\
  t_seqid s <= t_seqid (x_st (fst (lrun LSys sm roots 0%N 0%N x0 h))).
Proof.
  intros sm roots s h S x0. apply c01_kinds_restart_above_shown; [exact S|apply sys_keeps_row].
Qed.

Print Assumptions c01_load_restores_lastid.
Print Assumptions c01_load_grp.
Print Assumptions c01_load_restores_delid.
Print Assumptions c01_load_restores_delid_unrepaired_refuted.
Print Assumptions c01_kinds_invariant.
Print Assumptions c01_kinds_publish.
Print Assumptions c01_kinds_copies_agree.
Print Assumptions c01_kinds_only_publish_numbers.
Print Assumptions c01_kinds_reload_continues.
Print Assumptions c01_kinds_boot_continues.
Print Assumptions c01_kinds_restart_above_shown.
Print Assumptions c01_sys_restart_above_shown.

(* non-vacuity: a p2p topic with 2 stored messages whose second party deleted the
   subscription is re-attached by the first party (initTopicP2P recreates the missing
   subscription), numbering continues at 3; both leave, the topic is unloaded, the second
   party re-attaches, a publish whose MessageSave fails consumes nothing, the next is 4 *)
Example c01_p2p_ex :
  let s0 := mkStore true 2 0 0 0 0 [mkSub 1 31 31 0 0 0 false; mkSub 2 31 31 0 0 0 true]
                    [mkMsg 1 1 11 0; mkMsg 2 2 12 0] [] [(1%N, 47%N); (2%N, 47%N)] in
  let r := lrun LP2P [(1%N, 1%N); (2%N, 2%N)] [] 1%N 2%N (mkLS s0 None 0)
             [(NoFault, LSub 1 false); (NoFault, LPub 1 7 false); (NoFault, LLeave 1 false); (NoFault, LUnload);
              (NoFault, LSub 2 false); (FailAt 2, LPub 2 8 false); (NoFault, LPub 2 9 false)] in
  map lout_seqs (snd r) = [[]; [3; 3]; []; []; []; []; [4; 4]] /\ t_seqid (x_st (fst r)) = 4 /\
  sinv s0 /\ keeps_row LP2P [(1%N, 1%N); (2%N, 2%N)] [] 1%N 2%N (mkLS s0 None 0)
             [(NoFault, LSub 1 false); (NoFault, LPub 1 7 false); (NoFault, LLeave 1 false); (NoFault, LUnload)].
Proof.
  cbv zeta. split; [vm_compute; reflexivity|]. split; [vm_compute; reflexivity|]. split.
  - unfold sinv, seqs. cbn [msgs map m_seq t_seqid t_exists]. split; [|split; [|split]].
    + intros n [<-|[<-|[]]]; lia.
    + repeat constructor; cbn; intuition discriminate.
    + lia.
    + discriminate.
  - vm_compute. auto.
Qed.

(* ================================================================== *)
(* Several requests in flight (model Sys/TopicBurstC01.v).
   (1) UNLOAD RACE, "every interleaving with topic unload/reload": the kill timer of the
   registered instance fires (RTimeout: an unregister request is on its way to the hub), sessions
   may still attach to that instance and publish, the hub handles the request (RHubUnreg:
   topicUnreg marks the instance deleted, removes it from the registry, tells it to exit), a {sub}
   loads a SECOND instance from the store, and the first one, which has not read its exit message
   yet, handles {pub}s queued for it (RZPub) in any interleaving with the requests handled by the
   second one - with failing / crashing adapter calls, restarts and any number of pending
   unregister requests and unregistered instances.
   (2) WRITE LOOPS: a frame is serialised when the session's write loop takes it from the queue,
   any time after the topic goroutine produced it (WDrain). *)
From Tinode Require Import Sys.TopicBurstC01 Sys.TopicBurstC01Proofs.

Section C01Flight.
Variable dr : Z -> list (Z * Z) -> option (list (Z * Z)).
Variable nr : list (Z * Z) -> list (Z * Z).
Variable sm : sessmap.

Definition race_init (s : store) : rstate := mkR (mkState s None 0) 0 [] [].

(* [forallb mid_free h = true]: no unregistration lands INSIDE a publish handler of the instance
   being unregistered (between its isInactive check and its Save).  The handlers of one instance
   are atomic with respect to each other, not with respect to the hub goroutine, which writes the
   status bits; histories with such a step (RHubUnregMid ... RZFinish) refute the statement, see
   c01_race_no_number_issued_twice_refuted below. *)

(* Along every such race history the numbering invariant of c01_invariant holds for the store and
   the registered instance, and every unregistered instance is marked deleted. *)
Theorem c01_race_invariant : forall s h r outs, fresh s -> forallb mid_free h = true ->
  rrun dr nr sm true (race_init s) h = Some (r, outs) ->
  inv_num (r_x r) /\ Forall (fun z => z_deleted z = true /\ z_inflight z = None) (r_zomb r).
Proof.
  intros s h r outs F M R. destruct (rrun_inv dr nr sm h _ _ _ (rinv_init s F) M R) as [A [B _]]. split; assumption.
Qed.

(* No number is issued twice: a number whose store.Messages.Save succeeded is never passed to
   Save again - by either instance (a number whose Save FAILED is passed again by the next
   publish: "a publish whose save failed consumes no number"). *)
Theorem c01_race_no_number_issued_twice_partial : forall s h r outs, fresh s -> forallb mid_free h = true ->
  rrun dr nr sm true (race_init s) h = Some (r, outs) -> issue_ok (r_issued r).
Proof.
  intros s h r outs F M R. destruct (rrun_inv dr nr sm h _ _ _ (rinv_init s F) M R) as [_ [_ [_ K]]]. exact K.
Qed.

(* ... because the unregistered instance refuses: every {pub} it handles is answered with one
   503 to the publisher and changes nothing (store, registered instance, issue log). *)
Theorem c01_race_old_instance_refuses : forall s h r outs i z sid content noecho, fresh s ->
  forallb mid_free h = true ->
  rrun dr nr sm true (race_init s) h = Some (r, outs) ->
  nth_error (r_zomb r) i = Some z -> attached (z_ca z) sid = true ->
  rstep dr nr sm true r (RZPub i sid content noecho) = Some (r, [(sid, Ctrl 503 [])]).
Proof.
  intros s h r outs i z sid content noecho F M R NE AT.
  apply (zombie_refuses dr nr sm r i z); [|exact NE|exact AT].
  exact (rrun_inv dr nr sm h _ _ _ (rinv_init s F) M R).
Qed.

(* Whatever the times at which the write loops run (any schedule of requests and dequeue steps),
   the topic-level run is that of the requests alone and every session reads exactly the frames
   queued for it, in queueing order.  ASSUMPTION made explicit: a frame is a value - the
   implementation shares no mutable state between a queued frame and later work of the topic
   goroutine; the driver checks it by serialising each frame when it is dequeued, with the
   dequeuing of some sessions delayed until the whole burst has been handled. *)
Theorem c01_wire_independent_of_delay : forall mark l w w',
  wrun dr nr sm mark w l = Some w' ->
  exists outs, rrun dr nr sm mark (w_r w) (wdos l) = Some (w_r w', outs) /\
    forall sid, for_sid sid (w_wire w' ++ w_queue w') = for_sid sid (w_wire w ++ w_queue w ++ concat outs).
Proof. exact (wrun_wire dr nr sm). Qed.

(* In every burst of k publishes handled back to back by a loaded instance (same or different
   sessions and users, attached or not, writers or not) the i-th ACCEPTED publish is acknowledged
   with lastID+i, every copy broadcast and the push receipt carry that number with its author and
   content, and the row (lastID+i, author, content) is what is stored; a refused publish gets one
   error frame and consumes nothing.  With c01_wire_independent_of_delay: whatever the delay of
   the acknowledgement's serialisation. *)
Theorem c01_burst_numbers : forall ps x c, ca x = Some c -> inv_num x ->
  exists c', ca (fst (run dr nr sm x (burst_ops ps))) = Some c' /\
    burst_spec sm (c_lastid c) (msgs (st x)) ps (snd (run dr nr sm x (burst_ops ps)))
               (c_lastid c') (msgs (st (fst (run dr nr sm x (burst_ops ps))))).
Proof. exact (burst_numbers dr nr sm). Qed.
End C01Flight.

(* The full statement - every race history, including an unregistration that lands inside a
   publish handler - is REFUTED by the faithful model (and by the real code: findings/C01.md,
   KNOWN_FINDINGS key unregistered-mid-publish): the instance that passed its isInactive check
   before the hub marked it saves under lastID+1, the instance loaded meanwhile passes the same
   number to Save, in either order. *)
Definition c01_race_no_number_issued_twice_statement : Prop :=
  forall dr nr sm s h r outs, fresh s ->
  rrun dr nr sm true (race_init s) h = Some (r, outs) -> issue_ok (r_issued r).
Theorem c01_race_no_number_issued_twice_refuted : ~ c01_race_no_number_issued_twice_statement.
Proof.
  intros H.
  pose proof (race_witness_mid_issued true) as W. cbn [option_map] in W.
  destruct (rrun (fun _ _ => None) (fun x => x) [(1%N, 1%N); (2%N, 1%N)] true
                 (mkR (mkState race_witness_store None 0) 0 [] []) (race_witness_mid true)) as [[r outs]|] eqn:R; [|discriminate].
  cbn [option_map fst] in W. inversion W as [W1].
  assert (fresh race_witness_store) as F by (split; reflexivity).
  specialize (H _ _ _ _ _ _ _ F R). rewrite W1 in H.
  apply (H [(1, true)] 1 false [] eq_refl). left. reflexivity.
Qed.

(* The statement for a topicUnreg that does NOT mark the instance before telling it to exit
   ([mark] = false) is refuted even for the histories of the partial theorem: the old instance
   accepts a {pub} queued for it under lastID+1 and the second instance passes the same number to Save. *)
Definition c01_race_unmarked_statement : Prop :=
  forall dr nr sm s h r outs, fresh s -> forallb mid_free h = true ->
  rrun dr nr sm false (race_init s) h = Some (r, outs) -> issue_ok (r_issued r).
Theorem c01_race_unmarked_refuted : ~ c01_race_unmarked_statement.
Proof.
  intros H.
  pose proof (race_witness_issued false) as W. cbn [option_map] in W.
  destruct (rrun (fun _ _ => None) (fun x => x) [(1%N, 1%N); (2%N, 1%N)] false
                 (mkR (mkState race_witness_store None 0) 0 [] []) race_witness) as [[r outs]|] eqn:R; [|discriminate].
  cbn [option_map fst] in W. inversion W as [W1].
  assert (fresh race_witness_store) as F by (split; reflexivity).
  assert (forallb mid_free race_witness = true) as M by reflexivity.
  specialize (H _ _ _ _ _ _ _ F M R). rewrite W1 in H.
  apply (H [(1, true)] 1 false [] eq_refl). left. reflexivity.
Qed.

Print Assumptions c01_race_invariant.
Print Assumptions c01_race_no_number_issued_twice_partial.
Print Assumptions c01_race_no_number_issued_twice_refuted.
Print Assumptions c01_race_old_instance_refuses.
Print Assumptions c01_wire_independent_of_delay.
Print Assumptions c01_burst_numbers.
Print Assumptions c01_race_unmarked_refuted.

(* non-vacuity: the race history of the refutation, with the code as it is: the old instance
   answers 503, the second instance issues number 1 once; and a burst of three publishes by two
   sessions of one user is acknowledged 1, 2, 3 *)
Example c01_race_ex :
  option_map (fun r => (r_issued (fst r), map out_seqs (snd r)))
    (rrun (fun _ _ => None) (fun x => x) [(1%N, 1%N); (2%N, 1%N)] true (race_init race_witness_store) race_witness)
  = Some ([(1, true)], [[]; []; []; []; []; []; []; [1; 1; 1]]).
Proof. vm_compute. reflexivity. Qed.
Example c01_burst_ex :
  let x := fst (run (fun _ _ => None) (fun x => x) [(1%N, 1%N); (2%N, 1%N)] (mkState race_witness_store None 0)
                    [(NoFault, OSub 1 [] false); (NoFault, OSub 2 [] false)]) in
  map out_seqs (snd (run (fun _ _ => None) (fun x => x) [(1%N, 1%N); (2%N, 1%N)] x
                         (burst_ops [(1%N, 7%N, false); (2%N, 8%N, true); (1%N, 9%N, false)])))
  = [[1; 1; 1; 1]; [2; 2; 2]; [3; 3; 3; 3]].
Proof. vm_compute. reflexivity. Qed.

(* ================================================================== *)
(* OPTIONS of a description query (get.desc.ims / sub.get.desc.ims): model Sys/TopicImsC01.v, a
   wrapper over the group-topic model with replyGetDesc's If-Modified-Since option as the
   three-valued [ims] (absent / before the topic's last metadata update / not before it), the
   malformed-options branch, {sub get=desc} and {set desc public} (which moves t.updated).
   "The number acknowledged to the publisher is the number every later description query shows" -
   for EVERY value of the option. *)
From Tinode Require Import Sys.TopicImsC01 Sys.TopicImsC01Proofs.

Section C01Ims.
Variable dr : Z -> list (Z * Z) -> option (list (Z * Z)).
Variable nr : list (Z * Z) -> list (Z * Z).
Variable sm : sessmap.

(* a subscriber with R is shown seq = lastID, his marks and the deletion mark - for every option value *)
Theorem c01_desc_options_show_lastid : forall c cpub sid u i p,
  alookup u (c_users c) = Some p -> is_reader (pud_mode p) = true ->
  get_desc_ims c cpub sid u i false =
  [(sid, FDesc (p_want p) (p_given p) (c_lastid c) (p_read p) (Z.max (p_recv p) (p_read p))
               (Z.max (p_delid p) (c_delid c)) true (ims_absent_c01i i) (if if_updated_c01i i then cpub else 0%N))].
Proof. exact get_desc_ims_reader. Qed.

(* the numbers of the answer (seq, read, recv, del - or none for a non-reader / stranger) are those of
   the option-less answer of the base model, for every option value *)
Theorem c01_desc_numbers_independent_of_options : forall s c n cpub sid u i,
  nums_c01i (get_desc_ims c cpub sid u i false) = nums_c01i (lift_c01i (h_out (get_desc s c n sid u))).
Proof. exact get_desc_ims_nums. Qed.

(* the number acknowledged by an accepted publish is the number a description query with ANY option
   shows to any reader afterwards *)
Theorem c01_desc_options_show_acknowledged : forall f s c n sid u content noecho sid' n',
  acked (h_out (publish f s c n sid u content noecho)) sid' n' ->
  forall cpub sid2 u2 i p,
    alookup u2 (c_users (h_ca (publish f s c n sid u content noecho))) = Some p -> is_reader (pud_mode p) = true ->
    exists w g rd rc dl cr pb,
      get_desc_ims (h_ca (publish f s c n sid u content noecho)) cpub sid2 u2 i false = [(sid2, FDesc w g n' rd rc dl true cr pb)].
Proof. exact publish_then_desc_ims. Qed.

(* one request of the wrapper from ANY state ({get desc} with options, {sub get=desc}, {set desc public},
   any request of the base model; any fault): every description answer that shows numbers shows the
   lastID of the cache the request leaves *)
Theorem c01_desc_options_current : forall f x o sid w g seq rd rc dl cr pb,
  In (sid, FDesc w g seq rd rc dl true cr pb) (snd (istep dr nr sm f x o)) ->
  exists c, ca (ibase (fst (istep dr nr sm f x o))) = Some c /\ seq = c_lastid c.
Proof. exact (istep_fdesc_current dr nr sm). Qed.

(* ... and the wrapper moves the store rows and the cache exactly as the base model moves them on the
   history with the options erased ({set desc public} = a request without effect on them): every theorem
   above about histories of the base model (c01_invariant, c01_only_publish_numbers,
   c01_restart_above_shown, c01_mark_monotone) holds along every history of the wrapper. *)
Theorem c01_desc_options_simulation : forall h x,
  let r := fst (irun dr nr sm x h) in
  let b := fst (run dr nr sm (ibase x) (base_hist_c01i h)) in
  st (ibase r) = st b /\ ca (ibase r) = ca b.
Proof. intros h x. exact (irun_base dr nr sm h x (ibase x) (beq_refl _)). Qed.

Theorem c01_desc_options_invariant : forall s h pub, fresh s ->
  inv_num (ibase (fst (irun dr nr sm (mkIS (mkState s None 0) pub 0 0) h))).
Proof.
  intros s h pub F.
  destruct (irun_base dr nr sm h (mkIS (mkState s None 0) pub 0 0) (mkState s None 0) (beq_refl _)) as [E1 E2].
  pose proof (run_inv_num dr nr sm (base_hist_c01i h) (mkState s None 0) (fresh_inv s 0 F)) as I.
  destruct (fst (irun dr nr sm (mkIS (mkState s None 0) pub 0 0) h)) as [[s1 c1 n1] p1 p2 k].
  destruct (fst (run dr nr sm (mkState s None 0) (base_hist_c01i h))) as [s2 c2 n2].
  cbn [ibase st ca] in *. subst s2 c2. exact (inv_num_ncalls _ _ _ _ I).
Qed.
End C01Ims.

Print Assumptions c01_desc_options_show_lastid.
Print Assumptions c01_desc_numbers_independent_of_options.
Print Assumptions c01_desc_options_show_acknowledged.
Print Assumptions c01_desc_options_current.
Print Assumptions c01_desc_options_simulation.
Print Assumptions c01_desc_options_invariant.

(* non-vacuity: two publishes, {set desc public} in between (t.updated moves); the reader's description
   shows seq = 2 with the option absent, before and not before the last update; malformed options -> no numbers *)
Example c01_desc_options_ex :
  nth 5 w_descs_c01i [] = [(2%N, Some (2, 2, 2, 0))] /\
  nth 6 w_descs_c01i [] = [(2%N, Some (2, 2, 2, 0))] /\
  nth 7 w_descs_c01i [] = [(2%N, Some (2, 2, 2, 0))].
Proof. destruct w_descs_c01i_ok as (_ & A & B & C & _). auto. Qed.

(* ================================================================== *)
(* CHANNEL READERS.  The group-topic model above has no channel subscriptions; the clause "the number
   acknowledged to the publisher is the number EVERY recipient shows" is stated for them on the fan-out
   model Sys/Fanout.v (group / channel-enabled group / p2p; sessions attached under the grpXXX or the
   chnXXX name), the model of the C02 check, from EVERY state. *)
From Tinode Require Sys.Fanout Sys.FanoutProofs.

(* every delivered copy of an accepted publish - to a subscriber's session or to a channel
   subscription - carries the acknowledged number q = lastID + 1, which becomes lastID *)
Theorem c01_every_recipient_shows_acknowledged : forall st px q a c p st',
  Fanout.publish st px = (Fanout.PAccepted q a c p, st') ->
  q = (Fanout.st_lastid st + 1)%Z /\ Fanout.st_lastid st' = q /\
  forall s f, In (s, f) (Fanout.fanout st px) -> Fanout.f_seq f = q.
Proof.
  intros st px q a c p st' H.
  destruct (FanoutProofs.overflow_detached st px q a c p st' H) as (Q & _ & _ & L & _).
  split; [exact Q|]. split; [exact L|].
  intros s f Hin. destruct (FanoutProofs.copy_payload st px s f Hin) as [E _]. rewrite E, Q. reflexivity.
Qed.

(* a copy is made for every attached channel subscription (whatever the permissions of the user it acts
   for), except for the publishing session when no echo was asked *)
Theorem c01_channel_subscriptions_are_recipients : forall st px s d,
  In (s, d) (Fanout.st_sess st) -> Fanout.ss_chan d = true ->
  (Fanout.px_noecho px && (s =? Fanout.px_sid px)%N) = false ->
  In s (map fst (Fanout.fanout_all st px)).
Proof.
  intros st px s d Hin Hc Hn.
  destruct (FanoutProofs.exact_set st px) as (_ & _ & E). apply E. exists d. split; [exact Hin|].
  unfold FanoutProofs.eligible. cbn [fst snd]. rewrite Hc, Hn, orb_true_r. reflexivity.
Qed.

(* over any list of requests: the numbers of the copies one session receives are strictly increasing and
   lie in (starting lastID, final lastID] *)
Theorem c01_recipient_numbers_increasing : forall ops st,
  FanoutProofs.wf_sess st ->
  (forall s f, In (s, f) (snd (Fanout.run st ops)) ->
     (Fanout.st_lastid st < Fanout.f_seq f <= Fanout.st_lastid (fst (Fanout.run st ops)))%Z) /\
  (forall s, Sorted.StronglySorted Z.lt (map Fanout.f_seq (FanoutProofs.frames_to s (snd (Fanout.run st ops))))).
Proof. intros ops st W. destruct (FanoutProofs.run_order ops st W) as (_ & _ & A & B). split; assumption. Qed.

Print Assumptions c01_every_recipient_shows_acknowledged.
Print Assumptions c01_channel_subscriptions_are_recipients.
Print Assumptions c01_recipient_numbers_increasing.

(* ---- later QUERIES of channel subscriptions, p2p participants and sessions acting on behalf of a user:
   model Sys/FanoutQueryC01.v (the fan-out model plus the stored message rows and the {get desc} / {get data}
   of an attached session). *)
From Tinode Require Sys.FanoutQueryC01 Sys.FanoutQueryC01Proofs.

(* an accepted publish stores the row (acknowledged number, author, content); that number becomes lastID *)
Theorem c01_query_publish_stores_acknowledged : forall x px q a c p st',
  Fanout.publish (FanoutQueryC01.q_st x) px = (Fanout.PAccepted q a c p, st') ->
  FanoutQueryC01.qstep x (FanoutQueryC01.QBase (Fanout.OPub px)) =
    (Some (FanoutQueryC01.mkQ st' (FanoutQueryC01.q_msgs x ++ [mkMsg q (Fanout.px_author px) (Fanout.px_content px) 0])),
     Some (Fanout.PAccepted q a c p), []) /\
  q = (Fanout.st_lastid (FanoutQueryC01.q_st x) + 1)%Z /\ Fanout.st_lastid st' = q.
Proof. exact FanoutQueryC01Proofs.qstep_pub_accepted. Qed.

(* no other request stores a row or moves lastID *)
Theorem c01_query_only_publish_stores : forall x o ox res out,
  FanoutQueryC01.qstep x o = (ox, res, out) ->
  (forall px q a c p, o = FanoutQueryC01.QBase (Fanout.OPub px) -> res <> Some (Fanout.PAccepted q a c p)) ->
  FanoutQueryC01.q_msgs (FanoutQueryC01.qnext x ox) = FanoutQueryC01.q_msgs x /\
  Fanout.st_lastid (FanoutQueryC01.q_st (FanoutQueryC01.qnext x ox)) = Fanout.st_lastid (FanoutQueryC01.q_st x).
Proof. exact FanoutQueryC01Proofs.qstep_stores_nothing. Qed.

(* every history from a topic without messages: the stored rows are numbered 1 .. lastID, one row per number,
   and rows once stored are never changed (the log only grows) *)
Theorem c01_query_rows_numbered : forall ops st, Fanout.st_lastid st = 0 ->
  FanoutQueryC01Proofs.qinv (fst (FanoutQueryC01.qrun (FanoutQueryC01.qinit st) ops)).
Proof. intros ops st H. apply FanoutQueryC01Proofs.qrun_inv. apply FanoutQueryC01Proofs.qinv_init. exact H. Qed.
Theorem c01_query_rows_kept : forall ops x, exists tl,
  FanoutQueryC01.q_msgs (fst (FanoutQueryC01.qrun x ops)) = FanoutQueryC01.q_msgs x ++ tl.
Proof. exact FanoutQueryC01Proofs.qrun_prefix. Qed.

(* DESCRIPTION: a subscriber with R - a channel reader included - is shown seq = lastID under every name he may
   use and for every value of the If-Modified-Since option *)
Theorem c01_query_desc_shows_lastid : forall st s u name i p,
  Fanout.chan_ok st (FanoutQueryC01.name_chan_c01q name) = true ->
  Fanout.lookup u (Fanout.st_users st) = Some p -> Fanout.has (Fanout.eff p) Fanout.bR = true ->
  FanoutQueryC01.q_get_desc st s u name i = [(s, FanoutQueryC01.QDesc true true (Fanout.st_lastid st))].
Proof. exact FanoutQueryC01Proofs.q_desc_reader. Qed.

(* HISTORY: every {data} of an answer is a stored row: its number and content are the row's, the author is the
   row's or withheld (channel name) *)
Theorem c01_query_history_shows_stored_rows : forall x s u name a b l s' t f q c,
  In (s', FanoutQueryC01.QData t f q c) (FanoutQueryC01.q_get_data x s u name a b l) ->
  exists m, In m (FanoutQueryC01.q_msgs x) /\ m_seq m = q /\ m_content m = c /\ (f = 0%N \/ f = m_from m).
Proof. exact FanoutQueryC01Proofs.q_data_from_store. Qed.

(* ... and an unbounded query shows every stored row (up to the adapter's page of 100 rows) *)
Theorem c01_query_history_complete : forall ms u,
  FanoutQueryC01Proofs.rows_live ms -> (length ms <= 100)%nat ->
  Permutation.Permutation (ad_msg_get_all (FanoutQueryC01.store_of_c01q ms) u 0 0 0) ms.
Proof. exact FanoutQueryC01Proofs.q_history_complete. Qed.

Print Assumptions c01_query_publish_stores_acknowledged.
Print Assumptions c01_query_only_publish_stores.
Print Assumptions c01_query_rows_numbered.
Print Assumptions c01_query_rows_kept.
Print Assumptions c01_query_desc_shows_lastid.
Print Assumptions c01_query_history_shows_stored_rows.
Print Assumptions c01_query_history_complete.

Example c01_query_ex :
  snd (FanoutQueryC01.qrun (FanoutQueryC01.qinit FanoutQueryC01Proofs.wq_st) FanoutQueryC01Proofs.wq_ops) =
  [[]; []; [(3%N, FanoutQueryC01.QDesc true true 2)];
   [(3%N, FanoutQueryC01.QData Fanout.TChn 0%N 2 102%N); (3%N, FanoutQueryC01.QData Fanout.TChn 0%N 1 101%N); (3%N, FanoutQueryC01.QCtrl 208)]].
Proof. exact FanoutQueryC01Proofs.wq_ok. Qed.

(* ================================================================== *)
(* A {pub} that lists ATTACHMENTS (extra.attachments): model Sys/TopicAttC01.v -
   saveAndBroadcastMessage + messagesMapper.Save with the attachment URLs (none / several; URLs
   without a file id, well-formed ids without an upload record, uploaded files) under every
   fault plan of the save path: TopicUpdateOnMessage, MessageSave, SubsUpdate and
   FileLinkAttachments, the LAST store call of a publish, whose error is the save's error
   although the topic row and the message row are already written. *)
From Tinode Require Import Sys.TopicAttC01 Sys.TopicAttC01Proofs.

(* Every publish, whatever its attachments and the fault plan, ends in one of three ways:
   refused with nothing stored and lastID unchanged; accepted under lastID+1 (acknowledged,
   stored, broadcast with that number, never stored before); or refused at the attachment-link
   call - message lastID+1 is stored, lastID is NOT advanced - which happens only when the link
   can fail (an unknown file id, or the fault plan hits that call). *)
Theorem c01_att_publish : forall f s c n sid u content noecho atts,
  let h := publish_att f s c n sid u content noecho atts in
  att_refused s c sid h \/ att_accepted s c sid u content noecho h \/
  (att_link_failed s c sid u content h /\ link_safe_c01a f c u n atts = false).
Proof. exact publish_att_cases. Qed.

(* "a publish whose save failed consumes no number", on the topic's counter: a publish that
   acknowledges nothing leaves lastID (the whole cache) as it was - for every attachment list and
   every failing or crashing store call, the link call included. *)
Theorem c01_att_failed_publish_keeps_lastid : forall f s c n sid u content noecho atts,
  no_ack (h_out (publish_att f s c n sid u content noecho atts)) ->
  h_ca (publish_att f s c n sid u content noecho atts) = c.
Proof. exact publish_att_failed_keeps_cache. Qed.

(* The full clause - such a publish also leaves no message behind, so that the number stays
   free for the next accepted message - is REFUTED by the faithful model: the owner publishes
   with one well-formed URL of a file that was never uploaded, no store fault at all. *)
Definition c01_att_failed_publish_stores_nothing_statement : Prop :=
  forall f s c n sid u content noecho atts,
    no_ack (h_out (publish_att f s c n sid u content noecho atts)) ->
    msgs (h_st (publish_att f s c n sid u content noecho atts)) = msgs s.
Theorem c01_att_failed_publish_stores_nothing_refuted : ~ c01_att_failed_publish_stores_nothing_statement.
Proof.
  intros H. specialize (H NoFault att_wit_store att_wit_cache 0%nat 1%N 1%N 7%N false [AttUnknown]).
  destruct att_wit_facts as (O & _ & M & S0). fold att_wit in H.
  assert (msgs (h_st att_wit) = msgs att_wit_store) as E.
  { apply H. rewrite O. apply no_ack_single. }
  rewrite E, S0 in M. discriminate.
Qed.
(* ... and holds whenever the attachment link cannot fail: every listed file id is known and the
   fault plan does not hit the link call (any other failing or crashing call is allowed). *)
Theorem c01_att_failed_publish_stores_nothing_partial : forall f s c n sid u content noecho atts,
  link_safe_c01a f c u n atts = true ->
  no_ack (h_out (publish_att f s c n sid u content noecho atts)) ->
  att_refused s c sid (publish_att f s c n sid u content noecho atts).
Proof. exact publish_att_failed_stores_nothing. Qed.

(* No number is issued twice even then: while message lastID+1 is stored every publish is
   refused with lastID unchanged - so after a refusal at the link call the topic accepts no
   publish at all until it is reloaded (the reload restores lastID from the stored mark). *)
Theorem c01_att_taken_number_never_issued : forall f s c n sid u content noecho atts,
  In (c_lastid c + 1) (seqs s) ->
  att_refused s c sid (publish_att f s c n sid u content noecho atts).
Proof. exact publish_att_taken_number_refused. Qed.
Theorem c01_att_link_failure_blocks_topic : forall f s c n sid u content noecho atts,
  att_link_failed s c sid u content (publish_att f s c n sid u content noecho atts) ->
  forall f' n' sid' u' content' noecho' atts',
    let h := publish_att f s c n sid u content noecho atts in
    att_refused (h_st h) c sid' (publish_att f' (h_st h) (h_ca h) n' sid' u' content' noecho' atts').
Proof. exact link_failure_blocks. Qed.

(* Attachments that name no file (URLs of another directory, names without an id) change nothing:
   the history is a history of the base model with the attachments erased, so every theorem of
   the first part (invariant, restart above everything shown, monotone mark) covers it. *)
Theorem c01_att_no_file_ids_simulation : forall dr nr sm h x,
  forallb (fun fo => no_file_ids_c01a (snd fo)) h = true ->
  arun dr nr sm x h = run dr nr sm x (map (fun fo => (fst fo, base_op_c01a (snd fo))) h).
Proof. intros dr nr sm h x. exact (arun_no_ids dr nr sm h x). Qed.
Theorem c01_att_no_file_ids_invariant : forall dr nr sm s h, fresh s ->
  forallb (fun fo => no_file_ids_c01a (snd fo)) h = true ->
  inv_num (fst (arun dr nr sm (mkState s None 0) h)).
Proof. intros dr nr sm s h F E. rewrite (arun_no_ids dr nr sm h _ E). apply run_inv_num. apply fresh_inv. exact F. Qed.

Print Assumptions c01_att_publish.
Print Assumptions c01_att_failed_publish_keeps_lastid.
Print Assumptions c01_att_failed_publish_stores_nothing_refuted.
Print Assumptions c01_att_failed_publish_stores_nothing_partial.
Print Assumptions c01_att_taken_number_never_issued.
Print Assumptions c01_att_link_failure_blocks_topic.
Print Assumptions c01_att_no_file_ids_simulation.
Print Assumptions c01_att_no_file_ids_invariant.

(* non-vacuity: uploaded files are linked and the numbers run on; a failing first or second store
   call of a publish WITH attachments consumes nothing (2 is issued next); the unknown file id
   stores message 3 without advancing lastID and the next publish is refused *)
Example c01_att_ex :
  let s0 := ad_sub_create (mkStore true 0 0 0 47 0 [] [] [] [(1%N, 47%N)]) 1%N 255%N 255%N in
  let r := arun (fun _ _ => None) (fun x => x) [(1%N, 1%N)] (mkState s0 None 0)
               [(NoFault, ABase (OSub 1 [] false)); (NoFault, APubAtt 1 7 false [AttKnown; AttJunk]);
                (FailAt 1, APubAtt 1 8 false [AttKnown]); (FailAt 2, APubAtt 1 8 false [AttKnown; AttKnown]);
                (NoFault, APubAtt 1 9 false [AttKnown]); (NoFault, APubAtt 1 10 false [AttUnknown]);
                (NoFault, APubAtt 1 11 false [])] in
  map (fun o => out_seqs o) (snd r) = [[]; [1; 1; 1]; []; []; [2; 2; 2]; []; []] /\
  map m_seq (msgs (st (fst r))) = [1; 2; 3] /\
  match ca (fst r) with Some c => c_lastid c = 2 | None => False end.
Proof. vm_compute. repeat split; reflexivity. Qed.

(* ================================================================== *)
(* "the number acknowledged is the number EVERY recipient and every later query shows": the
   two wire encodings of a frame (JSON; protobuf for gRPC clients, server/pbconverter.go) -
   model Sys/DescEncC01.v.  The protobuf fields are int32(...) of the Go int. *)
From Tinode Require Import Sys.DescEncC01 Sys.DescEncC01Proofs.

(* full statement: every frame shows the same number in both encodings - refuted by the faithful
   model for a number that does not fit 32 bits (message 2^31 of one topic) ... *)
Definition c01_number_same_in_every_encoding_statement : Prop :=
  forall fr, shown_num_c01e EncPB fr = shown_num_c01e EncJSON fr.
Theorem c01_number_same_in_every_encoding_refuted : ~ c01_number_same_in_every_encoding_statement.
Proof. intros H. exact (shown_wit (H _)). Qed.
(* ... and true for every {data}, {meta desc} and 202 acknowledgement whose number fits *)
Theorem c01_number_same_in_every_encoding_partial : forall fr, fits_int32_c01e fr = true ->
  shown_num_c01e EncPB fr = shown_num_c01e EncJSON fr.
Proof. exact shown_same_when_fits. Qed.
(* with c01_publish / c01_att_publish: the acknowledgement and every broadcast copy of an accepted
   publish show lastID+1 in both encodings *)
Theorem c01_accepted_number_in_every_encoding : forall e c skip seq u content x,
  -2147483648 <= seq < 2147483648 ->
  In x (fanout_data c skip (Data seq u content)) -> shown_num_c01e e (snd x) = Some seq.
Proof.
  intros e c skip seq u content x R H. rewrite (fanout_data_frames _ _ _ _ H).
  destruct e; cbn [shown_num_c01e enc_num_c01e]; [reflexivity|]. rewrite int32_id by lia. reflexivity.
Qed.

Print Assumptions c01_number_same_in_every_encoding_refuted.
Print Assumptions c01_number_same_in_every_encoding_partial.
Print Assumptions c01_accepted_number_in_every_encoding.

(* ================================================================== *)
(* Two near-simultaneous {sub} to a topic that is NOT loaded (Hub.run registers the paused
   instance before `go topicInit`): model Sys/HubJoinC01.v.  Every order of: the hub takes a
   join / a load completes / an attached session's publish is handled. *)
From Tinode Require Import Sys.HubJoinC01 Sys.HubJoinC01Proofs.

(* at most one Topic instance is ever created for the name, whatever the order of events *)
Theorem c01_join_single_instance : forall seqid rows h, (forall n, In n rows -> n <= seqid) ->
  (length (j_insts (fst (jrun true (jinit seqid rows) h))) <= 1)%nat.
Proof. intros seqid rows h H. apply jinv_one_instance. apply jrun_inv. apply jinit_inv. exact H. Qed.

(* hence every number is passed to MessageSave once and no publish of an attached writer is
   refused for a number that is already taken *)
Theorem c01_join_numbers_saved_once : forall seqid rows h, (forall n, In n rows -> n <= seqid) ->
  let x := fst (jrun true (jinit seqid rows) h) in
  NoDup (map fst (j_saves x)) /\ (forall p, In p (j_saves x) -> snd p = true).
Proof.
  intros seqid rows h H x. destruct (jrun_inv h _ (jinit_inv seqid rows H)) as (_ & B & C & _).
  split; [exact C|]. intros p Hp. apply (B p Hp).
Qed.

(* what the early registration is for: with the registration at the end of topicInit the same
   statement is refuted (both joins taken before either load completes: two instances, both number
   from the same stored mark) *)
Definition c01_join_late_registration_statement : Prop :=
  forall seqid rows h, (forall n, In n rows -> n <= seqid) ->
    NoDup (map fst (j_saves (fst (jrun false (jinit seqid rows) h)))).
Theorem c01_join_late_registration_refuted : ~ c01_join_late_registration_statement.
Proof.
  intros H. specialize (H 0 [] join_wit (fun n (F : In n []) => match F with end)).
  destruct join_wit_late as (_ & S & _). cbn zeta in S. rewrite S in H. cbn in H.
  inversion H as [|a l NI _]. apply NI. left. reflexivity.
Qed.

Print Assumptions c01_join_single_instance.
Print Assumptions c01_join_numbers_saved_once.
Print Assumptions c01_join_late_registration_refuted.

Example c01_join_ex :
  let r := jrun true (jinit 0 []) (join_wit ++ [JJoin 2; JPub 2]) in
  j_saves (fst r) = [(1, true); (2, true)] /\
  snd r = [[]; [JCtrl 2 503]; [JCtrl 1 200]; []; [JAck 1 1]; [JCtrl 2 409]; [JCtrl 2 200]; [JAck 2 2]].
Proof. vm_compute. split; reflexivity. Qed.
