(* C01  Per-topic message IDs are unique, gapless and follow acceptance order.
   Theorems only, about the topic model Sys/Topic.v, for EVERY history
   (list of (fault, request) of any length: any number of publishers and
   sessions, any interleaving with unload/restart, a failing or crashing
   adapter call at any position of any request). *)
From Coq Require Import ZArith NArith List Bool.
From Tinode Require Import Base.Util Pure.Acs Sys.Topic Sys.TopicTac Sys.TopicFrame Sys.TopicNum Sys.TopicOut Sys.TopicNumThm.
Import ListNotations.
Open Scope Z_scope.

Section C01.
Variable dr : Z -> list (Z * Z) -> option (list (Z * Z)).   (* any range validator *)
Variable nr : list (Z * Z) -> list (Z * Z).                 (* any range normaliser *)
Variable sm : sessmap.                                      (* any assignment of sessions to users *)

(* In every reachable state no number is stored twice, every stored number lies in
   1..seqid, and while the topic is loaded lastID <= seqid <= lastID+1 with every
   stored number <= lastID. *)
Theorem c01_invariant : forall s h, fresh s -> inv_num (fst (run dr nr sm (mkState s None 0) h)).
Proof. intros s h F. apply run_inv_num. apply fresh_inv. exact F. Qed.

(* An accepted publish is numbered lastID+1; that number is acknowledged, stored with
   the published content and author, becomes lastID, was never stored before, and
   every copy broadcast carries it.  Otherwise nothing is numbered: one error reply to
   the sender, lastID and the stored messages unchanged ("a publish whose save failed
   consumes no number"), for every failing adapter call. *)
Theorem c01_publish : forall f s c n sid u content noecho,
  let h := publish f s c n sid u content noecho in
  (h_ca h = c /\ seqs (h_st h) = seqs s /\ msgs (h_st h) = msgs s /\
   (t_seqid (h_st h) = t_seqid s \/ t_seqid (h_st h) = c_lastid c + 1) /\ no_ack (h_out h) /\
   exists code, h_out h = [(sid, Ctrl code [])] /\ 400 <= code)
  \/
  (c_lastid (h_ca h) = c_lastid c + 1 /\ t_seqid (h_st h) = c_lastid c + 1 /\
   msgs (h_st h) = msgs s ++ [mkMsg (c_lastid c + 1) u content 0] /\
   ~ In (c_lastid c + 1) (seqs s) /\
   h_out h = (sid, Ctrl 202 [(P_seq, c_lastid c + 1)]) ::
             fanout_data (h_ca h) (if noecho then sid else 0%N) (Data (c_lastid c + 1) u content)
             ++ push_out (h_ca h) (c_lastid c + 1) u).
Proof. exact publish_cases. Qed.

(* every copy of a broadcast is the same frame: same number, author, content *)
Theorem c01_copies_agree : forall c skip fr x, In x (fanout_data c skip fr) -> snd x = fr.
Proof. exact fanout_data_frames. Qed.

(* No other request acknowledges a number or moves lastID (gapless between loads):
   together with c01_publish, between two loads the acknowledged numbers are
   consecutive in acceptance order. *)
Theorem c01_only_publish_numbers : forall f x o c,
  ca x = Some c ->
  (forall sid content noecho, o = OPub sid content noecho -> attached c sid = false) ->
  all_out nonack (snd (step dr nr sm f x o)) /\
  (forall c', ca (fst (step dr nr sm f x o)) = Some c' -> c_lastid c' = c_lastid c).
Proof. exact (step_nonpub dr nr sm). Qed.

(* Restart / reload / crash: every number shown to any client anywhere in the history
   (acknowledgements, broadcast and history copies, description, receipts) is at most
   the persisted high-water mark at the end of the history, and a (re)load restores
   lastID from that mark: numbering continues strictly above everything ever shown. *)
Theorem c01_restart_above_shown : forall s h, fresh s ->
  let r := run dr nr sm (mkState s None 0) h in
  Forall (shown_le (c_lastid (load (st (fst r))))) (snd r).
Proof.
  intros s h F r. destruct (run_shown dr nr sm h (mkState s None 0) (fresh_inv s 0 F)) as [R _]. exact R.
Qed.

(* the persisted mark never decreases along any history *)
Theorem c01_mark_monotone : forall h x, inv_num x ->
  t_seqid (st x) <= t_seqid (st (fst (run dr nr sm x h))).
Proof. intros h x I. destruct (run_shown dr nr sm h x I) as [_ R]. exact R. Qed.
End C01.

Print Assumptions c01_invariant.
Print Assumptions c01_publish.
Print Assumptions c01_copies_agree.
Print Assumptions c01_only_publish_numbers.
Print Assumptions c01_restart_above_shown.
Print Assumptions c01_mark_monotone.

(* non-vacuity: a concrete history reaches acknowledged numbers 1 and 2 *)
Example c01_ex :
  let s0 := ad_sub_create (mkStore true 0 0 0 47 0 [] [] [] [(1%N, 47%N)]) 1%N 255%N 255%N in
  let r := run (fun _ _ => None) (fun x => x) [(1%N, 1%N)] (mkState s0 None 0)
               [(NoFault, OSub 1 [] false); (NoFault, OPub 1 7 false); (FailAt 2, OPub 1 8 false); (NoFault, OPub 1 9 false)] in
  map (fun o => out_seqs o) (snd r) = [[]; [1; 1; 1]; []; [2; 2; 2]] /\ t_seqid (st (fst r)) = 2.
Proof. vm_compute. split; reflexivity. Qed.

(* ================================================================== *)
(* Load paths of ALL topic kinds (server/init_topic.go) and the numbering of
   peer-to-peer and 'sys' topics: model Sys/TopicLoad.v.  Same quantifier: every
   history of requests (sub / leave / leave+unsub / pub / get data / get desc /
   idle unload / restart) with a failing or crashing adapter call at any position. *)
From Coq Require Import Lia.
From Tinode Require Import Sys.TopicLoad Sys.TopicLoadProofs.

Section C01Load.
Variable k : lkind.                    (* peer-to-peer or 'sys' *)
Variable sm : sessmap.                 (* any assignment of sessions to users *)
Variable roots : list N.               (* any set of root users *)
Variable ua ub : N.                    (* the two parties of the p2p topic *)

(* After ANY successful load - initTopicP2P with both subscriptions / with one subscription
   missing or soft-deleted (recreated) / of a brand-new topic, initTopicGrp, initTopicSys -
   lastID is the seqid of the stored topic row, which the load does not change.  ('me' and
   'fnd' carry no messages: their lastID and delID stay 0, init_me_fnd_ok.) *)
Theorem c01_load_restores_lastid : forall kd f s n u1 u2 s' c n' ns,
  init_topic kd f s n u1 u2 = LOk s' c n' ns -> carries_messages kd = true ->
  l_lastid c = t_seqid s' /\ (t_exists s = true -> t_seqid s' = t_seqid s).
Proof. exact load_restores_lastid. Qed.

(* the same on the group model's own load function *)
Theorem c01_load_grp : forall f s n n1 c,
  try_load f s n = (n1, inl c) -> c_lastid c = t_seqid s /\ c_delid c = t_delid s.
Proof. intros f s n n1 c H. apply try_load_cases in H. subst c. split; reflexivity. Qed.

(* "delID is restored from the stored delid by every load": refuted by initTopicSys, which
   never assigns t.delID; true for every other kind. *)
Definition c01_load_restores_delid_statement : Prop := forall kd f s n u1 u2 s' c n' ns,
  init_topic kd f s n u1 u2 = LOk s' c n' ns -> carries_messages kd = true -> l_delid c = t_delid s'.
Theorem c01_load_restores_delid_refuted : ~ c01_load_restores_delid_statement.
Proof.
  intros H.
  specialize (H KSys NoFault (mkStore true 5 3 0 0 0 [] [] [] []) 0%nat 0%N 0%N
                (mkStore true 5 3 0 0 0 [] [] [] []) (mkLC 5 0 [] []) 2%nat false eq_refl eq_refl).
  vm_compute in H. discriminate.
Qed.
Theorem c01_load_restores_delid_partial : forall kd f s n u1 u2 s' c n' ns,
  init_topic kd f s n u1 u2 = LOk s' c n' ns -> carries_messages kd = true -> kd <> KSys ->
  l_delid c = t_delid s' /\ (t_exists s = true -> t_delid s' = t_delid s).
Proof. exact load_restores_delid. Qed.

(* In every reachable state of a p2p / sys history: stored numbers are unique and lie in
   1..seqid, a topic row that does not exist (p2p topic deleted by its last unsubscribe) has
   no messages and mark 0, and while loaded lastID <= seqid <= lastID+1 with every stored
   number <= lastID.  [boot] = what a fresh process holds (nothing; 'sys' loaded by the hub). *)
Theorem c01_kinds_invariant : forall s h, sinv s ->
  linv (fst (lrun k sm roots ua ub (mkLS s (boot k s) 0) h)).
Proof. intros s h S. apply lrun_inv. split; [exact S|apply boot_inv; exact S]. Qed.

(* publish on a p2p / sys topic: numbered lastID+1, acknowledged, stored, broadcast with that
   number - or nothing is numbered and one error is returned (a failed save consumes nothing) *)
Theorem c01_kinds_publish : forall f s c n sid u content noecho,
  let h := lpublish k f s c n sid u content noecho in
  (lh_ca h = c /\ msgs (lh_st h) = msgs s /\ t_exists (lh_st h) = t_exists s /\
   (t_seqid (lh_st h) = t_seqid s \/ (t_exists s = true /\ t_seqid (lh_st h) = l_lastid c + 1)) /\ lno_ack (lh_out h) /\
   exists code, lh_out h = [(sid, LCtrl code None)] /\ 400 <= code)
  \/
  (l_lastid (lh_ca h) = l_lastid c + 1 /\ t_seqid (lh_st h) = l_lastid c + 1 /\ t_exists (lh_st h) = true /\
   msgs (lh_st h) = msgs s ++ [mkMsg (l_lastid c + 1) u content 0] /\
   ~ In (l_lastid c + 1) (seqs s) /\
   lh_out h = (sid, LCtrl 202 (Some (l_lastid c + 1))) ::
              lfanout (lh_ca h) (if noecho then sid else 0%N) (LData (l_lastid c + 1) u content)).
Proof. exact (lpublish_cases k). Qed.

Theorem c01_kinds_copies_agree : forall c skip fr x, In x (lfanout c skip fr) -> snd x = fr.
Proof. exact lfanout_frames. Qed.

(* no other request acknowledges a number or moves lastID of a loaded topic *)
Theorem c01_kinds_only_publish_numbers : forall f x o c,
  x_ca x = Some c -> o <> LRestart ->
  (forall sid content noecho, o = LPub sid content noecho -> lattached c sid = false /\ k = LP2P) ->
  all_lout lnonack (snd (lstep k sm roots ua ub f x o)) /\
  (forall c', x_ca (fst (lstep k sm roots ua ub f x o)) = Some c' -> l_lastid c' = l_lastid c).
Proof. exact (lstep_nonpub k sm roots ua ub). Qed.

(* every transition from "not loaded" to "loaded" - through whichever branch of the load -
   and every process start set lastID to the stored mark *)
Theorem c01_kinds_reload_continues : forall f x o c',
  x_ca x = None -> x_ca (fst (lstep k sm roots ua ub f x o)) = Some c' ->
  l_lastid c' = t_seqid (x_st (fst (lstep k sm roots ua ub f x o))).
Proof. exact (lstep_load_lastid k sm roots ua ub). Qed.
Theorem c01_kinds_boot_continues : forall s c, boot k s = Some c -> l_lastid c = t_seqid s.
Proof. exact (boot_lastid k). Qed.

(* Restart / reload / crash: along a history that does not delete the topic row, every number
   shown to any client is at most the persisted mark at the end of the history - which the
   next load, by the two theorems above, makes lastID: numbering continues strictly above. *)
Theorem c01_kinds_restart_above_shown : forall s h, sinv s ->
  let x0 := mkLS s (boot k s) 0 in
  keeps_row k sm roots ua ub x0 h ->
  Forall (lshown_le (t_seqid (x_st (fst (lrun k sm roots ua ub x0 h))))) (snd (lrun k sm roots ua ub x0 h)) /\
  t_seqid s <= t_seqid (x_st (fst (lrun k sm roots ua ub x0 h))).
Proof.
  intros s h S x0 K. apply (lrun_shown k sm roots ua ub h x0); [|exact K].
  split; [exact S|apply boot_inv; exact S].
Qed.
End C01Load.

(* the 'sys' row is never deleted: the statement holds for every sys history *)
Theorem c01_sys_restart_above_shown : forall sm roots s h, sinv s ->
  let x0 := mkLS s (boot LSys s) 0 in
  Forall (lshown_le (t_seqid (x_st (fst (lrun LSys sm roots 0%N 0%N x0 h))))) (snd (lrun LSys sm roots 0%N 0%N x0 h)) /\
  t_seqid s <= t_seqid (x_st (fst (lrun LSys sm roots 0%N 0%N x0 h))).
Proof.
  intros sm roots s h S x0. apply c01_kinds_restart_above_shown; [exact S|apply sys_keeps_row].
Qed.

Print Assumptions c01_load_restores_lastid.
Print Assumptions c01_load_grp.
Print Assumptions c01_load_restores_delid_refuted.
Print Assumptions c01_load_restores_delid_partial.
Print Assumptions c01_kinds_invariant.
Print Assumptions c01_kinds_publish.
Print Assumptions c01_kinds_copies_agree.
Print Assumptions c01_kinds_only_publish_numbers.
Print Assumptions c01_kinds_reload_continues.
Print Assumptions c01_kinds_boot_continues.
Print Assumptions c01_kinds_restart_above_shown.
Print Assumptions c01_sys_restart_above_shown.

(* non-vacuity: a p2p topic with 2 stored messages whose second party deleted the
   subscription is re-attached by the first party (initTopicP2P recreates the missing
   subscription), numbering continues at 3; both leave, the topic is unloaded, the second
   party re-attaches, a publish whose MessageSave fails consumes nothing, the next is 4 *)
Example c01_p2p_ex :
  let s0 := mkStore true 2 0 0 0 0 [mkSub 1 31 31 0 0 0 false; mkSub 2 31 31 0 0 0 true]
                    [mkMsg 1 1 11 0; mkMsg 2 2 12 0] [] [(1%N, 47%N); (2%N, 47%N)] in
  let r := lrun LP2P [(1%N, 1%N); (2%N, 2%N)] [] 1%N 2%N (mkLS s0 None 0)
             [(NoFault, LSub 1 false); (NoFault, LPub 1 7 false); (NoFault, LLeave 1 false); (NoFault, LUnload);
              (NoFault, LSub 2 false); (FailAt 2, LPub 2 8 false); (NoFault, LPub 2 9 false)] in
  map lout_seqs (snd r) = [[]; [3; 3]; []; []; []; []; [4; 4]] /\ t_seqid (x_st (fst r)) = 4 /\
  sinv s0 /\ keeps_row LP2P [(1%N, 1%N); (2%N, 2%N)] [] 1%N 2%N (mkLS s0 None 0)
             [(NoFault, LSub 1 false); (NoFault, LPub 1 7 false); (NoFault, LLeave 1 false); (NoFault, LUnload)].
Proof.
  cbv zeta. split; [vm_compute; reflexivity|]. split; [vm_compute; reflexivity|]. split.
  - unfold sinv, seqs. cbn [msgs map m_seq t_seqid t_exists]. split; [|split; [|split]].
    + intros n [<-|[<-|[]]]; lia.
    + repeat constructor; cbn; intuition discriminate.
    + lia.
    + discriminate.
  - vm_compute. auto.
Qed.
