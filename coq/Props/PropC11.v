(** * Property C11: sessions can only act within their handshake and authentication state.

    Theorems about [SessionAuth.dispatch] for EVERY guard table that satisfies [table_ok]
    (the table regenerated from server/session.go on every run satisfies it: Gen/ObC11.v),
    every session state, every message of the ten kinds with arbitrary fields, and every
    outcome of the authenticator / user-record / validator pipeline (oracle fields of the
    message).  History theorems are over message lists of any length. *)
From Coq Require Import NArith List Bool.
From Tinode Require Import Sys.SessionAuth Sys.SessionGen Sys.SessionAuthProofs.
From Tinode Require Import Sys.SenderC11x Sys.SenderC11xProofs.
Import ListNotations.
Local Open Scope N_scope.

(** The generated guard structure, once it passes the per-run obligation, yields a table
    the theorems below apply to; the demanded table itself passes. *)
Theorem c11_table_ok : forall g, gen_ok g = true -> table_ok (gen_table g) = true.
Proof. exact gen_ok_table_ok. Qed.
Print Assumptions c11_table_ok.

Theorem c11_spec_table_ok : table_ok spec_table = true.
Proof. exact spec_table_ok. Qed.
Print Assumptions c11_spec_table_ok.

(** Before the handshake every request other than {hi} is refused: state unchanged, no
    handler runs; the reply is 409 "command out of sequence" (a note: no reply at all);
    when extra.asUser is supplied the refusal may instead be the 403 / 400 of the as-user
    check, which comes first. *)
Theorem c11_pre_hi : forall t st m, table_ok t = true -> ver st = 0 -> kind_of m <> KHi ->
  let r := dispatch t st m in
  r_state r = st /\ r_call r = None /\ r_panic r = false /\
  (ex_asuser (m_extra m) = None ->
     r_replies r = if kind_eqb (kind_of m) KNote then [] else [ROutOfSeq409]) /\
  (r_replies r = [] \/ r_replies r = [ROutOfSeq409] \/ r_replies r = [RDenied403] \/ r_replies r = [RMalformed400]) /\
  (kind_of m <> KNote -> r_replies r <> []).
Proof. exact pre_hi. Qed.
Print Assumptions c11_pre_hi.

(** Before login every request other than {hi}, {login}, {acc} is refused with 401 (409
    if the handshake is missing too; a note: dropped), for every state whose level is not
    root.  (Unauthenticated states reachable from a fresh connection have level none:
    [c11_unauth_level_partial]; the root exception is real, see
    [c11_pre_login_reachable_refuted].) *)
Theorem c11_pre_login : forall t st m, table_ok t = true -> uid st = 0 -> lvl st <> LRoot ->
  kind_of m <> KHi -> kind_of m <> KLogin -> kind_of m <> KAcc ->
  let r := dispatch t st m in
  r_state r = st /\ r_call r = None /\ r_panic r = false /\
  (ex_asuser (m_extra m) = None ->
     r_replies r = if kind_eqb (kind_of m) KNote then []
                   else if ver st =? 0 then [ROutOfSeq409] else [RAuthRequired401]) /\
  (ex_asuser (m_extra m) <> None -> r_replies r = [RDenied403]) /\
  (kind_of m <> KNote -> r_replies r <> []).
Proof. exact pre_login. Qed.
Print Assumptions c11_pre_login.

(** A {login} on an authenticated session changes nothing and, when it reaches the
    handler (and is not a password-reset request), is answered 409 "already
    authenticated". *)
Theorem c11_login_once : forall t st m, uid st <> 0 -> kind_of m = KLogin ->
  let r := dispatch t st m in
  r_state r = st /\
  (forall l, m_body m = BLogin l -> lg_reset l = None -> r_call r <> None -> r_replies r = [RAlreadyAuth409]).
Proof. exact login_once. Qed.
Print Assumptions c11_login_once.

(** The user and level of an authenticated session never change (any message, any table),
    except for the log-out side effect. *)
Theorem c11_identity_fixed : forall t st m, uid st <> 0 -> logs_out m = false ->
  uid (r_state (dispatch t st m)) = uid st /\ lvl (r_state (dispatch t st m)) = lvl st.
Proof. exact identity_fixed. Qed.
Print Assumptions c11_identity_fixed.

(** Every message that is not a full success (no [grants]) leaves an unauthenticated
    session unauthenticated, at the same level ... *)
Theorem c11_failed_login_no_auth : forall t st m, grants m = None -> uid st = 0 ->
  uid (r_state (dispatch t st m)) = 0 /\ lvl (r_state (dispatch t st m)) = lvl st.
Proof. exact no_grant_no_auth. Qed.
Print Assumptions c11_failed_login_no_auth.

(** ... and these outcomes are not full successes: password reset, unknown scheme,
    authenticator error (wrong secret, expired, malformed, ...), user suspended / deleted
    / missing, challenge issued, no-login feature, credential validation missing or
    failing. *)
Theorem c11_login_outcomes_not_granting : forall e l,
  lg_reset l <> None \/
  lg_auth l = AUnknownScheme \/ (exists r, lg_auth l = AFailed r) \/
  (exists a, lg_auth l = ARec a /\
     (ar_state a <> USOk \/ ar_challenge a = true \/ ar_nologin a = true \/
      (ar_validated a = false /\ lg_vld l <> VSatisfied))) ->
  grants {| m_extra := e; m_body := BLogin l |} = None.
Proof. exact login_not_granting. Qed.
Print Assumptions c11_login_outcomes_not_granting.

(** An {acc} authenticates only when it creates an account with login:true, the creation
    succeeds, no credential is missing and the record is not no-login. *)
Theorem c11_acc_outcomes_not_granting : forall e a,
  ac_new a = false \/ ac_login a = false \/ (exists r, ac_create a = CrRefused r) \/
  (exists u v nl mi, ac_create a = CrCreated u v nl mi /\ (nl = true \/ mi = true)) ->
  grants {| m_extra := e; m_body := BAcc a |} = None.
Proof. exact acc_not_granting. Qed.
Print Assumptions c11_acc_outcomes_not_granting.

(** The (user, level) handed to a handler is the session's own, unless the session is
    root and supplied a parsable extra.asUser ... *)
Theorem c11_acts_as : forall t st m c, r_call (dispatch t st m) = Some c ->
  c_kind c = kind_of m /\
  ((ex_asuser (m_extra m) = None /\ c_user c = uid st /\ c_level c = lvl st) \/
   (lvl st = LRoot /\ exists u, ex_asuser (m_extra m) = Some u /\ u <> 0 /\ c_user c = u /\
      c_level c = (if ex_level (m_extra m) =? LNone then LAuth else ex_level (m_extra m)))).
Proof. exact acts_as. Qed.
Print Assumptions c11_acts_as.

(** ... and a non-root session that supplies extra.asUser is refused with 403, whatever
    the message. *)
Theorem c11_as_user_root_only : forall t st m, lvl st <> LRoot -> ex_asuser (m_extra m) <> None ->
  dispatch t st m = refuse st [RDenied403].
Proof. exact asuser_non_root. Qed.
Print Assumptions c11_as_user_root_only.

(** The protocol version cannot change after the handshake (any message, any table); a
    repeated {hi} is accepted with the same or an empty version and refused with 409
    otherwise. *)
Theorem c11_version_fixed : forall t st m, ver st <> 0 -> ver (r_state (dispatch t st m)) = ver st.
Proof. exact version_fixed. Qed.
Print Assumptions c11_version_fixed.

Theorem c11_rehello : forall t st e h, table_ok t = true -> ver st <> 0 -> ex_asuser e = None ->
  let r := dispatch t st {| m_extra := e; m_body := BHi h |} in
  r_state r = st /\
  r_replies r = if hi_empty h || (hi_parsed h =? ver st) then [RCreated201] else [ROutOfSeq409].
Proof. exact rehello. Qed.
Print Assumptions c11_rehello.

(** The sender header handed on with a {pub} is the session's own uid when acting on
    behalf of another user and absent otherwise: a function of the session and the acting
    user only, never of the client's value. *)
Theorem c11_sender_header : forall t st m c, r_call (dispatch t st m) = Some c ->
  c_sender c = if kind_eqb (kind_of m) KPub
               then (if c_user c =? uid st then None else Some (uid st))
               else None.
Proof. exact sender_header. Qed.
Print Assumptions c11_sender_header.

(** ** Histories from a fresh connection, any length *)

Theorem c11_hist_handshake : forall t ms, table_ok t = true ->
  uid (run t fresh ms) <> 0 -> ver (run t fresh ms) <> 0.
Proof. exact hist_handshake. Qed.
Print Assumptions c11_hist_handshake.

Theorem c11_hist_level : forall t ms, Forall wf_msg ms ->
  uid (run t fresh ms) <> 0 -> lvl (run t fresh ms) <> LNone.
Proof. exact hist_level. Qed.
Print Assumptions c11_hist_level.

(** An authenticated session owes its user and level to a fully successful login or
    login-on-create present in the history. *)
Theorem c11_hist_auth_needs_grant : forall t ms, uid (run t fresh ms) <> 0 ->
  Exists (fun m => grants m = Some (uid (run t fresh ms), lvl (run t fresh ms))) ms.
Proof. exact hist_auth_needs_grant. Qed.
Print Assumptions c11_hist_auth_needs_grant.

(** *** "A session logs in at most once" over histories: REFUTED by the faithful model.
    The 'me' / 'fnd' topic initialisers zero Session.uid of the REQUESTING session when
    the ACTING user's account does not exist and leave Session.authLvl alone.  A root
    session that sends {sub topic:"me"} on behalf of a missing user is thereby logged
    out, keeps level root (so extra.asUser is still honoured although uid = 0) and may
    log in again.  Finding obo-sub-missing-user-logs-out-session. *)
Definition c11_login_once_history_statement : Prop :=
  forall t ms, table_ok t = true -> (auth_steps t fresh ms <= 1)%nat.

Theorem c11_login_once_history_refuted : ~ c11_login_once_history_statement.
Proof.
  intro H. specialize (H spec_table (w_history ++ [w_login 1 LAuth]) spec_table_ok).
  vm_compute in H. repeat match goal with H : (S _ <= _)%nat |- _ => inversion H; clear H; subst end.
Qed.
Print Assumptions c11_login_once_history_refuted.

Theorem c11_login_once_history_partial : forall t ms st,
  Forall (fun m => logs_out m = false) ms -> (auth_steps t st ms <= 1)%nat.
Proof. intros t ms st H. exact (auth_steps_le1 t ms st H). Qed.
Print Assumptions c11_login_once_history_partial.

(** *** "Before login everything else is refused" on reachable states: same finding. *)
Definition c11_pre_login_reachable_statement : Prop :=
  forall t ms m, table_ok t = true -> Forall wf_msg ms -> uid (run t fresh ms) = 0 ->
    kind_of m <> KHi -> kind_of m <> KLogin -> kind_of m <> KAcc ->
    r_call (dispatch t (run t fresh ms) m) = None.

Theorem c11_pre_login_reachable_refuted : ~ c11_pre_login_reachable_statement.
Proof.
  intro H.
  assert (Hw : Forall wf_msg w_history).
  { pose proof w_history_wf as W. apply Forall_app in W. exact (proj1 W). }
  specialize (H spec_table w_history w_pub_obo spec_table_ok Hw).
  vm_compute in H. assert (X : Some {| c_kind := KPub; c_user := 2; c_level := 20; c_sender := Some 0 |} = None).
  { apply H; try reflexivity; discriminate. }
  discriminate X.
Qed.
Print Assumptions c11_pre_login_reachable_refuted.

Theorem c11_unauth_level_partial : forall t ms, Forall wf_msg ms ->
  Forall (fun m => logs_out m = false) ms ->
  uid (run t fresh ms) = 0 -> lvl (run t fresh ms) = LNone.
Proof. exact hist_unauth. Qed.
Print Assumptions c11_unauth_level_partial.

Theorem c11_pre_login_reachable_partial : forall t ms m, table_ok t = true -> Forall wf_msg ms ->
  Forall (fun m => logs_out m = false) ms -> uid (run t fresh ms) = 0 ->
  kind_of m <> KHi -> kind_of m <> KLogin -> kind_of m <> KAcc ->
  let r := dispatch t (run t fresh ms) m in
  r_state r = run t fresh ms /\ r_call r = None /\
  (ex_asuser (m_extra m) = None ->
     r_replies r = if kind_eqb (kind_of m) KNote then []
                   else if ver (run t fresh ms) =? 0 then [ROutOfSeq409] else [RAuthRequired401]).
Proof.
  intros t ms m Ht Hw Hl Hu H1 H2 H3.
  assert (Hn : lvl (run t fresh ms) <> LRoot).
  { rewrite (hist_unauth t ms Hw Hl Hu). discriminate. }
  destruct (pre_login t _ m Ht Hu Hn H1 H2 H3) as (A & B & _ & C & _). auto.
Qed.
Print Assumptions c11_pre_login_reachable_partial.

(** ** The hypotheses are satisfiable / the theorems are not vacuous *)

Example c11_ex_login_authenticates :
  run spec_table fresh [w_hi; w_login 1 LAuth] = {| ver := 5632; uid := 1; lvl := LAuth |}.
Proof. vm_compute. reflexivity. Qed.

Example c11_ex_login_before_hi_refused :
  r_replies (dispatch spec_table fresh (w_login 1 LAuth)) = [ROutOfSeq409] /\
  r_state (dispatch spec_table fresh (w_login 1 LAuth)) = fresh.
Proof. vm_compute. auto. Qed.

Example c11_ex_nologin_token :
  let m := {| m_extra := no_extra;
              m_body := BLogin {| lg_reset := None;
                                  lg_auth := ARec {| ar_uid := 1; ar_lvl := LAuth; ar_validated := true; ar_nologin := true;
                                                     ar_state := USOk; ar_challenge := false |};
                                  lg_vld := VSatisfied |} |} in
  run spec_table fresh [w_hi; m] = {| ver := 5632; uid := 0; lvl := 0 |} /\
  r_replies (dispatch spec_table (run spec_table fresh [w_hi]) m) = [ROk200].
Proof. vm_compute. auto. Qed.

Example c11_ex_wf : Forall wf_msg (w_history ++ [w_login 1 LAuth]).
Proof. exact w_history_wf. Qed.

(** ** A client can never choose the author recorded on a message (Sys/SenderC11x.v)

    Both places that write head.sender are modelled: site 1 in Session.publish (before the
    route is chosen: attached topic, or 'sys' without a subscription) and site 2 in
    Topic.saveAndBroadcastMessage.  For every session state (root or not), every extra
    (on behalf or not), attached or not, every topic incl. 'sys', every supplied head and
    every guard table: when the {pub} is stored / broadcast, [From] is the acting user
    dispatch resolved, head.sender is ABSENT on the session's own message and the
    session's REAL user on a message on behalf of another user - a function of the session
    only, never the supplied value (unless it coincides) - every other header is kept,
    and a non-root session always gets [From] = its own user and no sender header. *)
Theorem c11_sender_always_servers_own : forall t st e q f h,
  pub_c11x t st e q = inr (OStored f h) ->
  (exists c, r_call (dispatch t st (pub_msg_c11x e q)) = Some c /\ f = c_user c) /\
  head_get KSender h = servers_own_c11x (uid st) f /\
  (head_get KSender h = None \/ (head_get KSender h = Some (uid st) /\ f <> uid st)) /\
  (lvl st <> LRoot -> f = uid st /\ head_get KSender h = None) /\
  (forall k, k <> KSender -> head_get k h = head_get k (q_head q)).
Proof. exact pub_sender_c11x. Qed.
Print Assumptions c11_sender_always_servers_own.

(** The same for the bare flow (any session user / acting user pair). *)
Theorem c11_sender_flow : forall suid au q f h, pub_flow_c11x suid au q = OStored f h ->
  f = au /\ head_get KSender h = servers_own_c11x suid au /\
  (forall k, k <> KSender -> head_get k h = head_get k (q_head q)).
Proof. exact flow_sender_c11x. Qed.
Print Assumptions c11_sender_flow.

(** Which route relies on which site.  With each site switchable per route
    ([pub_flow_cfg_c11x]; all on = the code as it is), the header is server-owned on every
    input IFF every route is covered by at least one site: the attached route by site 1 in
    the attached branch or by site 2, the unsubscribed 'sys' route by site 1 on that route
    or by site 2.  Hence in the code as it is either site alone suffices (they are
    redundant), ... *)
Theorem c11_sender_sites_char : forall cfg, sender_ok_c11x cfg <-> covered_c11x cfg = true.
Proof. intro cfg. split; [apply sender_ok_covered_c11x | apply covered_sender_ok_c11x]. Qed.
Print Assumptions c11_sender_sites_char.

Theorem c11_sender_head_is_all_sites : forall suid au q,
  pub_flow_cfg_c11x sites_head_c11x suid au q = pub_flow_c11x suid au q.
Proof. exact flow_cfg_head_c11x. Qed.
Print Assumptions c11_sender_head_is_all_sites.

Theorem c11_sender_site1_alone_suffices :
  sender_ok_c11x {| s1_attached := true; s1_sys := true; s2 := false |}.
Proof. apply covered_sender_ok_c11x. reflexivity. Qed.
Print Assumptions c11_sender_site1_alone_suffices.

Theorem c11_sender_site2_alone_suffices :
  sender_ok_c11x {| s1_attached := false; s1_sys := false; s2 := true |}.
Proof. apply covered_sender_ok_c11x. reflexivity. Qed.
Print Assumptions c11_sender_site2_alone_suffices.

(** ... while removing both, or keeping site 1 only inside the 'session is subscribed'
    branch and removing site 2, is REFUTED: the supplied value survives (witness: own
    message with head {"sender": 5}); the second variant stays correct exactly on the
    attached route. *)
Definition c11_sender_no_site_statement : Prop :=
  sender_ok_c11x {| s1_attached := false; s1_sys := false; s2 := false |}.
Theorem c11_sender_no_site_refuted : ~ c11_sender_no_site_statement.
Proof. intro H. apply sender_ok_covered_c11x in H. discriminate H. Qed.
Print Assumptions c11_sender_no_site_refuted.

Definition c11_sender_site1_attached_only_statement : Prop :=
  sender_ok_c11x {| s1_attached := true; s1_sys := false; s2 := false |}.
Theorem c11_sender_site1_attached_only_refuted : ~ c11_sender_site1_attached_only_statement.
Proof. intro H. apply sender_ok_covered_c11x in H. discriminate H. Qed.
Print Assumptions c11_sender_site1_attached_only_refuted.

Example c11_ex_sender_forged_on_sys :
  pub_flow_cfg_c11x {| s1_attached := true; s1_sys := false; s2 := false |} 1 1 w_sys_c11x
  = OStored 1 (Some [(KSender, 5)]).
Proof. vm_compute. reflexivity. Qed.

Theorem c11_sender_site1_attached_only_partial : forall suid au q f h, q_attached q = true ->
  pub_flow_cfg_c11x {| s1_attached := true; s1_sys := false; s2 := false |} suid au q = OStored f h ->
  f = au /\ head_get KSender h = servers_own_c11x suid au.
Proof. exact attached_only_partial_c11x. Qed.
Print Assumptions c11_sender_site1_attached_only_partial.

(** Not vacuous: a forged header on the unsubscribed 'sys' route of a non-root session and
    a root session publishing on behalf of user 2. *)
Example c11_ex_sender_sys_scrubbed :
  pub_c11x spec_table {| ver := 5632; uid := 1; lvl := LAuth |} no_extra w_sys_c11x = inr (OStored 1 None).
Proof. vm_compute. reflexivity. Qed.

Example c11_ex_sender_obo :
  pub_c11x spec_table {| ver := 5632; uid := 6; lvl := LRoot |} {| ex_asuser := Some 2; ex_level := 0 |} w_sys_c11x
  = inr (OStored 2 (Some [(KSender, 6)])).
Proof. vm_compute. reflexivity. Qed.
