(* C17  Cluster nodes agree on topic placement (consistent-hash ring) and on at
   most one leader per term (election).  Theorems only; each is closed by
   [exact] of a lemma of Pure/RingProofs.v (ring).
   The hash function and the digest are universally quantified: the
   statements hold for crc32, for the package tests' fake hash and for any
   other function. *)
From Coq Require Import NArith ZArith List Bool Permutation.
From Tinode Require Import Pure.Ring Pure.RingProofs.
Import ListNotations.

(* ------------------------------------------------------------------ *)
(* A. the ring                                                         *)

(* sortable.Less is a strict total order on (hash, name) pairs: two elements it
   cannot order are IDENTICAL, so an unstable sort has nothing to choose *)
Theorem c17_less_strict_total : forall a b c : elt,
  eless a a = false /\
  (eless a b = true -> eless b c = true -> eless a c = true) /\
  (eless a b = false -> eless b a = false -> a = b).
Proof.
  intros a b c. exact (conj (eless_irrefl a) (conj (eless_trans a b c) (eless_trichotomy a b))).
Qed.
Print Assumptions c17_less_strict_total.

(* whatever sort.Sort returns - any permutation of the appended replicas that
   is sorted by Less - is the model's key list *)
Theorem c17_any_sort : forall hash digest reps r names ks,
  sorted ks -> Permutation ks (rkeys r ++ appended hash reps names) ->
  ks = rkeys (ring_add hash digest reps r names).
Proof. exact ring_keys_any_sort. Qed.
Print Assumptions c17_any_sort.

(* the same set of node names listed in any order: same ring (keys and signature) *)
Theorem c17_ring_perm : forall hash digest reps ns ns',
  Permutation ns ns' -> ring_of hash digest reps ns = ring_of hash digest reps ns'.
Proof. exact ring_perm. Qed.
Print Assumptions c17_ring_perm.

(* hence the same owner for every name, the same routing decision on every node
   and the same signature *)
Theorem c17_placement_agree : forall hash digest reps ns ns' this topic,
  Permutation ns ns' ->
  is_remote_topic hash (ring_of hash digest reps ns) this topic =
    is_remote_topic hash (ring_of hash digest reps ns') this topic
  /\ node_for_topic hash (ring_of hash digest reps ns) this topic =
    node_for_topic hash (ring_of hash digest reps ns') this topic
  /\ ring_signature (ring_of hash digest reps ns) = ring_signature (ring_of hash digest reps ns').
Proof. exact placement_agree. Qed.
Print Assumptions c17_placement_agree.

(* Ring.Get's binary search returns the first replica clockwise, wrapping to the first *)
Theorem c17_get_first_clockwise : forall hash digest reps r names key,
  ring_get hash (ring_add hash digest reps r names) key =
  get_spec hash (rkeys (ring_add hash digest reps r names)) key.
Proof. exact ring_add_get_spec. Qed.
Print Assumptions c17_get_first_clockwise.

(* every name maps to exactly one live node *)
Theorem c17_ring_total : forall hash digest reps ns key,
  ns <> [] -> (0 < reps)%Z -> In (ring_get hash (ring_of hash digest reps ns) key) ns.
Proof. exact ring_total. Qed.
Print Assumptions c17_ring_total.

Theorem c17_exactly_one_owner : forall hash digest reps ns topic,
  ns <> [] -> (0 < reps)%Z ->
  exists owner, In owner ns /\
    forall this, is_remote_topic hash (ring_of hash digest reps ns) this topic = false <-> this = owner.
Proof. exact exactly_one_local. Qed.
Print Assumptions c17_exactly_one_owner.

(* adding a node (listed anywhere) moves names only to it *)
Theorem c17_ring_minimal_add : forall hash digest reps n ns ms key,
  Permutation ms (n :: ns) ->
  ring_get hash (ring_of hash digest reps ms) key = ring_get hash (ring_of hash digest reps ns) key \/
  ring_get hash (ring_of hash digest reps ms) key = n.
Proof. exact ring_minimal_add. Qed.
Print Assumptions c17_ring_minimal_add.

(* the same when the node is added by a second Add call on the live ring *)
Theorem c17_ring_minimal_add_incremental : forall hash digest reps n ns key,
  let r := ring_of hash digest reps ns in
  ring_get hash (ring_add hash digest reps r [n]) key = ring_get hash r key \/
  ring_get hash (ring_add hash digest reps r [n]) key = n.
Proof. exact ring_minimal_add_incremental. Qed.
Print Assumptions c17_ring_minimal_add_incremental.

(* two Add calls = one Add call with both lists *)
Theorem c17_ring_add_add : forall hash digest reps r a b,
  ring_add hash digest reps (ring_add hash digest reps r a) b = ring_add hash digest reps r (a ++ b).
Proof. exact ring_add_add. Qed.
Print Assumptions c17_ring_add_add.

(* removing a node moves only the names it owned *)
Theorem c17_ring_minimal_remove : forall hash digest reps n ns key,
  ring_get hash (ring_of hash digest reps ns) key <> n ->
  ring_get hash (ring_of hash digest reps (without n ns)) key =
  ring_get hash (ring_of hash digest reps ns) key.
Proof. exact ring_minimal_remove. Qed.
Print Assumptions c17_ring_minimal_remove.

(* the signature is the digest of the sorted keys: 4 little-endian hash bytes
   then the node name, per key, in ring order *)
Theorem c17_signature_determined : forall hash digest reps r names,
  ring_signature (ring_add hash digest reps r names) =
  digest (sig_preimage (rkeys (ring_add hash digest reps r names))).
Proof. exact ring_add_signature. Qed.
Print Assumptions c17_signature_determined.

(* the gate of Cluster.TopicMaster / Cluster.Route: a request stamped with a
   different signature is rejected, one with the same signature passes *)
Theorem c17_sig_gate : forall (r : ring) (s : str),
  (s <> ring_signature r -> sig_gate r s = false) /\ (sig_gate r s = true <-> s = ring_signature r).
Proof. intros r s. exact (conj (sig_gate_refuses r s) (sig_gate_accepts r s)). Qed.
Print Assumptions c17_sig_gate.

(* nodes whose rings differ refuse each other, as far as the digest tells the
   two pre-images apart (FNV-128a is not injective; the hypothesis is the
   absence of a collision on these two inputs) *)
Theorem c17_sig_gate_rings : forall hash digest reps r1 ns1 r2 ns2,
  let a := ring_add hash digest reps r1 ns1 in
  let b := ring_add hash digest reps r2 ns2 in
  (digest (sig_preimage (rkeys a)) = digest (sig_preimage (rkeys b)) ->
     sig_preimage (rkeys a) = sig_preimage (rkeys b)) ->
  sig_preimage (rkeys a) <> sig_preimage (rkeys b) ->
  sig_gate b (ring_signature a) = false /\ sig_gate a (ring_signature b) = false.
Proof. exact sig_gate_rings. Qed.
Print Assumptions c17_sig_gate_rings.

(* the pre-image has no length framing: for SOME hash functions two different
   rings share it (and then every digest gives them the same signature although
   they place a key differently).  Shown for a constant hash 0x41414141; for
   crc32 this needs a 32-bit coincidence between configured node names. *)
Theorem c17_sig_preimage_unframed :
  exists (hash : str -> N) ns1 ns2 key, forall digest,
    ring_signature (ring_of hash digest 1 ns1) = ring_signature (ring_of hash digest 1 ns2) /\
    ring_get hash (ring_of hash digest 1 ns1) key <> ring_get hash (ring_of hash digest 1 ns2) key.
Proof. exact sig_preimage_unframed. Qed.
Print Assumptions c17_sig_preimage_unframed.

(* hypotheses are satisfiable / the model computes *)
Example c17_ring_example :
  let hash := fun s : str => fold_left (fun a c => (a * 31 + c) mod 4294967296)%N s 7%N in
  let r := ring_of hash fnv_ascii85 3 [[97]; [98]; [49; 97]]%N in
  length (rkeys r) = 9 /\ In (ring_get hash r [116; 49]%N) [[97]; [98]; [49; 97]]%N /\
  length (ring_signature r) = 20.
Proof. vm_compute. repeat split; auto. Qed.
