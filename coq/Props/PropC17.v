(* C17  Cluster nodes agree on topic placement (consistent-hash ring) and on at
   most one leader per term (election).  Theorems only; each is closed by
   [exact] of a lemma of Pure/RingProofs.v (ring) or Sys/ElectionProofs.v (election).
   The hash function and the digest are universally quantified: the
   statements hold for crc32, for the package tests' fake hash and for any
   other function. *)
From Coq Require Import NArith ZArith List Bool Permutation.
From Tinode Require Import Pure.Ring Pure.RingProofs Sys.Election Sys.ElectionProofs Sys.Gate Sys.GateProofs.
From Tinode Require Import Sys.ElectionC17b Sys.ElectionC17bProofs.
From Tinode Require Import Sys.VoteTallyC17e Sys.VoteTallyC17eProofs.
Import ListNotations.

(* ------------------------------------------------------------------ *)
(* A. the ring                                                         *)

(* sortable.Less is a strict total order on (hash, name) pairs: two elements it
   cannot order are IDENTICAL, so an unstable sort has nothing to choose *)
Theorem c17_less_strict_total : forall a b c : elt,
  eless a a = false /\
  (eless a b = true -> eless b c = true -> eless a c = true) /\
  (eless a b = false -> eless b a = false -> a = b).
Proof.
  intros a b c. exact (conj (eless_irrefl a) (conj (eless_trans a b c) (eless_trichotomy a b))).
Qed.
Print Assumptions c17_less_strict_total.

(* whatever sort.Sort returns - any permutation of the appended replicas that
   is sorted by Less - is the model's key list *)
Theorem c17_any_sort : forall hash digest reps r names ks,
  sorted ks -> Permutation ks (rkeys r ++ appended hash reps names) ->
  ks = rkeys (ring_add hash digest reps r names).
Proof. exact ring_keys_any_sort. Qed.
Print Assumptions c17_any_sort.

(* the same set of node names listed in any order: same ring (keys and signature) *)
Theorem c17_ring_perm : forall hash digest reps ns ns',
  Permutation ns ns' -> ring_of hash digest reps ns = ring_of hash digest reps ns'.
Proof. exact ring_perm. Qed.
Print Assumptions c17_ring_perm.

(* hence the same owner for every name, the same routing decision on every node
   and the same signature *)
Theorem c17_placement_agree : forall hash digest reps ns ns' this topic,
  Permutation ns ns' ->
  is_remote_topic hash (ring_of hash digest reps ns) this topic =
    is_remote_topic hash (ring_of hash digest reps ns') this topic
  /\ node_for_topic hash (ring_of hash digest reps ns) this topic =
    node_for_topic hash (ring_of hash digest reps ns') this topic
  /\ ring_signature (ring_of hash digest reps ns) = ring_signature (ring_of hash digest reps ns').
Proof. exact placement_agree. Qed.
Print Assumptions c17_placement_agree.

(* Ring.Get's binary search returns the first replica clockwise, wrapping to the first *)
Theorem c17_get_first_clockwise : forall hash digest reps r names key,
  ring_get hash (ring_add hash digest reps r names) key =
  get_spec hash (rkeys (ring_add hash digest reps r names)) key.
Proof. exact ring_add_get_spec. Qed.
Print Assumptions c17_get_first_clockwise.

(* every name maps to exactly one live node *)
Theorem c17_ring_total : forall hash digest reps ns key,
  ns <> [] -> (0 < reps)%Z -> In (ring_get hash (ring_of hash digest reps ns) key) ns.
Proof. exact ring_total. Qed.
Print Assumptions c17_ring_total.

Theorem c17_exactly_one_owner : forall hash digest reps ns topic,
  ns <> [] -> (0 < reps)%Z ->
  exists owner, In owner ns /\
    forall this, is_remote_topic hash (ring_of hash digest reps ns) this topic = false <-> this = owner.
Proof. exact exactly_one_local. Qed.
Print Assumptions c17_exactly_one_owner.

(* adding a node (listed anywhere) moves names only to it *)
Theorem c17_ring_minimal_add : forall hash digest reps n ns ms key,
  Permutation ms (n :: ns) ->
  ring_get hash (ring_of hash digest reps ms) key = ring_get hash (ring_of hash digest reps ns) key \/
  ring_get hash (ring_of hash digest reps ms) key = n.
Proof. exact ring_minimal_add. Qed.
Print Assumptions c17_ring_minimal_add.

(* the same when the node is added by a second Add call on the live ring *)
Theorem c17_ring_minimal_add_incremental : forall hash digest reps n ns key,
  let r := ring_of hash digest reps ns in
  ring_get hash (ring_add hash digest reps r [n]) key = ring_get hash r key \/
  ring_get hash (ring_add hash digest reps r [n]) key = n.
Proof. exact ring_minimal_add_incremental. Qed.
Print Assumptions c17_ring_minimal_add_incremental.

(* two Add calls = one Add call with both lists *)
Theorem c17_ring_add_add : forall hash digest reps r a b,
  ring_add hash digest reps (ring_add hash digest reps r a) b = ring_add hash digest reps r (a ++ b).
Proof. exact ring_add_add. Qed.
Print Assumptions c17_ring_add_add.

(* removing a node moves only the names it owned *)
Theorem c17_ring_minimal_remove : forall hash digest reps n ns key,
  ring_get hash (ring_of hash digest reps ns) key <> n ->
  ring_get hash (ring_of hash digest reps (without n ns)) key =
  ring_get hash (ring_of hash digest reps ns) key.
Proof. exact ring_minimal_remove. Qed.
Print Assumptions c17_ring_minimal_remove.

(* the signature is the digest of the sorted keys: 4 little-endian hash bytes
   then the node name, per key, in ring order *)
Theorem c17_signature_determined : forall hash digest reps r names,
  ring_signature (ring_add hash digest reps r names) =
  digest (sig_preimage (rkeys (ring_add hash digest reps r names))).
Proof. exact ring_add_signature. Qed.
Print Assumptions c17_signature_determined.

(* the gate of Cluster.TopicMaster / Cluster.Route: a request stamped with a
   different signature is rejected, one with the same signature passes *)
Theorem c17_sig_gate : forall (r : ring) (s : str),
  (s <> ring_signature r -> sig_gate r s = false) /\ (sig_gate r s = true <-> s = ring_signature r).
Proof. intros r s. exact (conj (sig_gate_refuses r s) (sig_gate_accepts r s)). Qed.
Print Assumptions c17_sig_gate.

(* nodes whose rings differ refuse each other, as far as the digest tells the
   two pre-images apart (FNV-128a is not injective; the hypothesis is the
   absence of a collision on these two inputs) *)
Theorem c17_sig_gate_rings : forall hash digest reps r1 ns1 r2 ns2,
  let a := ring_add hash digest reps r1 ns1 in
  let b := ring_add hash digest reps r2 ns2 in
  (digest (sig_preimage (rkeys a)) = digest (sig_preimage (rkeys b)) ->
     sig_preimage (rkeys a) = sig_preimage (rkeys b)) ->
  sig_preimage (rkeys a) <> sig_preimage (rkeys b) ->
  sig_gate b (ring_signature a) = false /\ sig_gate a (ring_signature b) = false.
Proof. exact sig_gate_rings. Qed.
Print Assumptions c17_sig_gate_rings.

(* the pre-image has no length framing: for SOME hash functions two different
   rings share it (and then every digest gives them the same signature although
   they place a key differently).  Shown for a constant hash 0x41414141; for
   crc32 this needs a 32-bit coincidence between configured node names. *)
Theorem c17_sig_preimage_unframed :
  exists (hash : str -> N) ns1 ns2 key, forall digest,
    ring_signature (ring_of hash digest 1 ns1) = ring_signature (ring_of hash digest 1 ns2) /\
    ring_get hash (ring_of hash digest 1 ns1) key <> ring_get hash (ring_of hash digest 1 ns2) key.
Proof. exact sig_preimage_unframed. Qed.
Print Assumptions c17_sig_preimage_unframed.

(* hypotheses are satisfiable / the model computes *)
Example c17_ring_example :
  let hash := fun s : str => fold_left (fun a c => (a * 31 + c) mod 4294967296)%N s 7%N in
  let r := ring_of hash fnv_ascii85 3 [[97]; [98]; [49; 97]]%N in
  length (rkeys r) = 9 /\ In (ring_get hash r [116; 49]%N) [[97]; [98]; [49; 97]]%N /\
  length (ring_signature r) = 20.
Proof. vm_compute. repeat split; auto. Qed.

(* ------------------------------------------------------------------ *)
(* B. the election (model Sys/Election.v).  [run cfg evs] is the state after
   ANY finite sequence of events: heartbeat ticks, vote requests and replies
   delivered in any order, lost, or failed with an RPC error, election timeouts,
   health checks delivered in any order or dropped.  Any number of configured
   nodes (NoDup list); nothing is bounded. *)

(* a node's term never decreases *)
Theorem c17_el_term_monotone : forall cfg evs evs' n,
  term (loc (run cfg evs) n) <= term (loc (run cfg (evs ++ evs')) n).
Proof. exact term_monotone. Qed.
Print Assumptions c17_el_term_monotone.

(* at most one vote per node per term: a vote once given (by a yes-reply or by
   standing as candidate) is never given to anybody else *)
Theorem c17_el_one_vote_per_term : forall cfg, NoDup (cfg_nodes cfg) ->
  forall evs evs' t m c c',
  votes (run cfg evs) t m = Some c -> votes (run cfg (evs ++ evs')) t m = Some c' -> c = c'.
Proof. exact one_vote_per_term. Qed.
Print Assumptions c17_el_one_vote_per_term.

(* the ghost [votes] is what the code does: a yes-reply comes only from a node
   whose term was below the request's and which had not voted in that term, it
   records the vote and raises the node's term to the request's *)
Theorem c17_el_grant : forall cfg, NoDup (cfg_nodes cfg) -> forall evs c t m rt,
  let s := run cfg evs in
  rpcs s c t m = ReqFlying ->
  rpcs (deliver_req cfg s c t m) c t m = RepFlying (Granted rt) ->
  votes s t m = None /\ votes (deliver_req cfg s c t m) t m = Some c /\ rt = t /\
  term (loc s m) < t /\ term (loc (deliver_req cfg s c t m) m) = t.
Proof. exact grant_run. Qed.
Print Assumptions c17_el_grant.

(* the threshold as written, (len(c.nodes)+1)>>1 + 1 with c.nodes = the OTHER
   configured nodes, is the smallest strict majority of ALL configured nodes *)
Theorem c17_el_threshold : forall cfg, NoDup (cfg_nodes cfg) -> forall n, In n (cfg_nodes cfg) ->
  length (cfg_nodes cfg) < 2 * expect_votes cfg n /\ 2 * (expect_votes cfg n - 1) <= length (cfg_nodes cfg).
Proof. exact expect_votes_majority. Qed.
Print Assumptions c17_el_threshold.

(* a node that considers itself leader in term T holds the term-T votes of a
   strict majority of all configured nodes *)
Theorem c17_el_leader_has_majority : forall cfg, NoDup (cfg_nodes cfg) -> forall evs n,
  let s := run cfg evs in
  leader (loc s n) = Some n -> length (cfg_nodes cfg) < 2 * V cfg s n (term (loc s n)).
Proof. exact leader_has_majority. Qed.
Print Assumptions c17_el_leader_has_majority.

(* no two nodes consider themselves leader in the same term *)
Theorem c17_el_safety : forall cfg, NoDup (cfg_nodes cfg) -> forall evs n n',
  let s := run cfg evs in
  leader (loc s n) = Some n -> leader (loc s n') = Some n' ->
  term (loc s n) = term (loc s n') -> n = n'.
Proof. exact safety. Qed.
Print Assumptions c17_el_safety.

(* a health check of a lower term changes nothing at the receiver *)
Theorem c17_el_stale_ignored : forall s idx h n,
  nth_error (hnet s) idx = Some h -> h_term h < term (loc s (h_to h)) ->
  loc (deliver_health s idx) n = loc s n.
Proof. exact stale_ignored. Qed.
Print Assumptions c17_el_stale_ignored.

(* an accepted health check: leader and term are adopted at once; the node list
   only on a check that finds rehashSkipped already set *)
Theorem c17_el_health_adopts : forall s idx h,
  nth_error (hnet s) idx = Some h ->
  let l := loc s (h_to h) in
  let l' := loc (deliver_health s idx) (h_to h) in
  electing l = None -> term l <= h_term h ->
  term l' = h_term h /\ leader l' = Some (h_leader h) /\ missed l' = 0 /\ active_nodes l' = active_nodes l /\
  (if list_eqb (h_sig h) (sig_of (ring_nodes l)) then
     ring_nodes l' = ring_nodes l /\ rehash_skipped l' = rehash_skipped l
   else if rehash_skipped l then ring_nodes l' = h_nodes h /\ rehash_skipped l' = false
   else ring_nodes l' = ring_nodes l /\ rehash_skipped l' = true).
Proof. exact health_adopts. Qed.
Print Assumptions c17_el_health_adopts.

(* FINDING 1 (lag): "every node that accepts a health check adopts the ring
   signature" is false as stated: the first check with a new signature only sets
   rehashSkipped *)
Theorem c17_el_adopts_ring_refuted : ~ adopts_ring_statement cfg3.
Proof. exact adopts_ring_refuted. Qed.
Print Assumptions c17_el_adopts_ring_refuted.

(* FINDING 2: a newly elected leader advertises the signature of the ring it
   adopted from its predecessor together with its own, never updated,
   activeNodes; a follower with another ring then rehashes to a list that does
   not give the advertised signature, on every second check, for ever (all nodes
   up, all checks delivered and answered: shown for the first 41 rounds) *)
Theorem c17_el_leader_list_matches_ring_refuted : ~ leader_list_matches_ring_statement cfg3.
Proof. exact leader_list_matches_ring_refuted. Qed.
Print Assumptions c17_el_leader_list_matches_ring_refuted.

Theorem c17_el_ring_divergence_persists :
  forall k, k <= 40 -> diverged (run cfg3 (evs_new_leader ++ rounds (S k))) = true.
Proof. exact ring_divergence_persists. Qed.
Print Assumptions c17_el_ring_divergence_persists.

(* isPartitioned as written <-> the active list is no more than half of the configured nodes *)
Theorem c17_el_is_partitioned : forall cfg, NoDup (cfg_nodes cfg) -> forall s n, In n (cfg_nodes cfg) ->
  (is_partitioned cfg s n = true <-> 2 * length (active_nodes (loc s n)) <= length (cfg_nodes cfg)).
Proof. exact is_partitioned_iff. Qed.
Print Assumptions c17_el_is_partitioned.

(* a leader whose check of some peer fails for the configured number of times
   recomputes the active list = itself + the peers below the limit, and from
   then on answers client requests with 502 if that is no more than half *)
Theorem c17_el_partitioned_stops : forall cfg, NoDup (cfg_nodes cfg) -> forall s n d ok,
  In n (cfg_nodes cfg) ->
  electing (loc s n) = None -> leader (loc s n) = Some n ->
  (exists p, In p (peers cfg n) /\ mem p ok = false /\ S (fail_count (loc s n) p) = cfg_fail_limit cfg) ->
  let s' := tick cfg s n d ok in
  let reach := filter (fun p => fail_count (loc s' n) p <? cfg_fail_limit cfg) (peers cfg n) in
  active_nodes (loc s' n) = n :: reach /\
  (2 * (1 + length reach) <= length (cfg_nodes cfg) -> dispatch cfg s' n = Err502).
Proof. exact partitioned_stops. Qed.
Print Assumptions c17_el_partitioned_stops.

(* the healthCheck case never kills the run goroutine: with the nil check of
   gcProxySessionsForNode (fix applied to /repo, findings/C17_nilcheck.diff) the
   handler completes in every state, for every message, hence in every execution *)
Theorem c17_el_health_never_panics : forall cfg evs idx, health_panics cfg (run cfg evs) idx = false.
Proof. exact health_never_panics. Qed.
Print Assumptions c17_el_health_never_panics.

(* nor does the leader's own gcProxySessions call in sendHealthChecks (its list starts with itself) *)
Theorem c17_el_leader_gc_never_panics : forall repaired cfg n rest,
  leader_gc_panics repaired cfg n (n :: rest) = false.
Proof. exact leader_gc_never_panics. Qed.
Print Assumptions c17_el_leader_gc_never_panics.

(* FIXED FINDING: the code before the fix.  It panics exactly when the rehash
   branch is taken with a node list that does not contain the receiver ... *)
Theorem c17_el_health_panics_unrepaired_iff : forall cfg s idx,
  health_panics_unrepaired cfg s idx = true <->
  exists h, nth_error (hnet s) idx = Some h /\
    let l := loc s (h_to h) in
    electing l = None /\ term l <= h_term h /\
    list_eqb (h_sig h) (sig_of (ring_nodes l)) = false /\ rehash_skipped l = true /\
    mem (h_to h) (h_nodes h) = false.
Proof. exact health_panics_unrepaired_iff. Qed.
Print Assumptions c17_el_health_panics_unrepaired_iff.

(* ... which is reachable: a follower dropped from the active list twice *)
Theorem c17_el_health_never_panics_unrepaired_refuted : ~ health_never_panics_unrepaired_statement cfg3.
Proof. exact health_never_panics_unrepaired_refuted. Qed.
Print Assumptions c17_el_health_never_panics_unrepaired_refuted.

(* an unrepaired execution that has not panicked is an execution of the repaired
   step function, so everything above holds for it too; e.g. safety *)
Theorem c17_el_safety_unrepaired : forall cfg, NoDup (cfg_nodes cfg) -> forall evs s n n',
  run_unrepaired cfg evs = Some s ->
  leader (loc s n) = Some n -> leader (loc s n') = Some n' ->
  term (loc s n) = term (loc s n') -> n = n'.
Proof. exact safety_unrepaired. Qed.
Print Assumptions c17_el_safety_unrepaired.

(* ------------------------------------------------------------------ *)
(* C. the signature gate of the inter-node entry points (model Sys/Gate.v of
   Cluster.TopicMaster, Cluster.Route, Cluster.TopicProxy, makeClusterReq,
   routeToTopicMaster, topicProxyGone, routeToTopicIntraCluster, nodeForTopic,
   Cluster.rehash).  A node's state includes the multiplexing sessions that exist;
   [run] is the state after ANY finite sequence of rehashes (either side, any node
   list), honest sends, arbitrary messages put on the wire, hub changes, deliveries
   (in any order, after any delay) and drops.  [sigf]/[getf] are the ring's
   Signature()/Get() as functions of the node list: universally quantified in C.1,
   instantiated with the ring of part A in C.2. *)

(* C.1 a request for a topic (not the proxy's tear-down notice), from a configured node,
   whose signature is not the receiver's CURRENT one is rejected and leaves the state as it
   was - in every state, i.e. whether or not the multiplexing session of (topic, node) already
   exists *)
Theorem c17_gate_master_refuses : forall sigf s m full,
  q_gone m = false -> smem (q_node m) (n_peers s) = true -> q_sig m <> cur_sig sigf s ->
  topic_master sigf s m full = (s, ORejectedSig).
Proof. exact topic_master_refuses. Qed.
Print Assumptions c17_gate_master_refuses.

(* exact condition of the refusal; it reads neither the session store nor the hub *)
Theorem c17_gate_master_rejected_iff : forall sigf s m full,
  snd (topic_master sigf s m full) = ORejectedSig <->
  (smem (q_node m) (n_peers s) = true /\ q_gone m = false /\ q_sig m <> cur_sig sigf s).
Proof. exact topic_master_rejected_sig_iff. Qed.
Print Assumptions c17_gate_master_rejected_iff.

Theorem c17_gate_ignores_sessions : forall sigf s1 s2 m full,
  n_peers s1 = n_peers s2 -> n_ring s1 = n_ring s2 ->
  (snd (topic_master sigf s1 m full) = ORejectedSig <-> snd (topic_master sigf s2 m full) = ORejectedSig).
Proof. exact topic_master_gate_ignores_sessions. Qed.
Print Assumptions c17_gate_ignores_sessions.

(* whatever TopicMaster does behind the gate (create the session, hand the request to the hub
   or the topic, answer 500, panic) it does for a request stamped with the current signature *)
Theorem c17_gate_master_passed : forall sigf s m full s' o,
  topic_master sigf s m full = (s', o) -> passed_gate o = true -> q_sig m = cur_sig sigf s.
Proof. exact topic_master_passed_sig. Qed.
Print Assumptions c17_gate_master_passed.

(* a refusal creates no session and stops none *)
Theorem c17_gate_master_refusal_no_effect : forall sigf s m full s' o,
  topic_master sigf s m full = (s', o) -> (o = ORejectedSig \/ o = OUnknownNode) -> s' = s.
Proof. exact topic_master_rejected_unchanged. Qed.
Print Assumptions c17_gate_master_refusal_no_effect.

(* Cluster.Route *)
Theorem c17_gate_route : forall sigf s r full,
  (route sigf s r full = ORejectedSig <-> r_sig r <> cur_sig sigf s) /\
  (passed_gate (route sigf s r full) = true -> r_sig r = cur_sig sigf s).
Proof. intros sigf s r full. exact (conj (route_rejected_sig_iff sigf s r full) (route_passed_sig sigf s r full)). Qed.
Print Assumptions c17_gate_route.

(* every history, every message with a Signature field, whoever made it: it gets past the
   gate of its receiver only with the signature the receiver has at the moment of delivery *)
Theorem c17_gate_delivery : forall sigf getf n0 evs k full f s o b sg,
  let n := fst (grun sigf getf n0 evs) in
  nth_error (flight n) k = Some f -> find_node (msg_to (f_msg f)) (nodes n) = Some s ->
  snd (gstep sigf getf n (EDeliver k full)) = ObDelivered o b -> passed_gate o = true ->
  msg_sig (f_msg f) = Some sg -> sg = cur_sig sigf s.
Proof. intros sigf getf n0 evs. exact (deliver_gate sigf getf (fst (grun sigf getf n0 evs))). Qed.
Print Assumptions c17_gate_delivery.

(* ... and with any other signature it is rejected and the receiver is left as it was *)
Theorem c17_gate_delivery_refused : forall sigf getf n0 evs k full f s,
  let n := fst (grun sigf getf n0 evs) in
  nth_error (flight n) k = Some f -> find_node (msg_to (f_msg f)) (nodes n) = Some s ->
  match f_msg f with
  | MReq _ q => q_gone q = false /\ smem (q_node q) (n_peers s) = true /\ q_sig q <> cur_sig sigf s
  | MRoute _ r => r_sig r <> cur_sig sigf s
  | MResp _ _ => False
  end ->
  exists b, snd (gstep sigf getf n (EDeliver k full)) = ObDelivered ORejectedSig b /\
            find_node (msg_to (f_msg f)) (nodes (fst (gstep sigf getf n (EDeliver k full)))) = Some s.
Proof. intros sigf getf n0 evs. exact (deliver_refused sigf getf (fst (grun sigf getf n0 evs))). Qed.
Print Assumptions c17_gate_delivery_refused.

(* end to end: a message made by makeClusterReq / routeToTopicIntraCluster when its sender's
   ring was built from the node list L, delivered after any delay and any rehashes on either
   side to a receiver whose ring is then built from R, passes only if Signature(L) = Signature(R) *)
Theorem c17_gate_history : forall sigf getf names evs k full f s o b L,
  let n := fst (grun sigf getf (init_net names) evs) in
  nth_error (flight n) k = Some f -> find_node (msg_to (f_msg f)) (nodes n) = Some s ->
  snd (gstep sigf getf n (EDeliver k full)) = ObDelivered o b -> passed_gate o = true ->
  f_origin f = Some L -> sigf L = sigf (n_ring s).
Proof.
  intros sigf getf names evs k full f s o b L.
  exact (history_gate sigf getf (init_net names) evs k full f s o b L (init_honest sigf names)).
Qed.
Print Assumptions c17_gate_history.

(* the ring a node compares with is the node list of its last rehash: a rehash installs its
   list, and no other event (deliveries, session creation, hub changes, other nodes' rehashes) changes it *)
Theorem c17_gate_ring_is_last_rehash : forall sigf getf n,
  (forall i l s s', find_node i (nodes n) = Some s ->
     find_node i (nodes (fst (gstep sigf getf n (ERehash i (Some l))))) = Some s' -> n_ring s' = l) /\
  (forall e j s s', find_node j (nodes n) = Some s -> find_node j (nodes (fst (gstep sigf getf n e))) = Some s' ->
     (forall ns, e <> ERehash j ns) -> n_ring s' = n_ring s).
Proof.
  intros sigf getf n. split.
  - intros i l s s'. exact (rehash_installs sigf getf n i l s s').
  - intros e j s s'. exact (ring_changes_only_by_rehash sigf getf n e j s s').
Qed.
Print Assumptions c17_gate_ring_is_last_rehash.

(* "every inter-node entry point that hands something to a topic checks the ring" is FALSE as
   stated: Cluster.TopicProxy (master -> proxy responses) has no signature to check *)
Theorem c17_gate_all_entry_points_refuted : ~ all_entry_points_gated_statement.
Proof. exact all_entry_points_gated_refuted. Qed.
Print Assumptions c17_gate_all_entry_points_refuted.

(* what holds: every entry point whose message has a Signature field (TopicMaster, Route) *)
Theorem c17_gate_all_entry_points_partial :
  forall (sigf : list str -> str) (getf : list str -> str -> str) n k full f s d b,
    msg_sig (f_msg f) <> None ->
    nth_error (flight n) k = Some f -> find_node (msg_to (f_msg f)) (nodes n) = Some s ->
    snd (gstep sigf getf n (EDeliver k full)) = ObDelivered (ODelivered d) b ->
    msg_sig (f_msg f) = Some (cur_sig sigf s).
Proof. exact all_entry_points_gated_partial. Qed.
Print Assumptions c17_gate_all_entry_points_partial.

(* "every request that carries another signature is rejected" is FALSE as stated: the proxy's
   tear-down notice (Gone) is honoured - the multiplexing sessions of that proxy are stopped -
   before the signature is looked at.  The version that holds is c17_gate_master_refuses
   (hypothesis q_gone m = false), restated here *)
Theorem c17_gate_every_mismatch_rejected_refuted : ~ every_mismatch_rejected_statement.
Proof. exact every_mismatch_rejected_refuted. Qed.
Print Assumptions c17_gate_every_mismatch_rejected_refuted.

Theorem c17_gate_every_mismatch_rejected_partial : forall (sigf : list str -> str) s m full,
  q_gone m = false ->
  smem (q_node m) (n_peers s) = true -> q_sig m <> cur_sig sigf s ->
  snd (topic_master sigf s m full) = ORejectedSig.
Proof. intros sigf s m full Hg Hn Hs. rewrite (topic_master_refuses sigf s m full Hg Hn Hs). reflexivity. Qed.
Print Assumptions c17_gate_every_mismatch_rejected_partial.

(* C.2 with the ring of part A (any hash, any digest, any replica count).  Nodes whose rings
   differ refuse each other's topic traffic: after any history, an honest message made under
   the node list L passes the gate of a receiver whose ring is built from [n_ring s] only if the
   two rings have the same signature pre-image - as far as the digest tells these two pre-images
   apart (same explicit hypothesis as c17_sig_gate_rings) *)
Theorem c17_gate_rings_history : forall hash digest reps names evs k full f s o b L,
  let sigf := ring_sigf hash digest reps in
  let getf := ring_getf hash digest reps in
  let n := fst (grun sigf getf (init_net names) evs) in
  nth_error (flight n) k = Some f -> find_node (msg_to (f_msg f)) (nodes n) = Some s ->
  snd (gstep sigf getf n (EDeliver k full)) = ObDelivered o b -> passed_gate o = true ->
  f_origin f = Some L ->
  (digest (ring_pre hash digest reps L) = digest (ring_pre hash digest reps (n_ring s)) ->
     ring_pre hash digest reps L = ring_pre hash digest reps (n_ring s)) ->
  ring_pre hash digest reps L = ring_pre hash digest reps (n_ring s).
Proof.
  intros hash digest reps names evs k full f s o b L.
  exact (history_gate_rings hash digest reps (init_net names) evs k full f s o b L
           (init_honest (ring_sigf hash digest reps) names)).
Qed.
Print Assumptions c17_gate_rings_history.

(* the refusal, in every state (any set of multiplexing sessions) *)
Theorem c17_gate_rings_differ_refused : forall hash digest reps s m r full L,
  ring_pre hash digest reps L <> ring_pre hash digest reps (n_ring s) ->
  (digest (ring_pre hash digest reps L) = digest (ring_pre hash digest reps (n_ring s)) ->
     ring_pre hash digest reps L = ring_pre hash digest reps (n_ring s)) ->
  (q_gone m = false -> smem (q_node m) (n_peers s) = true -> q_sig m = ring_sigf hash digest reps L ->
     topic_master (ring_sigf hash digest reps) s m full = (s, ORejectedSig)) /\
  (r_sig r = ring_sigf hash digest reps L -> route (ring_sigf hash digest reps) s r full = ORejectedSig).
Proof.
  intros hash digest reps s m r full L Hne Hinj. split.
  - intros Hg Hn Hq. exact (rings_differ_refused hash digest reps s m full L Hg Hn Hq Hne Hinj).
  - intros Hq. exact (rings_differ_route_refused hash digest reps s r full L Hq Hne Hinj).
Qed.
Print Assumptions c17_gate_rings_differ_refused.

(* and the same live nodes, listed in any order on the two sides, are never refused *)
Theorem c17_gate_same_nodes_accepted : forall hash digest reps s m full L,
  Permutation L (n_ring s) -> q_sig m = ring_sigf hash digest reps L ->
  snd (topic_master (ring_sigf hash digest reps) s m full) <> ORejectedSig.
Proof. exact same_nodes_accepted. Qed.
Print Assumptions c17_gate_same_nodes_accepted.

(* the model computes: first contact under equal rings (session created), the master rehashes,
   the proxy's next request under the old ring is rejected although the session exists, the
   proxy rehashes to the same nodes in another order, its next request is delivered *)
Example c17_gate_example :
  snd (grun x_sigf x_getf (init_net [x_a; x_b; x_c]) x_evs) =
  [ObNone;
   ObSent x_a [3%N]; ObDelivered (ODelivered DMeta) true;
   ObRehashed [2%N];
   ObSent x_a [3%N]; ObDelivered ORejectedSig true;
   ObRehashed [2%N];
   ObSent x_a [2%N]; ObDelivered (ODelivered DMeta) true].
Proof. exact stale_signature_example. Qed.

(* ------------------------------------------------------------------ *)
(* D. the health-check branch guard by guard, what an accepted check means for
   later vote requests, and the partition guard of Session.dispatch (models
   Sys/Election.v + Sys/ElectionC17b.v).  Added when the seeded changes C17-r2-2
   (term of an accepted check adopted only when the leader NAME changes) and
   C17-r2-3 ({note} served by a partitioned node) were missed. *)

(* the healthCheck case for EVERY local state and EVERY message.  Stale leaders are ignored: *)
Theorem c17_el_health_stale_local : forall l h, accepts_c17b l h = false -> handle_health l h = l.
Proof. exact handle_health_stale. Qed.
Print Assumptions c17_el_health_stale_local.

(* ... and every other check is adopted: term and leader at once, whatever leader the node
   followed before (none / the same name / another name) and whether the term is its own or a
   later one; the missed-heartbeat counter restarts; activeNodes and failCount are not touched;
   the node list as in c17_el_health_adopts *)
Theorem c17_el_health_adopts_local : forall l h, accepts_c17b l h = true ->
  let l' := handle_health l h in
  term l' = h_term h /\ leader l' = Some (h_leader h) /\ missed l' = 0 /\ electing l' = electing l /\
  active_nodes l' = active_nodes l /\ fail_count l' = fail_count l /\
  (if list_eqb (h_sig h) (sig_of (ring_nodes l)) then
     ring_nodes l' = ring_nodes l /\ rehash_skipped l' = rehash_skipped l
   else if rehash_skipped l then ring_nodes l' = h_nodes h /\ rehash_skipped l' = false
   else ring_nodes l' = ring_nodes l /\ rehash_skipped l' = true).
Proof. exact handle_health_accepts. Qed.
Print Assumptions c17_el_health_adopts_local.

(* the guards of the branch one by one: (term <) ignored; (term >) adopted also when the leader
   name is the one already followed; (term =, same leader) nothing to change; (term =, other or no
   leader) leader adopted *)
Theorem c17_el_health_guard_table : forall l h,
  (h_term h < term l -> handle_health l h = l) /\
  (term l < h_term h ->
     term (handle_health l h) = h_term h /\ leader (handle_health l h) = Some (h_leader h)) /\
  (term l = h_term h -> leader l = Some (h_leader h) ->
     term (handle_health l h) = term l /\ leader (handle_health l h) = leader l) /\
  (term l = h_term h -> leader l <> Some (h_leader h) ->
     term (handle_health l h) = term l /\ leader (handle_health l h) = Some (h_leader h)).
Proof. exact handle_health_guard_table. Qed.
Print Assumptions c17_el_health_guard_table.

(* a vote request of a term that is not above the node's term is refused and changes nothing *)
Theorem c17_el_vote_refused : forall cfg s c t m,
  t <= term (loc s m) -> rpcs s c t m = ReqFlying ->
  let s' := deliver_req cfg s c t m in
  (forall rt, rpcs s' c t m <> RepFlying (Granted rt)) /\
  (forall n, loc s' n = loc s n) /\ (forall t' m', votes s' t' m' = votes s t' m').
Proof. exact deliver_req_refuses. Qed.
Print Assumptions c17_el_vote_refused.

(* consequence over ALL continuations: once a node has accepted a health check of term T, no
   vote request of a term <= T is ever granted by it again, whatever happens in between (in
   particular the delayed request of an election the node missed) *)
Theorem c17_el_no_stale_vote_after_health : forall cfg s idx h evs c t,
  nth_error (hnet s) idx = Some h -> electing (loc s (h_to h)) = None ->
  accepts_c17b (loc s (h_to h)) h = true ->
  t <= h_term h ->
  let s1 := fold_left (step cfg) evs (deliver_health s idx) in
  rpcs s1 c t (h_to h) = ReqFlying ->
  let s2 := deliver_req cfg s1 c t (h_to h) in
  (forall rt, rpcs s2 c t (h_to h) <> RepFlying (Granted rt)) /\
  (forall n, loc s2 n = loc s1 n) /\ (forall t' m', votes s2 t' m' = votes s1 t' m').
Proof. exact no_stale_vote_after_health. Qed.
Print Assumptions c17_el_no_stale_vote_after_health.

(* the hypotheses are satisfiable in an execution: 5 nodes, node 1 follows leader 0 of term 1 and
   hears nothing of the elections of terms 2 (candidate 4, failed) and 3 (0 again); 0's check of term
   3 is accepted (same leader name, later term), and the delayed request of term 2 is refused *)
Example c17_el_same_leader_later_term :
  let s := run cfg5_c17b evs_same_leader_c17b in
  (term (loc s 1), leader (loc s 1)) = (1, Some 0) /\
  (exists h, nth_error (hnet s) 0 = Some h /\ h_to h = 1 /\ h_leader h = 0 /\ h_term h = 3) /\
  rpcs s 4 2 1 = ReqFlying /\
  let s1 := deliver_health s 0 in
  (term (loc s1 1), leader (loc s1 1)) = (3, Some 0) /\
  vote_answer_c17b (deliver_req cfg5_c17b s1 4 2 1) 4 2 1 = Some (false, 3).
Proof. exact same_leader_later_term_c17b. Qed.

(* sendHealthChecks keeps, in EVERY execution and on every node, as many entries in activeNodes
   as this node plus its peers whose failCount is below node_fail_after (node_fail_after >= 1) *)
Theorem c17_part_active_tracks_failcount : forall cfg, 1 <= cfg_fail_limit cfg -> forall evs n,
  length (active_nodes (loc (run cfg evs) n)) = S (length (below_limit_c17b cfg (loc (run cfg evs) n) n)).
Proof. exact active_tracks_failcount. Qed.
Print Assumptions c17_part_active_tracks_failcount.

(* one heartbeat of a leader: failCount = consecutive failed checks of that peer *)
Theorem c17_part_failcount : forall cfg, NoDup (cfg_nodes cfg) -> forall s n d ok p,
  In n (cfg_nodes cfg) -> electing (loc s n) = None -> leader (loc s n) = Some n ->
  fail_count (loc (tick cfg s n d ok) n) p =
  if mem p (peers cfg n) then (if mem p ok then 0 else S (fail_count (loc s n) p)) else fail_count (loc s n) p.
Proof. exact leader_tick_failcount. Qed.
Print Assumptions c17_part_failcount.

(* isPartitioned in every reachable state <-> the node and the peers it has not failed
   node_fail_after times in a row are no more than half of the configured nodes *)
Theorem c17_part_iff : forall cfg, 1 <= cfg_fail_limit cfg -> NoDup (cfg_nodes cfg) -> forall evs n,
  In n (cfg_nodes cfg) ->
  (is_partitioned cfg (run cfg evs) n = true <->
   2 * S (length (below_limit_c17b cfg (loc (run cfg evs) n) n)) <= length (cfg_nodes cfg)).
Proof. exact partitioned_iff_reach. Qed.
Print Assumptions c17_part_iff.

(* Session.dispatch on a partitioned node: NO request - none of the ten kinds, with or without
   extra.asUser, from a root session or not - reaches its handler ... *)
Theorem c17_part_never_handles : forall root r k, dispatch_c17b true root r <> HandlerD k.
Proof. exact dispatch_partitioned_never_handles_c17b. Qed.
Print Assumptions c17_part_never_handles.

(* ... every request that gets as far as the guard is answered by exactly one {ctrl 502} ({note}
   included: the code answers it too), and what is rejected before the guard (extra.asUser of a
   non-root session 403, unparsable 400, no kind 400) is rejected the same way as on a healthy node *)
Theorem c17_part_502 : forall root r,
  well_formed_c17b root r = true -> dispatch_c17b true root r = RepliedD 502.
Proof. exact dispatch_partitioned_502_c17b. Qed.
Print Assumptions c17_part_502.

Theorem c17_part_front_unchanged : forall p root r,
  well_formed_c17b root r = false -> dispatch_c17b p root r = dispatch_c17b false root r.
Proof. exact dispatch_front_c17b. Qed.
Print Assumptions c17_part_front_unchanged.

Theorem c17_part_all_ten_kinds : forall k, In k all_kinds_c17b.
Proof. exact all_kinds_complete_c17b. Qed.
Print Assumptions c17_part_all_ten_kinds.

(* the clause, over all executions: a node that (with the peers below the limit) reaches no more
   than half of the configured nodes serves nothing ... *)
Theorem c17_part_stops_serving : forall cfg, 1 <= cfg_fail_limit cfg -> NoDup (cfg_nodes cfg) ->
  forall evs n root r, In n (cfg_nodes cfg) ->
  2 * S (length (below_limit_c17b cfg (loc (run cfg evs) n) n)) <= length (cfg_nodes cfg) ->
  (forall k, client_request_c17b cfg (run cfg evs) n root r <> HandlerD k) /\
  (well_formed_c17b root r = true -> client_request_c17b cfg (run cfg evs) n root r = RepliedD 502).
Proof. exact partitioned_stops_serving. Qed.
Print Assumptions c17_part_stops_serving.

(* ... and a node that reaches more than half serves every well-formed request (no 502) *)
Theorem c17_part_healthy_serves : forall cfg, 1 <= cfg_fail_limit cfg -> NoDup (cfg_nodes cfg) ->
  forall evs n root r k, In n (cfg_nodes cfg) ->
  length (cfg_nodes cfg) < 2 * S (length (below_limit_c17b cfg (loc (run cfg evs) n) n)) ->
  well_formed_c17b root r = true -> rq_kind r = Some k ->
  client_request_c17b cfg (run cfg evs) n root r = HandlerD k.
Proof. exact healthy_serves. Qed.
Print Assumptions c17_part_healthy_serves.

(* as the property words it: a leader (of any reachable state) none of whose peers answers for
   node_fail_after heartbeats in a row is partitioned and refuses every client request *)
Theorem c17_part_lonely_leader_stops : forall cfg,
  NoDup (cfg_nodes cfg) -> 1 <= cfg_fail_limit cfg -> 2 <= length (cfg_nodes cfg) ->
  forall evs n ds, In n (cfg_nodes cfg) ->
  electing (loc (run cfg evs) n) = None -> leader (loc (run cfg evs) n) = Some n ->
  cfg_fail_limit cfg <= length ds ->
  let evs' := evs ++ map (fun d => Tick n d []) ds in
  is_partitioned cfg (run cfg evs') n = true /\
  forall root r, (forall k, client_request_c17b cfg (run cfg evs') n root r <> HandlerD k) /\
                 (well_formed_c17b root r = true -> client_request_c17b cfg (run cfg evs') n root r = RepliedD 502).
Proof. exact lonely_leader_stops. Qed.
Print Assumptions c17_part_lonely_leader_stops.

(* ------------------------------------------------------------------ *)
(* E. one run of electLeader over the replies that actually arrive (model
   Sys/VoteTallyC17e.v; added when the seeded change C17-r4-1 - one response struct
   shared by all Cluster.Vote calls - was missed).  [c] = the candidate: its name, its
   term and leader on entry, c.nodes with their connected flags (ANY number of nodes);
   [arr] = the replies of the connected nodes as electLeader finds them in call.Error /
   call.Reply, in their order of arrival on the done channel (YES with a term, NO with a
   term, error); a reply that is late is not in the list (the timer case ends the loop). *)

(* the candidate ends as leader of its new term or with no leader, and the term is the
   old one plus one, whatever arrives *)
Theorem c17_elect_outcome : forall c arr,
  oc_term (elect_c17e c arr) = S (cd_term c) /\
  (oc_leader (elect_c17e c arr) = Some (cd_self c) \/ oc_leader (elect_c17e c arr) = None).
Proof. intros c arr. exact (conj (term_eq_c17e c arr) (leader_cases_c17e c arr)). Qed.
Print Assumptions c17_elect_outcome.

(* the threshold as written is the smallest strict majority of ALL configured nodes
   (the len(c.nodes) others and the candidate), and it is the threshold of Sys/Election.v *)
Theorem c17_elect_threshold : forall nc,
  S nc < 2 * expect_c17e nc /\ 2 * (expect_c17e nc - 1) <= S nc.
Proof. exact expect_majority_c17e. Qed.
Print Assumptions c17_elect_threshold.

Theorem c17_elect_threshold_is_election : forall cfg n, expect_c17e (node_count cfg n) = expect_votes cfg n.
Proof. exact expect_is_election_c17e. Qed.
Print Assumptions c17_elect_threshold_is_election.

(* SAFETY, for every node count and EVERY reply list (any length, any order, any terms in
   the replies): a candidate that declares itself leader was given YES replies which,
   with its own vote, are a strict majority of all configured nodes.  NO replies and
   errors never count. *)
Theorem c17_leader_only_on_real_majority : forall c arr,
  oc_leader (elect_c17e c arr) = Some (cd_self c) ->
  expect_c17e (length (cd_peers c)) <= 1 + count_yes_c17e arr /\
  S (length (cd_peers c)) < 2 * (1 + count_yes_c17e arr).
Proof. exact leader_real_majority_c17e. Qed.
Print Assumptions c17_leader_only_on_real_majority.

(* ... whatever the ORDER of arrival: the count is that of the replies GIVEN *)
Theorem c17_leader_only_on_real_majority_any_order : forall c arr arr',
  Permutation arr arr' ->
  oc_leader (elect_c17e c arr') = Some (cd_self c) ->
  S (length (cd_peers c)) < 2 * (1 + count_yes_c17e arr).
Proof. exact leader_any_order_c17e. Qed.
Print Assumptions c17_leader_only_on_real_majority_any_order.

(* EXACT: with at most one reply per request and no NO reply of a term above the
   candidate's, the candidate is leader IFF 1 + the YES replies given reach the threshold
   as written in the code; hence the outcome does not depend on the order of arrival *)
Theorem c17_leader_iff_real_majority : forall c arr,
  length (unconnected_c17e (cd_peers c) ++ arr) <= length (cd_peers c) ->
  (forall rt, In (RNo rt) arr -> rt <= S (cd_term c)) ->
  (oc_leader (elect_c17e c arr) = Some (cd_self c) <->
   expect_c17e (length (cd_peers c)) <= 1 + count_yes_c17e arr).
Proof. exact leader_iff_real_majority_c17e. Qed.
Print Assumptions c17_leader_iff_real_majority.

Theorem c17_leader_order_independent : forall c arr arr',
  Permutation arr arr' ->
  length (unconnected_c17e (cd_peers c) ++ arr) <= length (cd_peers c) ->
  (forall rt, In (RNo rt) arr -> rt <= S (cd_term c)) ->
  (oc_leader (elect_c17e c arr) = Some (cd_self c) <-> oc_leader (elect_c17e c arr') = Some (cd_self c)).
Proof. exact leader_order_independent_c17e. Qed.
Print Assumptions c17_leader_order_independent.

(* the remaining branch: a NO reply of a later term, taken before the threshold is
   reached, ends the election without a leader whatever follows *)
Theorem c17_elect_abandons_on_later_term : forall c pre rt post,
  S (cd_term c) < rt ->
  (forall rt', In (RNo rt') pre -> rt' <= S (cd_term c)) ->
  length (unconnected_c17e (cd_peers c) ++ pre) < length (cd_peers c) ->
  1 + count_yes_c17e pre < expect_c17e (length (cd_peers c)) ->
  oc_leader (elect_c17e c (pre ++ RNo rt :: post)) = None.
Proof. exact leader_abandon_c17e. Qed.
Print Assumptions c17_elect_abandons_on_later_term.

(* the request side: every request carries the candidate's OWN name and its CURRENT
   (already incremented) term, and the connected nodes get exactly one request each *)
Theorem c17_vote_request_names_candidate_and_term : forall c arr,
  (forall p nm t, In (p, (nm, t)) (oc_requests (elect_c17e c arr)) ->
     nm = cd_self c /\ t = oc_term (elect_c17e c arr) /\ t = S (cd_term c) /\ In (p, true) (cd_peers c)) /\
  (forall p, In (p, true) (cd_peers c) -> In (p, (cd_self c, S (cd_term c))) (oc_requests (elect_c17e c arr))) /\
  map fst (oc_requests (elect_c17e c arr)) = map fst (filter snd (cd_peers c)).
Proof.
  intros c arr. exact (conj (requests_ok_c17e c arr) (conj (requests_all_c17e c arr) (requests_receivers_c17e c arr))).
Qed.
Print Assumptions c17_vote_request_names_candidate_and_term.

(* NO TWO LEADERS: two candidates (of one term) whose YES replies were really given by
   voters that give at most one vote ([ballot] is a function of the voter) and that
   voted for themselves: if both runs of electLeader end with a leader, it is the same
   node.  Any number of nodes, any replies, any orders of arrival. *)
Theorem c17_no_two_leaders_on_real_replies : forall nodes ballot c1 c2 ord1 ord2 rep1 rep2,
  view_ok_c17e nodes ballot c1 ord1 rep1 -> view_ok_c17e nodes ballot c2 ord2 rep2 ->
  oc_leader (elect_c17e c1 (map rep1 ord1)) = Some (cd_self c1) ->
  oc_leader (elect_c17e c2 (map rep2 ord2)) = Some (cd_self c2) ->
  cd_self c1 = cd_self c2.
Proof. exact no_two_leaders_c17e. Qed.
Print Assumptions c17_no_two_leaders_on_real_replies.

(* ... with the voters of part B: in ANY reachable state of the election model the ghost
   [votes s T] (at most one vote per node and term: c17_el_one_vote_per_term, c17_el_grant)
   is such a ballot *)
Theorem c17_no_two_leaders_election_votes : forall cfg evs T c1 c2 ord1 ord2 rep1 rep2,
  NoDup (cfg_nodes cfg) ->
  view_el_c17e cfg (run cfg evs) T c1 ord1 rep1 -> view_el_c17e cfg (run cfg evs) T c2 ord2 rep2 ->
  oc_leader (elect_c17e c1 (map rep1 ord1)) = Some (cd_self c1) ->
  oc_leader (elect_c17e c2 (map rep2 ord2)) = Some (cd_self c2) ->
  cd_self c1 = cd_self c2 /\ oc_term (elect_c17e c1 (map rep1 ord1)) = oc_term (elect_c17e c2 (map rep2 ord2)).
Proof. exact no_two_leaders_election_c17e. Qed.
Print Assumptions c17_no_two_leaders_election_votes.

(* the hypotheses are satisfiable and the statements not vacuous: 5 nodes, candidate 0 of
   term 1; one YES and three NO replies in either order elect nobody, two YES replies do,
   and the loop stops at the reply that completes the majority *)
Example c17_elect_split_vote :
  oc_leader (elect_c17e demo_cand_c17e [RYes 1; RNo 1; RNo 1; RNo 1]) = None /\
  oc_leader (elect_c17e demo_cand_c17e [RNo 1; RNo 1; RNo 1; RYes 1]) = None /\
  oc_leader (elect_c17e demo_cand_c17e [RYes 1; RNo 1; RYes 1]) = Some 0 /\
  tl_taken (oc_tally (elect_c17e demo_cand_c17e [RYes 1; RNo 1; RYes 1; RNo 1])) = 3.
Proof. exact demo_split_c17e. Qed.
