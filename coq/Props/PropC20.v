(* C20  Identifiers and topic names mean the same in every encoding
   (part A: Uid codecs, prefixed forms, group/channel names, p2p names; the
   protobuf/JSON half of the property is not covered by this file).
   Theorems only; each is closed by [exact] of a lemma of Base/Base64Proofs.v,
   Pure/UidProofs.v or Pure/P2PProofs.v.  Every statement about an id carries
   the bound u < 2^64 (two64) explicitly; none is proved by sampling. *)
From Coq Require Import NArith ZArith List Bool.
From Tinode Require Import Base.Util Base.Base64 Base.Base64Proofs Pure.Uid Pure.UidProofs
  Pure.P2PName Pure.P2PProofs.
Import ListNotations.
Open Scope N_scope.

(* Go's unpadded URL base64: Decode (Encode bs) = bs for every byte string *)
Theorem c20_base64_roundtrip : forall bs, Forall lt256 bs -> fst (b64_decode (b64_encode bs)) = bs.
Proof. exact b64_decode_encode. Qed.
Print Assumptions c20_base64_roundtrip.

(* numeric <-> base64 text (String / ParseUid); the zero id is the empty text *)
Theorem uid_text_roundtrip : forall u, u < two64 -> parse_uid (uid_string u) = u.
Proof. exact parse_uid_string. Qed.
Print Assumptions uid_text_roundtrip.

Theorem uid_unmarshal_marshal : forall cur u, u < two64 -> u <> 0 ->
  unmarshal_text cur (marshal_text u) = (u, true).
Proof. exact text_roundtrip. Qed.
Print Assumptions uid_unmarshal_marshal.

(* JSON form *)
Theorem uid_json_roundtrip : forall cur u, u < two64 -> u <> 0 ->
  unmarshal_json cur (marshal_json u) = (u, true).
Proof. exact json_roundtrip. Qed.
Print Assumptions uid_json_roundtrip.

(* the zero id ("no such id") is written as "" and refused on the way back:
   the receiver keeps its value and an error is reported *)
Theorem uid_json_zero : forall cur, unmarshal_json cur (marshal_json 0) = (cur, false).
Proof. exact json_zero. Qed.
Print Assumptions uid_json_zero.

(* binary (little endian) form *)
Theorem uid_binary_roundtrip : forall cur u, u < two64 ->
  unmarshal_binary cur (marshal_binary u) = (u, true).
Proof. exact binary_roundtrip. Qed.
Print Assumptions uid_binary_roundtrip.

(* prefixed forms: usr (UserId / ParseUserId) and any three-letter prefix
   (fnd, grp, chn: the id is what follows the prefix) *)
Theorem uid_usr_roundtrip : forall u, u < two64 -> parse_user_id (user_id u) = u.
Proof. exact user_id_roundtrip. Qed.
Print Assumptions uid_usr_roundtrip.

Theorem uid_prefix_roundtrip : forall a b c u, u < two64 -> u <> 0 ->
  has_prefix (prefix_id [a; b; c] u) [a; b; c] = true /\
  parse_uid (skipn 3 (prefix_id [a; b; c] u)) = u.
Proof. exact prefix_roundtrip. Qed.
Print Assumptions uid_prefix_roundtrip.

(* base32 form (String32 / ParseUid32), for the code AFTER the repair
   findings/C20_uid32.diff *)
Theorem uid32_roundtrip : forall u, u < two64 -> parse_uid32 (string32 u) = u.
Proof. exact UidProofs.uid32_roundtrip. Qed.
Print Assumptions uid32_roundtrip.

(* the code as found: the full statement, kept, and its refutation *)
Definition uid32_roundtrip_unrepaired_statement : Prop :=
  forall u, u < two64 -> parse_uid32_unrepaired (string32 u) = u.
Theorem uid32_roundtrip_unrepaired_refuted : ~ uid32_roundtrip_unrepaired_statement.
Proof. exact UidProofs.uid32_roundtrip_unrepaired_refuted. Qed.
Print Assumptions uid32_roundtrip_unrepaired_refuted.

(* database form; the XTEA cipher is external: ANY pair of functions that are
   mutually inverse on 8-byte blocks *)
Theorem uid_db_roundtrip : forall enc dec : list N -> list N,
  (forall b, block8 b -> block8 (enc b)) -> (forall b, block8 b -> block8 (dec b)) ->
  (forall b, block8 b -> dec (enc b) = b) -> (forall b, block8 b -> enc (dec b) = b) ->
  (forall u, u < two64 -> encode_int64 enc (decode_uid dec u) = u) /\
  (forall z, (-9223372036854775808 <= z < 9223372036854775808)%Z ->
             decode_uid dec (encode_int64 enc z) = z /\ encode_int64 enc z < two64).
Proof.
  intros enc dec He Hd Hde Hed. split; [exact (db_roundtrip enc dec Hd Hed)|].
  intros z Hz. split; [exact (db_roundtrip_int enc dec He Hde z Hz)|exact (db_encode_bound enc He z)].
Qed.
Print Assumptions uid_db_roundtrip.

(* no text decodes to SOMEBODY ELSE's id: a text that decodes to a non-zero id
   u is one of the four spellings of u - the canonical text u.String() or one
   of the three texts that differ from it only in the two unused trailing bits
   of the last character (Go's non-strict decoding does not check them) *)
Theorem uid_decode_sound : forall s u, parse_uid s = u -> u <> 0 ->
  u < two64 /\ In s (spellings u).
Proof. exact parse_uid_sound. Qed.
Print Assumptions uid_decode_sound.

(* the four spellings are exactly that: each decodes to u, and the first is
   the canonical text *)
Theorem uid_spellings_decode : forall u s, u < two64 -> In s (spellings u) -> parse_uid s = u.
Proof. exact spellings_decode. Qed.
Print Assumptions uid_spellings_decode.

Theorem uid_spelling_canonical : forall u, u <> 0 -> uid_string u = spelling u 0.
Proof. exact spelling_0. Qed.
Print Assumptions uid_spelling_canonical.

Theorem uid_usr_decode_sound : forall s u, parse_user_id s = u -> u <> 0 ->
  u < two64 /\ exists t, s = s_usr ++ t /\ In t (spellings u).
Proof. exact parse_user_id_sound. Qed.
Print Assumptions uid_usr_decode_sound.

Theorem uid_json_decode_sound : forall cur b v, unmarshal_json cur b = (v, true) ->
  v < two64 /\ exists k, k < 4 /\ b = cQuote :: spelling v k ++ [cQuote].
Proof. exact unmarshal_json_sound. Qed.
Print Assumptions uid_json_decode_sound.

(* invalid text - wrong length, or any character outside the alphabet, CR and
   LF included - is refused and leaves the receiver unchanged (so ParseUid and
   ParseUserId give the zero id) *)
Theorem uid_invalid_text_rejected : forall s,
  length s <> 11%nat \/ forallb valid_char s = false ->
  forall cur, unmarshal_text cur s = (cur, false).
Proof. exact parse_uid_invalid. Qed.
Print Assumptions uid_invalid_text_rejected.

Theorem uid_invalid_text_zero : forall s,
  length s <> 11%nat \/ forallb valid_char s = false -> parse_uid s = 0.
Proof. intros s H. unfold parse_uid. now rewrite (parse_uid_invalid s H 0). Qed.
Print Assumptions uid_invalid_text_zero.

Theorem uid_usr_bad_prefix : forall s, has_prefix s s_usr = false -> parse_user_id s = 0.
Proof. exact parse_user_id_bad_prefix. Qed.
Print Assumptions uid_usr_bad_prefix.

(* peer-to-peer topic names *)
Theorem p2p_commutes : forall a b, p2p_name a b = p2p_name b a.
Proof. exact P2PProofs.p2p_commutes. Qed.
Print Assumptions p2p_commutes.

Theorem p2p_parse : forall a b, valid_uid a -> valid_uid b -> a <> b ->
  parse_p2p (p2p_name a b) = Some (N.min a b, N.max a b).
Proof. exact P2PProofs.p2p_parse. Qed.
Print Assumptions p2p_parse.

Theorem p2p_injective : forall a b c d,
  valid_uid a -> valid_uid b -> valid_uid c -> valid_uid d -> a <> b -> c <> d ->
  p2p_name a b = p2p_name c d -> (a = c /\ b = d) \/ (a = d /\ b = c).
Proof. exact P2PProofs.p2p_injective. Qed.
Print Assumptions p2p_injective.

Theorem p2p_for_user : forall a b, valid_uid a -> valid_uid b -> a <> b ->
  p2p_name_for_user a (p2p_name a b) = Some (user_id b) /\
  p2p_name_for_user b (p2p_name a b) = Some (user_id a).
Proof. exact P2PProofs.p2p_for_user. Qed.
Print Assumptions p2p_for_user.

(* what the code does for a zero id or for a = b: no name at all, and the
   empty name does not parse *)
Theorem p2p_no_self : forall a b, a = 0 \/ b = 0 \/ a = b ->
  p2p_name a b = [] /\ parse_p2p (p2p_name a b) = None.
Proof. exact P2PProofs.p2p_no_self. Qed.
Print Assumptions p2p_no_self.

Theorem p2p_name_form : forall a b, valid_uid a -> valid_uid b -> a <> b ->
  exists body, p2p_name a b = s_p2p ++ body /\ length body = 22%nat.
Proof. exact p2p_name_nonempty. Qed.
Print Assumptions p2p_name_form.

Theorem p2p_unparsable_hidden : forall u s, parse_p2p s = None -> p2p_name_for_user u s = None.
Proof. exact p2p_for_user_unparsable. Qed.
Print Assumptions p2p_unparsable_hidden.

(* ParseP2P on arbitrary names: a name that parses spells exactly the pair it
   parses to - "p2p" + the canonical 22 characters of LE(x)||LE(y), up to the 4
   unused trailing bits of the last character (16 spellings); bad prefix,
   wrong length or any character outside the alphabet is rejected.  (ParseP2P
   does not require x < y or non-zero halves: it only decodes.) *)
Theorem p2p_decode_sound : forall s x y, parse_p2p s = Some (x, y) ->
  x < two64 /\ y < two64 /\ exists k, k < 16 /\ s = s_p2p ++ pair_spelling x y k.
Proof. exact parse_p2p_sound. Qed.
Print Assumptions p2p_decode_sound.

Theorem p2p_invalid_rejected : forall s,
  has_prefix s s_p2p = false \/ length (skipn 3 s) <> 22%nat \/
  forallb valid_char (skipn 3 s) = false -> parse_p2p s = None.
Proof. exact parse_p2p_rejects. Qed.
Print Assumptions p2p_invalid_rejected.

(* group and channel spellings of a name convert into each other without loss *)
Theorem grp_chn_inverse : forall s, has_prefix s s_grp = true ->
  chn_to_grp (grp_to_chn s) = s /\ is_channel (grp_to_chn s) = true /\
  skipn 3 (grp_to_chn s) = skipn 3 s /\ chn_to_grp s = s.
Proof. exact UidProofs.grp_chn_inverse. Qed.
Print Assumptions grp_chn_inverse.

Theorem chn_grp_inverse : forall s, has_prefix s s_chn = true ->
  grp_to_chn (chn_to_grp s) = s /\ is_channel s = true /\
  skipn 3 (chn_to_grp s) = skipn 3 s /\ grp_to_chn s = s.
Proof. exact UidProofs.chn_grp_inverse. Qed.
Print Assumptions chn_grp_inverse.

Theorem grp_chn_other_names : forall s, has_prefix s s_grp = false -> has_prefix s s_chn = false ->
  grp_to_chn s = [] /\ chn_to_grp s = [] /\ is_channel s = false.
Proof. exact grp_chn_other. Qed.
Print Assumptions grp_chn_other_names.

(* non-vacuity: concrete instances ("AQAAAAAAAAA" is id 1; its other spellings end in B, C, D) *)
Example c20_ex_text : uid_string 1 = [65; 81; 65; 65; 65; 65; 65; 65; 65; 65; 65] /\
  parse_uid [65; 81; 65; 65; 65; 65; 65; 65; 65; 65; 66] = 1.
Proof. split; reflexivity. Qed.
Example c20_ex_valid : valid_uid 1 /\ valid_uid 18446744073709551615.
Proof. repeat split; discriminate. Qed.
Example c20_ex_p2p : parse_p2p (p2p_name 5 3) = Some (3, 5).
Proof. reflexivity. Qed.
Example c20_ex_uid32 : parse_uid32 (string32 1) = 1 /\ parse_uid32_unrepaired (string32 1) = 0.
Proof. split; reflexivity. Qed.
Example c20_ex_crlf : parse_uid [65; 81; 65; 65; 65; 65; 65; 65; 65; 65; 10] = 0.
Proof. reflexivity. Qed.
(* the identity cipher satisfies the hypotheses of uid_db_roundtrip *)
Example c20_ex_cipher : let id := fun b : list N => b in
  (forall b, block8 b -> block8 (id b)) /\ (forall b, block8 b -> id (id b) = b).
Proof. split; auto. Qed.

(* ======================================================================================
   Part B: a request received over gRPC is interpreted exactly as the same request received
   as JSON, and every reply field that the protobuf schema defines carries the same value as
   in the JSON rendering (server/pbconverter.go).  Messages are lists of typed leaves; the
   converters are abstracted by a table probed from the current build on every run
   (Gen/GenPb.v); the theorems hold for EVERY table that passes the decidable check
   [table_ok] / [table_ok_srv], for every message (any number of leaves, any list lengths, any
   map keys, any values).  The per-run obligations on the probed tables are in Gen/ObC20pb.v.
   "=norm" is equality of [norm_msg]: ints modulo 2^32 in the int32 range, times truncated to
   whole milliseconds and only after the epoch, enum spellings in upper case with the zero
   value's spelling = absent, zero values = absent. *)
From Coq Require Import String.
From Tinode Require Import Sys.PbTable Sys.PbTableProofs.
Local Open Scope Z_scope.

Theorem pb_request_equiv : forall t, table_ok t = true -> forall m, wf_msg t m = true ->
  norm_msg t (deser t (ser t m)) = norm_msg t m.
Proof. exact request_equiv. Qed.
Print Assumptions pb_request_equiv.

(* the converters treat every leaf on its own ... *)
Theorem pb_request_leafwise : forall t m, deser t (ser t m) = flat_map (rt_leaf t) m.
Proof. exact rt_homomorphic. Qed.
Print Assumptions pb_request_leafwise.

(* ... so one good row guarantees its leaf in every message, whatever the other rows are *)
Theorem pb_request_leaf : forall t p v, leaf_ok t (fst p) = true -> wf_leaf_t t (p, v) = true ->
  norm_msg t (rt_leaf t (p, v)) = norm_msg t [(p, v)].
Proof. exact request_leaf. Qed.
Print Assumptions pb_request_leaf.

Theorem pb_request_no_panic : forall t, table_ok t = true -> forall m, panics t m = false.
Proof. exact table_ok_no_panic. Qed.
Print Assumptions pb_request_no_panic.

(* the premise is needed: a single Dropped row breaks the equivalence for every value that is not absent *)
Theorem pb_table_ok_needed : forall sp k v v', norm k v = Some v' ->
  let t := [(sp, k, Dropped)] in
  norm_msg t (deser t (ser t [((sp, []), v)])) <> norm_msg t [((sp, []), v)].
Proof. exact dropped_breaks. Qed.
Print Assumptions pb_table_ok_needed.

Theorem pb_reply_fields : forall t, table_ok_srv t = true ->
  forall m p v k q f, In (p, v) m -> find_srow t (fst p) = Some (k, q, f) -> in_schema_f f = true ->
  wf_leaf k v = true ->
  forall v', norm k v = Some v' ->
  exists w, In ((q, snd p), w) (ser_srv t m) /\ obind (bwd k w) (norm k) = Some v'.
Proof. exact reply_fields. Qed.
Print Assumptions pb_reply_fields.

Theorem pb_reply_no_invention : forall t m q w, In (q, w) (ser_srv t m) ->
  exists p v k f, In (p, v) m /\ find_srow t (fst p) = Some (k, fst q, f) /\ snd q = snd p /\ fwd k v = Some w.
Proof. exact reply_no_invention. Qed.
Print Assumptions pb_reply_no_invention.

(* whole replies: reading the protobuf rendering back gives the normalised JSON rendering of the
   fields the schema defines, leaf for leaf and in order *)
Theorem pb_reply_read_back : forall t, table_ok_srv t = true -> forall m, wf_smsg t m = true ->
  deser_srv t (ser_srv t m) = norm_srv t m.
Proof. exact reply_read_back. Qed.
Print Assumptions pb_reply_read_back.

(* leaf kinds *)
Theorem pb_leaf_roundtrip : forall k v, kind_ok k = true -> wf_leaf k v = true ->
  obind (obind (fwd k v) (bwd k)) (norm k) = norm k v.
Proof. exact leaf_roundtrip. Qed.
Print Assumptions pb_leaf_roundtrip.

Theorem pb_int32_roundtrip : forall z, -2147483648 <= z <= 2147483647 -> z <> 0 ->
  obind (fwd KInt (LInt z)) (bwd KInt) = Some (LInt z).
Proof. exact int32_roundtrip. Qed.
Print Assumptions pb_int32_roundtrip.

Theorem pb_int32_wrap : forall z, -2147483648 <= wrap32 z <= 2147483647 /\ (wrap32 z - z) mod 4294967296 = 0.
Proof. intro z. split; [exact (wrap32_range z)|exact (wrap32_congr z)]. Qed.
Print Assumptions pb_int32_wrap.

Theorem pb_time_ms_roundtrip : forall ms, 0 < ms ->
  obind (fwd KTime (LTime (ns_of_ms ms))) (bwd KTime) = Some (LTime (ns_of_ms ms)).
Proof. exact time_ms_roundtrip. Qed.
Print Assumptions pb_time_ms_roundtrip.

Theorem pb_time_truncation : forall ns, 0 < ms_of_ns ns ->
  obind (fwd KTime (LTime ns)) (bwd KTime) = Some (LTime (ns_of_ms (ms_of_ns ns))).
Proof. exact time_truncation. Qed.
Print Assumptions pb_time_truncation.

Theorem pb_enum_bijective : forall e, enum_bij e = true -> forall n s, In (n, s) (e_deser e) -> n <> 0 ->
  enum_ser e s = n /\ enum_deser e (enum_ser e s) = Some s /\ -2147483648 <= n <= 2147483647.
Proof. exact enum_bij_sound. Qed.
Print Assumptions pb_enum_bijective.

Theorem pb_norm_idempotent : forall z ns,
  obind (norm KInt (LInt z)) (norm KInt) = norm KInt (LInt z) /\
  obind (norm KTime (LTime ns)) (norm KTime) = norm KTime (LTime ns).
Proof. intros z ns. split; [exact (norm_idem_int z)|exact (norm_idem_time ns)]. Qed.
Print Assumptions pb_norm_idempotent.

(* non-vacuity: a small table with an enum passes the checks; a wide int wraps; a sub-millisecond time truncates *)
Example c20_ex_pb_table :
  let e := {| e_ser := [("auth"%string, 20); ("AUTH"%string, 20)]; e_deser := [(20, "AUTH"%string)]; e_zero := "NONE"%string |} in
  let t := [("acc.authlevel"%string, KEnum e, Transformed XEnum); ("note.seq"%string, KInt, Transformed XInt32);
            ("get.sub.ims"%string, KTime, Transformed XMs)] in
  table_ok t = true /\
  wf_msg t [(("acc.authlevel"%string, []), LStr "auth"%string)] = true /\
  norm_msg t (deser t (ser t [(("acc.authlevel"%string, []), LStr "auth"%string); (("note.seq"%string, []), LInt 4294967301);
                              (("get.sub.ims"%string, []), LTime 1700000000123456789)])) =
    [(("acc.authlevel"%string, []), LStr "AUTH"%string); (("note.seq"%string, []), LInt 5);
     (("get.sub.ims"%string, []), LTime 1700000000123000000)].
Proof. vm_compute. repeat split. Qed.
