(* C20 placeholder while the pipeline is brought up *)
From Coq Require Import NArith.
From Tinode Require Import Base.Base64 Pure.Uid Pure.P2PName.
