(* placeholder while the correspondence is being validated *)
From Tinode Require Import Sys.Fanout.
