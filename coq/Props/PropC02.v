(* C02  Each accepted message reaches exactly the attached readers, once, unaltered.
   Theorems only, over the model Sys/Fanout.v (a statement-by-statement translation of
   Session.publish, handlePubBroadcast, saveAndBroadcastMessage, broadcastToSessions,
   prepareBroadcastableMessage, msg.copy, pushForData and of the requests that change what they
   read); each is closed by [exact] of a lemma of Sys/FanoutProofs.v.

   The one-publish theorems hold from EVERY state: any number of users and sessions, any permission
   bits, consistent or not - hence at every point of every history.  The history theorems are by
   induction over an arbitrary list of requests.  A full send buffer is explicit: the copy is
   [Overflow], the session is detached by the same publish; "delivered" always means [Sent].

   Two clauses of the property are REFUTED by the faithful model, replayed on the real server and
   recorded in findings/C02.md; each is kept as a [_statement] with a [_refuted] witness and a
   [_partial] theorem whose extra hypothesis excludes exactly the trigger:
     - the author is withheld from channel readers   (a channel reader who attaches a second
       connection under the grpXXX name is shown the author),
     - every copy names the topic as the recipient addresses it   (a publish to a plain group
       written as chnXXX is delivered under that name). *)
From Coq Require Import ZArith NArith List Bool Permutation Sorted.
From Tinode Require Import Sys.Fanout Sys.FanoutProofs.
From Tinode Require Import Sys.FanoutBkgC02 Sys.FanoutBkgC02Proofs Sys.FanoutBkgC02Steps Sys.FanoutBkgC02Runs Sys.FanoutBkgC02Push.
Import ListNotations.
Open Scope N_scope.

(* ---- acceptance ------------------------------------------------------------------------- *)
(* A publish is accepted iff the connection is attached, the message is not a call invitation and
   the author has W in want & given; a refused publish changes nothing and sends no copy. *)
Theorem c02_accepted_iff : forall st px,
  ((exists q a c p, fst (publish st px) = PAccepted q a c p) <-> accepts st px = true) /\
  (accepts st px = false -> snd (publish st px) = st /\ emitted (Some (fst (publish st px))) = []).
Proof.
  intros st px. split; [exact (accepted_iff st px)|]. intros H. destruct (publish_refused st px H) as [H1 H2].
  split; [exact H1|]. destruct H2 as [ -> | [ -> | -> ] ]; reflexivity.
Qed.
Print Assumptions c02_accepted_iff.

(* The outcome of an accepted publish: the id is lastID + 1, the copies are [fanout_all], the push
   is [push_rcpt], the counter is advanced, and exactly the sessions whose queue was full are
   detached. *)
Theorem c02_accepted_outcome : forall st px q a c p st',
  publish st px = (PAccepted q a c p, st') ->
  q = (st_lastid st + 1)%Z /\ c = fanout_all st px /\ p = push_rcpt st /\ st_lastid st' = q /\
  forall k, In k (map fst (st_sess st')) <-> In k (map fst (st_sess st)) /\ ~ In k (overflowed (fanout_all st px)).
Proof. exact overflow_detached. Qed.
Print Assumptions c02_accepted_outcome.

(* ---- exactly the attached readers, once ------------------------------------------------- *)
(* [eligible] = (the acting user has R in want & given, or the session is a channel subscription)
   and it is not the publishing session when no echo was asked.  The sessions for which a copy is
   made are exactly the attached eligible ones; if the session table is a map, each exactly once. *)
Theorem c02_exact_set : forall st px,
  Permutation (map fst (fanout_all st px)) (map fst (filter (eligible st px) (st_sess st))) /\
  (wf_sess st -> NoDup (map fst (fanout_all st px))) /\
  (forall s, In s (map fst (fanout_all st px)) <->
             exists d, In (s, d) (st_sess st) /\ eligible st px (s, d) = true).
Proof. exact exact_set. Qed.
Print Assumptions c02_exact_set.

Theorem c02_one_copy_each : forall st px (s : sid),
  wf_sess st ->
  count_occ N.eq_dec (map fst (fanout_all st px)) s =
  match lookup s (st_sess st) with
  | Some d => if eligible st px (s, d) then 1%nat else 0%nat
  | None => 0%nat
  end.
Proof. exact one_copy_each. Qed.
Print Assumptions c02_one_copy_each.

(* delivered / dropped, with the full queue explicit *)
Theorem c02_delivered_set : forall st px s f,
  In (s, f) (fanout st px) <->
  exists d, In (s, d) (st_sess st) /\ eligible st px (s, d) = true /\ is_full st s = false /\
            f = prepare st d (data_msg st px).
Proof. exact delivered_set. Qed.
Print Assumptions c02_delivered_set.

Theorem c02_overflow_set : forall st px s,
  In s (overflowed (fanout_all st px)) <->
  exists d, In (s, d) (st_sess st) /\ eligible st px (s, d) = true /\ is_full st s = true.
Proof. exact overflow_set. Qed.
Print Assumptions c02_overflow_set.

(* no connection stuck: the delivered copies are exactly the eligible attached sessions *)
Theorem c02_exact_set_no_overflow : forall st px,
  (forall s, is_full st s = false) ->
  map fst (fanout st px) = map fst (filter (eligible st px) (st_sess st)) /\
  overflowed (fanout_all st px) = [] /\
  (wf_sess st -> NoDup (map fst (fanout st px))).
Proof.
  intros st px H. destruct (exact_set_no_overflow st px H) as [H1 H2]. split; [exact H1|]. split; [exact H2|].
  exact (delivered_NoDup st px).
Qed.
Print Assumptions c02_exact_set_no_overflow.

(* ---- unaltered ---------------------------------------------------------------------------- *)
(* Every delivered copy carries the acknowledged id, the published content, and the published head
   except [sender]: that one is present iff the session acts on behalf of another user, and is then
   the session's real user - whatever the client wrote there. *)
Theorem c02_content_unaltered : forall st px s f,
  In (s, f) (fanout st px) ->
  f_seq f = (st_lastid st + 1)%Z /\ f_content f = px_content px /\
  hdel K_SENDER (f_head f) = hdel K_SENDER (px_head px) /\
  hget K_SENDER (f_head f) = (if obo px then Some (px_real px) else None) /\
  (forall k, k <> K_SENDER -> hget k (f_head f) = hget k (px_head px)).
Proof. exact copy_payload. Qed.
Print Assumptions c02_content_unaltered.

Theorem c02_copies_agree : forall st px s1 f1 s2 f2,
  In (s1, f1) (fanout st px) -> In (s2, f2) (fanout st px) ->
  f_seq f1 = f_seq f2 /\ f_content f1 = f_content f2 /\ f_head f1 = f_head f2.
Proof. exact copies_agree. Qed.
Print Assumptions c02_copies_agree.

(* ---- the author ---------------------------------------------------------------------------- *)
(* what the code does: the author is blanked iff the SESSION is a channel subscription *)
Theorem c02_author_by_subscription : forall st px s f,
  In (s, f) (fanout st px) ->
  exists d, In (s, d) (st_sess st) /\ f_from f = if ss_chan d then 0 else px_author px.
Proof. exact author_by_session. Qed.
Print Assumptions c02_author_by_subscription.

(* the property: withheld from channel READERS (the session is a channel subscription or the user it
   acts for is a channel reader), shown to everybody else *)
Definition c02_author_statement : Prop := author_statement.

Definition w1_users : list (uid * pud) := [(1, mkPud 255 255 false false 0 1%Z); (3, mkPud 11 11 false true 0 2%Z)].
Definition w1_st : state := mkState KChn 1 47 w1_users [(1, mkPsd 1 false); (3, mkPsd 3 true); (4, mkPsd 3 false)] 0%Z [] [(3, 11)] [].
Definition w1_px : pubctx := mkPx 1 1 1 TGrp false true 101 [].
Definition w1_f : frame := mkFrame TChn 1 1%Z 101 [].
Example w1_delivered : In (4, w1_f) (fanout w1_st w1_px).
Proof. vm_compute. right. right. now left. Qed.
Example w1_wf : wf_sess w1_st.
Proof. unfold wf_sess. cbn. repeat constructor; cbn; intuition discriminate. Qed.

Theorem c02_author_refuted : ~ c02_author_statement.
Proof.
  intros H. destruct (H w1_st w1_px 4 w1_f w1_wf w1_delivered) as [d [Hin Hf]].
  cbn in Hin. destruct Hin as [Hin|[Hin|[Hin|[]]]]; inversion Hin; subst; vm_compute in Hf; discriminate.
Qed.
Print Assumptions c02_author_refuted.

(* the witness state is reachable: a channel reader attaches one connection as chnXXX and a second
   one as grpXXX *)
Definition w1_init : state := init KChn 1 47 [(1, mkPud 255 255 false false 0 0%Z)] [].
Definition w1_ops : list op := [OAttach 1 1 false; OAttach 3 3 true; OAttach 4 3 false].
Definition c02_author_history_statement : Prop :=
  forall ops px s f, let st := fst (run w1_init ops) in
    In (s, f) (fanout st px) ->
    exists d, In (s, d) (st_sess st) /\ f_from f = if chan_reader st d then 0 else px_author px.
Theorem c02_author_history_refuted : ~ c02_author_history_statement.
Proof.
  intros H. specialize (H w1_ops w1_px 4 w1_f). cbv zeta in H.
  assert (Hin : In (4, w1_f) (fanout (fst (run w1_init w1_ops)) w1_px)) by (vm_compute; right; right; now left).
  destruct (H Hin) as [d [Hd Hf]]. vm_compute in Hd.
  destruct Hd as [Hd|[Hd|[Hd|[]]]]; inversion Hd; subst; vm_compute in Hf; discriminate.
Qed.
Print Assumptions c02_author_history_refuted.

(* excluded trigger: in states where "channel subscription" and "channel reader" agree *)
Theorem c02_author_partial : forall st px s f,
  chan_consistent st -> In (s, f) (fanout st px) ->
  exists d, In (s, d) (st_sess st) /\ f_from f = if chan_reader st d then 0 else px_author px.
Proof. exact author_partial. Qed.
Print Assumptions c02_author_partial.

Definition w2_st : state := mkState KChn 1 47 w1_users [(1, mkPsd 1 false); (3, mkPsd 3 true)] 0%Z [] [(3, 11)] [].
Example w2_consistent : chan_consistent w2_st.
Proof. intros s d Hin. cbn in Hin. destruct Hin as [Hin|[Hin|[]]]; inversion Hin; subst; reflexivity. Qed.

(* ---- the topic name as seen ----------------------------------------------------------------- *)
Theorem c02_name_p2p : forall st px s f,
  st_kind st = KP2P -> In (s, f) (fanout st px) ->
  exists d, In (s, d) (st_sess st) /\
    (forall p, ss_uid d <> 0 -> lookup (ss_uid d) (st_users st) = Some p -> f_topic f = TUsr (pu_peer p)).
Proof. exact name_p2p. Qed.
Print Assumptions c02_name_p2p.

Theorem c02_name_chn : forall st px s f,
  st_kind st = KChn -> In (s, f) (fanout st px) ->
  exists d, In (s, d) (st_sess st) /\ f_topic f = if chan_reader st d then TChn else TGrp.
Proof. exact name_chn. Qed.
Print Assumptions c02_name_chn.

(* plain group: every recipient addresses the topic as grpXXX *)
Definition c02_name_grp_statement : Prop :=
  forall st px s f, st_kind st = KGrp -> routes st px -> In (s, f) (fanout st px) -> f_topic f = TGrp.

Definition w3_st : state := mkState KGrp 1 47 [(1, mkPud 255 255 false false 0 1%Z); (2, mkPud 47 47 false false 0 1%Z)]
                                    [(1, mkPsd 1 false); (2, mkPsd 2 false)] 0%Z [] [] [].
Definition w3_px : pubctx := mkPx 2 2 2 TChn false true 101 [].
Theorem c02_name_grp_refuted : ~ c02_name_grp_statement.
Proof.
  intros H. assert (Hin : In (1, mkFrame TChn 2 1%Z 101 []) (fanout w3_st w3_px)) by (vm_compute; now left).
  specialize (H w3_st w3_px 1 _ eq_refl (or_intror eq_refl) Hin). discriminate.
Qed.
Print Assumptions c02_name_grp_refuted.

Theorem c02_name_grp_partial : forall st px s f,
  st_kind st = KGrp -> px_orig px = TGrp -> In (s, f) (fanout st px) -> f_topic f = TGrp.
Proof. intros st px s f Hk Ho Hin. rewrite <- Ho. exact (name_grp st px s f Hk Hin). Qed.
Print Assumptions c02_name_grp_partial.

Theorem c02_name_grp_as_published : forall st px s f,
  st_kind st = KGrp -> In (s, f) (fanout st px) -> f_topic f = px_orig px.
Proof. exact name_grp. Qed.
Print Assumptions c02_name_grp_as_published.

(* ---- order ------------------------------------------------------------------------------------ *)
(* Over any list of requests from any state whose session table is a map: the ids of the copies
   delivered to one session are strictly increasing, lie above the starting counter and never above
   the final one. *)
Theorem c02_order : forall ops st,
  wf_sess st ->
  let st' := fst (run st ops) in
  let tr := snd (run st ops) in
  wf_sess st' /\ (st_lastid st <= st_lastid st')%Z /\
  (forall s f, In (s, f) tr -> (st_lastid st < f_seq f <= st_lastid st')%Z) /\
  (forall s, StronglySorted Z.lt (map f_seq (frames_to s tr))).
Proof. exact run_order. Qed.
Print Assumptions c02_order.

(* ---- push --------------------------------------------------------------------------------------- *)
(* The receipt is addressed exactly to the users in perUser that are not deleted, not channel
   readers and have both R and P in want & given; the channel address is set iff the topic is
   channel-enabled; no receipt at all iff nobody qualifies and there is no channel. *)
Theorem c02_push_exact : forall st,
  (forall u, In u (push_to st) <->
     exists p, In (u, p) (st_users st) /\ has (eff p) bR = true /\ has (eff p) bP = true /\
               pu_deleted p = false /\ pu_ischan p = false) /\
  (wf_users st -> NoDup (push_to st)) /\
  (let ch := match st_kind st with KChn => true | _ => false end in
   match push_rcpt st with
   | Some (to, c) => to = push_to st /\ c = ch /\ (to <> [] \/ ch = true)
   | None => push_to st = [] /\ ch = false
   end).
Proof.
  intros st. split; [|split; [exact (push_to_NoDup st)|exact (push_rcpt_spec st)]].
  intros u. rewrite push_to_spec. split; intros [p [H1 H2]]; exists p; (split; [exact H1|]); now apply push_wanted_spec.
Qed.
Print Assumptions c02_push_exact.

(* ---- only current subscribers ------------------------------------------------------------------- *)
(* [inv]: the session table is a map, every attached session acts for a user who is in perUser and
   not deleted, and the per-user online counter is at least the number of that user's attached
   sessions.  It holds for an unattended topic and is kept by every request, so in every reachable
   state whoever receives a copy is an attached session of a current subscriber who may read (or a
   channel subscription) - never of a removed user. *)
Theorem c02_inv_init : forall k owner defacs users rows,
  (forall u p, In (u, p) users -> (0 <= pu_online p)%Z) -> inv (init k owner defacs users rows).
Proof. exact init_inv. Qed.
Print Assumptions c02_inv_init.

Theorem c02_inv_kept : forall ops st, inv st -> inv (fst (run st ops)).
Proof. exact run_inv. Qed.
Print Assumptions c02_inv_kept.

Theorem c02_recipients_are_subscribers : forall ops st0 px s f,
  inv st0 ->
  let st := fst (run st0 ops) in
  In (s, f) (fanout st px) ->
  exists d p, In (s, d) (st_sess st) /\ lookup (ss_uid d) (st_users st) = Some p /\ pu_deleted p = false /\
              (has (eff p) bR = true \/ ss_chan d = true).
Proof. intros ops st0 px s f H. exact (recipients_are_subscribers _ px s f (run_inv ops st0 H)). Qed.
Print Assumptions c02_recipients_are_subscribers.

(* ---- the {info} branch of the same loop (note relays) ------------------------------------------- *)
(* [info_eligible] = not the originating session (SkipSid), and - unless the frame was forwarded from
   another topic (Src != "") - not a channel subscription and the acting user has R; not a session
   already notified on SkipTopic; a "kp" never to a session of the typist.  Exact recipient set of
   every {info} broadcast, from EVERY state. *)
Theorem c02_info_exact_set : forall st ix,
  Permutation (map fst (info_fanout st ix)) (map fst (filter (info_eligible st ix) (st_sess st))) /\
  (wf_sess st -> NoDup (map fst (info_fanout st ix))) /\
  (forall s, In s (map fst (info_fanout st ix)) <->
             exists d, In (s, d) (st_sess st) /\ info_eligible st ix (s, d) = true).
Proof. exact info_exact_set. Qed.
Print Assumptions c02_info_exact_set.

(* A relayed {note}: every delivered {info} goes to an attached session other than the originating
   one, that is not a channel subscription, of a user with R, and for "kp" not of the typist; it names
   the true sender, the kind and the id of the note. *)
Theorem c02_info_note_relay_sound : forall st nx s f,
  In (s, f) (isent (note_relay st nx)) ->
  note_permitted st nx = true /\
  exists d, In (s, d) (st_sess st) /\
    s <> nx_sid nx /\ ss_chan d = false /\ user_is_reader st (ss_uid d) = true /\
    (nx_what nx = W_KP -> ss_uid d <> nx_from nx) /\ is_full st s = false /\
    i_from f = nx_from nx /\ i_what f = nx_what nx /\ i_seq f = nx_seq nx.
Proof. exact note_relay_recipients. Qed.
Print Assumptions c02_info_note_relay_sound.

(* ... and every such session gets one (delivered, or dropped with the session if its queue is full) *)
Theorem c02_info_note_relay_complete : forall st nx s d,
  note_permitted st nx = true -> In (s, d) (st_sess st) ->
  s <> nx_sid nx -> ss_chan d = false -> user_is_reader st (ss_uid d) = true ->
  (nx_what nx = W_KP -> ss_uid d <> nx_from nx) ->
  In s (map fst (note_relay st nx)).
Proof. exact note_relay_complete. Qed.
Print Assumptions c02_info_note_relay_complete.

(* ---- the hypotheses are satisfiable ---------------------------------------------------------------- *)
Example ex_accepts : accepts w1_st w1_px = true. Proof. reflexivity. Qed.
Example ex_inv : inv w1_init. Proof. apply init_inv. intros u p [H|[]]. inversion H. cbn. discriminate. Qed.
Example ex_no_overflow : forall s, is_full w1_st s = false. Proof. reflexivity. Qed.
Example ex_routes : routes w3_st w3_px. Proof. right. reflexivity. Qed.
Example ex_grp_name : st_kind w3_st = KGrp /\ px_orig (mkPx 2 2 2 TGrp false true 101 []) = TGrp. Proof. split; reflexivity. Qed.
Example ex_wf_users : wf_users w1_st. Proof. unfold wf_users. cbn. repeat constructor; cbn; intuition discriminate. Qed.
(* an overflow really happens in the model: session 2's queue is full, it gets no copy and is detached *)
Definition w4_st : state := mkState KGrp 1 47 [(1, mkPud 255 255 false false 0 1%Z); (2, mkPud 47 47 false false 0 1%Z)]
                                    [(1, mkPsd 1 false); (2, mkPsd 2 false)] 0%Z [2] [] [].
Example ex_note_permitted : note_permitted w1_st (mkNx 1 1 false TGrp W_KP 0%Z) = true /\
  map fst (note_relay w1_st (mkNx 1 1 false TGrp W_KP 0%Z)) = [4].
Proof. vm_compute. split; reflexivity. Qed.
Example ex_overflow :
  overflowed (fanout_all w4_st (mkPx 1 1 1 TGrp false true 7 [])) = [2] /\
  map fst (fanout w4_st (mkPx 1 1 1 TGrp false true 7 [])) = [1] /\
  map fst (st_sess (snd (publish w4_st (mkPx 1 1 1 TGrp false true 7 [])))) = [1].
Proof. vm_compute. repeat split. Qed.

(* ==== part c: BACKGROUND sessions and STORE FAULTS (model Sys/FanoutBkgC02.v) ======================== *)
(* The extended model re-translates the environment of the fan-out with Session.background (a field of
   the connection, [x_bkg]: attached but not counted in perUser.online until the connection's timer
   fires) and with a store that may fail: every permission-changing request carries a fault plan (the
   k-th adapter call fails) and [x_rows] are the live STORED subscription rows - the authoritative
   grants.  The fan-out functions are those of Fanout.v: broadcastToSessions never looks at the
   background flag, so every theorem above applies to [x_st x] with background sessions included. *)

(* a publish in the extended model is the publish of Fanout.v on the cached state: same outcome, same
   copies - made for exactly the attached eligible sessions, background or not - same push *)
Theorem c02c_publish_copies : forall x px,
  fst (xpublish x px) = fst (publish (x_st x) px) /\
  (forall q a c p, fst (xpublish x px) = PAccepted q a c p ->
     c = fanout_all (x_st x) px /\ p = push_rcpt (x_st x) /\
     forall s, In s (map fst c) <-> exists d, In (s, d) (st_sess (x_st x)) /\ eligible (x_st x) px (s, d) = true).
Proof.
  intros x px. split; [exact (xpublish_fst x px)|]. intros q a c p H. rewrite xpublish_fst in H.
  destruct (publish (x_st x) px) as [r st'] eqn:E. cbn [fst] in H. subst r.
  destruct (overflow_detached _ _ _ _ _ _ _ E) as [_ [Hc [Hp _]]]. split; [exact Hc|]. split; [exact Hp|].
  intros s. rewrite Hc. exact (proj2 (proj2 (exact_set (x_st x) px)) s).
Qed.
Print Assumptions c02c_publish_copies.

(* evictUser (ban, self-ban, unsubscription, {del sub}): whatever the online counter says, no session
   of the user stays attached *)
Theorem c02c_evict_detaches_every_session : forall st u unsub s d,
  In (s, d) (st_sess (evict_user st u unsub)) -> ss_uid d <> u /\ In (s, d) (st_sess st).
Proof. intros st u b s d H. apply evict_sess_in in H. tauto. Qed.
Print Assumptions c02c_evict_detaches_every_session.

(* [xinv]: the session table is a map; every attached session - background or not - acts for a cached,
   not deleted user who is a channel reader iff the session is a channel subscription; a channel
   reader's online counter covers his sessions; background connections are never channel
   subscriptions; and the cached grants ARE the stored grants (a live row exists exactly for the cached
   ordinary subscribers, with the same want and given).  It holds for an unattended topic and is kept
   by every request under EVERY fault plan. *)
Theorem c02c_inv_init : forall k owner defacs users crows bkg,
  (forall u p, In (u, p) users -> pu_deleted p = false /\ pu_ischan p = false) ->
  xinv (xinit k owner defacs users crows bkg) /\ joined (x_st (xinit k owner defacs users crows bkg)).
Proof. exact xinit_inv. Qed.
Print Assumptions c02c_inv_init.

Theorem c02c_inv_kept : forall ops x, xinv x -> xinv (fst (xrun x ops)).
Proof. exact xrun_inv. Qed.
Print Assumptions c02c_inv_kept.

Theorem c02c_cache_is_store : forall ops x0, xinv x0 ->
  let x := fst (xrun x0 ops) in
  forall u, lookup u (x_rows x) = live_modes (x_st x) u.
Proof. intros ops x0 H x. exact (proj2 (proj2 (proj2 (proj2 (xrun_inv ops x0 H))))). Qed.
Print Assumptions c02c_cache_is_store.

(* a request one of whose store calls failed changes NOTHING: perUser, the attached sessions, the
   stored rows, the flags - hence neither the recipient set nor the push of any later publish *)
Theorem c02c_failed_change_changes_nothing : forall x o,
  existsb snd (xr_calls (xstep x o)) = true -> xnext x (xstep x o) = x.
Proof. exact xstep_failed_nothing. Qed.
Print Assumptions c02c_failed_change_changes_nothing.

(* ---- banned and self-banned users ---- *)
(* [joined]: every attached session of an ordinary subscriber acts for a user with J in want AND in
   given.  The property's "no other session receives it" for banned users: full statement, refuted by
   the faithful model (a {sub} that leaves a J-less want exactly as it was runs evictUser and then
   attaches the session all the same - the same defect as the recorded C07 finding banned-user-attached),
   proved for every history without that request. *)
Definition c02c_banned_never_attached_statement : Prop :=
  forall ops x0, xinv x0 -> joined (x_st x0) -> joined (x_st (fst (xrun x0 ops))).

Definition wc_x0 : xstate := xinit KP2P 0 0 [(1, mkPud 31 31 false false 2 0%Z); (2, mkPud 31 31 false false 1 0%Z)] [] [].
Definition wc_ops : list xop := [XAttach 0 1 1 false None; XAttach 0 2 2 false None; XSetWant 0 1 30; XAttach 0 1 1 false (Some 30)].
Example wc_inv : xinv wc_x0 /\ joined (x_st wc_x0).
Proof. apply xinit_inv. intros u p [H|[H|[]]]; inversion H; split; reflexivity. Qed.

Theorem c02c_banned_never_attached_refuted : ~ c02c_banned_never_attached_statement.
Proof.
  intros H. destruct wc_inv as [Hi Hj]. specialize (H wc_ops wc_x0 Hi Hj).
  assert (Hin : In (1, mkPsd 1 false) (st_sess (x_st (fst (xrun wc_x0 wc_ops))))) by (vm_compute; right; now left).
  assert (Hl : lookup (ss_uid (mkPsd 1 false)) (st_users (x_st (fst (xrun wc_x0 wc_ops)))) = Some (mkPud 30 31 false false 2 1%Z))
    by (vm_compute; reflexivity).
  destruct (H _ _ _ Hin Hl eq_refl) as [Hw _]. vm_compute in Hw. discriminate.
Qed.
Print Assumptions c02c_banned_never_attached_refuted.

(* ... and the self-banned user does receive the next message *)
Example wc_receives : map fst (fanout (x_st (fst (xrun wc_x0 wc_ops))) (mkPx 2 2 2 (TUsr 1) false true 7 [])) = [2; 1].
Proof. vm_compute. reflexivity. Qed.
Example wc_is_the_bypass : no_bypass wc_x0 wc_ops = false. Proof. vm_compute. reflexivity. Qed.

Theorem c02c_banned_never_attached_partial : forall ops x0,
  xinv x0 -> joined (x_st x0) -> no_bypass x0 ops = true -> joined (x_st (fst (xrun x0 ops))).
Proof. exact xrun_joined. Qed.
Print Assumptions c02c_banned_never_attached_partial.

(* c02_recipients_are_subscribers extended to background sessions, to bans and to every fault plan:
   after any history (without the bypass request) whoever receives a copy is an attached session of a
   cached, not deleted user - a channel subscription of a channel reader, or an ordinary subscriber
   who has R and has J both in want and in given *)
Theorem c02c_recipients_are_joined_subscribers : forall ops x0 px s f,
  xinv x0 -> joined (x_st x0) -> no_bypass x0 ops = true ->
  let x := fst (xrun x0 ops) in
  In (s, f) (fanout (x_st x) px) ->
  exists d p, In (s, d) (st_sess (x_st x)) /\ lookup (ss_uid d) (st_users (x_st x)) = Some p /\ pu_deleted p = false /\
    pu_ischan p = ss_chan d /\
    (ss_chan d = true \/ (has (eff p) bR = true /\ has (pu_want p) bJ = true /\ has (pu_given p) bJ = true)).
Proof.
  intros ops x0 px s f Hi Hj Hb x. apply recipients_joined; [exact (xrun_inv ops x0 Hi)|exact (xrun_joined ops x0 Hi Hj Hb)].
Qed.
Print Assumptions c02c_recipients_are_joined_subscribers.

(* ---- the STORED grants decide ---- *)
(* after any history with any fault plan: the copies of a publish are made for exactly the attached
   sessions whose user's STORED want & given has R (or that are channel subscriptions), minus the
   no-echo sender; each exactly once *)
Theorem c02c_exact_set_by_stored_grant : forall ops x0 px, xinv x0 ->
  let x := fst (xrun x0 ops) in
  (forall s, In s (map fst (fanout_all (x_st x) px)) <->
             exists d, In (s, d) (st_sess (x_st x)) /\ elig_stored x px (s, d) = true) /\
  NoDup (map fst (fanout_all (x_st x) px)).
Proof. intros ops x0 px Hi x. apply exact_set_stored. exact (xrun_inv ops x0 Hi). Qed.
Print Assumptions c02c_exact_set_by_stored_grant.

(* ... and the push receipt is addressed exactly to the users whose STORED want & given has R and P *)
Theorem c02c_push_by_stored_grant : forall ops x0 u, xinv x0 -> wfu (x_st x0) ->
  let x := fst (xrun x0 ops) in
  In u (push_to (x_st x)) <-> has (seff x u) bR = true /\ has (seff x u) bP = true.
Proof. intros ops x0 u Hi Hw x. apply push_by_stored_grant; [exact (xrun_inv ops x0 Hi)|exact (xrun_wfu ops x0 Hw)]. Qed.
Print Assumptions c02c_push_by_stored_grant.

(* ---- the hypotheses are satisfiable; the scenarios of the two seeded regressions in the model ---- *)
(* user 2 is attached only through background connection 5 (online counter 0) and receives copies *)
Definition wd_x0 : xstate := xinit KGrp 1 47 [(1, mkPud 255 255 false false 0 0%Z); (2, mkPud 47 47 false false 0 0%Z)] [] [5].
Definition wd_ops : list xop := [XAttach 0 1 1 false None; XAttach 0 5 2 false None].
Example wd_inv : xinv wd_x0 /\ joined (x_st wd_x0) /\ wfu (x_st wd_x0) /\ no_bypass wd_x0 (wd_ops ++ [XSetGiven 0 1 2 46]) = true.
Proof.
  destruct (xinit_inv KGrp 1 47 [(1, mkPud 255 255 false false 0 0%Z); (2, mkPud 47 47 false false 0 0%Z)] [] [5]) as [A B].
  { intros u p [H|[H|[]]]; inversion H; split; reflexivity. }
  split; [exact A|]. split; [exact B|]. split; [|vm_compute; reflexivity].
  unfold wfu. cbn. repeat constructor; cbn; intuition discriminate.
Qed.
Example wd_background_receives :
  map (fun up => pu_online (snd up)) (st_users (x_st (fst (xrun wd_x0 wd_ops)))) = [1%Z; 0%Z] /\
  map fst (fanout (x_st (fst (xrun wd_x0 wd_ops))) (mkPx 1 1 1 TGrp false true 7 [])) = [1; 5].
Proof. vm_compute. split; reflexivity. Qed.
(* the owner bans user 2 keeping R (given RWPS): the background session is detached and gets nothing *)
Example wd_ban_detaches :
  map fst (st_sess (x_st (fst (xrun wd_x0 (wd_ops ++ [XSetGiven 0 1 2 46]))))) = [1] /\
  map fst (fanout (x_st (fst (xrun wd_x0 (wd_ops ++ [XSetGiven 0 1 2 46])))) (mkPx 1 1 1 TGrp false true 7 [])) = [1].
Proof. vm_compute. split; reflexivity. Qed.
(* the owner takes R away from user 2 and the store update fails: nothing changes, user 2 still receives *)
Example wd_failed_change :
  xr_calls (xstep (fst (xrun wd_x0 wd_ops)) (XSetGiven 1 1 2 45)) = [(CUpd, true)] /\
  xnext (fst (xrun wd_x0 wd_ops)) (xstep (fst (xrun wd_x0 wd_ops)) (XSetGiven 1 1 2 45)) = fst (xrun wd_x0 wd_ops).
Proof. vm_compute. split; reflexivity. Qed.
