(* C09  Read and received marks only move forward and stay within bounds.
   Theorems only, about the topic model Sys/Topic.v, for EVERY history of
   requests (any notes with any sequence numbers, publishes, deletions,
   permission changes, unloads, restarts, failing/crashing store calls). *)
From Coq Require Import ZArith NArith List Bool.
From Tinode Require Import Base.Util Pure.Acs Sys.Topic Sys.TopicTac Sys.TopicFrame Sys.TopicNum Sys.TopicNumThm Sys.TopicMarks.
Import ListNotations.
Open Scope Z_scope.

Section C09.
Variable dr : Z -> list (Z * Z) -> option (list (Z * Z)).
Variable nr : list (Z * Z) -> list (Z * Z).
Variable sm : sessmap.

(* Bounds, in every place the marks are stored or cached, in every reachable state:
   every stored read/recv lies in 0..seqid and every cached read/recv in 0..lastID. *)
Theorem c09_bounds : forall s h,
  fresh s -> smarks_ok 0 s ->
  let x := fst (run dr nr sm (mkState s None 0) h) in
  smarks_ok (t_seqid (st x)) (st x) /\
  match ca x with Some c => cmarks_ok (c_lastid c) c | None => True end.
Proof.
  intros s h F M0 x.
  assert (inv_marks (mkState s None 0)) as I0.
  { split; [apply fresh_inv; exact F|]. split; [|exact I]. destruct F as [_ E]. cbn [st]. rewrite E. exact M0. }
  destruct (run_inv_marks dr nr sm h _ I0) as [_ R]. exact R.
Qed.

(* The note handler: either silent - no output, no state change at all (stale, future,
   permission-less and otherwise invalid notes; a typing note is relayed without any
   state change and only from a writer) - or the named mark moves FORWARD to seq <= lastID,
   the other mark is not lowered, read <= recv is preserved in the cache, and the relayed
   frames are exactly fanout_info. *)
Theorem c09_note : forall f s c n sid u what seq,
  let h := note f s c n sid u what seq in
  let p := get_pud c u in
  (h_st h = s /\ h_ca h = c /\ (h_out h = [] \/ (what = K_kp /\ is_writer (pud_mode p) = true /\ h_out h = fanout_info c sid what u seq)))
  \/
  (seq <= c_lastid c /\ is_reader (pud_mode p) = true /\ (what = K_read \/ what = K_recv) /\
   exists rd rc, h_ca h = c_set_users (aset u (p_set_marks rd rc p)) c /\
     p_read p <= rd /\ p_recv p <= rc /\ (rd = seq \/ rd = p_read p) /\ (rc = seq \/ rc = p_recv p \/ rc = p_read p) /\
     (p_read p <= p_recv p -> rd <= rc) /\
     ((what = K_read /\ p_read p < seq /\ rd = seq /\ h_st h = ad_subs_update s u (mkUpd None None (Some rd) None None)) \/
      (what = K_recv /\ p_recv p < seq /\ h_st h = ad_subs_update s u (mkUpd None None None (Some rc) None))) /\
     h_out h = fanout_info (h_ca h) sid what u seq).
Proof. exact note_cases. Qed.

(* A publish moves only the publisher's marks (both to the new number). *)
Theorem c09_publish_marks : forall f s c n sid u content noecho,
  let h := publish f s c n sid u content noecho in
  h_ca h = c \/ h_ca h = c_set_lastid (c_lastid c + 1) c \/
  h_ca h = c_set_users (aset u (p_set_marks (c_lastid c + 1) (c_lastid c + 1) (get_pud c u))) (c_set_lastid (c_lastid c + 1) c).
Proof. exact publish_ca. Qed.

(* No other request moves any mark: the marks of every cached user are as they were,
   or the entry is a fresh subscription with both marks 0. *)
Theorem c09_only_publish_and_note_move : forall f x o c c',
  ca x = Some c -> ca (fst (step dr nr sm f x o)) = Some c' ->
  (forall sid a b, o <> OPub sid a b) -> (forall sid a b, o <> ONote sid a b) ->
  marks_kept c c'.
Proof. exact (step_marks_kept dr nr sm). Qed.

(* Audience of a relayed note: exactly the attached sessions of users with read
   permission, never the originating session, typing notes never any session of the
   typist; the frame names the true sender. *)
Theorem c09_info_audience : forall c skip what from seq sid fr,
  In (sid, fr) (fanout_info c skip what from seq) <->
  fr = Info what from seq /\
  exists u bkg, In (sid, (u, bkg)) (c_sess c) /\ N.eqb sid skip = false /\ is_reader (user_mode c u) = true /\
                (N.eqb what K_kp && N.eqb u from) = false.
Proof. exact fanout_info_spec. Qed.
End C09.

(* The full statement "read <= recv wherever stored" is REFUTED by the faithful model
   (known finding stored-read-le-recv): a read note from a reader who has not
   acknowledged receipt stores read = n with recv unchanged. *)
Definition c09_stored_read_le_recv_statement : Prop :=
  forall sm s h, fresh s -> smarks_ok 0 s ->
    Forall (fun r => s_read r <= s_recv r)
           (subs (st (fst (run (fun _ _ => None) (fun x => x) sm (mkState s None 0) h)))).
Theorem c09_stored_read_le_recv_refuted : ~ c09_stored_read_le_recv_statement.
Proof.
  intros H.
  pose (s0 := ad_sub_create (ad_sub_create (mkStore true 0 0 0 47 0 [] [] [] [(1%N, 47%N); (2%N, 47%N)]) 1%N 255%N 255%N) 2%N 47%N 47%N).
  specialize (H [(1%N, 1%N); (2%N, 2%N)] s0
    [(NoFault, OSub 1 [] false); (NoFault, OSub 2 [] false); (NoFault, OPub 1 7 false); (NoFault, ONote 2 K_read 1)]).
  assert (fresh s0) as F by (split; reflexivity).
  assert (smarks_ok 0 s0) as M by (repeat constructor; cbn; discriminate).
  specialize (H F M). vm_compute in H.
  inversion H as [|? ? _ H2]; subst. inversion H2 as [|? ? H3 _]; subst. apply H3. reflexivity.
Qed.

Print Assumptions c09_bounds.
Print Assumptions c09_note.
Print Assumptions c09_publish_marks.
Print Assumptions c09_only_publish_and_note_move.
Print Assumptions c09_info_audience.
Print Assumptions c09_stored_read_le_recv_refuted.
