(* C09  Read and received marks only move forward and stay within bounds.
   Theorems only, about the topic model Sys/Topic.v, for EVERY history of
   requests (any notes with any sequence numbers, publishes, deletions,
   permission changes, unloads, restarts, failing/crashing store calls). *)
From Coq Require Import ZArith NArith List Bool.
From Tinode Require Import Base.Util Pure.Acs Sys.Topic Sys.TopicTac Sys.TopicFrame Sys.TopicNum Sys.TopicNumThm Sys.TopicMarks Sys.TopicMono Sys.TopicCohMarks Sys.TopicCoh2.
Import ListNotations.
Open Scope Z_scope.

Section C09.
Variable dr : Z -> list (Z * Z) -> option (list (Z * Z)).
Variable nr : list (Z * Z) -> list (Z * Z).
Variable sm : sessmap.

(* Bounds, in every place the marks are stored or cached, in every reachable state:
   every stored read/recv lies in 0..seqid and every cached read/recv in 0..lastID. *)
Theorem c09_bounds : forall s h,
  fresh s -> smarks_ok 0 s ->
  let x := fst (run dr nr sm (mkState s None 0) h) in
  smarks_ok (t_seqid (st x)) (st x) /\
  match ca x with Some c => cmarks_ok (c_lastid c) c | None => True end.
Proof.
  intros s h F M0 x.
  assert (inv_marks (mkState s None 0)) as I0.
  { split; [apply fresh_inv; exact F|]. split; [|exact I]. destruct F as [_ E]. cbn [st]. rewrite E. exact M0. }
  destruct (run_inv_marks dr nr sm h _ I0) as [_ R]. exact R.
Qed.

(* The note handler: either silent - no output, no state change at all (stale, future,
   permission-less and otherwise invalid notes; a typing note is relayed without any
   state change and only from a writer) - or the named mark moves FORWARD to seq <= lastID,
   the other mark is not lowered, read <= recv is preserved in the cache, and the relayed
   frames are exactly fanout_info. *)
Theorem c09_note : forall f s c n sid u what seq,
  let h := note f s c n sid u what seq in
  let p := get_pud c u in
  (h_st h = s /\ h_ca h = c /\ (h_out h = [] \/ (what = K_kp /\ is_writer (pud_mode p) = true /\ h_out h = fanout_info c sid what u seq)))
  \/
  (seq <= c_lastid c /\ is_reader (pud_mode p) = true /\ (what = K_read \/ what = K_recv) /\
   exists rd rc, h_ca h = c_set_users (aset u (p_set_marks rd rc p)) c /\
     p_read p <= rd /\ p_recv p <= rc /\ (rd = seq \/ rd = p_read p) /\ (rc = seq \/ rc = p_recv p \/ rc = p_read p) /\
     (p_read p <= p_recv p -> rd <= rc) /\
     ((what = K_read /\ p_read p < seq /\ rd = seq /\ h_st h = ad_subs_update s u (mkUpd None None (Some rd) None None)) \/
      (what = K_recv /\ p_recv p < seq /\ h_st h = ad_subs_update s u (mkUpd None None None (Some rc) None))) /\
     h_out h = fanout_info (h_ca h) sid what u seq).
Proof. exact note_cases. Qed.

(* A publish moves only the publisher's marks (both to the new number). *)
Theorem c09_publish_marks : forall f s c n sid u content noecho,
  let h := publish f s c n sid u content noecho in
  h_ca h = c \/ h_ca h = c_set_lastid (c_lastid c + 1) c \/
  h_ca h = c_set_users (aset u (p_set_marks (c_lastid c + 1) (c_lastid c + 1) (get_pud c u))) (c_set_lastid (c_lastid c + 1) c).
Proof. exact publish_ca. Qed.

(* No other request moves any mark: the marks of every cached user are as they were,
   or the entry is a fresh subscription with both marks 0. *)
Theorem c09_only_publish_and_note_move : forall f x o c c',
  ca x = Some c -> ca (fst (step dr nr sm f x o)) = Some c' ->
  (forall sid a b, o <> OPub sid a b) -> (forall sid a b, o <> ONote sid a b) ->
  marks_kept c c'.
Proof. exact (step_marks_kept dr nr sm). Qed.

(* Audience of a relayed note: exactly the attached sessions of users with read
   permission, never the originating session, typing notes never any session of the
   typist; the frame names the true sender. *)
Theorem c09_info_audience : forall c skip what from seq sid fr,
  In (sid, fr) (fanout_info c skip what from seq) <->
  fr = Info what from seq /\
  exists u bkg, In (sid, (u, bkg)) (c_sess c) /\ N.eqb sid skip = false /\ is_reader (user_mode c u) = true /\
                (N.eqb what K_kp && N.eqb u from) = false.
Proof. exact fanout_info_spec. Qed.

(* Neither mark ever decreases: at every step of every history (any notes with any sequence
   numbers, publishes, deletions, permission changes, failing store calls), for every user who
   has a cache entry before and after the step (one subscription, topic loaded), both cached
   marks after the step are at least what they were. *)
Theorem c09_monotone : forall s h fo c c',
  fresh s -> smarks_ok 0 s ->
  let x := fst (run dr nr sm (mkState s None 0) h) in
  ca x = Some c -> ca (fst (step_f dr nr sm x fo)) = Some c' ->
  mono c c'.
Proof.
  intros s h fo c c' F M0 x Hc Hc'.
  assert (inv_marks (mkState s None 0)) as I0.
  { split; [apply fresh_inv; exact F|]. split; [|exact I]. destruct F as [_ E]. cbn [st]. rewrite E. exact M0. }
  pose proof (run_inv_marks dr nr sm h _ I0) as IM. fold x in IM.
  unfold step_f in Hc'. destruct (step dr nr sm (fst fo) x (snd fo)) as [x1 o1] eqn:ES.
  destruct (fst fo) eqn:EF; cbn [fst ca] in Hc'; try discriminate;
    eapply (step_mono dr nr sm _ x (snd fo)); eauto; rewrite ES; exact Hc'.
Qed.

(* ... and a request that is neither a publish nor a note leaves the marks of every such user
   exactly as they were (sharper than c09_only_publish_and_note_move: an existing entry is never
   replaced by a fresh one). *)
Theorem c09_others_keep_marks : forall f x o c c',
  ca x = Some c -> ca (fst (step dr nr sm f x o)) = Some c' ->
  (forall sid a b, o <> OPub sid a b) -> (forall sid a b, o <> ONote sid a b) ->
  same_marks c c'.
Proof. intros. apply T_same. eapply (step_T dr nr sm); eauto. Qed.

(* Every invalid note is dropped without any reply or side effect, session layer included:
   unknown kind, typing note with a seq, read/recv with seq <= 0, and - once it reaches the topic
   (attached session, or a recv routed through the hub) - seq beyond lastID, typing without W,
   read/recv without R or without a subscription, read/recv not above the sender's current
   mark (stale, duplicate): the request leaves store and cache as they were and produces no
   frame for anybody. *)
Theorem c09_invalid_silent : forall f s c n0 sid what seq,
  note_dropped c (attached c sid) (sess_uid sm sid) what seq = true ->
  step dr nr sm f (mkState s (Some c) n0) (ONote sid what seq) = (mkState s (Some c) 0, []).
Proof. exact (step_note_silent dr nr sm). Qed.

(* Topic not loaded: no note changes anything; the only possible output is the 409 that a
   read / typing note from a session that is not attached gets. *)
Theorem c09_note_unloaded : forall f s n0 sid what seq,
  fst (step dr nr sm f (mkState s None n0) (ONote sid what seq)) = mkState s None 0 /\
  (snd (step dr nr sm f (mkState s None n0) (ONote sid what seq)) = [] \/
   snd (step dr nr sm f (mkState s None n0) (ONote sid what seq)) = [(sid, Ctrl 409 [])]).
Proof. exact (step_note_unloaded dr nr sm). Qed.

(* The STORED marks never decrease either.  [sk s u] is the subscription row of u as
   SubscriptionGet returns it, reduced to (deleted, read, recv); [smono s s'] says: for every user
   whose row is live in s and in s', neither stored mark is lower in s'.  This holds at every step
   (request, with any failing or crashing store call) of every history from a store with one row
   per user, provided the sessions that publish or send notes are logged in (uid 0 is "nobody":
   in the store contract SubsUpdate with uid 0 means every subscription). *)
Theorem c09_store_monotone : forall s h fo,
  fresh s -> smarks_ok 0 s -> und s ->
  Forall (fun fo => op_user_ok sm (snd fo)) h -> op_user_ok sm (snd fo) ->
  let x := fst (run dr nr sm (mkState s None 0) h) in
  smono (st x) (st (fst (step_f dr nr sm x fo))).
Proof.
  intros s h fo F M0 U OKh OKfo x.
  assert (inv_marks (mkState s None 0)) as I0.
  { split; [apply fresh_inv; exact F|]. split; [|exact I]. destruct F as [_ E]. cbn [st]. rewrite E. exact M0. }
  assert (inv_coh (mkState s None 0)) as C0 by (split; [exact U|exact I]).
  pose proof (run_inv_marks dr nr sm h _ I0) as IM. pose proof (run_coh dr nr sm h _ OKh I0 C0) as IC.
  exact (proj2 (step_f_coh dr nr sm x fo OKfo IM IC)).
Qed.

(* The invariant behind it: in every reachable state with the topic loaded the store is not ahead
   of the topic - every live subscription row has a cache entry whose marks are at least the stored
   ones (they differ only through the recorded finding and through ignored store errors). *)
Theorem c09_store_not_ahead : forall s h,
  fresh s -> smarks_ok 0 s -> und s ->
  Forall (fun fo => op_user_ok sm (snd fo)) h ->
  let x := fst (run dr nr sm (mkState s None 0) h) in
  und (st x) /\ match ca x with Some c => coh (st x) c | None => True end.
Proof.
  intros s h F M0 U OKh x.
  assert (inv_marks (mkState s None 0)) as I0.
  { split; [apply fresh_inv; exact F|]. split; [|exact I]. destruct F as [_ E]. cbn [st]. rewrite E. exact M0. }
  assert (inv_coh (mkState s None 0)) as C0 by (split; [exact U|exact I]).
  exact (run_coh dr nr sm h _ OKh I0 C0).
Qed.
End C09.

(* the hypotheses of c09_store_monotone are satisfiable *)
Example c09_store_monotone_hyps :
  let s0 := ad_sub_create (ad_sub_create (mkStore true 0 0 0 47 0 [] [] [] [(1%N, 47%N); (2%N, 47%N)]) 1%N 255%N 255%N) 2%N 47%N 47%N in
  fresh s0 /\ smarks_ok 0 s0 /\ und s0 /\
  Forall (fun fo => op_user_ok [(1%N, 1%N); (2%N, 2%N)] (snd fo))
         [(NoFault, OSub 1 [] false); (NoFault, OPub 1 7 false); (NoFault, ONote 2 K_read 1)].
Proof.
  cbn zeta. split; [split; reflexivity|]. split; [repeat constructor; cbn; discriminate|].
  split; [unfold und; vm_compute; repeat constructor; cbn; intuition discriminate|].
  repeat constructor; cbn; discriminate.
Qed.

(* handler-level form of the same fact, for every row of the list (hypothesis = the sender's stored
   marks are not ahead of the cached ones, which c09_store_not_ahead establishes for reachable
   states): the note handler never lowers a stored mark; rows of other users are untouched. *)
Theorem c09_note_store_forward_partial : forall f s c n sid u what seq,
  u <> 0%N ->
  (forall r, In r (subs s) -> s_user r = u -> s_read r <= p_read (get_pud c u) /\ s_recv r <= p_recv (get_pud c u)) ->
  Forall2 row_le (subs s) (subs (h_st (note f s c n sid u what seq))).
Proof. exact note_store_forward. Qed.

(* the hypotheses of c09_invalid_silent are satisfiable: a stale recv strictly between the read
   and the received mark (the shape of a two-device client) is one of the dropped notes *)
Example c09_stale_between_is_dropped :
  let c := mkCache 8 0 1%N 47%N 0%N [(1%N, mkPud 255 255 8 8 0 1); (2%N, mkPud 47 47 3 6 0 1)] [(1%N, (1%N, false)); (2%N, (2%N, false))] in
  note_dropped c true 2%N K_recv 5 = true /\ note_dropped c true 2%N K_recv 7 = false /\ note_dropped c true 2%N K_read 5 = false.
Proof. repeat split; reflexivity. Qed.

(* The full statement "read <= recv wherever stored" is REFUTED by the faithful model
   (known finding stored-read-le-recv): a read note from a reader who has not
   acknowledged receipt stores read = n with recv unchanged. *)
Definition c09_stored_read_le_recv_statement : Prop :=
  forall sm s h, fresh s -> smarks_ok 0 s ->
    Forall (fun r => s_read r <= s_recv r)
           (subs (st (fst (run (fun _ _ => None) (fun x => x) sm (mkState s None 0) h)))).
Theorem c09_stored_read_le_recv_refuted : ~ c09_stored_read_le_recv_statement.
Proof.
  intros H.
  pose (s0 := ad_sub_create (ad_sub_create (mkStore true 0 0 0 47 0 [] [] [] [(1%N, 47%N); (2%N, 47%N)]) 1%N 255%N 255%N) 2%N 47%N 47%N).
  specialize (H [(1%N, 1%N); (2%N, 2%N)] s0
    [(NoFault, OSub 1 [] false); (NoFault, OSub 2 [] false); (NoFault, OPub 1 7 false); (NoFault, ONote 2 K_read 1)]).
  assert (fresh s0) as F by (split; reflexivity).
  assert (smarks_ok 0 s0) as M by (repeat constructor; cbn; discriminate).
  specialize (H F M). vm_compute in H.
  inversion H as [|? ? _ H2]; subst. inversion H2 as [|? ? H3 _]; subst. apply H3. reflexivity.
Qed.

(* The full statement "a cached mark never decreases while the subscription lasts" is REFUTED
   across a reload of the topic (same defect as stored-read-le-recv): a read note raises the
   cached received mark but stores the read mark alone, so after unload + reload the cached
   received mark is back at its stored value.  c09_monotone is the partial statement (topic
   stays loaded). *)
Definition no_unsub (fo : fault * op) : bool :=
  match snd fo with OLeave _ true => false | ODelSub _ _ => false | _ => true end.
Definition c09_cached_monotone_across_reload_statement : Prop :=
  forall sm s h1 h2 c c', fresh s -> smarks_ok 0 s -> forallb no_unsub h2 = true ->
    ca (fst (run (fun _ _ => None) (fun x => x) sm (mkState s None 0) h1)) = Some c ->
    ca (fst (run (fun _ _ => None) (fun x => x) sm
               (fst (run (fun _ _ => None) (fun x => x) sm (mkState s None 0) h1)) h2)) = Some c' ->
    mono c c'.
Theorem c09_cached_monotone_across_reload_refuted : ~ c09_cached_monotone_across_reload_statement.
Proof.
  intros H.
  pose (s0 := ad_sub_create (ad_sub_create (mkStore true 0 0 0 47 0 [] [] [] [(1%N, 47%N); (2%N, 47%N)]) 1%N 255%N 255%N) 2%N 47%N 47%N).
  pose (sm0 := [(1%N, 1%N); (2%N, 2%N)]).
  pose (h1 := [(NoFault, OSub 1 [] false); (NoFault, OSub 2 [] false); (NoFault, OPub 1 7 false); (NoFault, ONote 2 K_read 1)]).
  pose (h2 := [(NoFault, OLeave 1 false); (NoFault, OLeave 2 false); (NoFault, OUnload); (NoFault, OSub 2 [] false)]).
  assert (fresh s0) as F by (split; reflexivity).
  assert (smarks_ok 0 s0) as M by (repeat constructor; cbn; discriminate).
  eassert (ca (fst (run (fun _ _ => None) (fun x => x) sm0 (mkState s0 None 0) h1)) = Some _) as E1
    by (vm_compute; reflexivity).
  eassert (ca (fst (run (fun _ _ => None) (fun x => x) sm0
                      (fst (run (fun _ _ => None) (fun x => x) sm0 (mkState s0 None 0) h1)) h2)) = Some _) as E2
    by (vm_compute; reflexivity).
  pose proof (H sm0 s0 h1 h2 _ _ F M eq_refl E1 E2) as HM.
  specialize (HM 2%N _ _ eq_refl eq_refl). destruct HM as [_ HM]. vm_compute in HM. apply HM. reflexivity.
Qed.

Print Assumptions c09_bounds.
Print Assumptions c09_note.
Print Assumptions c09_publish_marks.
Print Assumptions c09_only_publish_and_note_move.
Print Assumptions c09_info_audience.
Print Assumptions c09_stored_read_le_recv_refuted.
Print Assumptions c09_monotone.
Print Assumptions c09_others_keep_marks.
Print Assumptions c09_invalid_silent.
Print Assumptions c09_note_unloaded.
Print Assumptions c09_note_store_forward_partial.
Print Assumptions c09_cached_monotone_across_reload_refuted.
Print Assumptions c09_store_monotone.
Print Assumptions c09_store_not_ahead.

(* ---- audience of relayed notifications on topics WITH channel subscriptions (fan-out slice Sys/Fanout.v,
   built for C02; the group-topic model above has no channel readers).  Re-stated here because the clause
   "relayed notifications reach only attached sessions of users with read permission - never the originating
   session, never channel readers, typing notes never any session of the typist" belongs to C09; the C09 check
   runs the fan-out driver and the info-* laws on the implementation's frames (tools/props/c09.py relay_audience). *)
From Tinode Require Import Sys.Fanout Sys.FanoutProofs.
From Coq Require Import Permutation.

Theorem c09_relay_exact_set : forall st ix,
  Permutation (map fst (info_fanout st ix)) (map fst (filter (info_eligible st ix) (st_sess st))) /\
  (wf_sess st -> NoDup (map fst (info_fanout st ix))) /\
  (forall s, In s (map fst (info_fanout st ix)) <->
             exists d, In (s, d) (st_sess st) /\ info_eligible st ix (s, d) = true).
Proof. exact info_exact_set. Qed.
Print Assumptions c09_relay_exact_set.

(* ---- notes on p2p / group topics with UNSUBSCRIBED (deleted) parties, and the {info} copies routed through the
   'me' topics (presence slice Sys/Pres.v, built for C10: several users, 'me' + p2p + group topics side by side,
   a network of in-flight inter-topic notifications delivered in any interleaving; Sys/PresNoteC09.v adds the
   Info.From label).  The group-topic model above has neither deleted p2p parties nor 'me' topics.  The clauses
   "a mark moves only when its user ... sends a note while subscribed with read permission", "every invalid note is
   dropped without any reply or side effect", "never the originating session", "name the true sender" are stated
   here for that slice; the C09 check runs the presence driver on note scenarios and evaluates the laws
   note-from-unsubscribed-user-silent, invalid-/stale-/unpermitted-note-silent, info-not-to-originating-session,
   info-names-true-sender, info-names-recipients-topic on the IMPLEMENTATION's frames, adapter calls and marks
   (tools/props/c09.py pres_notes). *)
From Tinode Require Import Sys.Pres Sys.PresProofs Sys.PresLeak Sys.PresNoteC09 Sys.PresNoteC09Proofs.

(* A {note} of any kind, with any seq, through any session, from a user who has no live subscription to the topic
   - never subscribed, or unsubscribed: a p2p party keeps its perUser entry marked deleted, WITH its old want/given -
   leaves the whole state as it was (every cached and stored mark of every user, the network: nothing is routed to
   any 'me' topic) and hands no frame to anybody.  Every state, reachable or not. *)
Theorem c09_pres_note_unsubscribed_silent : forall s sid u r w seq,
  live_sub s (resolve u r) u = false ->
  step s (Note sid u r w seq) = (s, []) \/ step s (Note sid u r w seq) = (s, [Skipped]).
Proof. exact step_note_unsubscribed. Qed.

(* ... and so does every other note that is not acceptable: sender without R (W for typing), seq not in
   (current mark, lastID] (0 for typing), unknown kind, topic not loaded, anything but "recv" from a session that
   is not attached.  ([Skipped] = the request the driver does not send: refused at the session with 409.) *)
Theorem c09_pres_invalid_note_silent : forall s sid u r w seq,
  note_acceptable s sid u (resolve u r) w seq = false ->
  step s (Note sid u r w seq) = (s, []) \/ step s (Note sid u r w seq) = (s, [Skipped]).
Proof. exact step_note_silent. Qed.

(* never the originating session, inside the topic ... *)
Theorem c09_pres_info_not_to_origin_in_topic : forall s sid u t w seq sid' user top src w',
  In (Frame sid' user top src w') (snd (note_op s sid u t w seq)) -> sid' <> sid.
Proof. exact note_frames_not_origin. Qed.

(* ... whatever a note puts in flight (the {pres read|recv} for the sender's other sessions, the {info} for every
   'me' topic - the SENDER's own included) carries SkipSid = the originating session; an {info} carries From = the
   sender and SkipTopic = the topic ... *)
Theorem c09_pres_note_in_flight_tagged : forall s sid u t w seq g,
  In g (s_net (fst (note_op s sid u t w seq))) -> In g (s_net s) \/ note_tag sid u t w g.
Proof. exact adds_note_tag. Qed.

(* ... and a delivery never hands a message to the session its SkipSid names (any destination, any state). *)
Theorem c09_pres_skipsid_respected : forall s g k user top src w,
  m_skipsid g = Some k -> ~ In (Frame k user top src w) (snd (deliver_msg s g)).
Proof. exact deliver_skipsid. Qed.

(* Only a {note} puts an {info} in flight: in every reachable state, every {info} in flight was made by a {note} of
   the history, and carries that note's session as SkipSid, its user as From, its topic as SkipTopic. *)
Theorem c09_pres_info_provenance : forall h, Forall (note_sent h) (s_net (fst (run init h))).
Proof. exact net_note_sent. Qed.

(* END TO END over all histories and all interleavings of deliveries: an {info} frame a session reads when an
   in-flight message is delivered - i.e. through a 'me' topic - names as From the user of a {note} of the same kind
   that is in the history; that note came through ANOTHER session; the reading session is not attached to the
   note's topic; the frame arrives on the reader's own 'me'; a typing note reaches no session of the typist. *)
Theorem c09_pres_info_end_to_end : forall h i g rest sid user top src w f,
  take_nth i [] (s_net (fst (run init h))) = Some (g, rest) ->
  In (Frame sid user top src w, f) (snd (step_from (fst (run init h)) (Deliver i))) ->
  is_info w = true ->
  exists sid0 u0 r0 seq0,
    In (Note sid0 u0 r0 w seq0) h /\ r0 <> RMe /\ f = Some u0 /\ sid <> sid0 /\
    sess_on (fst (run init h)) sid (resolve u0 r0) = false /\
    (w = WIKp -> user <> u0) /\ top = TMe user.
Proof. exact info_end_to_end. Qed.

(* inside the topic every frame of a note names the user the note was sent as *)
Theorem c09_pres_info_names_sender_in_topic : forall s sid u r w seq fr f,
  In (fr, f) (snd (step_from s (Note sid u r w seq))) -> f = Some u.
Proof. exact note_from_sender. Qed.

(* the labelled run is the run of Sys/Pres.v with a label added: same states, same frames *)
Theorem c09_pres_labelled_run_projects : forall h s,
  fst (run_from s h) = fst (run s h) /\ map fst (snd (run_from s h)) = snd (run s h).
Proof. exact run_from_proj. Qed.

(* the hypotheses are satisfiable, on the two seeded situations: (1) user 1 unsubscribed from the p2p topic, which
   stays loaded, keeps R in the deleted entry, recv mark 0 < 1 <= lastID - the note changes nothing; (2) a "recv"
   from a session attached to 'me' only reaches the partner's attached session with From = the sender and is not
   echoed to the originating session on 'me'. *)
Theorem c09_pres_unsubscribed_recv_example :
  let s := fst (run init h_unsub_recv) in
  s_net s = [] /\ live_sub s (TP2P 1 2) 1 = false /\
  (exists x, get_top s (TP2P 1 2) = Some x /\ t_loaded x = true /\ t_lastid x = 1%Z /\
             is_reader (p_mode (get_pud x 1)) = true /\ p_recv (get_pud x 1) = 0%Z) /\
  step s (Note 1 1 (RP2P 2) WIRecv 1) = (s, []).
Proof. exact unsub_recv_silent. Qed.

Theorem c09_pres_detached_recv_example :
  (forall user top src w f, ~ In (Frame 3 user top src w, f) (snd (run_from init h_detached_recv)) \/ is_info w = false) /\
  In (Frame 2 2 (TP2P 1 2) (TMe 1) WIRecv, Some 1%N) (snd (run_from init h_detached_recv)) /\
  s_net (fst (run_from init h_detached_recv)) = [].
Proof. exact detached_recv_not_echoed. Qed.

Print Assumptions c09_pres_note_unsubscribed_silent.
Print Assumptions c09_pres_invalid_note_silent.
Print Assumptions c09_pres_info_not_to_origin_in_topic.
Print Assumptions c09_pres_note_in_flight_tagged.
Print Assumptions c09_pres_skipsid_respected.
Print Assumptions c09_pres_info_provenance.
Print Assumptions c09_pres_info_end_to_end.
Print Assumptions c09_pres_info_names_sender_in_topic.
Print Assumptions c09_pres_labelled_run_projects.
Print Assumptions c09_pres_unsubscribed_recv_example.
Print Assumptions c09_pres_detached_recv_example.

(* ---- the marks ACROSS TOPIC LOADS (Sys/LoadMarksC09.v: the load paths of every topic kind - initTopicP2P in each of its
   branches, initTopicGrp / initTopicSys / initTopicMe / initTopicFnd through loadSubscribers - with the read / recv / del
   marks they copy into Topic.perUser, and the marks slice of a p2p topic and of 'sys' on top of them).  The group-topic
   model above reloads through Topic.load only; a p2p topic is loaded through four branches that build the two parties'
   entries from DIFFERENT records.  Clause: "neither mark ever decreases ... in every place they are reported and stored" -
   a reload must give every user back his OWN stored marks.  The C09 check runs the p2p / sys load-marks driver
   (zz_verif_c09l_test.go) and evaluates loaded-marks-equal-stored, reported-marks-not-below-stored,
   reported-marks-monotone-across-reload, stale-note-silent, marks-monotone on the IMPLEMENTATION's trace
   (tools/props/c09load.py).

   [smk s u] = (read, recv, del) of u's live subscription row as SubscriptionGet finds it; [kmk c u] = the same three
   of u's live perUser entry; [keq s c] = every live entry of the cache carries exactly the marks of its user's live row;
   [und s] = one row per user (the unique key of the subscriptions table); [p2p_parties s u1 u2] = the rows of a p2p topic
   belong to its two parties (the topic name is made of the two user ids). *)
From Tinode Require Import Sys.TopicLoad Sys.LoadMarksC09 Sys.LoadMarksC09Proofs.

(* AFTER ANY LOAD - every topic kind, every branch of initTopicP2P (both subscriptions / the requester's exists and the
   other party's is recreated / the other party's exists and the requester's is recreated / new topic), any failing store
   call - every cached mark (read, recv, del) equals the STORED mark of that same user's row in the store the load leaves
   behind (0 for a row the load has just created), and no entry is marked deleted. *)
Theorem c09_load_marks_equal_stored : forall k f s n u1 u2 s' c n' ns,
  und s -> (k = KP2P -> p2p_parties s u1 u2 /\ (t_exists s = false -> subs s = [])) ->
  kinit_topic k f s n u1 u2 = KOk s' c n' ns ->
  keq s' c /\ forall u p, alookup u (k_users c) = Some p -> kp_deleted p = false.
Proof. intros. split; [eapply kinit_topic_keq; eauto|]. intros. eapply kinit_topic_live; eauto. Qed.

(* ... and still so when the request that caused the load has been answered (subscriptionReply -> thisUserSub: a
   changed want is written without marks, a new 'sys' subscriber starts from zero in cache and store), and after the
   'sys' topic has been loaded by a restarted process. *)
Theorem c09_load_request_marks_equal_stored : forall (k : lkind) root f s n u1 u2 sid s1 c n1 ns ns',
  und s -> (k = LP2P -> p2p_parties s u1 u2 /\ (t_exists s = false -> subs s = [])) ->
  kload k f s n u1 u2 = KOk s1 c n1 ns ->
  keq (kh_st (ksub k root f s1 c n1 sid u1 ns')) (kh_ca (ksub k root f s1 c n1 sid u1 ns')).
Proof. exact load_request_keq. Qed.
Theorem c09_boot_marks_equal_stored : forall k s c, und s -> kboot k s = Some c -> keq s c.
Proof. exact kboot_keq. Qed.
(* subscriptionReply never breaks it, loaded or not *)
Theorem c09_sub_keeps_marks_equal_stored : forall k root f s c n sid u ns,
  keq s c -> keq (kh_st (ksub k root f s c n sid u ns)) (kh_ca (ksub k root f s c n sid u ns)).
Proof. exact ksub_keq. Qed.

(* Hence what is REPORTED after a reload is never below what is stored: {get desc} reports exactly the user's own stored
   read mark, max(stored recv, stored read) and max(stored del, topic delID) ... *)
Theorem c09_reload_reports_stored : forall s c n sid u p rd rc dl,
  keq s c -> alookup u (k_users c) = Some p -> kp_deleted p = false -> is_reader (kp_mode p) = true ->
  smk s u = Some (rd, rc, dl) ->
  kh_out (kget_desc s c n sid u) =
    [(sid, MetaDesc (kp_want p) (kp_given p) (k_lastid c) rd (Z.max rc rd) (Z.max dl (k_delid c)) true)].
Proof. exact kget_desc_reports. Qed.

(* ... and a read / recv note that is not above the sender's STORED mark is dropped without any effect: store, cache and
   the number of adapter calls are as they were, nothing is relayed. *)
Theorem c09_reload_stale_note_silent : forall f s c n sid u what seq p rd rc dl,
  keq s c -> alookup u (k_users c) = Some p -> kp_deleted p = false -> smk s u = Some (rd, rc, dl) ->
  (what = K_read /\ seq <= rd) \/ (what = K_recv /\ seq <= rc) ->
  knote f s c n sid u what seq = mkKH s c n [].
Proof. exact knote_stale_stored. Qed.
Theorem c09_p2p_stale_note_silent : forall f s c n sid u what seq,
  (what = K_read /\ seq <= kp_read (kget c u)) \/ (what = K_recv /\ seq <= kp_recv (kget c u)) ->
  knote f s c n sid u what seq = mkKH s c n [].
Proof. exact knote_stale. Qed.

(* the hypotheses are satisfiable, on the seeded situation: user 1 unsubscribed (row soft-deleted with its old marks
   7/8), user 2 has read 5 / recv 7 of 9 messages, the topic is not loaded and user 1 re-subscribes first: the load takes
   the branch "the other party's subscription exists, the requester's is recreated"; user 2's entry carries 5 / 7, user
   1's row and entry restart from 0; a {note read 3} of user 2 is then dropped. *)
Definition c09_load_example_store : store :=
  mkStore true 9 0 0 0 0 [mkSub 1 31 31 7 8 0 true; mkSub 2 31 31 5 7 1 false] [] [] [(1%N, 47%N); (2%N, 47%N)].
Example c09_load_example :
  und c09_load_example_store /\ p2p_parties c09_load_example_store 1 2 /\
  exists s' c n',
    kinit_topic KP2P NoFault c09_load_example_store 0 1 2 = KOk s' c n' true /\
    kmk c 2 = Some (5, 7, 1) /\ smk s' 2 = Some (5, 7, 1) /\ kmk c 1 = Some (0, 0, 0) /\ smk s' 1 = Some (0, 0, 0) /\
    knote NoFault s' c 0 3 2 K_read 3 = mkKH s' c 0 [].
Proof.
  split; [unfold und; cbn; repeat constructor; cbn; intuition discriminate|].
  split; [intros r [<-|[<-|[]]]; cbn; auto|].
  eexists _, _, _. split; [vm_compute; reflexivity|]. repeat split; vm_compute; reflexivity.
Qed.

(* The cache marks equal the stored ones after a load - NOT in every reachable state: the full statement is REFUTED by the
   faithful model through the recorded finding stored-read-le-recv (a read note raises the cached received mark and
   stores the read mark alone).  c09_load_marks_equal_stored / c09_load_request_marks_equal_stored are the partial
   statement (the state right after a load). *)
Definition c09_cache_marks_equal_stored_always_statement : Prop :=
  forall k sm roots ua ub s h c, und s -> p2p_parties s ua ub ->
    y_ca (fst (krun k sm roots ua ub (mkKS s None 0) h)) = Some c ->
    keq (y_st (fst (krun k sm roots ua ub (mkKS s None 0) h))) c.
Theorem c09_cache_marks_equal_stored_always_refuted : ~ c09_cache_marks_equal_stored_always_statement.
Proof.
  intros H.
  pose (s0 := mkStore true 9 0 0 0 0 [mkSub 1 31 31 0 0 0 false; mkSub 2 31 31 0 0 0 false] [] [] [(1%N, 47%N); (2%N, 47%N)]).
  pose (sm0 := [(1%N, 1%N); (2%N, 2%N)]).
  pose (h0 := [(NoFault, KSub 1 false); (NoFault, KNote 1 K_read 2)]).
  assert (und s0) as U by (unfold und; cbn; repeat constructor; cbn; intuition discriminate).
  assert (p2p_parties s0 1 2) as PP by (intros r [<-|[<-|[]]]; cbn; auto).
  eassert (y_ca (fst (krun LP2P sm0 [] 1 2 (mkKS s0 None 0) h0)) = Some _) as E by (vm_compute; reflexivity).
  pose proof (H LP2P sm0 [] 1%N 2%N s0 h0 _ U PP E 1%N (2, 2, 0)) as K.
  assert (smk (y_st (fst (krun LP2P sm0 [] 1 2 (mkKS s0 None 0) h0))) 1 = Some (2, 0, 0)) as S by (vm_compute; reflexivity).
  rewrite S in K. assert (Some (2, 0, 0) = Some (2, 2, 0)) as X by (apply K; vm_compute; reflexivity). discriminate X.
Qed.

(* The loaders of this slice are those of the C01 load-path model (Sys/TopicLoad.v, corresponded to the code by the C01 check
   on lastID / delID / want / given) with the marks added: forgetting read / recv / del gives exactly C01's result - same
   store calls, same branches, same errors, same store, same counters, same modes. *)
Theorem c09_load_refines_c01_p2p : forall f s n u1 u2, forget_r (kinit_p2p f s n u1 u2) = init_p2p f s n u1 u2.
Proof. exact kinit_p2p_forget. Qed.
Theorem c09_load_refines_c01_sys : forall f s n, forget_r (kinit_sys f s n) = init_sys f s n.
Proof. exact kinit_sys_forget. Qed.

(* ---- the same slice over EVERY HISTORY of a p2p topic (Sys/LoadMarksC09Hist.v): any notes with any sequence numbers,
   publishes, unsubscriptions, re-subscriptions by EITHER party, by usrXXX or by p2pXXX name, idle unloads, restarts, any
   failing or crashing store call, from any stored state [s] with one row per user, rows of the two parties only, no row
   without a topic row, stored marks at most seqid ([ksinv]), seqid >= 0 and uid 0 not an account ([kbase]); the acting
   sessions belong to the two parties ([kop_ok]). *)
From Tinode Require Import Sys.LoadMarksC09Hist.
From Coq Require Import Lia.

(* The STORED marks never decrease: at every step of every history, neither stored mark of a party whose subscription
   row is live before and after the step is lower afterwards - across every load branch of initTopicP2P included. *)
Theorem c09_p2p_store_monotone : forall sm roots ua ub s h fo,
  ua <> 0%N -> ub <> 0%N -> ksinv ua ub s -> kbase s ->
  Forall (fun fo => kop_ok sm ua ub (snd fo)) h -> kop_ok sm ua ub (snd fo) ->
  let x := fst (krun LP2P sm roots ua ub (mkKS s None 0) h) in
  ksmono (y_st x) (y_st (fst (kstep_f LP2P sm roots ua ub x fo))).
Proof.
  intros sm roots ua ub s h fo NA NB SI KB OKh OKfo x.
  assert (kinv ua ub (mkKS s None 0)) as K0 by (split; [exact SI|split; [exact KB|exact I]]).
  pose proof (krun_inv sm roots ua ub NA NB h _ K0 OKh) as KI.
  exact (proj2 (kstep_f_inv sm roots ua ub NA NB x fo KI OKfo)).
Qed.

(* The invariant behind it, in every reachable state: the store keeps its shape and, while the topic is loaded, the topic
   row exists, 0 <= lastID <= seqid <= lastID + 1, an entry marked deleted (an unsubscribed party) has no live row, and
   every live entry has a live row whose marks are NOT AHEAD of the cached ones, the cached marks being at most lastID. *)
Theorem c09_p2p_store_not_ahead : forall sm roots ua ub s h,
  ua <> 0%N -> ub <> 0%N -> ksinv ua ub s -> kbase s ->
  Forall (fun fo => kop_ok sm ua ub (snd fo)) h ->
  let x := fst (krun LP2P sm roots ua ub (mkKS s None 0) h) in
  ksinv ua ub (y_st x) /\ kbase (y_st x) /\ match y_ca x with Some c => kcinv (y_st x) c | None => True end.
Proof.
  intros sm roots ua ub s h NA NB SI KB OKh x.
  assert (kinv ua ub (mkKS s None 0)) as K0 by (split; [exact SI|split; [exact KB|exact I]]).
  exact (krun_inv sm roots ua ub NA NB h _ K0 OKh).
Qed.

(* ACROSS A RELOAD, in every reachable state in which the topic is not loaded: whichever party attaches first, through
   whichever branch of initTopicP2P, with whichever store call failing - if the topic gets loaded, then every party's
   live cache entry carries exactly that party's own stored marks (so {get desc} reports them: c09_reload_reports_stored,
   and a note not above them is dropped: c09_reload_stale_note_silent), the stored marks of rows that were live are
   untouched by the load, and the reachable-state invariant holds again. *)
Theorem c09_p2p_reload_restores_stored_marks : forall sm roots ua ub s h f u1 byname s' c n' ns,
  ua <> 0%N -> ub <> 0%N -> ksinv ua ub s -> kbase s ->
  Forall (fun fo => kop_ok sm ua ub (snd fo)) h ->
  let x := fst (krun LP2P sm roots ua ub (mkKS s None 0) h) in
  u1 = ua \/ u1 = ub ->
  kinit_p2p f (y_st x) 0 u1 (if byname : bool then 0%N else kpeer ua ub u1) = KOk s' c n' ns ->
  keq s' c /\ kcinv s' c /\ ksmono (y_st x) s' /\ ksinv ua ub s' /\
  forall u p, alookup u (k_users c) = Some p -> kp_deleted p = false.
Proof.
  intros sm roots ua ub s h f u1 byname s' c n' ns NA NB SI KB OKh x PU LD.
  destruct (c09_p2p_store_not_ahead sm roots ua ub s h NA NB SI KB OKh) as [SI1 [KB1 _]]. fold x in SI1, KB1.
  assert ((if byname then 0%N else kpeer ua ub u1) = kpeer ua ub u1 \/ (if byname then 0%N else kpeer ua ub u1) = 0%N) as P2
    by (destruct byname; auto).
  destruct (kload_inv ua ub NA NB _ _ _ _ _ _ _ _ _ SI1 KB1 PU P2 LD) as [A [_ [C [D E]]]].
  split; [exact E|]. split; [exact C|]. split; [exact D|]. split; [exact A|].
  intros u p AL. eapply (kinit_topic_live KP2P); [exact LD|exact AL].
Qed.

(* the hypotheses are satisfiable: the seeded stored state and a history that unloads and reloads *)
Example c09_p2p_hist_hyps :
  ksinv 1 2 c09_load_example_store /\ kbase c09_load_example_store /\
  Forall (fun fo => kop_ok [(1%N, 1%N); (2%N, 2%N)] 1 2 (snd fo))
         [(NoFault, KSub 1 false); (NoFault, KSub 2 false); (NoFault, KNote 2 K_read 6); (NoFault, KLeave 1 true);
          (NoFault, KLeave 2 false); (NoFault, KUnload); (NoFault, KSub 1 false); (NoFault, KGetDesc 2)].
Proof.
  split.
  - split; [unfold und; cbn; repeat constructor; cbn; intuition discriminate|].
    split; [intros r [<-|[<-|[]]]; cbn; auto|]. split; [discriminate|].
    intros u rd rc dl H. unfold smk in H. destruct (find_sub u (subs c09_load_example_store)) as [r|] eqn:FS; [|discriminate H].
    unfold find_sub in FS. apply find_some in FS. destruct FS as [[<-|[<-|[]]] _]; cbn in H; [discriminate H|].
    inversion H. subst. cbn. lia.
  - split; [split; [cbn; lia|reflexivity]|]. repeat (apply Forall_cons; [cbn; unfold party; auto|]). apply Forall_nil.
Qed.

Print Assumptions c09_load_marks_equal_stored.
Print Assumptions c09_load_request_marks_equal_stored.
Print Assumptions c09_boot_marks_equal_stored.
Print Assumptions c09_sub_keeps_marks_equal_stored.
Print Assumptions c09_reload_reports_stored.
Print Assumptions c09_reload_stale_note_silent.
Print Assumptions c09_p2p_stale_note_silent.
Print Assumptions c09_load_example.
Print Assumptions c09_cache_marks_equal_stored_always_refuted.
Print Assumptions c09_load_refines_c01_p2p.
Print Assumptions c09_load_refines_c01_sys.
Print Assumptions c09_p2p_store_monotone.
Print Assumptions c09_p2p_store_not_ahead.
Print Assumptions c09_p2p_reload_restores_stored_marks.
Print Assumptions c09_p2p_hist_hyps.
