(* C16  Out-of-band files are served only to authorised users and kept while referenced.
   Theorems only; each is closed by [exact] of a lemma of Pure/UrlProofs.v,
   Sys/FilesGateProofs.v or Sys/FilesStoreProofs.v (or a one-line combination).
   Models: Pure/Url.v (media.GetIdFromUrl), Sys/Files.v (request gate of
   largeFileServe / largeFileReceive, disposition rule, store slice of uploads, links, GC).
   The models follow /repo after the fix commits c986697 (failed FinishUpload answered, bytes
   removed) and 560b667 (only completed uploads are served); the handlers as they were are kept
   as [upload_gate_unrepaired] / [download_unrepaired] and refuted below.
   Sys/FilesSaveC16b.v: messagesMapper.Save and Topic.saveAndBroadcastMessage statement by statement
   above the store slice (section "Save" below).
   Sys/FilesServeC16c.v: largeFileServe with every request field the upload side has (section "The
   download gate, every request field").  Sys/FilesDescC16c.v: Topic.replySetDesc with a fault plan
   over its adapter calls (section "Avatar updates under store faults"). *)
From Coq Require Import NArith ZArith List Bool.
From Tinode Require Import Pure.Url Pure.UrlProofs Sys.Files Sys.FilesGateProofs Sys.FilesStoreProofs.
From Tinode Require Import Sys.FilesSaveC16b Sys.FilesSaveC16bProofs.
From Tinode Require Import Sys.FilesServeC16c Sys.FilesServeC16cProofs Sys.FilesDescC16c Sys.FilesDescC16cProofs.
From Tinode Require Import Sys.FilesAccC16c Sys.FilesAccC16cProofs.
From Tinode Require Import Sys.FilesTypeC16f Sys.FilesTypeC16fProofs.
Import ListNotations.

(* ------------------------------------------------------------------ *)
(* the gate                                                             *)

(* Work (a record created, bytes written or served) happens only for GET on the download
   endpoint and POST/PUT on the upload endpoint, only when the first non-empty API key
   placement holds a valid key, and only when the request is authenticated as a non-zero
   uid - with exactly ONE exception, made by largeFileReceive (hdl_files.go:229): an
   unauthenticated upload whose topic field is "newacc". *)
Theorem c16_gate :
  (forall r, effect_of (serve_gate r) <> ENone ->
     s_meth r = MGet /\ first_some (s_keys r) = Some KValid /\
     exists u, auth_of (s_creds r) (s_sid r) = AuthUid u /\ u <> 0%N) /\
  (forall r, effect_of (upload_gate r) <> ENone ->
     (u_meth r = MPost \/ u_meth r = MPut) /\ first_some (u_keys r) = Some KValid /\
     exists u, auth_of (u_creds r) (u_sid r) = AuthUid u /\ (u <> 0%N \/ u_newacc r = true)).
Proof.
  split; intros r H.
  - destruct (serve_gate_work r H) as [Hm [Hk [Ha _]]]. exact (conj Hm (conj (key_check_source _ Hk) Ha)).
  - destruct (upload_gate_work r H) as [Hm [Hk [Ha _]]]. exact (conj Hm (conj (key_check_source _ Hk) Ha)).
Qed.
Print Assumptions c16_gate.

(* a non-zero uid comes from a credential placement accepted by its authenticator, or,
   when no placement names a method, from a live session id *)
Theorem c16_gate_credential_source : forall creds sid u,
  auth_of creds sid = AuthUid u -> u <> 0%N ->
  first_some creds = Some (CGood u) \/ (first_some creds = None /\ sid = Some u).
Proof. exact auth_uid_source. Qed.
Print Assumptions c16_gate_credential_source.

(* the property text as written: "act only on requests that carry a valid API key and valid
   credentials".  The faithful model refutes it for uploads (finding
   c16-unauthenticated-newacc-upload); [c16_gate] is the statement with the exception. *)
Definition c16_gate_statement : Prop :=
  forall r, effect_of (upload_gate r) <> ENone ->
    exists u, auth_of (u_creds r) (u_sid r) = AuthUid u /\ u <> 0%N.

Definition c16_newacc_request : ureq :=
  {| u_meth := MPost; u_key_hdr := Some KValid; u_key_query := None; u_key_form := None; u_key_cookie := None;
     u_cred_xauth := None; u_cred_authz := None; u_cred_query := None; u_cred_form := None; u_cred_cookie := None;
     u_sid_query := None; u_sid_form := None; u_topic_query := None; u_topic_form := Some true;
     u_handler := true; u_hdr := HdrStatus 0; u_limit := 4096; u_body := BForm 2000 true 1000; u_fault := FNone |}.

Theorem c16_gate_refuted : ~ c16_gate_statement.
Proof.
  intros H. destruct (H c16_newacc_request) as [u [Ha Hu]]; [vm_compute; discriminate|].
  vm_compute in Ha. inversion Ha. congruence.
Qed.
Print Assumptions c16_gate_refuted.

Theorem c16_methods :
  (forall r, s_meth r <> MGet -> s_meth r <> MHead -> s_meth r <> MOptions ->
     serve_gate r = Reply 405 ENone) /\
  (forall r, u_meth r <> MPost -> u_meth r <> MPut -> u_meth r <> MHead -> u_meth r <> MOptions ->
     upload_gate r = Reply 405 ENone).
Proof. exact (conj serve_methods upload_methods). Qed.
Print Assumptions c16_methods.

(* A reply other than 200 has no effect: nothing is served, and nothing is stored unless the
   STORE failed while the upload was being finalised (an injected fault, not a refusal; next
   theorem).  A request without effect leaves the store slice as it was.  The upload handler
   leaves no request unanswered except when no media handler is configured (no effect). *)
Theorem c16_refused_no_effect :
  (forall r c e, serve_gate r = Reply c e -> c <> 200%Z -> e = ENone) /\
  (forall r c e, upload_gate r = Reply c e -> c <> 200%Z -> u_fault r <> FFinish -> e = ENone) /\
  (forall r c e, upload_gate r = Reply c e -> c <> 200%Z ->
     e = ENone \/ (e = EResidueNoBytes /\ c = 500%Z /\ u_fault r = FFinish)) /\
  (forall r e, upload_gate r = Crash e -> u_handler r = false /\ e = ENone) /\
  (forall s r fid now mime, effect_of (upload_gate r) = ENone -> fst (apply_upload s r fid now mime) = s).
Proof.
  exact (conj serve_refused_no_effect (conj upload_refused_no_effect (conj upload_refused_effect
        (conj upload_answered upload_refused_state)))).
Qed.
Print Assumptions c16_refused_no_effect.

(* The failed upload (FinishUpload fails in the store; hdl_files.go:327-334 after c986697), in
   the state reached by ANY history and for a fresh id: the reply is 500; what is left is ONE
   record in status 'started'; its bytes are gone (the stored bytes are those of before); no
   link, message, topic or user row changed; no URL serves anything it did not serve before;
   the record has no link row, and the next GC run without a limit whose bound is past the
   upload time removes it. *)
Theorem c16_failed_upload_collectable : forall h r fid now mime c e,
  let s := run h in
  upload_gate r = Reply c e -> c <> 200%Z -> e <> ENone ->
  memN fid (file_ids s) = false -> fid <> 0%N ->
  let s' := fst (apply_upload s r fid now mime) in
  let rec := {| f_id := fid; f_done := false; f_upd := now; f_mime := mime |} in
  c = 500%Z /\ u_fault r = FFinish /\
  files s' = files s ++ [rec] /\ disk s' = disk s /\ links s' = links s /\ msgs s' = msgs s /\
  next_mid s' = next_mid s /\ topics s' = topics s /\ users s' = users s /\
  (forall serve url, download s' serve url = download s serve url) /\
  linked fid (links s') = false /\
  (forall older limit, (limit <= 0)%Z -> gc_older_ok older rec = true ->
     ~ In fid (file_ids (step s' (OGC older limit))) /\ ~ In fid (disk (step s' (OGC older limit)))).
Proof. exact failed_upload_request. Qed.
Print Assumptions c16_failed_upload_collectable.

Definition c16_finish_fault_request : ureq :=
  {| u_meth := MPost; u_key_hdr := Some KValid; u_key_query := None; u_key_form := None; u_key_cookie := None;
     u_cred_xauth := Some (CGood 1); u_cred_authz := None; u_cred_query := None; u_cred_form := None; u_cred_cookie := None;
     u_sid_query := None; u_sid_form := None; u_topic_query := None; u_topic_form := None;
     u_handler := true; u_hdr := HdrStatus 0; u_limit := 4096; u_body := BForm 2000 true 1000; u_fault := FFinish |}.

(* "every request that is not answered 200 leaves no trace": false when the store fails at
   FinishUpload - the record cannot be removed from a failing store and is left to the GC (the
   property text: failed uploads become collectable).  Kept and refuted; not a defect. *)
Definition c16_failed_no_trace_statement : Prop :=
  forall s r fid now mime c e,
    upload_gate r = Reply c e -> c <> 200%Z -> fst (apply_upload s r fid now mime) = s.

Theorem c16_failed_no_trace_refuted : ~ c16_failed_no_trace_statement.
Proof.
  intros H. specialize (H init c16_finish_fault_request 5%N 0%Z [] 500%Z EResidueNoBytes eq_refl).
  assert (X : (500 <> 200)%Z) by discriminate. specialize (H X). vm_compute in H. discriminate.
Qed.
Print Assumptions c16_failed_no_trace_refuted.

(* the upload handler as it was before c986697: the same request gets NO reply (panic on the
   nil fdef) and record AND bytes stay *)
Definition c16_upload_answered_unrepaired_statement : Prop :=
  forall r e, upload_gate_unrepaired r = Crash e -> u_handler r = false /\ e = ENone.

Theorem c16_upload_answered_unrepaired_refuted : ~ c16_upload_answered_unrepaired_statement.
Proof.
  intros H. destruct (H c16_finish_fault_request EResidue eq_refl) as [H1 _]. discriminate.
Qed.
Print Assumptions c16_upload_answered_unrepaired_refuted.

(* a body above the configured size is never stored, and is answered 413 once it is looked at *)
Theorem c16_size_limit : forall r total hf flen,
  u_body r = BForm total hf flen -> (0 < u_limit r)%Z -> (u_limit r < total)%Z ->
  effect_of (upload_gate r) = ENone /\ upload_body r = Reply 413 ENone.
Proof.
  intros r total hf flen Hb Hl Ht.
  exact (conj (upload_size_limit r total hf flen Hb Hl Ht) (upload_size_limit_413 r total hf flen Hb Hl Ht)).
Qed.
Print Assumptions c16_size_limit.

(* ------------------------------------------------------------------ *)
(* URLs                                                                 *)

(* Every URL (every byte string) that yields an id: the cleaned path is [dir ++ name] with
   dir empty or exactly the serve prefix, name without '/', name = 11 characters of
   [-_A-Za-z0-9] followed by nothing or by a character outside the class, and the id is the
   decoding of those 11 characters.  Nothing else of the URL is used. *)
Theorem c16_url_names_upload : forall serve url id,
  get_id_from_url serve url = id -> id <> 0%N ->
  exists dir name pre rest,
    path_clean url = dir ++ name /\ (dir = [] \/ dir = serve) /\ ~ In cSlash name /\
    name = pre ++ rest /\ length pre = 11%nat /\ forallb fname_char pre = true /\
    match rest with [] => True | c :: _ => fname_char c = false end /\
    parse_uid pre = id.
Proof. exact url_names_upload. Qed.
Print Assumptions c16_url_names_upload.

Theorem c16_url_foreign_dir : forall serve url d f,
  path_split (path_clean url) = (d, f) -> d <> [] -> d <> serve -> get_id_from_url serve url = 0%N.
Proof. exact foreign_dir_names_nothing. Qed.
Print Assumptions c16_url_foreign_dir.

(* the cleaned form of an absolute path has no empty, "." or ".." element *)
Theorem c16_url_no_traversal : forall p,
  is_rooted p = true ->
  path_clean p = cSlash :: join_slash (clean_elems p) /\ Forall real_elem (clean_elems p).
Proof. intros p H. exact (conj (path_clean_rooted p H) (clean_elems_rooted_real p H)). Qed.
Print Assumptions c16_url_no_traversal.

(* a download serves a record of the store, found by the id alone, and its own bytes *)
Theorem c16_download_names_record : forall s serve url f,
  download s serve url = Some f ->
  get_id_from_url serve url = f_id f /\ f_id f <> 0%N /\ In f (files s) /\ In (f_id f) (disk s).
Proof. exact download_names_record. Qed.
Print Assumptions c16_download_names_record.

(* "no URL - relative, absolute, with traversal segments or odd characters - can name anything
   other than a completed upload": for EVERY state of the store slice, EVERY serve prefix and
   EVERY byte string as URL, what Download serves is a record of the store in status
   'completed', selected by the id the URL yields (c16_url_names_upload says which part of the
   URL that is), with its bytes present.  (filesys.go:119, fix 560b667) *)
Theorem c16_download_completed : forall s serve url f,
  download s serve url = Some f ->
  f_done f = true /\ is_done (f_id f) (files s) = true /\
  get_id_from_url serve url = f_id f /\ f_id f <> 0%N /\ In f (files s) /\ In (f_id f) (disk s).
Proof. exact download_completed. Qed.
Print Assumptions c16_download_completed.

(* a record that is not completed (upload running, failed, or abandoned) is invisible to every URL *)
Theorem c16_download_started_none : forall s serve url,
  is_done (get_id_from_url serve url) (files s) = false -> download s serve url = None.
Proof. exact download_started_none. Qed.
Print Assumptions c16_download_started_none.

(* over ALL histories: what a download serves was uploaded (StartUpload with the content type
   the record carries - the detected type) and completed (FinishUpload ok) in that history *)
Theorem c16_download_provenance : forall h serve url f,
  download (run h) serve url = Some f ->
  (exists t0, In (OStart (f_id f) t0 (f_mime f)) h) /\ In (OFinish (f_id f) true (f_upd f)) h.
Proof. exact download_provenance. Qed.
Print Assumptions c16_download_provenance.

(* the download request as a whole (gate of largeFileServe + fs Download), every state, every
   request, every URL: bytes are sent only by a 200 reply to a GET with a valid API key and a
   non-zero authenticated uid, and they are the bytes of the completed upload the URL names;
   otherwise the request has no effect *)
Theorem c16_served_only_completed :
  (forall s r serve url o f,
     serve_request s r serve url = (o, Some f) ->
     o = Reply 200 EServed /\ s_meth r = MGet /\ first_some (s_keys r) = Some KValid /\
     (exists u, auth_of (s_creds r) (s_sid r) = AuthUid u /\ u <> 0%N) /\
     download s serve url = Some f /\
     f_done f = true /\ In f (files s) /\ get_id_from_url serve url = f_id f /\ In (f_id f) (disk s)) /\
  (forall s r serve url o, serve_request s r serve url = (o, None) -> effect_of o = ENone).
Proof. exact (conj serve_request_served serve_request_nothing). Qed.
Print Assumptions c16_served_only_completed.

(* Download as it was before 560b667 (no status test): refuted, an upload that was started and
   never completed is served *)
Definition c16_download_completed_unrepaired_statement : Prop :=
  forall h serve url f, download_unrepaired (run h) serve url = Some f -> f_done f = true.

Theorem c16_download_completed_unrepaired_refuted : ~ c16_download_completed_unrepaired_statement.
Proof.
  intros H.
  pose (name := [86;102;51;107;81;57;95;45;97;90;48]%N).
  specialize (H [OStart (parse_uid name) 0 []] [] name).
  vm_compute in H. specialize (H _ eq_refl). discriminate.
Qed.
Print Assumptions c16_download_completed_unrepaired_refuted.

(* ------------------------------------------------------------------ *)
(* disposition                                                          *)

Theorem c16_active_types_attached : forall asatt mime,
  active mime = true -> force_attachment asatt mime = true.
Proof. exact active_attached. Qed.
Print Assumptions c16_active_types_attached.

(* ------------------------------------------------------------------ *)
(* garbage collection, over ALL histories of the store slice            *)

(* After DeleteUnused(older, limit) in the state reached by ANY history h:
   a record is gone iff it is in the removed set; the removed set consists of records without
   a link row that are older than the bound; it is all of them when there is no limit, and
   min(limit, candidates) of them otherwise; linked records stay; the location of every removed
   record is handed to the media handler's Delete and its bytes are gone; no other bytes, no
   link, message, topic or user row is touched. *)
Theorem c16_gc_exact : forall h older limit,
  let s := run h in
  let s' := step s (OGC older limit) in
  let rem := gc_removed s older limit in
  (forall f, In f (files s) -> (In f (files s') <-> ~ In f rem)) /\
  (forall f, In f (files s') -> In f (files s)) /\
  (forall f, In f rem ->
     In f (files s) /\ linked (f_id f) (links s) = false /\ gc_older_ok older f = true) /\
  ((limit <= 0)%Z -> forall f, In f (files s) -> linked (f_id f) (links s) = false ->
     gc_older_ok older f = true -> In f rem) /\
  ((0 < limit)%Z ->
     length rem = Nat.min (Z.to_nat limit) (length (filter (gc_candidate s older) (files s)))) /\
  (forall f, In f (files s) -> linked (f_id f) (links s) = true -> In f (files s')) /\
  (forall f, In f rem ->
     In (f_id f) (gc_deleted_locations s older limit) /\ ~ In (f_id f) (disk s')) /\
  (forall d, In d (disk s) -> ~ In d (gc_deleted_locations s older limit) -> In d (disk s')) /\
  links s' = links s /\ msgs s' = msgs s /\ topics s' = topics s /\ users s' = users s.
Proof.
  intros h older limit. apply gc_exact_step. destruct (inv_run h) as [H _]. exact H.
Qed.
Print Assumptions c16_gc_exact.

(* in every reachable state: ids are unique, stored bytes belong to upload records, every
   COMPLETED upload has its bytes (a record in status 'started' may have lost them: failed
   FinishUpload), every link points to an existing record and an existing message / topic / user *)
Theorem c16_store_consistent : forall h,
  let s := run h in
  NoDup (file_ids s) /\
  (forall d, In d (disk s) -> In d (file_ids s)) /\
  (forall f, is_done f (files s) = true -> In f (disk s)) /\
  (forall f t, In (f, t) (links s) -> In f (file_ids s) /\ target_live s t = true).
Proof.
  intros h. destruct (inv_run h) as [H1 [[H2 H3] [_ [H4 _]]]]. exact (conj H1 (conj H2 (conj H3 H4))).
Qed.
Print Assumptions c16_store_consistent.

(* "uploads that were never linked, failed, or lost their last link become collectable ... and
   are then removed together with their stored bytes": after ANY history, a record without a link
   row - whatever its status - is removed with its bytes by the next GC run without a limit whose
   bound is past the record's time *)
Theorem c16_unreferenced_collected : forall h f older limit,
  let s := run h in
  In f (files s) -> linked (f_id f) (links s) = false -> gc_older_ok older f = true -> (limit <= 0)%Z ->
  ~ In (f_id f) (file_ids (step s (OGC older limit))) /\ ~ In (f_id f) (disk (step s (OGC older limit))).
Proof. exact unreferenced_collected_run. Qed.
Print Assumptions c16_unreferenced_collected.

(* "and nothing else is removed": after ANY history, whatever the next operation is, an upload
   record disappears only in a GC run that selected it (no link row, older than the bound) or -
   if it was still in status 'started' - through FinishUpload(failed); stored bytes disappear only
   with a GC-selected record, or for an upload that is not completed (failed copy / failed
   FinishUpload).  In particular a completed upload and its bytes go only through the GC, unlinked. *)
Theorem c16_nothing_else_removed : forall h o,
  let s := run h in
  (forall f, In f (files s) -> ~ In (f_id f) (file_ids (step s o)) ->
     (exists older limit, o = OGC older limit /\ In f (gc_removed s older limit) /\
        linked (f_id f) (links s) = false /\ gc_older_ok older f = true) \/
     (exists now, o = OFinish (f_id f) false now /\ f_done f = false)) /\
  (forall d, In d (disk s) -> ~ In d (disk (step s o)) ->
     (exists older limit, o = OGC older limit /\ In d (gc_deleted_locations s older limit)) \/
     (exists now, o = OFinish d false now /\ is_done d (files s) = false) \/
     (o = ODropBytes d /\ is_done d (files s) = false)).
Proof.
  intros h o. exact (conj (record_removed_only_by_run h o) (bytes_removed_only_by (run h) o)).
Qed.
Print Assumptions c16_nothing_else_removed.

(* "never garbage-collected while it exists", as a one-step invariant over ALL histories: in the
   state reached by any history, a completed upload that has at least one link row is still a
   record, with its bytes, after ANY next operation (GC run with any bound and limit, upload,
   failed upload, publish, avatar change, deletion) *)
Theorem c16_linked_never_removed : forall h o f t,
  let s := run h in
  In (f, t) (links s) -> is_done f (files s) = true ->
  In f (file_ids (step s o)) /\ In f (disk (step s o)).
Proof. exact linked_never_removed. Qed.
Print Assumptions c16_linked_never_removed.

(* deleting messages / a topic / a user removes exactly their link rows (so that uploads whose
   last link this was become collectable, previous theorem) and touches no record and no bytes *)
Theorem c16_deletion_unlinks : forall s,
  (forall mids f m, In m mids -> ~ In (f, TMsg m) (links (step s (ODelMsgs mids)))) /\
  (forall t f, ~ In (f, TTopic t) (links (step s (ODelTopic t))) /\
     forall m, msg_topic m (msgs s) = Some t -> ~ In (f, TMsg m) (links (step s (ODelTopic t)))) /\
  (forall u f, ~ In (f, TUser u) (links (step s (ODelUser u)))) /\
  (forall o, match o with ODelMsgs _ | ODelTopic _ | ODelUser _ => True | _ => False end ->
     files (step s o) = files s /\ disk (step s o) = disk s).
Proof.
  intros s. exact (conj (del_msgs_unlinks s) (conj (del_topic_unlinks s) (conj (del_user_unlinks s) (deletions_keep_files s)))).
Qed.
Print Assumptions c16_deletion_unlinks.

(* ------------------------------------------------------------------ *)
(* kept while referenced                                                *)

(* Scope the code guarantees: the message is saved in an existing topic, EVERY id the
   attachment list resolves to names an upload record (otherwise nothing is linked, see
   below), and the upload was completed.  Then, whatever happens afterwards (h2: uploads,
   publishes, avatar changes, deletions, GC runs with any bound and limit), as long as the
   message exists the link row, the record and the bytes exist. *)
Theorem c16_linked_while_referenced : forall h1 topic fids h2 f,
  let s1 := run h1 in
  memN topic (topics s1) = true ->
  forallb (fun x => memN x (file_ids s1)) fids = true ->
  In f fids -> is_done f (files s1) = true ->
  let mid := next_mid s1 in
  let s2 := run (h1 ++ OPublish topic fids :: h2) in
  target_live s2 (TMsg mid) = true ->
  In (f, TMsg mid) (links s2) /\ In f (file_ids s2) /\ In f (disk s2) /\ is_done f (files s2) = true.
Proof. exact linked_msg. Qed.
Print Assumptions c16_linked_while_referenced.

(* the same, end to end from the URLs of the {pub} request (Pure/Url.v and the store slice
   together): under the same scope, a listed URL that names a completed upload keeps its link row,
   its record and its bytes, and Download of that very URL keeps serving that upload, for as long
   as the message exists - whatever else happens *)
Theorem c16_listed_url_kept_downloadable : forall h1 serve topic urls h2 url,
  let s1 := run h1 in
  let fids := resolve serve urls in
  memN topic (topics s1) = true ->
  forallb (fun x => memN x (file_ids s1)) fids = true ->
  In url urls -> is_done (get_id_from_url serve url) (files s1) = true ->
  let mid := next_mid s1 in
  let s2 := run (h1 ++ OPublish topic fids :: h2) in
  target_live s2 (TMsg mid) = true ->
  let f := get_id_from_url serve url in
  In (f, TMsg mid) (links s2) /\ In f (file_ids s2) /\ In f (disk s2) /\
  exists g, download s2 serve url = Some g /\ f_id g = f /\ f_done g = true.
Proof. exact listed_url_linked. Qed.
Print Assumptions c16_listed_url_kept_downloadable.

(* avatars: the first resolvable id of the list, until the topic / user is deleted or its
   avatar is replaced *)
Theorem c16_topic_avatar_linked : forall h1 t f rest h2,
  let s1 := run h1 in
  memN f (file_ids s1) = true -> memN t (topics s1) = true -> is_done f (files s1) = true ->
  forallb (avatar_kept (TTopic t)) h2 = true ->
  let s2 := run_from (step s1 (OTopicAvatar t (f :: rest))) h2 in
  In (f, TTopic t) (links s2) /\ In f (file_ids s2) /\ In f (disk s2) /\ is_done f (files s2) = true.
Proof. intros h1 t f rest h2. exact (linked_avatar h1 (TTopic t) f rest h2 I). Qed.
Print Assumptions c16_topic_avatar_linked.

Theorem c16_user_avatar_linked : forall h1 u f rest h2,
  let s1 := run h1 in
  memN f (file_ids s1) = true -> memN u (users s1) = true -> is_done f (files s1) = true ->
  forallb (avatar_kept (TUser u)) h2 = true ->
  let s2 := run_from (step s1 (OUserAvatar u (f :: rest))) h2 in
  In (f, TUser u) (links s2) /\ In f (file_ids s2) /\ In f (disk s2) /\ is_done f (files s2) = true.
Proof. intros h1 u f rest h2. exact (linked_avatar h1 (TUser u) f rest h2 I). Qed.
Print Assumptions c16_user_avatar_linked.

(* the full sentence of the property for messages - every listed attachment that names a
   completed upload is linked while the message exists - is refuted: one listed id without a
   record makes the single INSERT fail, the message row stays, nothing is linked
   (finding c16-attachment-link-all-or-nothing) *)
Definition c16_linked_statement : Prop :=
  forall h1 topic fids f,
    let s1 := run h1 in
    memN topic (topics s1) = true -> In f fids -> is_done f (files s1) = true ->
    let s2 := step s1 (OPublish topic fids) in
    target_live s2 (TMsg (next_mid s1)) = true /\ In (f, TMsg (next_mid s1)) (links s2).

Theorem c16_linked_refuted : ~ c16_linked_statement.
Proof.
  intros H.
  specialize (H [OAddTopic 1; OStart 5 0 []; OFinish 5 true 0] 1%N [5; 6]%N 5%N eq_refl (or_introl eq_refl) eq_refl).
  destruct H as [_ H]. vm_compute in H. exact H.
Qed.
Print Assumptions c16_linked_refuted.

Theorem c16_missing_attachment_links_nothing : forall s topic fids,
  forallb (fun x => memN x (file_ids s)) fids = false ->
  links (step s (OPublish topic fids)) = links s.
Proof. exact publish_missing_links_nothing. Qed.
Print Assumptions c16_missing_attachment_links_nothing.

(* ------------------------------------------------------------------ *)
(* Save: the attachments of EVERY accepted message are linked, whoever sent it             *)
(* (Sys/FilesSaveC16b.v: messagesMapper.Save = TopicUpdateOnMessage; MessageSave;          *)
(*  [SubsUpdate, error ignored]; [FileLinkAttachments, error returned], with readBySender, *)
(*  the sender uid and a fault plan of the four adapter calls as parameters)               *)

(* For EVERY store state, fault plan, message, sender uid (zero included), attachment list and
   BOTH values of readBySender: if Save returns no error then every listed URL that yields a file
   id has its link row to the new message, the message row exists and the upload record exists. *)
Theorem c16_save_links_every_attachment : forall ft serve s m urls read_by_sender url,
  let r := save_c16b ft true serve s m urls read_by_sender in
  sr_err (snd r) = false ->
  In url urls -> get_id_from_url serve url <> 0%N ->
  In (get_id_from_url serve url, TMsg (next_mid (sv_fs s))) (links (sv_fs (fst r))) /\
  target_live (sv_fs (fst r)) (TMsg (next_mid (sv_fs s))) = true /\
  In (get_id_from_url serve url) (file_ids (sv_fs (fst r))).
Proof. exact save_accepted_links. Qed.
Print Assumptions c16_save_links_every_attachment.

(* ... and Save does return no error whenever TopicUpdateOnMessage, MessageSave and
   FileLinkAttachments do not fail, the topic row exists and every listed id names an upload record
   (the existing scope of c16_linked_while_referenced) - whatever readBySender, the sender, the
   subscription rows and the outcome of SubsUpdate are. *)
Theorem c16_save_accepts : forall ft handler serve s m urls read_by_sender,
  ff_topic ft = false -> ff_msg ft = false -> ff_link ft = false ->
  memN (mg_topic m) (topics (sv_fs s)) = true ->
  forallb (fun x => memN x (file_ids (sv_fs s))) (save_fids_c16b handler serve urls) = true ->
  sr_err (snd (save_c16b ft handler serve s m urls read_by_sender)) = false.
Proof. exact save_accepts. Qed.
Print Assumptions c16_save_accepts.

(* "independently of readBySender": upload records, link rows, message rows, bytes and the error
   returned are the same function of (fault plan of the three other calls, media handler, topic,
   URLs) for any two values of readBySender, any two senders, any two sequence numbers, any two
   outcomes of SubsUpdate and any two subscription tables. *)
Theorem c16_save_independent_of_sender : forall ft ft' handler serve s s' m m' urls rbs rbs',
  ff_topic ft = ff_topic ft' -> ff_msg ft = ff_msg ft' -> ff_link ft = ff_link ft' ->
  sv_fs s = sv_fs s' -> mg_topic m = mg_topic m' ->
  sv_fs (fst (save_c16b ft handler serve s m urls rbs)) = sv_fs (fst (save_c16b ft' handler serve s' m' urls rbs')) /\
  sr_err (snd (save_c16b ft handler serve s m urls rbs)) = sr_err (snd (save_c16b ft' handler serve s' m' urls rbs')).
Proof. exact save_fs_independent. Qed.
Print Assumptions c16_save_independent_of_sender.

(* Save IS the publish operation of the history model (so every history theorem above applies to
   it): an accepted Save leaves exactly the file slice of [OPublish topic (resolve serve urls)] *)
Theorem c16_save_is_publish : forall ft serve s m urls read_by_sender,
  let r := save_c16b ft true serve s m urls read_by_sender in
  sr_err (snd r) = false ->
  memN (mg_topic m) (topics (sv_fs s)) = true /\
  forallb (fun x => memN x (file_ids (sv_fs s))) (resolve serve urls) = true /\
  sv_fs (fst r) = step (sv_fs s) (OPublish (mg_topic m) (resolve serve urls)).
Proof. exact save_accepted_fs. Qed.
Print Assumptions c16_save_is_publish.

(* over ALL histories before (h1) and after (h2) the Save: a listed URL that names a completed
   upload keeps its link row, its record, its bytes and stays downloadable by that very URL for as
   long as the message exists - for every sender, readBySender and fault plan under which Save
   returned no error *)
Theorem c16_save_listed_url_kept_downloadable : forall h1 ft serve sq sb cl m urls read_by_sender h2 url,
  let s := {| sv_fs := run h1; sv_seq := sq; sv_subs := sb; sv_calls := cl |} in
  let r := save_c16b ft true serve s m urls read_by_sender in
  sr_err (snd r) = false ->
  In url urls -> is_done (get_id_from_url serve url) (files (run h1)) = true ->
  let mid := next_mid (run h1) in
  let s2 := run_from (sv_fs (fst r)) h2 in
  target_live s2 (TMsg mid) = true ->
  let f := get_id_from_url serve url in
  In (f, TMsg mid) (links s2) /\ In f (file_ids s2) /\ In f (disk s2) /\
  exists g, download s2 serve url = Some g /\ f_id g = f /\ f_done g = true.
Proof. exact save_listed_url_linked. Qed.
Print Assumptions c16_save_listed_url_kept_downloadable.

(* Topic.saveAndBroadcastMessage, EVERY sender mode (want, given: any N, in particular all 256 x 256
   access modes), 'sys' or not, subscribed or not (want = given = 0), any acting uid: a publish that
   is answered "accepted" has every resolvable attachment linked to the stored message.  W without R
   (readBySender = false) is not special. *)
Theorem c16_every_sender_mode_links : forall ft serve s is_sys want given last_id topic as_uid urls s' marked url,
  pub_save_c16b ft true serve s is_sys want given last_id topic as_uid urls = (s', PubAccepted marked) ->
  In url urls -> get_id_from_url serve url <> 0%N ->
  In (get_id_from_url serve url, TMsg (next_mid (sv_fs s))) (links (sv_fs s')) /\
  target_live (sv_fs s') (TMsg (next_mid (sv_fs s))) = true /\
  In (get_id_from_url serve url) (file_ids (sv_fs s')).
Proof. exact pub_accepted_links. Qed.
Print Assumptions c16_every_sender_mode_links.

(* two publishes of the same attachment list that pass the write gate - by senders of any two modes,
   to 'sys' or not - leave the same upload records, link rows and bytes and fail or succeed together;
   a publish is refused only to a non-writer outside 'sys', and then nothing at all changes *)
Theorem c16_pub_independent_of_sender_mode :
  (forall ft ft' handler serve s is_sys is_sys' want given want' given' last last' topic as_uid as_uid' urls,
     ff_topic ft = ff_topic ft' -> ff_msg ft = ff_msg ft' -> ff_link ft = ff_link ft' ->
     let r := pub_save_c16b ft handler serve s is_sys want given last topic as_uid urls in
     let r' := pub_save_c16b ft' handler serve s is_sys' want' given' last' topic as_uid' urls in
     snd r <> PubDenied -> snd r' <> PubDenied ->
     sv_fs (fst r) = sv_fs (fst r') /\ (snd r = PubFailed <-> snd r' = PubFailed)) /\
  (forall ft handler serve s is_sys want given last topic as_uid urls s',
     pub_save_c16b ft handler serve s is_sys want given last topic as_uid urls = (s', PubDenied) ->
     s' = s /\ is_sys = false /\ is_writer_c16b (N.land want given) = false) /\
  (forall ft handler serve s is_sys want given last topic as_uid urls,
     snd (pub_save_c16b ft handler serve s is_sys want given last topic as_uid urls) <> PubDenied ->
     is_sys = true \/ is_writer_c16b (N.land want given) = true).
Proof. exact (conj pub_fs_independent_of_sender (conj pub_denied_no_effect pub_gate)). Qed.
Print Assumptions c16_pub_independent_of_sender_mode.

(* what readBySender and the sender DO decide: the sender's read / received marks, and nothing else.
   SubsUpdate runs only for a reading sender with a non-zero uid (a zero uid would reset the marks of
   every subscriber); its failure is ignored. *)
Theorem c16_save_marks_only : forall ft handler serve s m urls read_by_sender,
  (ff_topic ft = false -> ff_msg ft = false -> memN (mg_topic m) (topics (sv_fs s)) = true ->
     sr_marked (snd (save_c16b ft handler serve s m urls read_by_sender)) =
     read_by_sender && negb (mg_from m =? 0)%N && negb (ff_subs ft)) /\
  (read_by_sender = false \/ mg_from m = 0%N ->
     sv_subs (fst (save_c16b ft handler serve s m urls read_by_sender)) = sv_subs s).
Proof.
  intros ft handler serve s m urls rbs.
  exact (conj (save_marked_iff ft handler serve s m urls rbs) (save_subs_untouched ft handler serve s m urls rbs)).
Qed.
Print Assumptions c16_save_marks_only.

(* Save's control flow as the sequence of adapter calls it makes (the log memverif keeps; compared with
   the implementation's log on every generated publish): TopicUpdateOnMessage; then MessageSave unless
   that failed; then, unless that failed, SubsUpdate iff readBySender and the sender uid is not zero, and
   FileLinkAttachments iff the list resolves to at least one id and a media handler is configured - in
   particular the link call does NOT depend on readBySender, on the sender or on what SubsUpdate did *)
Theorem c16_save_calls : forall ft handler serve s m urls read_by_sender,
  sv_calls (fst (save_c16b ft handler serve s m urls read_by_sender)) =
  sv_calls s ++
  (CTopicUpdateOnMessage, ff_topic ft) ::
  if ff_topic ft then []
  else (CMessageSave, ff_msg ft) ::
    if ff_msg ft || negb (memN (mg_topic m) (topics (sv_fs s))) then []
    else (if read_by_sender && negb (mg_from m =? 0)%N then [(CSubsUpdate, ff_subs ft)] else []) ++
         (match save_fids_c16b handler serve urls with
          | [] => []
          | _ :: _ => [(CFileLinkAttachments, ff_link ft)]
          end).
Proof. exact save_calls_char. Qed.
Print Assumptions c16_save_calls.

(* The sentence without the scope - "once the message row is stored, every listed attachment that
   names a completed upload is linked" - is refuted by Save's own control flow: FileLinkAttachments
   is called AFTER MessageSave and its error is returned with the row in place (a store failure,
   or one listed id without a record: finding c16-attachment-link-all-or-nothing). *)
Definition c16_save_row_linked_statement : Prop :=
  forall ft serve s m urls read_by_sender url,
    ff_topic ft = false -> ff_msg ft = false -> memN (mg_topic m) (topics (sv_fs s)) = true ->
    In url urls -> is_done (get_id_from_url serve url) (files (sv_fs s)) = true ->
    let r := save_c16b ft true serve s m urls read_by_sender in
    In (get_id_from_url serve url, TMsg (next_mid (sv_fs s))) (links (sv_fs (fst r))).

Definition c16_save_witness_name : list N := [86;102;51;107;81;57;95;45;97;90;48]%N.
Definition c16_save_witness_state : sstate_c16b :=
  {| sv_fs := run [OAddTopic 1; OStart (parse_uid c16_save_witness_name) 0 []; OFinish (parse_uid c16_save_witness_name) true 0];
     sv_seq := [(1, 0)]%N; sv_subs := [{| sb_topic := 1; sb_user := 7; sb_recv := 0; sb_read := 0 |}]; sv_calls := [] |}.

Theorem c16_save_row_linked_refuted : ~ c16_save_row_linked_statement.
Proof.
  intros H.
  specialize (H {| ff_topic := false; ff_msg := false; ff_subs := false; ff_link := true |} []
                c16_save_witness_state {| mg_topic := 1; mg_seq := 1; mg_from := 7 |}
                [c16_save_witness_name] true c16_save_witness_name eq_refl eq_refl eq_refl (or_introl eq_refl) eq_refl).
  vm_compute in H. exact H.
Qed.
Print Assumptions c16_save_row_linked_refuted.

(* exactly when: an error with the row stored comes from FileLinkAttachments - injected failure or a
   listed id without a record - and then NO link row was written *)
Theorem c16_save_error_after_row : forall ft handler serve s m urls read_by_sender,
  let r := save_c16b ft handler serve s m urls read_by_sender in
  sr_err (snd r) = true -> ff_topic ft = false -> ff_msg ft = false ->
  memN (mg_topic m) (topics (sv_fs s)) = true ->
  target_live (sv_fs (fst r)) (TMsg (next_mid (sv_fs s))) = true /\
  links (sv_fs (fst r)) = links (sv_fs s) /\
  (ff_link ft = true \/ forallb (fun x => memN x (file_ids (sv_fs s))) (save_fids_c16b handler serve urls) = false).
Proof. exact save_error_after_row. Qed.
Print Assumptions c16_save_error_after_row.

(* the statement under the hypothesis that excludes exactly that trigger *)
Theorem c16_save_row_linked_partial : forall ft serve s m urls read_by_sender url,
  ff_topic ft = false -> ff_msg ft = false -> memN (mg_topic m) (topics (sv_fs s)) = true ->
  ff_link ft = false -> forallb (fun x => memN x (file_ids (sv_fs s))) (resolve serve urls) = true ->
  In url urls -> get_id_from_url serve url <> 0%N ->
  let r := save_c16b ft true serve s m urls read_by_sender in
  sr_err (snd r) = false /\
  In (get_id_from_url serve url, TMsg (next_mid (sv_fs s))) (links (sv_fs (fst r))).
Proof.
  intros ft serve s m urls rbs url H1 H2 Ht H3 Hall Hin Hnz r.
  assert (E : sr_err (snd r) = false) by exact (save_accepts ft true serve s m urls rbs H1 H2 H3 Ht Hall).
  exact (conj E (proj1 (save_accepted_links ft serve s m urls rbs url E Hin Hnz))).
Qed.
Print Assumptions c16_save_row_linked_partial.

(* ------------------------------------------------------------------ *)
(* The download gate, every request field                              *)
(* (Sys/FilesServeC16c.v: largeFileServe over a request that has EVERY field of the upload request - *)
(*  API key at header / query / form / cookie, credentials at X-Tinode-Auth / Authorization / query / *)
(*  form / cookie, sid in query / form, the `topic` parameter in query / form, a multipart body or    *)
(*  none, media handler configuration)                                                                *)

(* "act only on requests that carry a valid API key and valid credentials", download side, at full
   strength: bytes are sent ONLY for a GET whose first non-empty API-key placement holds a valid key
   and whose credentials yield a non-zero uid - for EVERY value of EVERY other field.  There is no
   sign-up (topic=newacc) exemption on this side: the topic fields do not occur in the conclusion and
   the next theorems say they do not occur in the decision. *)
Theorem c16_download_needs_credentials : forall r,
  effect_of (serve_gate_c16c r) <> ENone ->
  dq_meth r = MGet /\ first_some (dq_keys_c16c r) = Some KValid /\
  (exists u, auth_of (dq_creds_c16c r) (dq_sid_c16c r) = AuthUid u /\ u <> 0%N) /\
  dq_handler r = true /\ dq_hdr r = HdrStatus 0 /\ dq_found r = true /\
  serve_gate_c16c r = Reply 200 EServed.
Proof. exact serve_c16c_work. Qed.
Print Assumptions c16_download_needs_credentials.

(* the reply and the effect are the same whatever the `topic` parameter says, in the query or in a form
   field, "newacc" or not, present or absent *)
Theorem c16_download_ignores_topic :
  (forall r tq tf, serve_gate_c16c (dq_with_topic_c16c r tq tf) = serve_gate_c16c r) /\
  (forall s r tq tf serve url,
     serve_request_c16c s (dq_with_topic_c16c r tq tf) serve url = serve_request_c16c s r serve url).
Proof. exact (conj serve_c16c_ignores_topic serve_request_c16c_ignores_topic). Qed.
Print Assumptions c16_download_ignores_topic.

(* a GET / HEAD with a valid key and NO valid credentials - no placement names a method and the sid is
   absent, unknown or of a session that has not logged in; or the first placement holds an unknown scheme
   or a token for the zero uid - is answered 401 and nothing is served: every other field is free *)
Theorem c16_download_unauthenticated_refused : forall r,
  dq_meth r = MGet \/ dq_meth r = MHead ->
  key_check (dq_keys_c16c r) = true ->
  (first_some (dq_creds_c16c r) = Some (CGood 0) \/ first_some (dq_creds_c16c r) = Some CUnknownScheme \/
   (first_some (dq_creds_c16c r) = None /\ (dq_sid_c16c r = None \/ dq_sid_c16c r = Some 0%N))) ->
  serve_gate_c16c r = Reply 401 ENone.
Proof.
  intros r Hm Hk Hc. apply serve_c16c_unauthenticated; [exact Hm|exact Hk|].
  apply auth_zero_cases. exact Hc.
Qed.
Print Assumptions c16_download_unauthenticated_refused.

(* not only bytes: ANY 200 to a GET / HEAD (HEAD's empty 200, the media handler's own status) is given only
   behind the key check and the credential check *)
Theorem c16_download_200_needs_credentials : forall r e,
  dq_meth r = MGet \/ dq_meth r = MHead ->
  (forall c, auth_of (dq_creds_c16c r) (dq_sid_c16c r) = AuthErr c -> c <> 200%Z) ->
  serve_gate_c16c r = Reply 200 e ->
  first_some (dq_keys_c16c r) = Some KValid /\
  exists u, auth_of (dq_creds_c16c r) (dq_sid_c16c r) = AuthUid u /\ u <> 0%N.
Proof. exact serve_c16c_200. Qed.
Print Assumptions c16_download_200_needs_credentials.

(* the full-field gate is the gate of Sys/Files.v on the projected request: c16_gate, c16_methods,
   c16_refused_no_effect and c16_served_only_completed hold for it as they stand *)
Theorem c16_download_full_is_gate :
  (forall r, serve_gate_c16c r = serve_gate (sreq_of_c16c r)) /\
  (forall s r serve url, serve_request_c16c s r serve url = serve_request s (sreq_of_c16c r) serve url) /\
  (forall r, dq_meth r <> MGet -> dq_meth r <> MHead -> dq_meth r <> MOptions -> serve_gate_c16c r = Reply 405 ENone) /\
  (forall r c e, serve_gate_c16c r = Reply c e -> c <> 200%Z -> e = ENone).
Proof.
  exact (conj serve_gate_c16c_eq (conj serve_request_c16c_eq (conj serve_c16c_methods serve_c16c_refused_no_effect))).
Qed.
Print Assumptions c16_download_full_is_gate.

(* the whole download request against the store slice, every state, every request, every URL: bytes
   only for an authenticated GET with a valid key, and they are those of the completed upload the URL names *)
Theorem c16_download_full_served_only_completed :
  (forall s r serve url o f,
     serve_request_c16c s r serve url = (o, Some f) ->
     o = Reply 200 EServed /\ dq_meth r = MGet /\ first_some (dq_keys_c16c r) = Some KValid /\
     (exists u, auth_of (dq_creds_c16c r) (dq_sid_c16c r) = AuthUid u /\ u <> 0%N) /\
     download s serve url = Some f /\
     f_done f = true /\ In f (files s) /\ get_id_from_url serve url = f_id f /\ In (f_id f) (disk s)) /\
  (forall s r serve url o, serve_request_c16c s r serve url = (o, None) -> effect_of o = ENone).
Proof. exact (conj serve_request_c16c_served serve_request_c16c_nothing). Qed.
Print Assumptions c16_download_full_served_only_completed.

(* the gate AS IT WOULD BE with the upload side's exemption (`uid.IsZero() && FormValue("topic") !=
   "newacc"`): the statement is refuted for it, and it differs from the real gate exactly on requests
   with a valid key, no valid credentials and topic=newacc *)
Definition c16_download_exempt_statement : Prop :=
  forall r, effect_of (serve_gate_exempt_c16c r) <> ENone ->
    exists u, auth_of (dq_creds_c16c r) (dq_sid_c16c r) = AuthUid u /\ u <> 0%N.

Theorem c16_download_exempt_refuted : ~ c16_download_exempt_statement.
Proof.
  intros H. destruct (H exempt_witness_c16c) as [u [Ha Hu]].
  - rewrite exempt_witness_served. discriminate.
  - rewrite exempt_witness_no_credentials in Ha. inversion Ha. congruence.
Qed.
Print Assumptions c16_download_exempt_refuted.

Theorem c16_download_exempt_differs_only_unauthenticated_newacc : forall r,
  serve_gate_exempt_c16c r <> serve_gate_c16c r ->
  (dq_meth r = MGet \/ dq_meth r = MHead) /\ key_check (dq_keys_c16c r) = true /\
  auth_of (dq_creds_c16c r) (dq_sid_c16c r) = AuthUid 0 /\ dq_newacc_c16c r = true.
Proof. exact exempt_differs_iff. Qed.
Print Assumptions c16_download_exempt_differs_only_unauthenticated_newacc.

(* ------------------------------------------------------------------ *)
(* Avatar updates under store faults                                   *)
(* (Sys/FilesDescC16c.v: Topic.replySetDesc = [UserUpdate | TopicUpdate] ; [SubsUpdate] ;          *)
(*  [FileLinkAttachments, error ignored], the third only after the first two succeeded; fault plan *)
(*  over the three calls, 'me' / 'fnd' / p2p / group topics, every request environment)            *)

(* "a refused request has no effect", for the link table: a {set desc} that is answered with anything but
   200 - denied, malformed, not modified, or a core / subscription update that failed in the store -
   leaves upload records, link rows and bytes exactly as they were (the old avatar stays linked), and
   FileLinkAttachments was not called.  Every fault plan, topic kind, request, store state. *)
Theorem c16_set_desc_refused_keeps_links : forall ft handler serve s cat tname as_uid rq,
  snd (set_desc_c16c ft handler serve s cat tname as_uid rq) <> SetOkC16c ->
  dd_fs (fst (set_desc_c16c ft handler serve s cat tname as_uid rq)) = dd_fs s /\
  forall b, ~ In (DFileLinkC16c, b) (expected_calls_c16c ft handler serve cat rq).
Proof. exact set_desc_refused_fs. Qed.
Print Assumptions c16_set_desc_refused_keeps_links.

(* the order of the adapter calls of the request (memverif's call log is compared with it on every
   generated {set desc}): core update; then, unless it failed, the subscription update; then, unless one
   of them failed, the link call - iff `core` is not empty, attachments are listed, a media handler is
   configured and the list resolves to at least one id *)
Theorem c16_set_desc_calls : forall ft handler serve s cat tname as_uid rq,
  rev (dd_calls (fst (set_desc_c16c ft handler serve s cat tname as_uid rq))) =
  rev (dd_calls s) ++
  match sq_pre rq with
  | PreOkC16c =>
    if negb (is_modified_c16c rq) then []
    else
      core_calls_c16c (df_core ft) cat (sq_core rq) ++
      (if core_err_c16c (df_core ft) cat (sq_core rq) then [] else subs_calls_c16c (df_subs ft) (sq_sub rq)) ++
      (if upd_err_c16c ft cat rq then [] else link_calls_c16c (df_link ft) handler serve (sq_core rq) (sq_urls rq))
  | _ => []
  end.
Proof. exact set_desc_calls. Qed.
Print Assumptions c16_set_desc_calls.

(* the reply: 500 exactly when the core or the subscription update failed *)
Theorem c16_set_desc_failed_iff : forall ft handler serve s cat tname as_uid rq,
  snd (set_desc_c16c ft handler serve s cat tname as_uid rq) = SetFailedC16c <->
  sq_pre rq = PreOkC16c /\ is_modified_c16c rq = true /\ upd_err_c16c ft cat rq = true.
Proof. exact set_desc_failed_iff. Qed.
Print Assumptions c16_set_desc_failed_iff.

(* an acknowledged {set desc} is the avatar operation of the history model (when the link call is due and
   does not fail) or leaves the file slice alone: every history theorem above applies to what follows *)
Theorem c16_set_desc_is_avatar_op : forall ft handler serve s cat tname as_uid rq,
  snd (set_desc_c16c ft handler serve s cat tname as_uid rq) = SetOkC16c ->
  dd_fs (fst (set_desc_c16c ft handler serve s cat tname as_uid rq)) =
    (if link_due_c16c handler serve (sq_core rq) (sq_urls rq) && negb (df_link ft)
     then step (dd_fs s) (avatar_op_c16c cat tname as_uid (resolve serve (sq_urls rq)))
     else dd_fs s).
Proof. exact set_desc_ok_fs. Qed.
Print Assumptions c16_set_desc_is_avatar_op.

(* an acknowledged one links the new avatar and releases the old: the first listed id that names an
   upload record is linked to the topic / user, it is its ONLY link, every other link row is as before *)
Theorem c16_set_desc_ok_links_new_releases_old : forall ft handler serve s cat tname as_uid rq f rest,
  snd (set_desc_c16c ft handler serve s cat tname as_uid rq) = SetOkC16c ->
  sq_core rq <> None -> handler = true -> df_link ft = false ->
  resolve serve (sq_urls rq) = f :: rest ->
  let tg := owner_target_c16c cat tname as_uid in
  memN f (file_ids (dd_fs s)) = true -> target_live (dd_fs s) tg = true ->
  let ls := links (dd_fs (fst (set_desc_c16c ft handler serve s cat tname as_uid rq))) in
  In (f, tg) ls /\
  (forall a, In (a, tg) ls -> a = f) /\
  (forall a t, t <> tg -> (In (a, t) ls <-> In (a, t) (links (dd_fs s)))).
Proof. exact set_desc_ok_links. Qed.
Print Assumptions c16_set_desc_ok_links_new_releases_old.

(* over ALL histories: the avatar a of a topic / user (linked by h1's last operation), any operations h2
   that neither delete the owner nor replace the avatar, then a {set desc} that is REFUSED (any reason, any
   fault plan), then any such operations h3 - garbage collection with any bound and limit included: a is
   still linked, still a record, its bytes are still there *)
Theorem c16_refused_set_desc_keeps_avatar : forall h1 tg a rest h2 ft handler serve pb pv cl cat tname as_uid rq h3,
  match tg with TMsg _ => False | _ => True end ->
  let s1 := run h1 in
  memN a (file_ids s1) = true -> target_live s1 tg = true -> is_done a (files s1) = true ->
  forallb (avatar_kept tg) h2 = true ->
  let s2 := run_from (link_single s1 tg (a :: rest)) h2 in
  let r := set_desc_c16c ft handler serve {| dd_fs := s2; dd_public := pb; dd_private := pv; dd_calls := cl |}
             cat tname as_uid rq in
  snd r <> SetOkC16c ->
  forallb (avatar_kept tg) h3 = true ->
  let s3 := run_from (dd_fs (fst r)) h3 in
  dd_fs (fst r) = s2 /\
  In (a, tg) (links s3) /\ In a (file_ids s3) /\ In a (disk s3) /\ is_done a (files s3) = true.
Proof. exact refused_set_desc_keeps_avatar. Qed.
Print Assumptions c16_refused_set_desc_keeps_avatar.

(* ... and the avatar listed with an ACKNOWLEDGED {set desc} (link call not failing, completed upload,
   existing owner) is linked and stored for as long as the owner exists and the avatar is not replaced *)
Theorem c16_acknowledged_set_desc_avatar_kept : forall h1 ft handler serve pb pv cl cat tname as_uid rq f rest h2,
  let s1 := run h1 in
  let tg := owner_target_c16c cat tname as_uid in
  let r := set_desc_c16c ft handler serve {| dd_fs := s1; dd_public := pb; dd_private := pv; dd_calls := cl |}
             cat tname as_uid rq in
  snd r = SetOkC16c ->
  sq_core rq <> None -> handler = true -> df_link ft = false ->
  resolve serve (sq_urls rq) = f :: rest ->
  memN f (file_ids s1) = true -> target_live s1 tg = true -> is_done f (files s1) = true ->
  forallb (avatar_kept tg) h2 = true ->
  let s2 := run_from (dd_fs (fst r)) h2 in
  In (f, tg) (links s2) /\ In f (file_ids s2) /\ In f (disk s2) /\ is_done f (files s2) = true.
Proof. exact ok_set_desc_links_avatar. Qed.
Print Assumptions c16_acknowledged_set_desc_avatar_kept.

(* replySetDesc AS IT WOULD BE with the link made before the store updates: "a refused request has no
   effect on the link table" is refuted - the update fails, the reply is 500, the record keeps its old
   public, the old avatar has lost its link and the next GC run removes it *)
Definition c16_set_desc_link_first_statement : Prop :=
  forall ft handler serve s cat tname as_uid rq a,
    snd (set_desc_link_first_c16c ft handler serve s cat tname as_uid rq) <> SetOkC16c ->
    linked a (links (dd_fs s)) = true ->
    linked a (links (dd_fs (fst (set_desc_link_first_c16c ft handler serve s cat tname as_uid rq)))) = true.

Theorem c16_set_desc_link_first_refuted : ~ c16_set_desc_link_first_statement.
Proof.
  intros H. destruct link_first_witness as [W1 [W2 [W3 _]]].
  specialize (H lf_faults_c16c true lf_serve_c16c lf_state_c16c CatGrpC16c 1%N 5%N lf_request_c16c (parse_uid lf_name_a_c16c)).
  rewrite W3 in H. rewrite W1 in H.
  assert (X : SetFailedC16c <> SetOkC16c) by discriminate.
  specialize (H X W2). discriminate H.
Qed.
Print Assumptions c16_set_desc_link_first_refuted.

(* "the avatar listed with an acknowledged update is linked", without the scope: refuted by the handler's own
   treatment of the link call - its error is logged and ignored ("not a critical error"), the request is
   acknowledged, the record refers to the new avatar and the new avatar has no link.  A store failure, not
   a refusal; [c16_set_desc_ok_links_new_releases_old] is the statement with [df_link ft = false]. *)
Definition c16_set_desc_ok_linked_statement : Prop :=
  forall ft serve s cat tname as_uid rq f rest,
    snd (set_desc_c16c ft true serve s cat tname as_uid rq) = SetOkC16c ->
    sq_core rq <> None -> resolve serve (sq_urls rq) = f :: rest ->
    memN f (file_ids (dd_fs s)) = true -> target_live (dd_fs s) (owner_target_c16c cat tname as_uid) = true ->
    linked f (links (dd_fs (fst (set_desc_c16c ft true serve s cat tname as_uid rq)))) = true.

Theorem c16_set_desc_ok_linked_refuted : ~ c16_set_desc_ok_linked_statement.
Proof.
  intros H. destruct link_ignored_witness as [W1 [_ [W3 _]]].
  specialize (H li_faults_c16c lf_serve_c16c lf_state_c16c CatGrpC16c 1%N 5%N lf_request_c16c
                (parse_uid lf_name_b_c16c) [] W1).
  rewrite W3 in H.
  assert (X : false = true); [|discriminate X].
  apply H; [discriminate|vm_compute; reflexivity|vm_compute; reflexivity|vm_compute; reflexivity].
Qed.
Print Assumptions c16_set_desc_ok_linked_refuted.

Theorem c16_set_desc_ok_linked_partial : forall ft serve s cat tname as_uid rq f rest,
  snd (set_desc_c16c ft true serve s cat tname as_uid rq) = SetOkC16c ->
  sq_core rq <> None -> resolve serve (sq_urls rq) = f :: rest ->
  memN f (file_ids (dd_fs s)) = true -> target_live (dd_fs s) (owner_target_c16c cat tname as_uid) = true ->
  df_link ft = false ->
  linked f (links (dd_fs (fst (set_desc_c16c ft true serve s cat tname as_uid rq)))) = true.
Proof.
  intros ft serve s cat tname as_uid rq f rest Hok Hc Hr Hf Ht Hl.
  destruct (set_desc_ok_links ft true serve s cat tname as_uid rq f rest Hok Hc eq_refl Hl Hr Hf Ht) as [Hin _].
  exact (linked_In _ _ _ Hin).
Qed.
Print Assumptions c16_set_desc_ok_linked_partial.

(* ---- account creation ({acc user="new"}, Sys/FilesAccC16c.v: AuthGetUniqueRecord ; UserCreate ; TopicShare ;
   AuthAddRecord ; [credentials] ; FileLinkAttachments - the link call LAST; a failure after UserCreate deletes
   the account again) ---- *)

(* an {acc user="new"} that does not create the account (whatever its reply code: the AddRecord failure is
   answered 200 by the code as it is, see FilesAccC16c.v) - IsUnique, UserCreate, the me/fnd subscriptions, AddRecord or the credentials
   failing, in the state reached by ANY history, for a fresh account id - leaves upload records, link rows,
   bytes, topics and users exactly as they were, and FileLinkAttachments was not called *)
Theorem c16_create_user_refused_no_effect : forall h ft handler serve cl uid creds_ok urls,
  let s := {| aa_fs := run h; aa_calls := cl |} in
  memN uid (users (run h)) = false ->
  ao_created (snd (create_user_c16c ft handler serve s uid creds_ok urls)) = false ->
  aa_fs (fst (create_user_c16c ft handler serve s uid creds_ok urls)) = run h /\
  forall b, ~ In (AFileLinkC16c, b) (acc_calls_c16c ft handler serve creds_ok urls).
Proof. exact create_user_refused. Qed.
Print Assumptions c16_create_user_refused_no_effect.

(* whether the account exists afterwards, the reply code, the adapter calls in the order they are made (compared with memverif's call log on every generated
   account creation), and the file slice: account creation followed by the avatar operation of the history model *)
Theorem c16_create_user_calls : forall ft handler serve s uid creds_ok urls,
  let r := create_user_c16c ft handler serve s uid creds_ok urls in
  (ao_created (snd r) = false <-> acc_refused_c16c ft creds_ok = true) /\
  ao_code (snd r) = acc_code_c16c ft creds_ok /\
  rev (aa_calls (fst r)) = rev (aa_calls s) ++ acc_calls_c16c ft handler serve creds_ok urls /\
  (ao_created (snd r) = true ->
   aa_fs (fst r) =
     (if acc_link_due_c16c handler serve urls && negb (af_link ft)
      then step (step (aa_fs s) (OAddUser uid)) (OUserAvatar uid (resolve serve urls))
      else step (aa_fs s) (OAddUser uid))).
Proof.
  intros ft handler serve s uid creds_ok urls r.
  destruct (create_user_char ft handler serve s uid creds_ok urls) as [O [K [C _]]].
  exact (conj O (conj K (conj C (create_user_created ft handler serve s uid creds_ok urls)))).
Qed.
Print Assumptions c16_create_user_calls.

(* ------------------------------------------------------------------ *)
(* non-vacuity                                                          *)

Example c16_ex_upload_ok :
  upload_gate {| u_meth := MPost; u_key_hdr := None; u_key_query := None; u_key_form := Some KValid; u_key_cookie := None;
     u_cred_xauth := None; u_cred_authz := None; u_cred_query := None; u_cred_form := Some (CGood 7); u_cred_cookie := None;
     u_sid_query := None; u_sid_form := None; u_topic_query := None; u_topic_form := None;
     u_handler := true; u_hdr := HdrStatus 0; u_limit := 4096; u_body := BForm 4096 true 3000; u_fault := FNone |}
  = Reply 200 EStored.
Proof. reflexivity. Qed.

Example c16_ex_finish_fault :
  upload_gate c16_finish_fault_request = Reply 500 EResidueNoBytes /\
  upload_gate_unrepaired c16_finish_fault_request = Crash EResidue /\
  (let s := fst (apply_upload init c16_finish_fault_request 5 0 []) in
   file_ids s = [5%N] /\ disk s = [] /\ file_ids (step s (OGC (Some 1%Z) 0)) = []).
Proof. vm_compute. repeat split. Qed.

Example c16_ex_form_key_over_limit :
  (* the API key travels in the form and the body is over the limit: the form cannot be read, 403 *)
  upload_gate {| u_meth := MPost; u_key_hdr := None; u_key_query := None; u_key_form := Some KValid; u_key_cookie := None;
     u_cred_xauth := Some (CGood 7); u_cred_authz := None; u_cred_query := None; u_cred_form := None; u_cred_cookie := None;
     u_sid_query := None; u_sid_form := None; u_topic_query := None; u_topic_form := None;
     u_handler := true; u_hdr := HdrStatus 0; u_limit := 4096; u_body := BForm 4097 true 3000; u_fault := FNone |}
  = Reply 403 ENone.
Proof. reflexivity. Qed.

Example c16_ex_history :
  (* upload 5 and 6, publish 5, avatar 6, GC: nothing goes; delete the message, GC: 5 goes *)
  let h := [OAddTopic 1; OStart 5 0 []; OFinish 5 true 0; OStart 6 0 []; OFinish 6 true 0;
            OPublish 1 [5%N]; OTopicAvatar 1 [6%N]; OGC None 0] in
  file_ids (run h) = [5; 6]%N /\
  file_ids (run (h ++ [ODelMsgs [1%N]; OGC None 0])) = [6%N] /\
  disk (run (h ++ [ODelMsgs [1%N]; OGC None 0])) = [6%N].
Proof. vm_compute. repeat split. Qed.

Example c16_ex_active : force_attachment false [116;101;120;116;47;104;116;109;108]%N = true /\
                        force_attachment false [105;109;97;103;101;47;112;110;103]%N = false.
Proof. vm_compute. split; reflexivity. Qed.

Example c16_ex_save_write_only_sender :
  (* a group topic, the sender's want = JWP (13), given = JRWPS (47): W without R.  The publish is
     accepted, the read mark of the sender is NOT moved, the attachment IS linked; the same for a post
     to 'sys' by a user without a subscription (modes 0) *)
  let serve := [47;118;48;47;102;105;108;101;47;115;47]%N in
  let url := serve ++ c16_save_witness_name in
  let r := pub_save_c16b no_faults_c16b true serve c16_save_witness_state false 13 47 0 1 7 [url] in
  let r' := pub_save_c16b no_faults_c16b true serve c16_save_witness_state true 0 0 0 1 9 [url] in
  snd r = PubAccepted false /\ snd r' = PubAccepted false /\
  links (sv_fs (fst r)) = [(parse_uid c16_save_witness_name, TMsg 1)] /\
  links (sv_fs (fst r')) = [(parse_uid c16_save_witness_name, TMsg 1)] /\
  sv_subs (fst r) = sv_subs c16_save_witness_state /\
  snd (pub_save_c16b no_faults_c16b true serve c16_save_witness_state false 47 47 0 1 7 [url]) = PubAccepted true /\
  snd (pub_save_c16b no_faults_c16b true serve c16_save_witness_state false 11 47 0 1 7 [url]) = PubDenied.
Proof. vm_compute. repeat split. Qed.

Example c16_ex_download_newacc :
  (* GET with a valid key in the query, topic=newacc in the query, no credentials: 401 - and 200 with a token *)
  let r := exempt_witness_c16c in
  serve_gate_c16c r = Reply 401 ENone /\
  serve_gate_c16c {| dq_meth := MGet; dq_key_hdr := None; dq_key_query := None; dq_key_form := Some KValid; dq_key_cookie := None;
     dq_cred_xauth := None; dq_cred_authz := None; dq_cred_query := None; dq_cred_form := None; dq_cred_cookie := Some (CGood 3);
     dq_sid_query := None; dq_sid_form := Some 0%N; dq_topic_query := None; dq_topic_form := Some true;
     dq_body_form := true; dq_handler := true; dq_hdr := HdrStatus 0; dq_found := true |} = Reply 200 EServed.
Proof. vm_compute. split; reflexivity. Qed.

Example c16_ex_set_desc_fault :
  (* group topic 1 with avatar a; {set desc public, attachments [b]} while TopicUpdate fails: 500, a stays
     linked and survives the GC; without the fault: 200, b is linked, a is released and collected *)
  let r := set_desc_c16c lf_faults_c16c true lf_serve_c16c lf_state_c16c CatGrpC16c 1 5 lf_request_c16c in
  let r' := set_desc_c16c no_desc_faults_c16c true lf_serve_c16c lf_state_c16c CatGrpC16c 1 5 lf_request_c16c in
  snd r = SetFailedC16c /\ rev (dd_calls (fst r)) = [(DTopicUpdateC16c, true)] /\
  links (dd_fs (fst r)) = [(parse_uid lf_name_a_c16c, TTopic 1)] /\
  snd r' = SetOkC16c /\ rev (dd_calls (fst r')) = [(DTopicUpdateC16c, false); (DFileLinkC16c, false)] /\
  links (dd_fs (fst r')) = [(parse_uid lf_name_b_c16c, TTopic 1)] /\
  file_ids (step (dd_fs (fst r')) (OGC None 0)) = [parse_uid lf_name_b_c16c].
Proof. vm_compute. repeat split; reflexivity. Qed.

(* ------------------------------------------------------------------ *)
(* part f: the stored content type, the disposition of the later download, the GC cut-off.
   [sniff] = http.DetectContentType of the first 512 bytes, [declared] = the parsed Content-Type
   of the multipart part (None: mime.ParseMediaType failed); both are inputs (stdlib). *)

(* 'the detected content type': whatever the client declares, the stored type is the sniffed one
   unless the sniffed type is exactly application/octet-stream *)
Theorem c16_declared_type_only_for_undetectable : forall sniff declared,
  (sniff <> s_octet_c16f -> stored_type_c16f sniff declared = sniff) /\
  (stored_type_c16f sniff declared = sniff \/
   (sniff = s_octet_c16f /\
    exists d, declared = Some d /\ stored_type_c16f sniff declared = d_formatted d /\ d_formatted d <> [] /\
      exists a, In a allowed_mime_types_c16f /\ has_prefix a (d_media d) = true)).
Proof.
  intros sniff declared. split; [apply stored_type_c16f_detected|apply stored_type_c16f_char].
Qed.
Print Assumptions c16_declared_type_only_for_undetectable.

(* ... and for an undetectable body a well-formed declared type of a listed family is the stored type *)
Theorem c16_declared_type_used_for_undetectable : forall d a,
  In a allowed_mime_types_c16f -> has_prefix a (d_media d) = true -> d_formatted d <> [] ->
  stored_type_c16f s_octet_c16f (Some d) = d_formatted d.
Proof. exact stored_type_c16f_undetectable. Qed.
Print Assumptions c16_declared_type_used_for_undetectable.

(* the download of a detectable upload carries the sniffed type and the disposition of the sniffed
   type: the declared type has no influence *)
Theorem c16_served_type_is_detected : forall asatt sniff declared,
  sniff <> s_octet_c16f ->
  served_c16f asatt sniff declared = (sniff, force_attachment asatt sniff).
Proof. exact served_c16f_detected. Qed.
Print Assumptions c16_served_type_is_detected.

(* 'forced to be saved for active content (HTML, XML, text and application types)': content that
   sniffs as an active type is served under that type with Content-Disposition: attachment
   whatever was declared, with or without asatt.  (For application/octet-stream itself the
   declared type, when usable, decides: hdl_files.go:290-302.) *)
Theorem c16_application_forced_download : forall asatt sniff declared,
  active sniff = true -> sniff <> s_octet_c16f \/ declared = None ->
  served_c16f asatt sniff declared = (sniff, true).
Proof. exact served_c16f_active_forced. Qed.
Print Assumptions c16_application_forced_download.

(* the same statement for a handler that consults the declared type for every application/* sniff
   is false: application/pdf declared as image/png would be displayed *)
Definition c16_application_forced_download_wide_statement : Prop :=
  forall asatt sniff declared, active sniff = true -> sniff <> s_octet_c16f \/ declared = None ->
  (stored_type_wide_c16f sniff declared, force_attachment asatt (stored_type_wide_c16f sniff declared)) = (sniff, true).
Theorem c16_application_forced_download_wide_refuted : ~ c16_application_forced_download_wide_statement.
Proof.
  intros H.
  assert (Ha : active s_pdf_c16f = true) by (vm_compute; reflexivity).
  assert (Hn : s_pdf_c16f <> s_octet_c16f) by discriminate.
  specialize (H false s_pdf_c16f (Some {| d_media := s_png_c16f; d_formatted := s_png_c16f |}) Ha (or_introl Hn)).
  revert H. vm_compute. discriminate.
Qed.
Print Assumptions c16_application_forced_download_wide_refuted.

(* 'collectable after the grace period': the cut-off one tick of the GC loop hands to
   DeleteUnused is one hour before the tick, for every configured period *)
Theorem c16_gc_cutoff_independent_of_period : forall now p1 p2,
  gc_cutoff_c16f now p1 = gc_cutoff_c16f now p2 /\ (now - gc_cutoff_c16f now p1 = hour_c16f)%Z.
Proof. intros. split; [apply gc_cutoff_c16f_const|apply gc_cutoff_c16f_hour]. Qed.
Print Assumptions c16_gc_cutoff_independent_of_period.

(* after any history, a tick of the loop with any period and block size leaves every upload record
   that was updated less than (or exactly) one hour ago, linked or not, and its bytes *)
Theorem c16_gc_respects_grace_period : forall h now period block f,
  let s := run h in
  In f (files s) -> (now - hour_c16f <= f_upd f)%Z ->
  In f (files (gc_tick_c16f s now period block)) /\
  (In (f_id f) (disk s) -> In (f_id f) (disk (gc_tick_c16f s now period block))).
Proof.
  intros h now period block f s. apply gc_tick_c16f_grace. destruct (inv_run h) as [H _]. exact H.
Qed.
Print Assumptions c16_gc_respects_grace_period.

(* the tick is exactly DeleteUnused(now - 1h, block): c16_gc_exact describes what it removes *)
Theorem c16_gc_tick_is_delete_unused : forall s now period block,
  gc_tick_c16f s now period block = step s (OGC (Some (now - hour_c16f)%Z) block).
Proof. exact gc_tick_c16f_eq. Qed.
Print Assumptions c16_gc_tick_is_delete_unused.

(* the jittered tick period is within [0.75, 1.25) of the configured one; a period of at most one
   nanosecond makes rand.Intn panic in the loop's goroutine (not reachable from a request: the
   period is configuration) *)
Theorem c16_gc_tick_period : forall period r,
  ((period <= 1)%Z -> gc_tick_period_c16f period r = None) /\
  (forall p, (0 <= r < Z.shiftr period 1)%Z -> gc_tick_period_c16f period r = Some p ->
     (Z.shiftr period 1 + Z.shiftr period 2 <= p < 2 * Z.shiftr period 1 + Z.shiftr period 2)%Z).
Proof.
  intros period r. split; [apply gc_tick_period_c16f_panics|intros p; apply gc_tick_period_c16f_range].
Qed.
Print Assumptions c16_gc_tick_period.

(* a cut-off derived from the period collects a two-minute-old unlinked upload when the period is 60 s *)
Example c16_gc_cutoff_by_period_collects_young :
  let s := run [OStart 5 0 []; OFinish 5 true 0] in
  file_ids (step s (OGC (Some (gc_cutoff_by_period_c16f 120000000000 60000000000)) 100)) = [] /\
  file_ids (gc_tick_c16f s 120000000000 60000000000 100) = [5%N].
Proof. vm_compute. split; reflexivity. Qed.
