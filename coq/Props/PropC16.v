(* C16 placeholder while the proofs are being written *)
From Coq Require Import NArith List Bool.
From Tinode Require Import Pure.Url Sys.Files.
