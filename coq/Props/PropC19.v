(* C19: search finds only what the query and the tag rules allow. *)
From Coq Require Import NArith ZArith List Bool.
Require Import Tinode.Base.Util Tinode.Pure.Query Tinode.Pure.QuerySpec Tinode.Pure.QueryProofs.
Import ListNotations.

(* ---- the query parser (model of parseSearchQuery after the repair of
   findings/C19_query.diff) computes the documented reading of EVERY query
   string, for every lower-casing and tag-rewriting function: no bound on the
   length, non-ASCII runes included (positions are byte offsets). ---- *)
Theorem c19_parse_sound_complete : forall lower rewrite q r,
  parse lower rewrite q = Ok r <-> well_formed q /\ r = denote lower rewrite q.
Proof. exact parse_sound_complete. Qed.
Print Assumptions c19_parse_sound_complete.

(* malformed queries (unterminated quote, doubled comma, a quote glued to a
   word or to another quote) are rejected, and only those *)
Theorem c19_parse_err_iff : forall lower rewrite q,
  parse lower rewrite q = Err <-> ~ well_formed q.
Proof. exact parse_err_iff. Qed.
Print Assumptions c19_parse_err_iff.

(* The parser of the pinned tree (Query.parse_unrepaired) does NOT satisfy the
   statement: witnesses, with identity lower-casing and rewriting. *)
Definition q_glued : list N := [34; 97; 34; 98; 32; 99]%N.          (* "a"b c *)
Definition q_quoted_second : list N := [97; 32; 34; 98; 34]%N.      (* a "b" *)

Definition parse_sound_statement_unrepaired : Prop :=
  forall lower rewrite q r, parse_unrepaired lower rewrite q = Ok r ->
    well_formed q /\ r = denote lower rewrite q.
Definition parse_complete_statement_unrepaired : Prop :=
  forall lower rewrite q, well_formed q ->
    parse_unrepaired lower rewrite q = Ok (denote lower rewrite q).

Theorem c19_unrepaired_sound_refuted : ~ parse_sound_statement_unrepaired.
Proof.
  intros H. destruct (H (fun r => r) (fun s => s) q_glued _ eq_refl) as [W _].
  vm_compute in W. discriminate.
Qed.
Print Assumptions c19_unrepaired_sound_refuted.

Theorem c19_unrepaired_complete_refuted : ~ parse_complete_statement_unrepaired.
Proof.
  intros H. specialize (H (fun r => r) (fun s => s) q_quoted_second eq_refl).
  vm_compute in H. discriminate.
Qed.
Print Assumptions c19_unrepaired_complete_refuted.

(* non-vacuity: a query using every construct, identity lower-casing and rewriting *)
Example c19_ex_query :
  parse (fun r => r) (fun s => s) [97; 32; 34; 98; 32; 44; 34; 44; 99; 32; 233]%N   (* a "b ,",c e-acute *)
  = Ok ([[[97]]; [[233]]], [[98; 32; 44]; [99]])%N.
Proof. reflexivity. Qed.
Example c19_ex_wf : well_formed [97; 32; 34; 98; 32; 44; 34; 44; 99; 32; 233]%N.
Proof. reflexivity. Qed.
Example c19_ex_glued_rejected : parse (fun r => r) (fun s => s) q_glued = Err.
Proof. reflexivity. Qed.
Example c19_ex_quoted_second_accepted :
  parse (fun r => r) (fun s => s) q_quoted_second = Ok ([[[97]]; [[98]]], [])%N.
Proof. reflexivity. Qed.
