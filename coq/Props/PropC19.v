(* C19: search finds only what the query and the tag rules allow. *)
From Coq Require Import NArith ZArith List Bool Permutation.
Require Import Tinode.Base.Util Tinode.Pure.Query Tinode.Pure.QuerySpec Tinode.Pure.QueryProofs.
Require Import Tinode.Pure.Tags Tinode.Pure.TagsProofs.
Import ListNotations.

(* ---- the query parser (model of parseSearchQuery after the repair of
   findings/C19_query.diff) computes the documented reading of EVERY query
   string, for every lower-casing and tag-rewriting function: no bound on the
   length, non-ASCII runes included (positions are byte offsets). ---- *)
Theorem c19_parse_sound_complete : forall lower rewrite q r,
  parse lower rewrite q = Ok r <-> well_formed q /\ r = denote lower rewrite q.
Proof. exact parse_sound_complete. Qed.
Print Assumptions c19_parse_sound_complete.

(* malformed queries (unterminated quote, doubled comma, a quote glued to a
   word or to another quote) are rejected, and only those *)
Theorem c19_parse_err_iff : forall lower rewrite q,
  parse lower rewrite q = Err <-> ~ well_formed q.
Proof. exact parse_err_iff. Qed.
Print Assumptions c19_parse_err_iff.

(* The parser of the pinned tree (Query.parse_unrepaired) does NOT satisfy the
   statement: witnesses, with identity lower-casing and rewriting. *)
Definition q_glued : list N := [34; 97; 34; 98; 32; 99]%N.          (* "a"b c *)
Definition q_quoted_second : list N := [97; 32; 34; 98; 34]%N.      (* a "b" *)

Definition parse_sound_statement_unrepaired : Prop :=
  forall lower rewrite q r, parse_unrepaired lower rewrite q = Ok r ->
    well_formed q /\ r = denote lower rewrite q.
Definition parse_complete_statement_unrepaired : Prop :=
  forall lower rewrite q, well_formed q ->
    parse_unrepaired lower rewrite q = Ok (denote lower rewrite q).

Theorem c19_unrepaired_sound_refuted : ~ parse_sound_statement_unrepaired.
Proof.
  intros H. destruct (H (fun r => r) (fun s => s) q_glued _ eq_refl) as [W _].
  vm_compute in W. discriminate.
Qed.
Print Assumptions c19_unrepaired_sound_refuted.

Theorem c19_unrepaired_complete_refuted : ~ parse_complete_statement_unrepaired.
Proof.
  intros H. specialize (H (fun r => r) (fun s => s) q_quoted_second eq_refl).
  vm_compute in H. discriminate.
Qed.
Print Assumptions c19_unrepaired_complete_refuted.

(* ---- stored tags are always normalised: for every input list (nil included),
   every maxTagCount, every unicode table whose lowering is idempotent and
   keeps non-space runes non-space (checked on all code points by the driver). ---- *)
Section C19Tags.
  Variable lower : N -> N.
  Variables is_letter is_digit is_number : N -> bool.
  Hypothesis lower_idem : forall r, lower (lower r) = lower r.
  Hypothesis lower_space : forall r, is_space (lower r) = is_space r.

  Theorem c19_norm_count : forall mx src,
    (length (content (normalize_tags lower is_letter is_digit mx src)) <= mx)%nat.
  Proof. exact (norm_count lower is_letter is_digit). Qed.

  Theorem c19_norm_nodup : forall mx src,
    NoDup (content (normalize_tags lower is_letter is_digit mx src)).
  Proof. exact (norm_nodup lower is_letter is_digit). Qed.

  (* trimmed, lower-cased, starting with a letter or digit, 2..96 runes *)
  Theorem c19_norm_each_tag_valid : forall mx src t,
    In t (content (normalize_tags lower is_letter is_digit mx src)) ->
    (2 <= length t <= 96)%nat /\ (is_letter (hd 0%N t) = true \/ is_digit (hd 0%N t) = true) /\
    map lower t = t /\ trim_space t = t.
  Proof. exact (norm_each_tag_valid lower is_letter is_digit lower_idem lower_space). Qed.

  Theorem c19_norm_idempotent : forall mx src,
    content (normalize_tags lower is_letter is_digit mx (normalize_tags lower is_letter is_digit mx src))
    = content (normalize_tags lower is_letter is_digit mx src).
  Proof. exact (norm_idempotent lower is_letter is_digit lower_idem lower_space). Qed.

  (* ---- reserved namespaces: an update accepted by restrictedTagsEqual keeps
     the reserved-namespace tags exactly (as a multiset), for every old list, new
     list and namespace configuration ---- *)
  Theorem c19_restricted_equal_sound : forall old new ns,
    restricted_tags_equal is_letter is_number old new ns = true ->
    Permutation (filter_restricted is_letter is_number old ns) (filter_restricted is_letter is_number new ns).
  Proof. exact (restricted_equal_sound is_letter is_number). Qed.

  Theorem c19_restricted_no_add_no_remove : forall old new ns,
    restricted_tags_equal is_letter is_number old new ns = true ->
    forall t, restricted is_letter is_number ns t = true ->
      (In t new <-> In t old) /\
      count_occ (list_eq_dec N.eq_dec) new t = count_occ (list_eq_dec N.eq_dec) old t.
  Proof. exact (restricted_equal_no_change is_letter is_number). Qed.

  (* ---- masked namespaces: the fnd search is executed only if every search
     term of a masked namespace is one of the searcher's own tags ---- *)
  Theorem c19_masked_filter_sound : forall own terms masked,
    masked_gate is_letter is_number own terms masked = true ->
    forall t, In t terms -> restricted is_letter is_number masked t = true -> In t own.
  Proof. exact (masked_filter_sound is_letter is_number). Qed.
End C19Tags.
Print Assumptions c19_norm_count.
Print Assumptions c19_norm_nodup.
Print Assumptions c19_norm_each_tag_valid.
Print Assumptions c19_norm_idempotent.
Print Assumptions c19_restricted_equal_sound.
Print Assumptions c19_restricted_no_add_no_remove.
Print Assumptions c19_masked_filter_sound.

(* non-vacuity: a query using every construct, identity lower-casing and rewriting *)
Example c19_ex_query :
  parse (fun r => r) (fun s => s) [97; 32; 34; 98; 32; 44; 34; 44; 99; 32; 233]%N   (* a "b ,",c e-acute *)
  = Ok ([[[97]]; [[233]]], [[98; 32; 44]; [99]])%N.
Proof. reflexivity. Qed.
Example c19_ex_wf : well_formed [97; 32; 34; 98; 32; 44; 34; 44; 99; 32; 233]%N.
Proof. reflexivity. Qed.
Example c19_ex_glued_rejected : parse (fun r => r) (fun s => s) q_glued = Err.
Proof. reflexivity. Qed.
Example c19_ex_quoted_second_accepted :
  parse (fun r => r) (fun s => s) q_quoted_second = Ok ([[[97]]; [[98]]], [])%N.
Proof. reflexivity. Qed.

(* the hypotheses on the unicode table are satisfiable (ASCII lowering), and the
   tag laws are not vacuous *)
Definition ascii_lower (r : N) : N := if ((65 <=? r) && (r <=? 90))%N then (r + 32)%N else r.
Definition ascii_letter (r : N) : bool := ((65 <=? r) && (r <=? 90) || (97 <=? r) && (r <=? 122))%N.
Definition ascii_digit (r : N) : bool := ((48 <=? r) && (r <=? 57))%N.
Example c19_ex_normalize :
  normalize_tags ascii_lower ascii_letter ascii_digit 16
    (Some [[32; 66; 111; 98]; [98; 111; 98; 9]; [120]; [45; 97; 98]; [97; 49]])%N    (* " Bob", "bob\t", "x", "-ab", "a1" *)
  = Some [[97; 49]; [98; 111; 98]]%N.
Proof. reflexivity. Qed.
Example c19_ex_restricted_rejected :
  restricted_tags_equal ascii_letter ascii_digit [[116; 101; 108; 58; 49]]%N [] [[116; 101; 108]]%N = false.  (* tel:1 removed *)
Proof. reflexivity. Qed.
Example c19_ex_masked_denied :
  masked_gate ascii_letter ascii_digit [[97; 98]]%N [[116; 101; 108; 58; 49]]%N [[116; 101; 108]]%N = false.
Proof. reflexivity. Qed.
