(* C19: search finds only what the query and the tag rules allow. *)
From Coq Require Import NArith ZArith List Bool.
Require Import Tinode.Base.Util Tinode.Pure.Query Tinode.Pure.QuerySpec.
Import ListNotations.

(* The parser of the pinned tree (Query.parse_unrepaired) does NOT satisfy the
   statement: witnesses, with identity lower-casing and rewriting. *)
Definition q_glued : list N := [34; 97; 34; 98; 32; 99]%N.          (* "a"b c *)
Definition q_quoted_second : list N := [97; 32; 34; 98; 34]%N.      (* a "b" *)

Definition parse_sound_statement_unrepaired : Prop :=
  forall lower rewrite q r, parse_unrepaired lower rewrite q = Ok r ->
    well_formed q /\ r = denote lower rewrite q.
Definition parse_complete_statement_unrepaired : Prop :=
  forall lower rewrite q, well_formed q ->
    parse_unrepaired lower rewrite q = Ok (denote lower rewrite q).

Theorem c19_unrepaired_sound_refuted : ~ parse_sound_statement_unrepaired.
Proof.
  intros H. destruct (H (fun r => r) (fun s => s) q_glued _ eq_refl) as [W _].
  vm_compute in W. discriminate.
Qed.
Print Assumptions c19_unrepaired_sound_refuted.

Theorem c19_unrepaired_complete_refuted : ~ parse_complete_statement_unrepaired.
Proof.
  intros H. specialize (H (fun r => r) (fun s => s) q_quoted_second eq_refl).
  vm_compute in H. discriminate.
Qed.
Print Assumptions c19_unrepaired_complete_refuted.
