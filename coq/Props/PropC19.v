(* C19: search finds only what the query and the tag rules allow. *)
From Coq Require Import NArith ZArith List Bool Permutation.
Require Import Tinode.Base.Util Tinode.Pure.Query Tinode.Pure.QuerySpec Tinode.Pure.QueryProofs.
Require Import Tinode.Pure.Tags Tinode.Pure.TagsProofs.
Require Import Tinode.Sys.TagState Tinode.Sys.TagStateProofs.
Require Import Tinode.Sys.FndSearchC19 Tinode.Sys.FndSearchC19Proofs.
Import ListNotations.

(* ---- the query parser (model of parseSearchQuery after the repair of
   findings/C19_query.diff) computes the documented reading of EVERY query
   string, for every lower-casing and tag-rewriting function: no bound on the
   length, non-ASCII runes included (positions are byte offsets). ---- *)
Theorem c19_parse_sound_complete : forall lower rewrite q r,
  parse lower rewrite q = Ok r <-> well_formed q /\ r = denote lower rewrite q.
Proof. exact parse_sound_complete. Qed.
Print Assumptions c19_parse_sound_complete.

(* malformed queries (unterminated quote, doubled comma, a quote glued to a
   word or to another quote) are rejected, and only those *)
Theorem c19_parse_err_iff : forall lower rewrite q,
  parse lower rewrite q = Err <-> ~ well_formed q.
Proof. exact parse_err_iff. Qed.
Print Assumptions c19_parse_err_iff.

(* The parser of the pinned tree (Query.parse_unrepaired) does NOT satisfy the
   statement: witnesses, with identity lower-casing and rewriting. *)
Definition q_glued : list N := [34; 97; 34; 98; 32; 99]%N.          (* "a"b c *)
Definition q_quoted_second : list N := [97; 32; 34; 98; 34]%N.      (* a "b" *)

Definition parse_sound_statement_unrepaired : Prop :=
  forall lower rewrite q r, parse_unrepaired lower rewrite q = Ok r ->
    well_formed q /\ r = denote lower rewrite q.
Definition parse_complete_statement_unrepaired : Prop :=
  forall lower rewrite q, well_formed q ->
    parse_unrepaired lower rewrite q = Ok (denote lower rewrite q).

Theorem c19_unrepaired_sound_refuted : ~ parse_sound_statement_unrepaired.
Proof.
  intros H. destruct (H (fun r => r) (fun s => s) q_glued _ eq_refl) as [W _].
  vm_compute in W. discriminate.
Qed.
Print Assumptions c19_unrepaired_sound_refuted.

Theorem c19_unrepaired_complete_refuted : ~ parse_complete_statement_unrepaired.
Proof.
  intros H. specialize (H (fun r => r) (fun s => s) q_quoted_second eq_refl).
  vm_compute in H. discriminate.
Qed.
Print Assumptions c19_unrepaired_complete_refuted.

(* ---- stored tags are always normalised: for every input list (nil included),
   every maxTagCount, every unicode table whose lowering is idempotent and
   keeps non-space runes non-space (checked on all code points by the driver). ---- *)
Section C19Tags.
  Variable lower : N -> N.
  Variables is_letter is_digit is_number : N -> bool.
  Hypothesis lower_idem : forall r, lower (lower r) = lower r.
  Hypothesis lower_space : forall r, is_space (lower r) = is_space r.

  Theorem c19_norm_count : forall mx src,
    (length (content (normalize_tags lower is_letter is_digit mx src)) <= mx)%nat.
  Proof. exact (norm_count lower is_letter is_digit). Qed.

  Theorem c19_norm_nodup : forall mx src,
    NoDup (content (normalize_tags lower is_letter is_digit mx src)).
  Proof. exact (norm_nodup lower is_letter is_digit). Qed.

  (* trimmed, lower-cased, starting with a letter or digit, 2..96 runes *)
  Theorem c19_norm_each_tag_valid : forall mx src t,
    In t (content (normalize_tags lower is_letter is_digit mx src)) ->
    (2 <= length t <= 96)%nat /\ (is_letter (hd 0%N t) = true \/ is_digit (hd 0%N t) = true) /\
    map lower t = t /\ trim_space t = t.
  Proof. exact (norm_each_tag_valid lower is_letter is_digit lower_idem lower_space). Qed.

  Theorem c19_norm_idempotent : forall mx src,
    content (normalize_tags lower is_letter is_digit mx (normalize_tags lower is_letter is_digit mx src))
    = content (normalize_tags lower is_letter is_digit mx src).
  Proof. exact (norm_idempotent lower is_letter is_digit lower_idem lower_space). Qed.

  (* ---- reserved namespaces: an update accepted by restrictedTagsEqual keeps
     the reserved-namespace tags exactly (as a multiset), for every old list, new
     list and namespace configuration ---- *)
  Theorem c19_restricted_equal_sound : forall old new ns,
    restricted_tags_equal is_letter is_number old new ns = true ->
    Permutation (filter_restricted is_letter is_number old ns) (filter_restricted is_letter is_number new ns).
  Proof. exact (restricted_equal_sound is_letter is_number). Qed.

  Theorem c19_restricted_no_add_no_remove : forall old new ns,
    restricted_tags_equal is_letter is_number old new ns = true ->
    forall t, restricted is_letter is_number ns t = true ->
      (In t new <-> In t old) /\
      count_occ (list_eq_dec N.eq_dec) new t = count_occ (list_eq_dec N.eq_dec) old t.
  Proof. exact (restricted_equal_no_change is_letter is_number). Qed.

  (* ---- masked namespaces: the fnd search is executed only if every search
     term of a masked namespace is one of the searcher's own tags ---- *)
  Theorem c19_masked_filter_sound : forall own terms masked,
    masked_gate is_letter is_number own terms masked = true ->
    forall t, In t terms -> restricted is_letter is_number masked t = true -> In t own.
  Proof. exact (masked_filter_sound is_letter is_number). Qed.
End C19Tags.
Print Assumptions c19_norm_count.
Print Assumptions c19_norm_nodup.
Print Assumptions c19_norm_each_tag_valid.
Print Assumptions c19_norm_idempotent.
Print Assumptions c19_restricted_equal_sound.
Print Assumptions c19_restricted_no_add_no_remove.
Print Assumptions c19_masked_filter_sound.

(* ---- the tag rules over HISTORIES (model Sys/TagState.v of replySetTags / replyGetTags on
   'me' and group topics, of the tags of a new group topic and of a new account, of unload /
   reload and of the server-side tag changes made for authenticators and validators):
   every configuration c = (reserved namespaces, maxTagCount), every world w (any number of
   tag holders, any rows, loaded or not), every sequence of requests rs. ---- *)
Section C19TagState.
  Variable lower : N -> N.
  Variables is_letter is_digit is_number : N -> bool.
  Hypothesis lower_idem : forall r, lower (lower r) = lower r.
  Hypothesis lower_space : forall r, is_space (lower r) = is_space r.

  Notation step := (TagState.step lower is_letter is_digit is_number).
  Notation run := (TagState.run lower is_letter is_digit is_number).
  Notation norm_list := (norm_list lower is_letter is_digit).
  Notation w_norm := (w_norm lower is_letter is_digit).

  (* an accepted {set tags} writes exactly the normalised request to the row and to the loaded topic *)
  Theorem c19_accepted_update_stores_normalised : forall c w h who fail tags a b,
    snd (step c w (SetTags h who fail tags)) = RCtrl 200 a b ->
    exists hd', lookup h (fst (step c w (SetTags h who fail tags))) = Some hd' /\
                normalize_tags lower is_letter is_digit (c_max c) tags = Some (h_store hd') /\
                h_cache hd' = Some (h_store hd') /\ norm_list c (h_store hd').
  Proof. exact (set_accepted_normalised lower is_letter is_digit is_number lower_idem lower_space). Qed.

  (* what "normalised" says: de-duplicated, within the count limit, every tag trimmed, lower-cased,
     2..96 runes, starting with a letter or a digit *)
  Theorem c19_normalised_meaning : forall c l, norm_list c l ->
    NoDup l /\ (length l <= c_max c)%nat /\
    forall t, In t l -> (2 <= length t <= 96)%nat /\ (is_letter (hd 0%N t) = true \/ is_digit (hd 0%N t) = true) /\
                        map lower t = t /\ trim_space t = t.
  Proof. exact (norm_list_spelled lower is_letter is_digit). Qed.

  (* stored tags are ALWAYS normalised: every sequence of client tag requests (set / get / unload /
     new topic / new account) keeps every row normalised and every loaded topic equal to its row *)
  Theorem c19_rows_stay_normalised : forall c rs w,
    w_norm c w -> forallb tag_request rs = true -> w_norm c (fst (run c w rs)).
  Proof. exact (run_norm lower is_letter is_digit is_number lower_idem lower_space). Qed.

  Theorem c19_loaded_topic_holds_the_row : forall c w h hd c0,
    w_norm c w -> lookup h w = Some hd -> h_cache hd = Some c0 -> c0 = h_store hd.
  Proof. exact (norm_cache_is_store lower is_letter is_digit). Qed.

  (* for ANY rows (normalised or not) and any requests, server-side ones included, the loaded topic
     holds a permutation of the row *)
  Theorem c19_loaded_topic_permutes_the_row : forall c rs w,
    w_coherent w -> w_coherent (fst (run c w rs)).
  Proof. exact (run_coherent lower is_letter is_digit is_number). Qed.

  (* clients can never add or remove a tag of a reserved namespace: through every sequence of client
     requests the reserved-namespace tags of every row stay the same multiset *)
  Theorem c19_reserved_tags_never_changed_by_clients : forall c rs w h hd,
    w_coherent w -> forallb (fun r => negb (is_srv r)) rs = true -> lookup h w = Some hd ->
    exists hd', lookup h (fst (run c w rs)) = Some hd' /\ h_kind hd' = h_kind hd /\ h_owner hd' = h_owner hd /\
                Permutation (filter_restricted is_letter is_number (h_store hd') (c_ns c))
                            (filter_restricted is_letter is_number (h_store hd) (c_ns c)).
  Proof. exact (run_reserved_unchanged lower is_letter is_digit is_number). Qed.

  (* a topic or account created by a client request carries no reserved-namespace tag chosen by the
     client: none at all for a topic, only the authenticator's own for an account *)
  Theorem c19_new_holder_has_no_client_reserved_tag : forall c w r h hd',
    lookup h w = None -> lookup h (fst (step c w r)) = Some hd' ->
    forall t, restricted is_letter is_number (c_ns c) t = true -> In t (h_store hd') ->
      match r with NewUser _ _ au => In t au | _ => False end.
  Proof. exact (step_new_holder_reserved lower is_letter is_digit is_number). Qed.

  (* a rejected request (403: reserved tags touched, or not the owner) changes nothing: rows, loaded
     topics, and the answers to every later sequence of requests are those of the history without it *)
  Theorem c19_rejected_request_invisible : forall c w r rs a b,
    snd (step c w r) = RCtrl 403 a b ->
    snd (run c w (r :: rs)) = RCtrl 403 a b :: snd (run c w rs) /\
    obs_eq (fst (run c w (r :: rs))) (fst (run c w rs)).
  Proof. exact (rejected_request_invisible lower is_letter is_digit is_number). Qed.

  (* with normalised rows the same holds for every request that is not accepted (304 not modified,
     500 store failure, 204 no tags) *)
  Theorem c19_unaccepted_request_changes_nothing : forall c w r code a b,
    w_norm c w -> snd (step c w r) = RCtrl code a b -> code <> 200%N -> code <> 201%N ->
    obs_eq w (fst (step c w r)).
  Proof. exact (unaccepted_step_invisible lower is_letter is_digit is_number). Qed.

  Theorem c19_get_tags_changes_nothing : forall c w h who, obs_eq w (fst (step c w (GetTags h who))).
  Proof. exact (get_step_invisible lower is_letter is_digit is_number). Qed.

  (* answers depend only on the rows and on what the loaded topics hold (the VALUES of the lists) *)
  Theorem c19_answers_depend_on_visible_state : forall c rs w1 w2, obs_eq w1 w2 ->
    snd (run c w1 rs) = snd (run c w2 rs) /\ obs_eq (fst (run c w1 rs)) (fst (run c w2 rs)).
  Proof. exact (run_obs lower is_letter is_digit is_number). Qed.
End C19TagState.
Print Assumptions c19_accepted_update_stores_normalised.
Print Assumptions c19_normalised_meaning.
Print Assumptions c19_rows_stay_normalised.
Print Assumptions c19_loaded_topic_holds_the_row.
Print Assumptions c19_loaded_topic_permutes_the_row.
Print Assumptions c19_reserved_tags_never_changed_by_clients.
Print Assumptions c19_new_holder_has_no_client_reserved_tag.
Print Assumptions c19_rejected_request_invisible.
Print Assumptions c19_unaccepted_request_changes_nothing.
Print Assumptions c19_get_tags_changes_nothing.
Print Assumptions c19_answers_depend_on_visible_state.

(* non-vacuity: a query using every construct, identity lower-casing and rewriting *)
Example c19_ex_query :
  parse (fun r => r) (fun s => s) [97; 32; 34; 98; 32; 44; 34; 44; 99; 32; 233]%N   (* a "b ,",c e-acute *)
  = Ok ([[[97]]; [[233]]], [[98; 32; 44]; [99]])%N.
Proof. reflexivity. Qed.
Example c19_ex_wf : well_formed [97; 32; 34; 98; 32; 44; 34; 44; 99; 32; 233]%N.
Proof. reflexivity. Qed.
Example c19_ex_glued_rejected : parse (fun r => r) (fun s => s) q_glued = Err.
Proof. reflexivity. Qed.
Example c19_ex_quoted_second_accepted :
  parse (fun r => r) (fun s => s) q_quoted_second = Ok ([[[97]]; [[98]]], [])%N.
Proof. reflexivity. Qed.

(* the hypotheses on the unicode table are satisfiable (ASCII lowering), and the
   tag laws are not vacuous *)
Definition ascii_lower (r : N) : N := if ((65 <=? r) && (r <=? 90))%N then (r + 32)%N else r.
Definition ascii_letter (r : N) : bool := ((65 <=? r) && (r <=? 90) || (97 <=? r) && (r <=? 122))%N.
Definition ascii_digit (r : N) : bool := ((48 <=? r) && (r <=? 57))%N.
Example c19_ex_normalize :
  normalize_tags ascii_lower ascii_letter ascii_digit 16
    (Some [[32; 66; 111; 98]; [98; 111; 98; 9]; [120]; [45; 97; 98]; [97; 49]])%N    (* " Bob", "bob\t", "x", "-ab", "a1" *)
  = Some [[97; 49]; [98; 111; 98]]%N.
Proof. reflexivity. Qed.
Example c19_ex_restricted_rejected :
  restricted_tags_equal ascii_letter ascii_digit [[116; 101; 108; 58; 49]]%N [] [[116; 101; 108]]%N = false.  (* tel:1 removed *)
Proof. reflexivity. Qed.
Example c19_ex_masked_denied :
  masked_gate ascii_letter ascii_digit [[97; 98]]%N [[116; 101; 108; 58; 49]]%N [[116; 101; 108]]%N = false.
Proof. reflexivity. Qed.

(* a history through the stateful layer: account created with the authenticator's tag basic:alice,
   an ordinary tag replaced (accepted), the reserved tag replaced (rejected), read back *)
Definition s_alice : tag := [97; 108; 105; 99; 101]%N.
Definition s_bob : tag := [98; 111; 98]%N.
Definition s_basic : tag := [98; 97; 115; 105; 99]%N.
Definition s_basic_alice : tag := (s_basic ++ [58] ++ s_alice)%N.
Definition s_basic_bob : tag := (s_basic ++ [58] ++ s_bob)%N.
Example c19_ex_history :
  snd (TagState.run ascii_lower ascii_letter ascii_digit ascii_digit (mkCfg [s_basic] 16) []
         [NewUser 1 (Some [s_alice]) [s_basic_alice]; GetTags 1 1;
          SetTags 1 1 false (Some [s_bob; s_basic_alice]);
          SetTags 1 1 false (Some [s_bob; s_basic_bob]);
          SetTags 1 1 false (Some [s_bob; s_basic_alice; s_basic_alice]);
          GetTags 1 1]%N)
  = [RCtrl 201 0 0; RTags [s_alice; s_basic_alice]; RCtrl 200 1 1; RCtrl 403 0 0; RCtrl 304 0 0;
     RTags [s_basic_alice; s_bob]]%N.
Proof. reflexivity. Qed.
(* the hypotheses w_norm / w_coherent are satisfiable and reach non-empty worlds: the empty world,
   then topics and accounts created by requests *)
Example c19_ex_norm_world : w_norm ascii_lower ascii_letter ascii_digit (mkCfg [s_basic] 16) [].
Proof. intros h hd H. discriminate. Qed.
Example c19_ex_coherent_world : w_coherent [].
Proof. intros h hd H. discriminate. Qed.
Example c19_ex_new_topic :
  TagState.run ascii_lower ascii_letter ascii_digit ascii_digit (mkCfg [s_basic] 16) []
    [NewGrp 7 1 (Some [s_bob; s_alice]); NewGrp 8 1 (Some [s_basic_bob]); SetTags 7 2 false (Some [s_bob])]%N
  = ([(7, mkH KGrp 1 [s_alice; s_bob] (Some [s_alice; s_bob])); (7, mkH KGrp 1 [s_alice; s_bob] (Some [s_alice; s_bob]))],
     [RCtrl 200 0 0; RCtrl 403 0 0; RCtrl 403 0 0])%N.
Proof. reflexivity. Qed.

(* ---- the SEARCH layer (model Sys/FndSearchC19.v of rewriteTag and of the 'fnd' topic: the
   {set desc} that stores the query, the fnd branch of replyGetSub, store.Users.FindSubs above the
   store contract of FindUsers / FindTopics).  Every unicode table, every list of validators'
   PreCheck functions [vals] and authenticators' AsTag functions [auths] (in the order in which
   rewriteTag visits them), every configuration c = (masked namespaces, the user's own tags, the
   candidate rows), every topic state t, every session s (ANY auth level - sess.authLvl is an int:
   LevelNone 0, LevelAnon 10, LevelAuth 20, LevelRoot 30 or any other number -, any country code),
   every query, every request sequence.  [s_root s] abbreviates [s_lvl s =? level_root_c19], so
   [s_root s = false] covers every level other than root. ---- *)
Section C19Search.
  Variable lower : N -> N.
  Variables is_letter is_number : N -> bool.
  Variable vals : list (tag -> tag -> tag).
  Variable auths : list (tag -> tag).

  Notation rewrite_tag := (rewrite_tag_c19 is_letter is_number vals auths).
  Notation get_sub := (get_sub_c19 lower is_letter is_number vals auths).
  Notation run := (run_c19 lower is_letter is_number vals auths).

  (* (a) masked namespaces: store.Users.FindSubs is called only if every term of BOTH sets - the
     required (AND) groups and the optional (comma / OR) list - that lies in a masked namespace is
     one of the tags the topic holds for the user ... *)
  Theorem c19_search_masked_terms_are_own : forall c t s r k,
    get_sub c t s = (r, Some k) ->
    forall x, In x (concat (k_req k) ++ k_opt k) -> restricted is_letter is_number (fc_masked c) x = true ->
      In x (f_tags t).
  Proof. exact (get_sub_masked_terms_own_c19 lower is_letter is_number vals auths). Qed.

  (* ... otherwise the answer is 403 and the store is not called: ONE foreign masked term anywhere
     in the reading of the query, required or optional, is enough *)
  Theorem c19_search_foreign_masked_term_refused : forall c t s q wl req opt x,
    active_query_c19 t s = Some (q, wl) ->
    parse lower (rewrite_tag (s_cc s) wl) q = Ok (req, opt) ->
    In x (concat req ++ opt) -> restricted is_letter is_number (fc_masked c) x = true -> ~ In x (f_tags t) ->
    get_sub c t s = (FCtrl 403, None).
  Proof. exact (get_sub_foreign_masked_refused_c19 lower is_letter is_number vals auths). Qed.

  (* over histories: the topic's tag list never holds anything but tags of the user's row (it is
     empty after initTopicFnd), so through every sequence of requests every masked-namespace term
     that reaches the store is one of the user's own stored tags *)
  Theorem c19_search_history_masked_terms_are_own : forall c rs t,
    incl (f_tags t) (fc_own c) ->
    Forall (fun a => match snd a with
                     | Some k => forall x, In x (concat (k_req k) ++ k_opt k) ->
                                   restricted is_letter is_number (fc_masked c) x = true -> In x (fc_own c)
                     | None => True
                     end) (snd (run c t rs)).
  Proof. intros c rs t H. exact (proj1 (run_masked_terms_own_c19 lower is_letter is_number vals auths c rs t H)). Qed.

  (* (b) what is handed to the store is the documented reading (QuerySpec.denote: comma = OR,
     white space = AND, quoted terms literal) of the query that is active for the session - its
     public query, else the stored private one - with every term spelled as itself and, when
     rewriteTag changes it, its rewritten form; login rewriting exactly for the public query *)
  Theorem c19_search_terms_are_documented_reading : forall c t s r k,
    get_sub c t s = (r, Some k) ->
    exists q wl, active_query_c19 t s = Some (q, wl) /\ well_formed q /\
                 (k_req k, k_opt k) = denote lower (rewrite_tag (s_cc s) wl) q.
  Proof. exact (get_sub_call_is_documented_reading_c19 lower is_letter is_number vals auths). Qed.

  (* the precedence of rewriteTag, for ALL strings: a term that already has a prefix is left alone; *)
  Theorem c19_rewrite_prefixed_left_alone : forall cc wl orig,
    prefixed is_letter is_number orig = true -> rewrite_tag cc wl orig = orig.
  Proof. exact (rewrite_prefixed_c19 is_letter is_number vals auths). Qed.

  (* else the first validator (e-mail, phone) that indexes it decides - whatever the authenticators
     would make of the same string (a phone number made of digits is also a well-formed login); *)
  Theorem c19_rewrite_validators_first : forall cc wl orig vs1 v vs2,
    vals = vs1 ++ v :: vs2 -> prefixed is_letter is_number orig = false ->
    (forall u, In u vs1 -> u cc orig = []) -> v cc orig <> [] ->
    rewrite_tag cc wl orig = v cc orig.
  Proof. exact (rewrite_validator_first_c19 is_letter is_number vals auths). Qed.

  (* else, with login rewriting, the first authenticator that answers; *)
  Theorem c19_rewrite_logins_second : forall cc orig as1 a as2,
    auths = as1 ++ a :: as2 -> prefixed is_letter is_number orig = false ->
    (forall u, In u vals -> u cc orig = []) ->
    (forall b, In b as1 -> b orig = []) -> a orig <> [] ->
    rewrite_tag cc true orig = a orig.
  Proof. exact (rewrite_login_second_c19 is_letter is_number vals auths). Qed.

  (* else the term itself when it is a valid tag, and nothing (the term is dropped) when not *)
  Theorem c19_rewrite_plain_or_dropped : forall cc wl orig,
    prefixed is_letter is_number orig = false -> (forall u, In u vals -> u cc orig = []) ->
    (wl = true -> forall a, In a auths -> a orig = []) ->
    rewrite_tag cc wl orig = if tag_ok is_letter is_number orig then orig else [].
  Proof. exact (rewrite_plain_c19 is_letter is_number vals auths). Qed.

  (* malformed queries never reach the store *)
  Theorem c19_search_malformed_query_rejected : forall c t s q wl,
    active_query_c19 t s = Some (q, wl) -> q <> [] -> ~ well_formed q ->
    get_sub c t s = (FCtrl 400, None).
  Proof. exact (get_sub_malformed_rejected_c19 lower is_letter is_number vals auths). Qed.

  (* (c) a session that is not root always passes activeOnly, in every history ... *)
  Theorem c19_search_nonroot_passes_active_only : forall c t s r k,
    get_sub c t s = (r, Some k) -> s_root s = false -> k_active k = true.
  Proof. exact (get_sub_nonroot_active_only_c19 lower is_letter is_number vals auths). Qed.

  Theorem c19_search_history_nonroot_active_only : forall c rs t,
    Forall2 (fun r a => match r, snd a with
                        | FGetSub s, Some k => s_root s = false -> k_active k = true
                        | _, _ => True
                        end) rs (snd (run c t rs)).
  Proof. exact (run_nonroot_active_only_c19 lower is_letter is_number vals auths). Qed.

  (* ... and is shown only rows that exist, carry a tag of the query and one of every required
     group, and - for a session that is not root - are active (neither suspended nor deleted) *)
  Theorem c19_search_results_allowed : forall c t s ids k,
    get_sub c t s = (FMeta ids, Some k) ->
    forall i, In i ids -> exists x, In x (fc_world c) /\ cd_id x = i /\
      cand_matches_c19 (k_req k) (k_opt k) x = true /\ (s_root s = false -> cd_ok x = true).
  Proof. exact (get_sub_results_allowed_c19 lower is_letter is_number vals auths). Qed.
  (* (c) restated over the LEVEL itself.  'Ordinary users' are the sessions whose sess.authLvl is
     not LevelRoot - anonymous-scheme logins (LevelAnon), session objects that were never given a
     level (LevelNone: the proxied session on a cluster master), fully authenticated users and any
     other value of the int: activeOnly = true is handed to the store EXACTLY for them ... *)
  Theorem c19_search_active_only_iff_level_not_root : forall c t s r k,
    get_sub c t s = (r, Some k) -> (k_active k = true <-> s_lvl s <> level_root_c19).
  Proof. exact (get_sub_active_flag_c19 lower is_letter is_number vals auths). Qed.

  Theorem c19_search_every_nonroot_level_passes_active_only : forall c t s r k,
    get_sub c t s = (r, Some k) -> s_lvl s <> level_root_c19 -> k_active k = true.
  Proof. exact (get_sub_level_active_only_c19 lower is_letter is_number vals auths). Qed.

  (* the named levels, spelled out *)
  Theorem c19_search_none_anon_auth_pass_active_only : forall c t s r k,
    get_sub c t s = (r, Some k) ->
    s_lvl s = level_none_c19 \/ s_lvl s = level_anon_c19 \/ s_lvl s = level_auth_c19 -> k_active k = true.
  Proof.
    intros c t s r k H L. apply (get_sub_level_active_only_c19 lower is_letter is_number vals auths c t s r k H).
    destruct L as [-> | [-> | ->]]; discriminate.
  Qed.

  (* ... every row they are shown is an existing, matching, active row ... *)
  Theorem c19_search_every_nonroot_level_shown_active_rows_only : forall c t s ids k,
    get_sub c t s = (FMeta ids, Some k) -> s_lvl s <> level_root_c19 ->
    forall i, In i ids -> exists x, In x (fc_world c) /\ cd_id x = i /\
      cand_matches_c19 (k_req k) (k_opt k) x = true /\ cd_ok x = true.
  Proof. exact (get_sub_level_results_active_c19 lower is_letter is_number vals auths). Qed.

  (* ... and, rows having distinct ids, NO suspended or deleted account / topic is among them *)
  Theorem c19_search_nonroot_level_never_shown_inactive : forall c t s ids k,
    NoDup (map cd_id (fc_world c)) ->
    get_sub c t s = (FMeta ids, Some k) -> s_lvl s <> level_root_c19 ->
    forall x, In x (fc_world c) -> cd_ok x = false -> ~ In (cd_id x) ids.
  Proof. exact (get_sub_level_never_inactive_c19 lower is_letter is_number vals auths). Qed.

  (* over histories: both facts after every request sequence *)
  Theorem c19_search_history_every_nonroot_level_active_only : forall c rs t,
    Forall2 (fun r a => match r, a with
                        | FGetSub s, (resp, Some k) =>
                          s_lvl s <> level_root_c19 ->
                          k_active k = true /\
                          match resp with
                          | FMeta ids => forall i, In i ids ->
                                           exists x, In x (fc_world c) /\ cd_id x = i /\ cd_ok x = true
                          | _ => True
                          end
                        | _, _ => True
                        end) rs (snd (run c t rs)).
  Proof. exact (run_level_active_only_c19 lower is_letter is_number vals auths). Qed.

  (* the level matters in NO other way: sessions that differ only in their levels, none of them
     root, get the same replies and make the same store calls through every history (what an
     anonymous or level-less session is shown is what a fully authenticated one is shown) *)
  Theorem c19_search_nonroot_levels_indistinguishable : forall c t s1 s2,
    s_id s1 = s_id s2 -> s_cc s1 = s_cc s2 -> s_lvl s1 <> level_root_c19 -> s_lvl s2 <> level_root_c19 ->
    get_sub c t s1 = get_sub c t s2.
  Proof.
    intros c t s1 s2 Hi Hc L1 L2.
    apply (get_sub_level_irrelevant_c19 lower is_letter is_number vals auths c t s1 s2). repeat split; assumption.
  Qed.

  Theorem c19_search_history_nonroot_levels_indistinguishable : forall c rs1 rs2 t,
    Forall2 (fun r1 r2 => match r1, r2 with
                          | FSetDesc s1 p1 v1, FSetDesc s2 p2 v2 => s_id s1 = s_id s2 /\ p1 = p2 /\ v1 = v2
                          | FGetSub s1, FGetSub s2 =>
                            s_id s1 = s_id s2 /\ s_cc s1 = s_cc s2 /\
                            s_lvl s1 <> level_root_c19 /\ s_lvl s2 <> level_root_c19
                          | FUnload, FUnload => True
                          | FUserTags, FUserTags => True
                          | _, _ => False
                          end) rs1 rs2 ->
    run c t rs1 = run c t rs2.
  Proof. exact (fun c rs1 rs2 t => run_level_irrelevant_c19 lower is_letter is_number vals auths c rs1 rs2 t). Qed.
End C19Search.
Print Assumptions c19_search_masked_terms_are_own.
Print Assumptions c19_search_foreign_masked_term_refused.
Print Assumptions c19_search_history_masked_terms_are_own.
Print Assumptions c19_search_terms_are_documented_reading.
Print Assumptions c19_rewrite_prefixed_left_alone.
Print Assumptions c19_rewrite_validators_first.
Print Assumptions c19_rewrite_logins_second.
Print Assumptions c19_rewrite_plain_or_dropped.
Print Assumptions c19_search_malformed_query_rejected.
Print Assumptions c19_search_nonroot_passes_active_only.
Print Assumptions c19_search_history_nonroot_active_only.
Print Assumptions c19_search_results_allowed.
Print Assumptions c19_search_active_only_iff_level_not_root.
Print Assumptions c19_search_every_nonroot_level_passes_active_only.
Print Assumptions c19_search_none_anon_auth_pass_active_only.
Print Assumptions c19_search_every_nonroot_level_shown_active_rows_only.
Print Assumptions c19_search_nonroot_level_never_shown_inactive.
Print Assumptions c19_search_history_every_nonroot_level_active_only.
Print Assumptions c19_search_nonroot_levels_indistinguishable.
Print Assumptions c19_search_history_nonroot_levels_indistinguishable.

(* non-vacuity of the search layer: toy rewriters that OVERLAP on digit strings, as the phone
   validator and the login authenticator do *)
Definition x_digits (s : tag) : bool := negb (is_nil s) && forallb ascii_digit s.
Definition x_tel (cc s : tag) : tag := if x_digits s then [116; 101; 108; 58; 43]%N ++ cc ++ s else [].   (* tel:+<cc><s> *)
Definition x_login (s : tag) : tag :=
  if negb (is_nil s) && forallb (fun r => ascii_letter r || ascii_digit r) s
  then [98; 97; 115; 105; 99; 58]%N ++ s else [].                                                    (* basic:<s> *)
Definition x_rewrite := rewrite_tag_c19 ascii_letter ascii_digit [x_tel] [x_login].
(* 650 with country code 1 and login rewriting on: the validator wins -> tel:+1650 *)
Example c19_ex_rewrite_phone : x_rewrite [49]%N true [54; 53; 48]%N = [116; 101; 108; 58; 43; 49; 54; 53; 48]%N.
Proof. reflexivity. Qed.
(* bob -> basic:bob with login rewriting, bob without *)
Example c19_ex_rewrite_login : x_rewrite [49]%N true s_bob = s_basic_bob /\ x_rewrite [49]%N false s_bob = s_bob.
Proof. split; reflexivity. Qed.

Definition s_org : tag := [111; 114; 103]%N.
Definition s_org_acme : tag := (s_org ++ [58; 97; 99; 109; 101])%N.          (* org:acme *)
Definition s_org_rival : tag := (s_org ++ [58; 114; 105; 118; 97; 108])%N.   (* org:rival *)
Definition s_travel : tag := [116; 114; 97; 118; 101; 108]%N.
Definition x_sess : sess_c19 := mkSessC19 1 level_auth_c19 [49]%N.
Definition x_root : sess_c19 := mkSessC19 2 level_root_c19 [49]%N.
Definition x_anon : sess_c19 := mkSessC19 1 level_anon_c19 [49]%N.      (* anonymous-scheme login *)
Definition x_none : sess_c19 := mkSessC19 1 level_none_c19 [49]%N.      (* a session without a level *)
Definition x_junk : sess_c19 := mkSessC19 1 31 [49]%N.                  (* not a level at all *)
Definition x_cfg : fcfg_c19 :=
  mkFcfgC19 [s_org] [s_org_acme; s_travel] 0
    [mkCandC19 0 true true [s_org_acme; s_travel];          (* the searcher *)
     mkCandC19 1 true true [s_travel];
     mkCandC19 2 true false [s_travel];                     (* suspended account *)
     mkCandC19 3 false true [s_org_rival];
     mkCandC19 4 false false [s_travel; s_org_acme]]%N.     (* deleted topic *)
Definition x_run := run_c19 ascii_lower ascii_letter ascii_digit [x_tel] [x_login] x_cfg.
(* the private query "travel,org:rival": the foreign masked tag in the OPTIONAL list is refused;
   "travel": the ordinary session finds account 1 only, the root session also 2 and 4;
   "travel,org:acme": refused as long as the fnd topic holds no tags (initTopicFnd), executed once
   it holds the user's tags *)
Example c19_ex_search_history :
  snd (x_run (load_c19 None)
         [FSetDesc x_sess None (Some (s_travel ++ [44] ++ s_org_rival)); FGetSub x_sess;
          FSetDesc x_sess None (Some s_travel); FGetSub x_sess; FGetSub x_root;
          FSetDesc x_sess None (Some (s_travel ++ [44] ++ s_org_acme)); FGetSub x_sess;
          FUserTags; FGetSub x_sess]%N)
  = [(FCtrl 200, None); (FCtrl 403, None);
     (FCtrl 200, None); (FMeta [1], Some (mkCallC19 [[s_travel]] [] true)); (FMeta [1; 2; 4], Some (mkCallC19 [[s_travel]] [] false));
     (FCtrl 200, None); (FCtrl 403, None);
     (FNone, None); (FMeta [1], Some (mkCallC19 [] [s_travel; s_org_acme] true))]%N.
Proof. reflexivity. Qed.

(* every level other than root: the anonymous, the level-less and the junk-level session find
   account 1 only, with activeOnly; the root session also the suspended account 2 and the deleted
   topic 4 *)
Example c19_ex_search_levels :
  snd (x_run (load_c19 None)
         [FSetDesc x_sess None (Some s_travel); FGetSub x_anon; FGetSub x_none; FGetSub x_junk; FGetSub x_root]%N)
  = [(FCtrl 200, None); (FMeta [1], Some (mkCallC19 [[s_travel]] [] true));
     (FMeta [1], Some (mkCallC19 [[s_travel]] [] true)); (FMeta [1], Some (mkCallC19 [[s_travel]] [] true));
     (FMeta [1; 2; 4], Some (mkCallC19 [[s_travel]] [] false))]%N.
Proof. reflexivity. Qed.
Example c19_ex_world_ids_distinct : NoDup (map cd_id (fc_world x_cfg)).
Proof. repeat constructor; cbn; intuition discriminate. Qed.
