(* C19: search finds only what the query and the tag rules allow. *)
From Coq Require Import NArith ZArith List Bool Permutation.
Require Import Tinode.Base.Util Tinode.Pure.Query Tinode.Pure.QuerySpec Tinode.Pure.QueryProofs.
Require Import Tinode.Pure.Tags Tinode.Pure.TagsProofs.
Require Import Tinode.Sys.TagState Tinode.Sys.TagStateProofs.
Import ListNotations.

(* ---- the query parser (model of parseSearchQuery after the repair of
   findings/C19_query.diff) computes the documented reading of EVERY query
   string, for every lower-casing and tag-rewriting function: no bound on the
   length, non-ASCII runes included (positions are byte offsets). ---- *)
Theorem c19_parse_sound_complete : forall lower rewrite q r,
  parse lower rewrite q = Ok r <-> well_formed q /\ r = denote lower rewrite q.
Proof. exact parse_sound_complete. Qed.
Print Assumptions c19_parse_sound_complete.

(* malformed queries (unterminated quote, doubled comma, a quote glued to a
   word or to another quote) are rejected, and only those *)
Theorem c19_parse_err_iff : forall lower rewrite q,
  parse lower rewrite q = Err <-> ~ well_formed q.
Proof. exact parse_err_iff. Qed.
Print Assumptions c19_parse_err_iff.

(* The parser of the pinned tree (Query.parse_unrepaired) does NOT satisfy the
   statement: witnesses, with identity lower-casing and rewriting. *)
Definition q_glued : list N := [34; 97; 34; 98; 32; 99]%N.          (* "a"b c *)
Definition q_quoted_second : list N := [97; 32; 34; 98; 34]%N.      (* a "b" *)

Definition parse_sound_statement_unrepaired : Prop :=
  forall lower rewrite q r, parse_unrepaired lower rewrite q = Ok r ->
    well_formed q /\ r = denote lower rewrite q.
Definition parse_complete_statement_unrepaired : Prop :=
  forall lower rewrite q, well_formed q ->
    parse_unrepaired lower rewrite q = Ok (denote lower rewrite q).

Theorem c19_unrepaired_sound_refuted : ~ parse_sound_statement_unrepaired.
Proof.
  intros H. destruct (H (fun r => r) (fun s => s) q_glued _ eq_refl) as [W _].
  vm_compute in W. discriminate.
Qed.
Print Assumptions c19_unrepaired_sound_refuted.

Theorem c19_unrepaired_complete_refuted : ~ parse_complete_statement_unrepaired.
Proof.
  intros H. specialize (H (fun r => r) (fun s => s) q_quoted_second eq_refl).
  vm_compute in H. discriminate.
Qed.
Print Assumptions c19_unrepaired_complete_refuted.

(* ---- stored tags are always normalised: for every input list (nil included),
   every maxTagCount, every unicode table whose lowering is idempotent and
   keeps non-space runes non-space (checked on all code points by the driver). ---- *)
Section C19Tags.
  Variable lower : N -> N.
  Variables is_letter is_digit is_number : N -> bool.
  Hypothesis lower_idem : forall r, lower (lower r) = lower r.
  Hypothesis lower_space : forall r, is_space (lower r) = is_space r.

  Theorem c19_norm_count : forall mx src,
    (length (content (normalize_tags lower is_letter is_digit mx src)) <= mx)%nat.
  Proof. exact (norm_count lower is_letter is_digit). Qed.

  Theorem c19_norm_nodup : forall mx src,
    NoDup (content (normalize_tags lower is_letter is_digit mx src)).
  Proof. exact (norm_nodup lower is_letter is_digit). Qed.

  (* trimmed, lower-cased, starting with a letter or digit, 2..96 runes *)
  Theorem c19_norm_each_tag_valid : forall mx src t,
    In t (content (normalize_tags lower is_letter is_digit mx src)) ->
    (2 <= length t <= 96)%nat /\ (is_letter (hd 0%N t) = true \/ is_digit (hd 0%N t) = true) /\
    map lower t = t /\ trim_space t = t.
  Proof. exact (norm_each_tag_valid lower is_letter is_digit lower_idem lower_space). Qed.

  Theorem c19_norm_idempotent : forall mx src,
    content (normalize_tags lower is_letter is_digit mx (normalize_tags lower is_letter is_digit mx src))
    = content (normalize_tags lower is_letter is_digit mx src).
  Proof. exact (norm_idempotent lower is_letter is_digit lower_idem lower_space). Qed.

  (* ---- reserved namespaces: an update accepted by restrictedTagsEqual keeps
     the reserved-namespace tags exactly (as a multiset), for every old list, new
     list and namespace configuration ---- *)
  Theorem c19_restricted_equal_sound : forall old new ns,
    restricted_tags_equal is_letter is_number old new ns = true ->
    Permutation (filter_restricted is_letter is_number old ns) (filter_restricted is_letter is_number new ns).
  Proof. exact (restricted_equal_sound is_letter is_number). Qed.

  Theorem c19_restricted_no_add_no_remove : forall old new ns,
    restricted_tags_equal is_letter is_number old new ns = true ->
    forall t, restricted is_letter is_number ns t = true ->
      (In t new <-> In t old) /\
      count_occ (list_eq_dec N.eq_dec) new t = count_occ (list_eq_dec N.eq_dec) old t.
  Proof. exact (restricted_equal_no_change is_letter is_number). Qed.

  (* ---- masked namespaces: the fnd search is executed only if every search
     term of a masked namespace is one of the searcher's own tags ---- *)
  Theorem c19_masked_filter_sound : forall own terms masked,
    masked_gate is_letter is_number own terms masked = true ->
    forall t, In t terms -> restricted is_letter is_number masked t = true -> In t own.
  Proof. exact (masked_filter_sound is_letter is_number). Qed.
End C19Tags.
Print Assumptions c19_norm_count.
Print Assumptions c19_norm_nodup.
Print Assumptions c19_norm_each_tag_valid.
Print Assumptions c19_norm_idempotent.
Print Assumptions c19_restricted_equal_sound.
Print Assumptions c19_restricted_no_add_no_remove.
Print Assumptions c19_masked_filter_sound.

(* ---- the tag rules over HISTORIES (model Sys/TagState.v of replySetTags / replyGetTags on
   'me' and group topics, of the tags of a new group topic and of a new account, of unload /
   reload and of the server-side tag changes made for authenticators and validators):
   every configuration c = (reserved namespaces, maxTagCount), every world w (any number of
   tag holders, any rows, loaded or not), every sequence of requests rs. ---- *)
Section C19TagState.
  Variable lower : N -> N.
  Variables is_letter is_digit is_number : N -> bool.
  Hypothesis lower_idem : forall r, lower (lower r) = lower r.
  Hypothesis lower_space : forall r, is_space (lower r) = is_space r.

  Notation step := (TagState.step lower is_letter is_digit is_number).
  Notation run := (TagState.run lower is_letter is_digit is_number).
  Notation norm_list := (norm_list lower is_letter is_digit).
  Notation w_norm := (w_norm lower is_letter is_digit).

  (* an accepted {set tags} writes exactly the normalised request to the row and to the loaded topic *)
  Theorem c19_accepted_update_stores_normalised : forall c w h who fail tags a b,
    snd (step c w (SetTags h who fail tags)) = RCtrl 200 a b ->
    exists hd', lookup h (fst (step c w (SetTags h who fail tags))) = Some hd' /\
                normalize_tags lower is_letter is_digit (c_max c) tags = Some (h_store hd') /\
                h_cache hd' = Some (h_store hd') /\ norm_list c (h_store hd').
  Proof. exact (set_accepted_normalised lower is_letter is_digit is_number lower_idem lower_space). Qed.

  (* what "normalised" says: de-duplicated, within the count limit, every tag trimmed, lower-cased,
     2..96 runes, starting with a letter or a digit *)
  Theorem c19_normalised_meaning : forall c l, norm_list c l ->
    NoDup l /\ (length l <= c_max c)%nat /\
    forall t, In t l -> (2 <= length t <= 96)%nat /\ (is_letter (hd 0%N t) = true \/ is_digit (hd 0%N t) = true) /\
                        map lower t = t /\ trim_space t = t.
  Proof. exact (norm_list_spelled lower is_letter is_digit). Qed.

  (* stored tags are ALWAYS normalised: every sequence of client tag requests (set / get / unload /
     new topic / new account) keeps every row normalised and every loaded topic equal to its row *)
  Theorem c19_rows_stay_normalised : forall c rs w,
    w_norm c w -> forallb tag_request rs = true -> w_norm c (fst (run c w rs)).
  Proof. exact (run_norm lower is_letter is_digit is_number lower_idem lower_space). Qed.

  Theorem c19_loaded_topic_holds_the_row : forall c w h hd c0,
    w_norm c w -> lookup h w = Some hd -> h_cache hd = Some c0 -> c0 = h_store hd.
  Proof. exact (norm_cache_is_store lower is_letter is_digit). Qed.

  (* for ANY rows (normalised or not) and any requests, server-side ones included, the loaded topic
     holds a permutation of the row *)
  Theorem c19_loaded_topic_permutes_the_row : forall c rs w,
    w_coherent w -> w_coherent (fst (run c w rs)).
  Proof. exact (run_coherent lower is_letter is_digit is_number). Qed.

  (* clients can never add or remove a tag of a reserved namespace: through every sequence of client
     requests the reserved-namespace tags of every row stay the same multiset *)
  Theorem c19_reserved_tags_never_changed_by_clients : forall c rs w h hd,
    w_coherent w -> forallb (fun r => negb (is_srv r)) rs = true -> lookup h w = Some hd ->
    exists hd', lookup h (fst (run c w rs)) = Some hd' /\ h_kind hd' = h_kind hd /\ h_owner hd' = h_owner hd /\
                Permutation (filter_restricted is_letter is_number (h_store hd') (c_ns c))
                            (filter_restricted is_letter is_number (h_store hd) (c_ns c)).
  Proof. exact (run_reserved_unchanged lower is_letter is_digit is_number). Qed.

  (* a topic or account created by a client request carries no reserved-namespace tag chosen by the
     client: none at all for a topic, only the authenticator's own for an account *)
  Theorem c19_new_holder_has_no_client_reserved_tag : forall c w r h hd',
    lookup h w = None -> lookup h (fst (step c w r)) = Some hd' ->
    forall t, restricted is_letter is_number (c_ns c) t = true -> In t (h_store hd') ->
      match r with NewUser _ _ au => In t au | _ => False end.
  Proof. exact (step_new_holder_reserved lower is_letter is_digit is_number). Qed.

  (* a rejected request (403: reserved tags touched, or not the owner) changes nothing: rows, loaded
     topics, and the answers to every later sequence of requests are those of the history without it *)
  Theorem c19_rejected_request_invisible : forall c w r rs a b,
    snd (step c w r) = RCtrl 403 a b ->
    snd (run c w (r :: rs)) = RCtrl 403 a b :: snd (run c w rs) /\
    obs_eq (fst (run c w (r :: rs))) (fst (run c w rs)).
  Proof. exact (rejected_request_invisible lower is_letter is_digit is_number). Qed.

  (* with normalised rows the same holds for every request that is not accepted (304 not modified,
     500 store failure, 204 no tags) *)
  Theorem c19_unaccepted_request_changes_nothing : forall c w r code a b,
    w_norm c w -> snd (step c w r) = RCtrl code a b -> code <> 200%N -> code <> 201%N ->
    obs_eq w (fst (step c w r)).
  Proof. exact (unaccepted_step_invisible lower is_letter is_digit is_number). Qed.

  Theorem c19_get_tags_changes_nothing : forall c w h who, obs_eq w (fst (step c w (GetTags h who))).
  Proof. exact (get_step_invisible lower is_letter is_digit is_number). Qed.

  (* answers depend only on the rows and on what the loaded topics hold (the VALUES of the lists) *)
  Theorem c19_answers_depend_on_visible_state : forall c rs w1 w2, obs_eq w1 w2 ->
    snd (run c w1 rs) = snd (run c w2 rs) /\ obs_eq (fst (run c w1 rs)) (fst (run c w2 rs)).
  Proof. exact (run_obs lower is_letter is_digit is_number). Qed.
End C19TagState.
Print Assumptions c19_accepted_update_stores_normalised.
Print Assumptions c19_normalised_meaning.
Print Assumptions c19_rows_stay_normalised.
Print Assumptions c19_loaded_topic_holds_the_row.
Print Assumptions c19_loaded_topic_permutes_the_row.
Print Assumptions c19_reserved_tags_never_changed_by_clients.
Print Assumptions c19_new_holder_has_no_client_reserved_tag.
Print Assumptions c19_rejected_request_invisible.
Print Assumptions c19_unaccepted_request_changes_nothing.
Print Assumptions c19_get_tags_changes_nothing.
Print Assumptions c19_answers_depend_on_visible_state.

(* non-vacuity: a query using every construct, identity lower-casing and rewriting *)
Example c19_ex_query :
  parse (fun r => r) (fun s => s) [97; 32; 34; 98; 32; 44; 34; 44; 99; 32; 233]%N   (* a "b ,",c e-acute *)
  = Ok ([[[97]]; [[233]]], [[98; 32; 44]; [99]])%N.
Proof. reflexivity. Qed.
Example c19_ex_wf : well_formed [97; 32; 34; 98; 32; 44; 34; 44; 99; 32; 233]%N.
Proof. reflexivity. Qed.
Example c19_ex_glued_rejected : parse (fun r => r) (fun s => s) q_glued = Err.
Proof. reflexivity. Qed.
Example c19_ex_quoted_second_accepted :
  parse (fun r => r) (fun s => s) q_quoted_second = Ok ([[[97]]; [[98]]], [])%N.
Proof. reflexivity. Qed.

(* the hypotheses on the unicode table are satisfiable (ASCII lowering), and the
   tag laws are not vacuous *)
Definition ascii_lower (r : N) : N := if ((65 <=? r) && (r <=? 90))%N then (r + 32)%N else r.
Definition ascii_letter (r : N) : bool := ((65 <=? r) && (r <=? 90) || (97 <=? r) && (r <=? 122))%N.
Definition ascii_digit (r : N) : bool := ((48 <=? r) && (r <=? 57))%N.
Example c19_ex_normalize :
  normalize_tags ascii_lower ascii_letter ascii_digit 16
    (Some [[32; 66; 111; 98]; [98; 111; 98; 9]; [120]; [45; 97; 98]; [97; 49]])%N    (* " Bob", "bob\t", "x", "-ab", "a1" *)
  = Some [[97; 49]; [98; 111; 98]]%N.
Proof. reflexivity. Qed.
Example c19_ex_restricted_rejected :
  restricted_tags_equal ascii_letter ascii_digit [[116; 101; 108; 58; 49]]%N [] [[116; 101; 108]]%N = false.  (* tel:1 removed *)
Proof. reflexivity. Qed.
Example c19_ex_masked_denied :
  masked_gate ascii_letter ascii_digit [[97; 98]]%N [[116; 101; 108; 58; 49]]%N [[116; 101; 108]]%N = false.
Proof. reflexivity. Qed.

(* a history through the stateful layer: account created with the authenticator's tag basic:alice,
   an ordinary tag replaced (accepted), the reserved tag replaced (rejected), read back *)
Definition s_alice : tag := [97; 108; 105; 99; 101]%N.
Definition s_bob : tag := [98; 111; 98]%N.
Definition s_basic : tag := [98; 97; 115; 105; 99]%N.
Definition s_basic_alice : tag := (s_basic ++ [58] ++ s_alice)%N.
Definition s_basic_bob : tag := (s_basic ++ [58] ++ s_bob)%N.
Example c19_ex_history :
  snd (TagState.run ascii_lower ascii_letter ascii_digit ascii_digit (mkCfg [s_basic] 16) []
         [NewUser 1 (Some [s_alice]) [s_basic_alice]; GetTags 1 1;
          SetTags 1 1 false (Some [s_bob; s_basic_alice]);
          SetTags 1 1 false (Some [s_bob; s_basic_bob]);
          SetTags 1 1 false (Some [s_bob; s_basic_alice; s_basic_alice]);
          GetTags 1 1]%N)
  = [RCtrl 201 0 0; RTags [s_alice; s_basic_alice]; RCtrl 200 1 1; RCtrl 403 0 0; RCtrl 304 0 0;
     RTags [s_basic_alice; s_bob]]%N.
Proof. reflexivity. Qed.
(* the hypotheses w_norm / w_coherent are satisfiable and reach non-empty worlds: the empty world,
   then topics and accounts created by requests *)
Example c19_ex_norm_world : w_norm ascii_lower ascii_letter ascii_digit (mkCfg [s_basic] 16) [].
Proof. intros h hd H. discriminate. Qed.
Example c19_ex_coherent_world : w_coherent [].
Proof. intros h hd H. discriminate. Qed.
Example c19_ex_new_topic :
  TagState.run ascii_lower ascii_letter ascii_digit ascii_digit (mkCfg [s_basic] 16) []
    [NewGrp 7 1 (Some [s_bob; s_alice]); NewGrp 8 1 (Some [s_basic_bob]); SetTags 7 2 false (Some [s_bob])]%N
  = ([(7, mkH KGrp 1 [s_alice; s_bob] (Some [s_alice; s_bob])); (7, mkH KGrp 1 [s_alice; s_bob] (Some [s_alice; s_bob]))],
     [RCtrl 200 0 0; RCtrl 403 0 0; RCtrl 403 0 0])%N.
Proof. reflexivity. Qed.
