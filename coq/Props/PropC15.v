(* C15  A peer-to-peer call follows one life cycle and ends exactly once.
   Theorems only, over the model Sys/Call.v (a statement-by-statement translation of
   server/calls.go and the call-related parts of topic.go / session.go / pres.go); each is
   closed by [exact] of a lemma of Sys/CallProofs.v.  Single-step theorems hold from EVERY
   state (any users, sessions, permissions), hence at every point of every history; history
   theorems are by induction over an arbitrary list of operations.

   The model follows the code WITH the repair findings/C15_deleted.diff (fix: handleCallEvent
   ignores a sender whose subscription is deleted); for it the full c15_roles_subscribed is
   proved, and the handler as it was is refuted (c15_roles_subscribed_unrepaired_refuted).
   Two parts of the property are REFUTED by the faithful model (and replayed on the real
   server, see findings/C15.md): they are kept as [_statement], with [_refuted] witnesses and
   [_partial] theorems whose extra hypothesis excludes exactly the trigger. *)
From Coq Require Import ZArith NArith List Bool.
From Tinode Require Import Sys.Call Sys.CallProofs Sys.CallCat Sys.CallCatProofs.
Import ListNotations.
Open Scope Z_scope.

(* ---- the invitation gate ------------------------------------------------------------- *)
(* gate_ok = configured /\ the author's session is attached /\ the author has W in want&given
   /\ no current call  (the topic is p2p: always, in this model).  Accepted: the call becomes
   current with the new message's id, 202.  Refused: nothing changes and the only output is one
   error code to the sender; busy -> exactly {ctrl 486}. *)
Theorem c15_gate : forall cfg st s content w st' os,
  live cfg st s ->
  step cfg st (OInvite s content w) = (st', os) ->
  (gate_ok cfg st s = true ->
     st' = invite_state cfg st s content w /\ In (s, FCtrl 202 (Some (lastid st + 1))) os) /\
  (gate_ok cfg st s = false ->
     st' = st /\ os = [(s, FCtrl (refusal_code cfg st s) None)]) /\
  (configured cfg = true -> mem s (attached st) = true -> current st <> None ->
     st' = st /\ os = [(s, FCtrl 486 None)]).
Proof. exact gate. Qed.
Print Assumptions c15_gate.

Theorem c15_call_starts_only_by_invitation : forall cfg st o st' os c',
  step cfg st o = (st', os) -> current st = None -> current st' = Some c' ->
  exists s content w, o = OInvite s content w /\ gate_ok cfg st s = true /\ st' = invite_state cfg st s content w.
Proof. exact started_only_by_invite. Qed.
Print Assumptions c15_call_starts_only_by_invitation.

(* ---- roles ---------------------------------------------------------------------------- *)
(* Either the event is ignored (no state change, at most an error code to the sender), or it
   names the current call, comes from a user who is a (not deleted) subscriber of the topic and
   respects the role table:
   ringing/accept before acceptance, not from the originator's session or user;
   offer/answer/ice-candidate after acceptance from one of the two party sessions;
   hang-up after acceptance from a party session, before it from the originating session or
   from the other user; unknown events never. *)
Theorem c15_roles : forall cfg st s e q p st' os,
  step cfg st (OEvent s e q p) = (st', os) ->
  (st' = st /\ quiet s os) \/
  exists c, current st = Some c /\ c_seq c = q /\ participant st (user_of cfg s) = true /\ role_ok cfg c s e.
Proof. exact roles. Qed.
Print Assumptions c15_roles.

(* an event that has any effect on the state comes from a user who is still a subscriber:
   from EVERY state, hence at every point of every history *)
Definition c15_roles_subscribed_statement : Prop :=
  forall cfg st s e q p st' os,
    step cfg st (OEvent s e q p) = (st', os) -> st' <> st -> participant st (user_of cfg s) = true.

Theorem c15_roles_subscribed : c15_roles_subscribed_statement.
Proof. exact roles_subscribed. Qed.
Print Assumptions c15_roles_subscribed.

(* the same statement for the handler as it was before the repair (only `!userFound`), over
   histories: refuted - a participant who has unsubscribed still accepts the call *)
Definition c15_roles_subscribed_unrepaired_statement : Prop :=
  forall cfg a b ops s e q p st' os,
    let st := final_unrepaired cfg (init2 a b) ops in
    step_unrepaired cfg st (OEvent s e q p) = (st', os) -> st' <> st -> participant st (user_of cfg s) = true.

Definition cfg_w2 : config := mkCfg true [(1, 1); (3, 2); (4, 2)]%N.
Definition w2_ops : list op := [OAttach 1; OAttach 4; OInvite 1 101 0; OUnsub 4].
Definition w2_res := step_unrepaired cfg_w2 (final_unrepaired cfg_w2 (init2 1%N 2%N) w2_ops) (OEvent 3 EvAccept 1 2).
Example w2_step : step_unrepaired cfg_w2 (final_unrepaired cfg_w2 (init2 1%N 2%N) w2_ops) (OEvent 3 EvAccept 1 2) = (fst w2_res, snd w2_res).
Proof. vm_compute. reflexivity. Qed.
Theorem c15_roles_subscribed_unrepaired_refuted : ~ c15_roles_subscribed_unrepaired_statement.
Proof.
  intros H0.
  pose proof (H0 cfg_w2 1%N 2%N w2_ops 3%N EvAccept 1 2%N (fst w2_res) (snd w2_res)) as H. cbv zeta in H.
  specialize (H w2_step).
  assert (X : participant (final_unrepaired cfg_w2 (init2 1%N 2%N) w2_ops) (user_of cfg_w2 3%N) = false) by (vm_compute; reflexivity).
  assert (F : lastid (fst w2_res) <> lastid (final_unrepaired cfg_w2 (init2 1%N 2%N) w2_ops)) by (vm_compute; discriminate).
  rewrite H in X; [discriminate|]. intros E. apply F. rewrite E. reflexivity.
Qed.
Print Assumptions c15_roles_subscribed_unrepaired_refuted.

(* the repaired machine ignores the witness *)
Example c15_roles_subscribed_witness_repaired :
  step cfg_w2 (final cfg_w2 (init2 1%N 2%N) w2_ops) (OEvent 3 EvAccept 1 2) = (final cfg_w2 (init2 1%N 2%N) w2_ops, []).
Proof. vm_compute. reflexivity. Qed.

(* ---- relay target --------------------------------------------------------------------- *)
(* Every output of a call event other than hang-up is described by event_out_ok: the relayed
   {info} goes to relay_to (the originating session for ringing/accept, the OTHER party session
   for offer/answer/ice-candidate) with the true sender and the call's id, and there is at most
   one; besides it only: the accepted-replacement {data} to attached sessions, the "accepted
   elsewhere" notice on 'me' to OTHER sessions of the accepting user, an error code to the sender. *)
Theorem c15_relay_target : forall cfg st s e q p st' os,
  e <> EvHangup ->
  step cfg st (OEvent s e q p) = (st', os) ->
  os = [] \/ os = [(s, FCtrl 409 None)] \/
  exists c, current st = Some c /\ c_seq c = q /\ Forall (event_out_ok cfg st c s e) os /\
    (length (filter (fun so : out => is_relay (snd so)) os) <= 1)%nat.
Proof. exact relay_target. Qed.
Print Assumptions c15_relay_target.

(* ---- stale / unknown call ids ---------------------------------------------------------- *)
Theorem c15_stale_ignored : forall cfg st s e q p st' os,
  (current st = None \/ exists c, current st = Some c /\ c_seq c <> q) ->
  step cfg st (OEvent s e q p) = (st', os) ->
  st' = st /\ (os = [] \/ os = [(s, FCtrl 409 None)]).
Proof. exact stale_ignored. Qed.
Print Assumptions c15_stale_ignored.

(* ---- ends exactly once ---------------------------------------------------------------- *)
(* one step never replaces a call by another one: the slot is cleared or keeps the same call;
   a new call gets the next message id *)
Theorem c15_slot_step : forall cfg st o st' os, step cfg st o = (st', os) -> slot_step st st'.
Proof. exact slot_step_step. Qed.
Print Assumptions c15_slot_step.

Theorem c15_ending_clears_slot : forall cfg st o st' os q,
  step cfg st o = (st', os) -> ended st st' = Some q ->
  current st' = None /\ exists c, current st = Some c /\ c_seq c = q.
Proof. exact ending_clears. Qed.
Print Assumptions c15_ending_clears_slot.

(* ghost log: (invitation id, number of ending steps) per started call, over ALL histories *)
Theorem c15_ends_once : forall cfg a b ops,
  let st := fst (run_log cfg (init2 a b) ops []) in
  let log := snd (run_log cfg (init2 a b) ops []) in
  NoDup (map fst log) /\
  forall q n, In (q, n) log ->
    (n = 1%nat /\ forall c, current st = Some c -> c_seq c <> q) \/
    (n = 0%nat /\ exists c, current st = Some c /\ c_seq c = q).
Proof. intros cfg a b ops. exact (ends_once_from cfg (init2 a b) [] ops (log_inv_init a b)). Qed.
Print Assumptions c15_ends_once.

Theorem c15_run_log_is_run : forall cfg ops st log, fst (run_log cfg st ops log) = final cfg st ops.
Proof. exact run_log_final. Qed.
Print Assumptions c15_run_log_is_run.

(* the establishment timer is armed exactly while a call waits for acceptance *)
Theorem c15_timer_armed_iff_establishing : forall cfg a b ops, timer_inv (final cfg (init2 a b) ops).
Proof. intros cfg a b ops. exact (timer_inv_final cfg ops (init2 a b) (timer_inv_init a b)). Qed.
Print Assumptions c15_timer_armed_iff_establishing.

(* a party session that leaves, disconnects or unsubscribes ends the call *)
Theorem c15_party_leave_partial : forall cfg st c x o st' os,
  live cfg st x -> step cfg st o = (st', os) ->
  current st = Some c -> is_party c x = true -> mem x (attached st) = true ->
  o = OLeave x \/ o = ODisc x \/ o = OUnsub x ->
  current st' = None.
Proof. exact party_leave. Qed.
Print Assumptions c15_party_leave_partial.

(* refuted: "whenever a party's session is detached from the topic the call ends" *)
Definition c15_party_leave_statement : Prop :=
  forall cfg a b ops o st' os c x,
    let st := final cfg (init2 a b) ops in
    step cfg st o = (st', os) -> current st = Some c -> is_party c x = true ->
    mem x (attached st) = true -> mem x (attached st') = false -> current st' = None.

Definition cfg_w3 : config := mkCfg true [(1, 1); (2, 1)]%N.
Definition w3_ops : list op := [OAttach 1; OAttach 2; OInvite 1 101 0].
Definition w3_res := step cfg_w3 (final cfg_w3 (init2 1%N 2%N) w3_ops) (OUnsub 2).
Example w3_step : step cfg_w3 (final cfg_w3 (init2 1%N 2%N) w3_ops) (OUnsub 2) = (fst w3_res, snd w3_res).
Proof. vm_compute. reflexivity. Qed.
Theorem c15_party_leave_refuted : ~ c15_party_leave_statement.
Proof.
  intros H0.
  pose proof (H0 cfg_w3 1%N 2%N w3_ops (OUnsub 2) (fst w3_res) (snd w3_res) (mkCall 1%N 1%N None 1 101%N) 1%N) as H. cbv zeta in H.
  specialize (H w3_step).
  assert (X : current (fst w3_res) <> None) by (vm_compute; discriminate).
  apply X. apply H; vm_compute; reflexivity.
Qed.
Print Assumptions c15_party_leave_refuted.

(* ---- replacements --------------------------------------------------------------------- *)
(* acceptance: only by an accept event naming the call, from a session that is neither the
   originating session nor of the originator's user; it stores (accept_state) the message
   (lastID+1, from = originator, head.replace = ":"seq, head.webrtc = accepted, the invitation's
   content), records the callee session and stops the timer *)
Theorem c15_acceptance_published : forall cfg st o st' os c c',
  step cfg st o = (st', os) -> current st = Some c -> accepted c = false -> current st' = Some c' -> accepted c' = true ->
  exists s p, o = OEvent s EvAccept (c_seq c) p /\ s <> c_osid c /\ user_of cfg s <> c_ouid c /\
    writer st (c_ouid c) = true /\ st' = accept_state cfg st c s.
Proof. exact acceptance_published. Qed.
Print Assumptions c15_acceptance_published.

Example c15_accept_state_store : forall cfg st c s,
  store (accept_state cfg st c s) =
    mkMsg (lastid st + 1) (c_ouid c) (Some (c_seq c)) (Some WAccepted)
      (if N.eqb (user_of cfg s) (c_ouid c) then 0%N else user_of cfg s) (c_content c) :: store st /\
  lastid (accept_state cfg st c s) = lastid st + 1.
Proof. intros. split; reflexivity. Qed.

(* full statement: every ending publishes the replacement *)
Definition c15_replacements_statement : Prop :=
  forall cfg a b ops o st' os c,
    let st := final cfg (init2 a b) ops in
    step cfg st o = (st', os) -> current st = Some c -> current st' = None ->
    exists w sender, In w ending_states /\
      store st' = mkMsg (lastid st + 1) (c_ouid c) (Some (c_seq c)) (Some w) sender (c_content c) :: store st /\
      lastid st' = lastid st + 1.

Definition cfg_w1 : config := mkCfg true [(1, 1); (3, 2)]%N.
Definition w1_ops : list op := [OAttach 1; OInvite 1 101 0; OSetW 1 0 false].
Definition w1_res := step cfg_w1 (final cfg_w1 (init2 1%N 2%N) w1_ops) (OEvent 3 EvHangup 1 1).
Example w1_step : step cfg_w1 (final cfg_w1 (init2 1%N 2%N) w1_ops) (OEvent 3 EvHangup 1 1) = (fst w1_res, snd w1_res).
Proof. vm_compute. reflexivity. Qed.
Theorem c15_replacements_refuted : ~ c15_replacements_statement.
Proof.
  intros H0.
  pose proof (H0 cfg_w1 1%N 2%N w1_ops (OEvent 3 EvHangup 1 1) (fst w1_res) (snd w1_res) (mkCall 1%N 1%N None 1 101%N)) as H.
  cbv zeta in H.
  destruct (H w1_step) as [w [sd [_ [_ E]]]]; try (vm_compute; reflexivity).
  assert (F : lastid (fst w1_res) <> lastid (final cfg_w1 (init2 1%N 2%N) w1_ops) + 1) by (vm_compute; discriminate).
  exact (F E).
Qed.
Print Assumptions c15_replacements_refuted.

Theorem c15_replacements_partial : forall cfg st o st' os c,
  step cfg st o = (st', os) -> current st = Some c -> current st' = None -> writer st (c_ouid c) = true ->
  exists w sender, In w ending_states /\
    store st' = mkMsg (lastid st + 1) (c_ouid c) (Some (c_seq c)) (Some w) sender (c_content c) :: store st /\
    lastid st' = lastid st + 1.
Proof. exact ending_published. Qed.
Print Assumptions c15_replacements_partial.

(* what the trigger does: the slot is cleared, nothing is stored *)
Theorem c15_ending_lost_without_W : forall cfg st o st' os c,
  step cfg st o = (st', os) -> current st = Some c -> current st' = None -> writer st (c_ouid c) = false ->
  store st' = store st /\ lastid st' = lastid st.
Proof. exact ending_unpublished. Qed.
Print Assumptions c15_ending_lost_without_W.

(* ---- a new call can be started afterwards ---------------------------------------------- *)
Theorem c15_new_call_after_end : forall cfg st o st' os c s content w,
  step cfg st o = (st', os) -> current st = Some c -> current st' = None ->
  configured cfg = true -> live cfg st' s -> mem s (attached st') = true -> writer st' (user_of cfg s) = true ->
  exists os', step cfg st' (OInvite s content w) = (invite_state cfg st' s content w, os') /\
    In (s, FCtrl 202 (Some (lastid st' + 1))) os'.
Proof. exact new_call_after_end. Qed.
Print Assumptions c15_new_call_after_end.

(* ---- the hypotheses are satisfiable: a complete call ------------------------------------ *)
Definition cfg_ex : config := mkCfg true [(1, 1); (2, 1); (3, 2); (4, 2); (5, 3)]%N.
Definition full_call : list op :=
  [OAttach 1; OAttach 3; OInvite 1 101 0; OInvite 3 102 0; OEvent 4 EvRinging 1 7; OEvent 5 EvAccept 1 7;
   OEvent 2 EvAccept 1 7; OEvent 3 EvAccept 1 8; OEvent 1 EvOffer 1 9; OEvent 3 EvAnswer 1 9; OEvent 4 EvHangup 1 9;
   OEvent 3 EvHangup 1 9; OInvite 3 103 0].
Example c15_full_call_log : snd (run_log cfg_ex (init2 1%N 2%N) full_call []) = [(1, 1%nat); (4, 0%nat)].
Proof. vm_compute. reflexivity. Qed.
Example c15_full_call_store :
  map (fun m => (m_seq m, m_from m, m_replace m, m_webrtc m)) (store (final cfg_ex (init2 1%N 2%N) full_call)) =
  [(4, 2%N, None, Some (WClient 0)); (3, 1%N, Some 1, Some WFinished); (2, 1%N, Some 1, Some WAccepted); (1, 1%N, None, Some (WClient 0))].
Proof. vm_compute. reflexivity. Qed.

(* ---- only in a peer-to-peer topic ------------------------------------------------------ *)
(* Sys/CallCat.v: Topic.handlePubBroadcast with the topic category (and the status bits) as
   parameters.  In EVERY category other than p2p, from EVERY topic state, whatever the session,
   the text of head.webrtc, head.replace (an invitation or a client-made "replacement") and the
   content: the state is returned unchanged - nothing stored, lastID not advanced, no
   Topic.currentCall, the timer not armed - and the only output is one error code to the sender
   (503 paused/deleted, 403 read-only, 501 calling not configured, otherwise 403); never 202. *)
Theorem c15_call_only_in_p2p : forall cfg c inactive readonly st s w repl content,
  c <> CatP2P ->
  pub_broadcast cfg c inactive readonly st s (Some w) repl content =
    (st, [(s, FCtrl (non_p2p_code cfg inactive readonly) None)]) /\
  In (non_p2p_code cfg inactive readonly) [503; 403; 501].
Proof.
  intros cfg c ina ro st s w repl content Hc. split;
    [exact (pub_non_p2p_call_refused cfg c ina ro st s w repl content (cat_not_p2p c Hc))|exact (non_p2p_code_values cfg ina ro)].
Qed.
Print Assumptions c15_call_only_in_p2p.

(* conversely: whenever handlePubBroadcast creates a call, the topic is p2p, calling is configured,
   the topic is neither paused nor read-only and the request carries head.webrtc *)
Theorem c15_call_created_only_in_p2p : forall cfg c inactive readonly st s w repl content st' os,
  pub_broadcast cfg c inactive readonly st s w repl content = (st', os) ->
  current st = None -> current st' <> None ->
  is_p2p c = true /\ configured cfg = true /\ inactive = false /\ readonly = false /\ w <> None.
Proof. exact pub_call_created_only_p2p. Qed.
Print Assumptions c15_call_created_only_in_p2p.

(* for the p2p category the function with the category parameter IS the gate of Call.step, so
   c15_gate above is a theorem about the same code; likewise the {note what=call} path *)
Theorem c15_p2p_instance_is_the_gate : forall cfg st s content w,
  mem s (attached st) = true ->
  step_raw cfg st (OInvite s content w) = pub_broadcast cfg CatP2P false false st s (Some w) None content /\
  step_raw cfg st (OPub s content) = pub_broadcast cfg CatP2P false false st s None None content.
Proof. intros cfg st s content w Ha. split; [exact (pub_p2p_is_invite cfg st s content w Ha)|exact (pub_p2p_is_pub cfg st s content Ha)]. Qed.
Print Assumptions c15_p2p_instance_is_the_gate.

Theorem c15_p2p_instance_is_the_event_path : forall cfg st s e q p,
  step_raw cfg st (OEvent s e q p) =
    match session_note_call true q (mem s (attached st)) e with
    | NDrop => (st, [])
    | NAttachFirst => (st, [(s, FCtrl 409 None)])
    | NTopic => note_broadcast_call cfg false st s e q p
    | NHub => if loaded st then note_broadcast_call cfg false st s e q p else (st, [])
    end.
Proof. exact note_p2p_is_event. Qed.
Print Assumptions c15_p2p_instance_is_the_event_path.

(* an ordinary publication (no head.webrtc), in any category: the call state is not touched and
   what is stored / fanned out carries no head.webrtc *)
Theorem c15_plain_pub_keeps_call_state : forall cfg c inactive readonly st s repl content st' os,
  pub_broadcast cfg c inactive readonly st s None repl content = (st', os) ->
  current st' = current st /\ timer st' = timer st /\ attached st' = attached st /\ users st' = users st /\
  loaded st' = loaded st /\
  (store st' = store st \/ exists m, plain m /\ store st' = m :: store st) /\
  (forall x f, In (x, f) os -> (exists code q, f = FCtrl code q /\ x = s) \/ exists m t, f = FData m t /\ plain m).
Proof. exact pub_plain_effect. Qed.
Print Assumptions c15_plain_pub_keeps_call_state.

(* call {note}s: Session.note drops what=call unless the expanded name is a p2p name; and the
   topic handler itself (handleNoteBroadcast -> handleCallEvent, which has no category test)
   does nothing in a topic without a call - which is every topic that is not p2p (below) *)
Theorem c15_call_note_outside_p2p_dropped : forall q attached_here e, session_note_call false q attached_here e = NDrop.
Proof. exact session_note_non_p2p. Qed.
Print Assumptions c15_call_note_outside_p2p_dropped.

Theorem c15_call_note_without_call_ignored : forall cfg inactive st s e q p,
  current st = None -> note_broadcast_call cfg inactive st s e q p = (st, []).
Proof. exact note_no_call. Qed.
Print Assumptions c15_call_note_without_call_ignored.

(* the world of Sys/CallCat.v: the p2p topic of Sys/Call.v and any number of other topics (group
   topic / channel, 'me', 'fnd', 'sys' - 'sys' takes publications from unattached sessions).
   Over ALL histories of requests to all of them, from every world whose non-p2p topics start
   without a call (init_other): no topic other than a p2p topic ever has a current call, an armed
   establishment timer or a stored message with head.webrtc *)
Theorem c15_no_call_outside_p2p : forall cfg w xs, others_clean w -> others_clean (wfinal cfg w xs).
Proof. intros cfg w xs. exact (wrun_clean cfg xs w). Qed.
Print Assumptions c15_no_call_outside_p2p.

Theorem c15_init_world_clean : forall a b l,
  (forall k t, In (k, t) l -> exists c owner ws atts ld, t = init_other c owner ws atts ld) -> others_clean (init_world a b l).
Proof.
  intros a b l H k t Hin _. destruct (H k t Hin) as [c [owner [ws [atts [ld E]]]]]. subst t. apply init_other_clean.
Qed.
Print Assumptions c15_init_world_clean.

(* one request addressed to a topic that is not p2p, from any world: the p2p topic (and its call)
   is not touched; every output is a {ctrl} to the sender or a {data} without head.webrtc - no
   {info}; with head.webrtc the world does not change at all and the sender gets at most one error
   code (409 not attached, 503, 403, 501); a call {note} changes nothing and is not answered *)
Theorem c15_invitation_outside_p2p_no_trace : forall cfg w s k content wt repl w' os t,
  lookup k (w_others w) = Some t -> is_p2p (o_cat t) = false ->
  wstep cfg w (XPub s k content wt repl) = (w', os) ->
  w_p2p w' = w_p2p w /\
  Forall (other_out_ok s) os /\
  (wt <> None -> w' = w) /\
  (wt <> None -> os = [] \/ exists code, os = [(s, FCtrl code None)] /\ In code [409; 503; 403; 501]).
Proof. exact xpub_other. Qed.
Print Assumptions c15_invitation_outside_p2p_no_trace.

Theorem c15_call_note_outside_p2p_ignored : forall cfg w s k e q p t,
  lookup k (w_others w) = Some t -> is_p2p (o_cat t) = false ->
  wstep cfg w (XNote s k e q p) = (w, []).
Proof. exact xnote_other. Qed.
Print Assumptions c15_call_note_outside_p2p_ignored.

(* requests to the p2p topic are exactly Call.step (so every theorem above about [step] holds in
   the world), requests to other topics leave the p2p topic alone *)
Theorem c15_world_p2p_is_step : forall cfg w o,
  w_p2p (fst (wstep cfg w (XOld o))) = fst (step cfg (w_p2p w) o) /\ snd (wstep cfg w (XOld o)) = snd (step cfg (w_p2p w) o).
Proof. exact wstep_old. Qed.
Print Assumptions c15_world_p2p_is_step.

Theorem c15_other_topics_keep_p2p : forall cfg w x, (forall o, x <> XOld o) -> w_p2p (fst (wstep cfg w x)) = w_p2p w.
Proof. exact wstep_x_keeps_p2p. Qed.
Print Assumptions c15_other_topics_keep_p2p.

(* the hypotheses are satisfiable: a group topic (1: users 1 and 2 write, session 1 and 3 attached,
   session 5 of user 3 reads it as a channel) and 'sys' (2: root session 8 attached) *)
Definition cfg_x : config := mkCfg true [(1, 1); (3, 2); (5, 3); (8, 3)]%N.
Definition world_x : world :=
  init_world 1%N 2%N [(1%N, init_other CatGrp 1%N [(1%N, true); (2%N, true)] [1; 3; 5]%N true); (2%N, init_other CatSys 0%N [] [8%N] true)].
Definition hist_x : list xop :=
  [XOld (OAttach 1); XOld (OAttach 3); XPub 1 1 7 None None; XPub 1 1 8 (Some 0%N) None; XPub 5 2 9 (Some 0%N) None;
   XPub 5 2 10 (Some 2%N) (Some 1); XNote 3 1 EvAccept 1 4; XOld (OInvite 1 101 0); XPub 3 1 11 (Some 0%N) None; XPub 5 2 12 None None].
Definition ctrl_codes (os : list out) : list (N * Z) :=
  flat_map (fun so => match snd so with FCtrl code _ => [(fst so, code)] | _ => [] end) os.
Definition call_frames (os : list out) : list out :=
  filter (fun so => match snd so with FData m _ => match m_webrtc m with Some _ => true | None => false end
                                    | FInfo _ _ _ _ _ | FInfoMe _ _ _ _ _ => true | _ => false end) os.
Example c15_world_example :
  map ctrl_codes (snd (wrun cfg_x world_x hist_x)) =
    [[(1%N, 200)]; [(3%N, 200)]; [(1%N, 202)]; [(1%N, 403)]; [(5%N, 403)]; [(5%N, 403)]; []; [(1%N, 202)]; [(3%N, 403)]; [(5%N, 202)]] /\
  map (fun os => length (call_frames os)) (snd (wrun cfg_x world_x hist_x)) = [0; 0; 0; 0; 0; 0; 0; 2; 0; 0]%nat /\
  map (fun kt => (fst kt, current (o_st (snd kt)), timer (o_st (snd kt)), lastid (o_st (snd kt))))
      (w_others (wfinal cfg_x world_x hist_x)) = [(1%N, None, false, 1); (2%N, None, false, 1)] /\
  option_map c_seq (current (w_p2p (wfinal cfg_x world_x hist_x))) = Some 1.
Proof. vm_compute. repeat split; reflexivity. Qed.
