(* C15 placeholder; theorems follow *)
From Coq Require Import ZArith NArith List Bool.
From Tinode Require Import Sys.Call.
