(* C04, layer 1: the pure range algebra of deletion.
   "A delete request listing ID ranges hides exactly the union of those ranges
    - each range [low, hi) clipped to existing IDs, a range with no upper bound
    or with hi equal to low meaning the single ID low - ... and never any ID
    outside that union, whatever the order, overlap or adjacency of the listed
    ranges" and "the deletion log later reported to a user covers exactly the
    IDs deleted for that user".
   Theorems only; each is closed by [exact] of a lemma of Pure/RangesProofs.v.
   All statements are for lists of ANY length and IDs of any size.
   [normalize] is the array program of RangeSorter.Normalize AFTER the repair
   of findings/C04_normalize.diff; [normalize_unrepaired] is the program of
   /repo as it is and is refuted below. *)
From Coq Require Import ZArith List Bool Permutation Sorted.
From Tinode Require Import Pure.Ranges Pure.RangesProofs.
Import ListNotations.
Open Scope Z_scope.

(* ---- sort.Sort(RangeSorter) ---- *)

Theorem c04_sort_sorted_permutation : forall rs,
  Permutation (sort rs) rs /\ sorted_less (sort rs).
Proof. intros rs. split; [exact (sort_perm rs)|exact (sort_sorted rs)]. Qed.
Print Assumptions c04_sort_sorted_permutation.

(* Less is a total order on values: ANY permutation ordered by Less is the one
   the model computes, so instability of sort.Sort cannot matter *)
Theorem c04_sorted_permutation_unique : forall rs s,
  Permutation s rs -> sorted_less s -> s = sort rs.
Proof. exact sort_unique. Qed.
Print Assumptions c04_sorted_permutation_unique.

(* ---- Normalize (repaired) ---- *)

(* the in-place array loop (index prev, result rs[:prev+1] of the mutated
   slice) computes the plain recursive merge *)
Theorem c04_normalize_program : forall rs, normalize rs = normalize_fun rs.
Proof. exact normalize_fun_eq. Qed.
Print Assumptions c04_normalize_program.

(* exactly the union: no ID lost, no ID added; for any sorted permutation *)
Theorem c04_normalize_exact_any : forall rs s x,
  Forall nonneg rs -> Permutation s rs -> sorted_less s ->
  in_ranges x (normalize s) = in_ranges x rs.
Proof. exact normalize_exact_any. Qed.
Print Assumptions c04_normalize_exact_any.

Theorem c04_normalize_exact : forall rs x,
  Forall nonneg rs -> in_ranges x (normalize (sort rs)) = in_ranges x rs.
Proof. exact normalize_exact. Qed.
Print Assumptions c04_normalize_exact.

(* the result is a list of non-empty ranges, each ending at least one ID
   before the next begins *)
Theorem c04_normalize_normal_any : forall rs s,
  Forall wf rs -> Permutation s rs -> sorted_less s -> normal (normalize s).
Proof. exact normalize_normal_any. Qed.
Print Assumptions c04_normalize_normal_any.

Theorem c04_normal_disjoint : forall l1 a l2 b l3 x,
  normal (l1 ++ a :: l2 ++ b :: l3) ->
  upper a < low b /\ (in_range x a = true -> in_range x b = true -> False)
  /\ in_range (upper a) a = false /\ in_range (upper a) b = false.
Proof. exact normal_disjoint. Qed.
Print Assumptions c04_normal_disjoint.

Theorem c04_normal_sorted : forall l, normal l -> sorted_less l.
Proof. exact normal_sorted_less. Qed.
Print Assumptions c04_normal_sorted.

Theorem c04_normal_nonempty : forall l r, normal l -> In r l -> in_range (low r) r = true.
Proof. exact normal_nonempty. Qed.
Print Assumptions c04_normal_nonempty.

Theorem c04_normalize_length : forall s, (length (normalize s) <= length s)%nat.
Proof. exact normalize_length. Qed.
Print Assumptions c04_normalize_length.

(* normalising again changes nothing *)
Theorem c04_normalize_fixpoint : forall l, normal l -> normalize l = l.
Proof. exact normalize_normal_id. Qed.
Print Assumptions c04_normalize_fixpoint.

Theorem c04_normalize_idempotent : forall rs,
  Forall wf rs -> normalize (sort (normalize (sort rs))) = normalize (sort rs).
Proof. exact normalize_idempotent. Qed.
Print Assumptions c04_normalize_idempotent.

(* ---- Normalize as it is in /repo: refuted ---- *)

Theorem c04_normalize_unrepaired_refuted : ~ normalize_exact_statement normalize_unrepaired.
Proof. exact normalize_unrepaired_refuted. Qed.
Print Assumptions c04_normalize_unrepaired_refuted.

Theorem c04_normalize_repaired_statement : normalize_exact_statement normalize.
Proof.
  intros rs x Hw. apply normalize_exact. eapply Forall_impl; [|exact Hw]. exact wf_nonneg.
Qed.
Print Assumptions c04_normalize_repaired_statement.

Theorem c04_normalize_unrepaired_witnesses :
  normalize_unrepaired [mkRange 1 3; mkRange 2 4; mkRange 10 12] = [mkRange 1 4; mkRange 2 4]
  /\ normalize_unrepaired [mkRange 1 3; mkRange 4 5] = [mkRange 1 5]
  /\ normalize_unrepaired [mkRange 1 3; mkRange 3 0] = [mkRange 1 3]
  /\ normalize_unrepaired [mkRange 1 0; mkRange 1 0; mkRange 5 0] = [mkRange 1 0; mkRange 1 0].
Proof. exact normalize_unrepaired_witnesses. Qed.
Print Assumptions c04_normalize_unrepaired_witnesses.

(* ---- replyDelMsg: what reaches store.Messages.DeleteList ---- *)

Theorem c04_del_ranges_exact : forall lastID req out,
  del_ranges lastID req = Some out ->
  forall x, in_ranges x out = true <-> exists q, In q req /\ req_covers lastID q x.
Proof. exact del_ranges_exact. Qed.
Print Assumptions c04_del_ranges_exact.

Theorem c04_del_ranges_within : forall lastID req out x,
  del_ranges lastID req = Some out -> in_ranges x out = true ->
  0 <= x <= lastID /\ (x = 0 -> exists h, In (0, h) req).
Proof. exact del_ranges_within. Qed.
Print Assumptions c04_del_ranges_within.

Theorem c04_del_ranges_normal : forall lastID req out,
  del_ranges lastID req = Some out -> normal out.
Proof. exact del_ranges_normal. Qed.
Print Assumptions c04_del_ranges_normal.

Theorem c04_del_ranges_accepts : forall lastID req,
  req <> [] -> Forall (req_valid lastID) req ->
  (forall rs, clip_all lastID req = Some rs -> count_all rs <= max_delete_count) ->
  exists out, del_ranges lastID req = Some out.
Proof. exact del_ranges_accepts. Qed.
Print Assumptions c04_del_ranges_accepts.

Theorem c04_del_ranges_rejects_invalid : forall lastID req q,
  In q req -> ~ req_valid lastID q -> del_ranges lastID req = None.
Proof. exact del_ranges_rejects_invalid. Qed.
Print Assumptions c04_del_ranges_rejects_invalid.

Theorem c04_del_ranges_unrepaired_refuted : ~ del_ranges_exact_statement del_ranges_unrepaired.
Proof. exact del_ranges_unrepaired_refuted. Qed.
Print Assumptions c04_del_ranges_unrepaired_refuted.

(* the one-entry requests of the existing tests cannot tell the two apart *)
Theorem c04_del_ranges_unrepaired_single : forall lastID q,
  del_ranges_unrepaired lastID [q] = del_ranges lastID [q].
Proof. exact del_ranges_unrepaired_single. Qed.
Print Assumptions c04_del_ranges_unrepaired_single.

(* ---- the deletion log ---- *)

Theorem c04_dellog_roundtrip : forall r,
  wf r -> wf (dellog_load (dellog_store r))
          /\ forall x, in_range x (dellog_load (dellog_store r)) = in_range x r.
Proof. exact dellog_roundtrip. Qed.
Print Assumptions c04_dellog_roundtrip.

Theorem c04_report_deleted_exact : forall logs x,
  Forall (Forall nonneg) logs ->
  in_ranges x (report_deleted logs) = existsb (in_ranges x) logs.
Proof. exact report_deleted_exact. Qed.
Print Assumptions c04_report_deleted_exact.

Theorem c04_report_deleted_normal : forall logs,
  Forall (Forall wf) logs -> normal (report_deleted logs).
Proof. exact report_deleted_normal. Qed.
Print Assumptions c04_report_deleted_normal.

(* the log reported for the transactions [reqs] accepted for a user covers
   exactly the IDs those requests denote: no more and no fewer *)
Theorem c04_deletion_log_of_requests : forall (reqs : list (Z * list (Z * Z))) outs x,
  Forall2 (fun rq out => del_ranges (fst rq) (snd rq) = Some out) reqs outs ->
  in_ranges x (report_deleted (stored_log outs)) = true <->
  exists rq q, In rq reqs /\ In q (snd rq) /\ req_covers (fst rq) q x.
Proof. exact deletion_log_of_requests. Qed.
Print Assumptions c04_deletion_log_of_requests.

(* ---- the hypotheses are satisfiable / needed ---- *)

Example c04_ex_request :
  del_ranges 12 [(10, 99); (2, 4); (1, 3); (4, 4); (6, 0); (7, 8)]
  = Some [mkRange 1 5; mkRange 6 8; mkRange 10 13].
Proof. vm_compute. reflexivity. Qed.

Example c04_ex_rejected :
  del_ranges 12 [] = None /\ del_ranges 12 [(13, 0)] = None /\ del_ranges 12 [(0, 0)] = None
  /\ del_ranges 12 [(5, 3)] = None /\ del_ranges 12 [(1, 2); (-1, 0)] = None.
Proof. repeat split; vm_compute; reflexivity. Qed.

Example c04_ex_count_limit :
  del_ranges 3000 [(1, 1500)] = Some [mkRange 1 1500]
  /\ del_ranges 3000 [(1, 600); (700, 1300)] = None
  /\ del_ranges 3000 [(1, 600); (500, 1300)] = Some [mkRange 1 1300].
Proof. repeat split; vm_compute; reflexivity. Qed.

Example c04_ex_nonneg_needed :
  in_ranges (-2) (normalize (sort [mkRange (-3) (-1); mkRange (-1) 0])) = false
  /\ in_ranges (-2) [mkRange (-3) (-1); mkRange (-1) 0] = true.
Proof. exact normalize_exact_needs_nonneg. Qed.

Example c04_ex_log :
  report_deleted (stored_log [[mkRange 1 5; mkRange 6 8]; [mkRange 5 0]; [mkRange 3 9]])
  = [mkRange 1 9].
Proof. vm_compute. reflexivity. Qed.

(* ====================================================================== *)
(* C04, layer 2: history retrieval, permissions, delete transactions, the
   deletion log - over the product model Sys/Topic.v instantiated with the
   range algebra above (Sys/TopicInst.v), for EVERY history.

   Specification (Sys/TopicHist.v): [hspec] = live messages id -> (author,
   content), per-user soft-hidden ids, hard-deleted ids, delete counter;
   user u sees id x iff it is live and not soft-hidden for u ([hs_visible]);
   the ids deleted for u are his soft-hidden ones and the hard-deleted ones
   ([hs_deleted_for]).  Transitions [hs_step]: accepted publish; accepted
   delete, soft = for the requester only / hard = for everyone with the row
   erased, of exactly the ids the request denotes clipped to ids <= lastID
   ([req_ids]); deletion of a subscription forgets that user's own soft
   deletions (the store removes his log rows).  [abs s] reads a specification
   state off the stored message rows and deletion-log rows; [event_of] reads
   the transition off a request, its reply and - for a deletion - the
   requester's effective mode and lastID before it.
   [reach sm s0 h] is the state after history h from the new topic s0.       *)
From Tinode Require Import Pure.Acs Sys.Topic Sys.TopicTac Sys.TopicInst Sys.TopicHist Sys.TopicHistProofs
  Sys.TopicHistInst Sys.TopicHistThm.

(* ---- refinement ---- *)

(* After ANY history (any users, sessions, permission changes, publishes, deletions of any
   range lists, unsubscribe/resubscribe, unload, restart, failing or crashing store calls
   outside the 2nd/3rd store call of a delete request) what the stored rows show IS what the
   specification computes from the accepted requests: nothing else hides or shows a message. *)
Theorem c04_history_refines : forall sm s0 h, hist_init s0 -> hist_ok sm h ->
  heq (abs (st (reach sm s0 h))) (hs_run del_ranges_i norm_ranges_i sm (mkState s0 None 0) h (abs s0)).
Proof. exact history_refines. Qed.
Print Assumptions c04_history_refines.

(* one request = one specification transition, in every state satisfying the invariant *)
Theorem c04_request_refines : forall sm f x o, inv_hist x -> op_ok sm o -> fault_ok f o ->
  heq (abs (st (fst (step_i sm f x o)))) (hs_step (abs (st x)) (event_of sm x o (snd (step_i sm f x o))))
  /\ inv_del (fst (step_i sm f x o)).
Proof. intros sm. exact (step_sim del_ranges_i norm_ranges_i sm dr_exact_i). Qed.
Print Assumptions c04_request_refines.

(* the hypothesis on faults cannot be dropped: a store failure after the first store call of
   a hard delete answers 500 but leaves the message rows erased and the log rows written *)
Theorem c04_refines_any_fault_refuted : ~ refines_any_fault_statement.
Proof. exact refines_any_fault_refuted. Qed.
Print Assumptions c04_refines_any_fault_refuted.

(* what the specification transitions mean for a reader *)
Theorem c04_soft_hides_for_requester_only : forall a u v ids x,
  hs_visible (hs_step a (HDel u false ids)) u x = (if ids x then None else hs_visible a u x) /\
  (v <> u -> hs_visible (hs_step a (HDel u false ids)) v x = hs_visible a v x).
Proof. intros a u v ids x. split; [apply spec_soft_self|apply spec_soft_other]. Qed.
Print Assumptions c04_soft_hides_for_requester_only.

Theorem c04_hard_hides_for_everyone : forall a u v ids x,
  hs_visible (hs_step a (HDel u true ids)) v x = if ids x then None else hs_visible a v x.
Proof. exact spec_hard_all. Qed.
Print Assumptions c04_hard_hides_for_everyone.

Theorem c04_deleted_for_after_delete : forall a u v hard ids x, v <> 0%N ->
  hs_deleted_for (hs_step a (HDel u hard ids)) v x = ((hard || N.eqb v u) && ids x) || hs_deleted_for a v x.
Proof. exact spec_deleted_for. Qed.
Print Assumptions c04_deleted_for_after_delete.

(* ---- {get data} ---- *)

(* After ANY history (any faults and crashes), the answer to {get data since before limit}
   from an attached session of a user with R is: the data frames, then the closing {ctrl}
   (204 if none, else 208 with their count); the frames are strictly newest-first, at most
   min(limit, 100) (100 when limit is 0 or larger); every frame is a message inside
   [since, before) that the specification shows to THAT user, with its author and content;
   every such message is in the answer unless the answer is full and it is older than all of it. *)
Theorem c04_get_data_exact : forall sm s0 h c sid since before limit,
  hist_init s0 -> ca (reach sm s0 h) = Some c -> attached c sid = true ->
  is_reader (user_mode c (sess_uid sm sid)) = true ->
  let s := st (reach sm s0 h) in
  let u := sess_uid sm sid in
  let o := snd (step_i sm NoFault (reach sm s0 h) (OGetData sid since before limit)) in
  let fr := data_of o in
  let lim := Z.to_nat (eff_limit max_msg_results limit) in
  o = map (fun e => (sid, Data (fst (fst e)) (snd (fst e)) (snd e))) fr ++ [(sid, data_closing (length fr))] /\
  (length fr <= lim)%nat /\
  StronglySorted data_gt fr /\
  (forall x a ct, In (x, a, ct) fr -> in_window since before x = true /\ hs_visible (abs s) u x = Some (a, ct)) /\
  (forall x a ct, in_window since before x = true -> hs_visible (abs s) u x = Some (a, ct) ->
     In (x, a, ct) fr \/ (length fr = lim /\ forall e, In e fr -> x < fst (fst e))).
Proof. exact get_data_history. Qed.
Print Assumptions c04_get_data_exact.

Theorem c04_get_data_limit : forall limit,
  0 < eff_limit max_msg_results limit <= max_msg_results /\ (0 < limit -> eff_limit max_msg_results limit <= limit).
Proof. exact limit_bound. Qed.
Print Assumptions c04_get_data_limit.

(* a user without R gets none; a session that is not attached is refused *)
Theorem c04_get_data_needs_read : forall sm f s c n0 sid since before limit, attached c sid = true ->
  is_reader (user_mode c (sess_uid sm sid)) = false ->
  snd (step_i sm f (mkState s (Some c) n0) (OGetData sid since before limit)) = [(sid, Ctrl 204 [(P_what, 1)])].
Proof. exact get_data_needs_read. Qed.
Print Assumptions c04_get_data_needs_read.

Theorem c04_get_data_needs_attach : forall sm f s cx n0 sid since before limit,
  match cx with Some c => attached c sid = false | None => True end ->
  step_i sm f (mkState s cx n0) (OGetData sid since before limit) = (mkState s cx 0, [(sid, Ctrl 403 [])]).
Proof. exact get_data_needs_attach. Qed.
Print Assumptions c04_get_data_needs_attach.

(* ---- {del msg} ---- *)

(* The four outcomes of a delete request (store calls 2 and 3 not failing): refused 403 iff the
   requester's effective mode has neither D nor R; 400 iff the range list is refused (layer 1:
   c04_del_ranges_accepts / _rejects_invalid); 500 on a failing first store call; else accepted:
   reply 200 with del = delID+1, hard only if asked AND D is in the effective mode (otherwise
   silently soft), written for everyone (user 0) when hard and for the requester when soft. *)
Theorem c04_delete_request : forall f s c sid u req hard0,
  fails f 1 = true \/ (fails f 2 = false /\ fails f 3 = false) ->
  let h := del_msg del_ranges_i f s c 0 sid u req hard0 in
  del_denied s c sid u h \/ del_malformed del_ranges_i s c sid u req h \/ del_store_failed del_ranges_i s c sid u req h \/
  del_accepted del_ranges_i s c sid u req hard0 h.
Proof. exact (del_msg_cases del_ranges_i). Qed.
Print Assumptions c04_delete_request.

(* the ranges handed to the store cover exactly the ids the request denotes *)
Theorem c04_delete_ids_exact : forall last req out, del_ranges_i last req = Some out ->
  forall x, covers out x = req_ids last req x.
Proof. exact dr_exact_i. Qed.
Print Assumptions c04_delete_ids_exact.

(* message rows: a soft delete (asked for, or degraded for lack of D) touches none; a hard one
   stamps exactly the live rows the request denotes with the transaction number and erases
   their content; the stored delete counter becomes delID+1 *)
Theorem c04_delete_rows : forall s c sid u req hard0 h, u <> 0%N ->
  del_accepted del_ranges_i s c sid u req hard0 h ->
  t_delid (h_st h) = c_delid c + 1 /\
  if hard0 && is_deleter (user_mode c u)
  then msgs (h_st h) = map (fun m => if (m_delid m =? 0) && req_ids (c_lastid c) req (m_seq m)
                                     then mkMsg (m_seq m) (m_from m) 0%N (c_delid c + 1) else m) (msgs s)
  else msgs (h_st h) = msgs s.
Proof. exact del_accepted_rows. Qed.
Print Assumptions c04_delete_rows.

(* delID of the loaded topic is the stored counter: an accepted request gets the NEXT number *)
Theorem c04_delid_next : forall sm s0 h c, hist_init s0 -> hist_ok sm h -> ca (reach sm s0 h) = Some c ->
  c_delid c = t_delid (st (reach sm s0 h)) /\ 0 <= t_delid (st (reach sm s0 h)).
Proof. exact delid_next. Qed.
Print Assumptions c04_delid_next.

(* "soft deletion requires read permission": REFUTED as stated - the code asks for R only
   when D is missing (a user with D but without R soft- or hard-deletes); it holds for every
   requester without D, under any faults *)
Theorem c04_soft_needs_read_refuted : ~ soft_needs_read_statement.
Proof. exact soft_needs_read_refuted. Qed.
Print Assumptions c04_soft_needs_read_refuted.

Theorem c04_soft_needs_read_partial : forall f s c sid u req hard d,
  is_deleter (user_mode c u) = false ->
  h_out (del_msg del_ranges_i f s c 0 sid u req hard) = [(sid, Ctrl 200 [(P_del, d)])] ->
  is_reader (user_mode c u) = true.
Proof. exact soft_needs_read_partial. Qed.
Print Assumptions c04_soft_needs_read_partial.

(* ---- {get del} ---- *)

(* After ANY history (any faults), for a reader, when the selected log rows fit the limit: no
   row selected -> 204; else one {meta del} whose ranges cover exactly the ids named by the
   log rows written for everyone or for THAT user with transaction number in [since, before),
   and whose delid is the largest selected transaction number. *)
Theorem c04_get_del_exact : forall sm s0 h c sid since before limit,
  hist_init s0 -> ca (reach sm s0 h) = Some c -> attached c sid = true ->
  is_reader (user_mode c (sess_uid sm sid)) = true ->
  let s := st (reach sm s0 h) in
  let u := sess_uid sm sid in
  let o := snd (step_i sm NoFault (reach sm s0 h) (OGetDel sid since before limit)) in
  (length (filter (del_sel u since before) (dellog s)) <= Z.to_nat (eff_limit max_results limit))%nat ->
  (o = [(sid, Ctrl 204 [(P_what, 3)])] /\ forall x, logged_sel s u since before x = false) \/
  (exists maxid rs, o = [(sid, MetaDel maxid rs)] /\
     (forall x, covers rs x = logged_sel s u since before x) /\
     (forall d, In d (dellog s) -> del_sel u since before d = true -> d_delid d <= maxid) /\
     (exists d, In d (dellog s) /\ del_sel u since before d = true /\ d_delid d = maxid)).
Proof. exact get_del_history. Qed.
Print Assumptions c04_get_del_exact.

(* an unrestricted query reports exactly the ids deleted for that user: no more, no fewer *)
Theorem c04_get_del_open : forall sm s0 h u since before x, hist_init s0 -> since <= 0 -> before <= 1 ->
  logged_sel (st (reach sm s0 h)) u since before x = hs_deleted_for (abs (st (reach sm s0 h))) u x.
Proof. exact logged_open. Qed.
Print Assumptions c04_get_del_open.

Theorem c04_get_del_needs_read : forall sm f s c n0 sid since before limit, attached c sid = true ->
  is_reader (user_mode c (sess_uid sm sid)) = false ->
  snd (step_i sm f (mkState s (Some c) n0) (OGetDel sid since before limit)) = [(sid, Ctrl 204 [(P_what, 3)])].
Proof. exact get_del_needs_read. Qed.
Print Assumptions c04_get_del_needs_read.

(* in every reachable state, whatever the faults: message numbers are unique and every log row
   is a non-empty range of non-negative ids with a non-negative transaction number *)
Theorem c04_rows_wellformed : forall sm s0 h, hist_init s0 ->
  NoDup (seqs (st (reach sm s0 h))) /\ dellog_wf (st (reach sm s0 h)).
Proof. intros sm s0 h HI. split; [apply reach_nodup|apply reach_wf]; exact HI. Qed.
Print Assumptions c04_rows_wellformed.

(* non-vacuity: two users, three messages; a hard request of a member without D is a soft one
   (only he stops seeing 1, 2); the owner's hard delete of 3, 2 erases them for both; the
   deletion log reported to each covers exactly what was deleted for him *)
Example c04_ex_history :
  let r := run_i [(1%N, 1%N); (2%N, 2%N)] (mkState ex_s0 None 0) ex_hist in
  map (fun o => map (fun e => fst (fst e)) (data_of o)) (skipn 5 (snd r)) =
    [[]; [3]; [3; 2; 1]; []; [1]; []; []] /\
  nth 5 (snd r) [] = [(2%N, Ctrl 200 [(P_del, 1)])] /\
  nth 8 (snd r) [] = [(1%N, Ctrl 200 [(P_del, 2)])] /\
  nth 10 (snd r) [] = [(2%N, MetaDel 2 [(1, 4)])] /\
  nth 11 (snd r) [] = [(1%N, MetaDel 2 [(2, 4)])] /\
  map m_delid (msgs (st (fst r))) = [0; 2; 2].
Proof. exact history_example. Qed.
