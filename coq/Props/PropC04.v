(* C04, layer 1: the pure range algebra of deletion.
   "A delete request listing ID ranges hides exactly the union of those ranges
    - each range [low, hi) clipped to existing IDs, a range with no upper bound
    or with hi equal to low meaning the single ID low - ... and never any ID
    outside that union, whatever the order, overlap or adjacency of the listed
    ranges" and "the deletion log later reported to a user covers exactly the
    IDs deleted for that user".
   Theorems only; each is closed by [exact] of a lemma of Pure/RangesProofs.v.
   All statements are for lists of ANY length and IDs of any size.
   [normalize] is the array program of RangeSorter.Normalize AFTER the repair
   of findings/C04_normalize.diff; [normalize_unrepaired] is the program of
   /repo as it is and is refuted below. *)
From Coq Require Import ZArith List Bool Permutation Sorted.
From Tinode Require Import Pure.Ranges Pure.RangesProofs.
Import ListNotations.
Open Scope Z_scope.

(* ---- sort.Sort(RangeSorter) ---- *)

Theorem c04_sort_sorted_permutation : forall rs,
  Permutation (sort rs) rs /\ sorted_less (sort rs).
Proof. intros rs. split; [exact (sort_perm rs)|exact (sort_sorted rs)]. Qed.
Print Assumptions c04_sort_sorted_permutation.

(* Less is a total order on values: ANY permutation ordered by Less is the one
   the model computes, so instability of sort.Sort cannot matter *)
Theorem c04_sorted_permutation_unique : forall rs s,
  Permutation s rs -> sorted_less s -> s = sort rs.
Proof. exact sort_unique. Qed.
Print Assumptions c04_sorted_permutation_unique.

(* ---- Normalize (repaired) ---- *)

(* the in-place array loop (index prev, result rs[:prev+1] of the mutated
   slice) computes the plain recursive merge *)
Theorem c04_normalize_program : forall rs, normalize rs = normalize_fun rs.
Proof. exact normalize_fun_eq. Qed.
Print Assumptions c04_normalize_program.

(* exactly the union: no ID lost, no ID added; for any sorted permutation *)
Theorem c04_normalize_exact_any : forall rs s x,
  Forall nonneg rs -> Permutation s rs -> sorted_less s ->
  in_ranges x (normalize s) = in_ranges x rs.
Proof. exact normalize_exact_any. Qed.
Print Assumptions c04_normalize_exact_any.

Theorem c04_normalize_exact : forall rs x,
  Forall nonneg rs -> in_ranges x (normalize (sort rs)) = in_ranges x rs.
Proof. exact normalize_exact. Qed.
Print Assumptions c04_normalize_exact.

(* the result is a list of non-empty ranges, each ending at least one ID
   before the next begins *)
Theorem c04_normalize_normal_any : forall rs s,
  Forall wf rs -> Permutation s rs -> sorted_less s -> normal (normalize s).
Proof. exact normalize_normal_any. Qed.
Print Assumptions c04_normalize_normal_any.

Theorem c04_normal_disjoint : forall l1 a l2 b l3 x,
  normal (l1 ++ a :: l2 ++ b :: l3) ->
  upper a < low b /\ (in_range x a = true -> in_range x b = true -> False)
  /\ in_range (upper a) a = false /\ in_range (upper a) b = false.
Proof. exact normal_disjoint. Qed.
Print Assumptions c04_normal_disjoint.

Theorem c04_normal_sorted : forall l, normal l -> sorted_less l.
Proof. exact normal_sorted_less. Qed.
Print Assumptions c04_normal_sorted.

Theorem c04_normal_nonempty : forall l r, normal l -> In r l -> in_range (low r) r = true.
Proof. exact normal_nonempty. Qed.
Print Assumptions c04_normal_nonempty.

Theorem c04_normalize_length : forall s, (length (normalize s) <= length s)%nat.
Proof. exact normalize_length. Qed.
Print Assumptions c04_normalize_length.

(* normalising again changes nothing *)
Theorem c04_normalize_fixpoint : forall l, normal l -> normalize l = l.
Proof. exact normalize_normal_id. Qed.
Print Assumptions c04_normalize_fixpoint.

Theorem c04_normalize_idempotent : forall rs,
  Forall wf rs -> normalize (sort (normalize (sort rs))) = normalize (sort rs).
Proof. exact normalize_idempotent. Qed.
Print Assumptions c04_normalize_idempotent.

(* ---- Normalize as it is in /repo: refuted ---- *)

Theorem c04_normalize_unrepaired_refuted : ~ normalize_exact_statement normalize_unrepaired.
Proof. exact normalize_unrepaired_refuted. Qed.
Print Assumptions c04_normalize_unrepaired_refuted.

Theorem c04_normalize_repaired_statement : normalize_exact_statement normalize.
Proof.
  intros rs x Hw. apply normalize_exact. eapply Forall_impl; [|exact Hw]. exact wf_nonneg.
Qed.
Print Assumptions c04_normalize_repaired_statement.

Theorem c04_normalize_unrepaired_witnesses :
  normalize_unrepaired [mkRange 1 3; mkRange 2 4; mkRange 10 12] = [mkRange 1 4; mkRange 2 4]
  /\ normalize_unrepaired [mkRange 1 3; mkRange 4 5] = [mkRange 1 5]
  /\ normalize_unrepaired [mkRange 1 3; mkRange 3 0] = [mkRange 1 3]
  /\ normalize_unrepaired [mkRange 1 0; mkRange 1 0; mkRange 5 0] = [mkRange 1 0; mkRange 1 0].
Proof. exact normalize_unrepaired_witnesses. Qed.
Print Assumptions c04_normalize_unrepaired_witnesses.

(* ---- replyDelMsg: what reaches store.Messages.DeleteList ---- *)

Theorem c04_del_ranges_exact : forall lastID req out,
  del_ranges lastID req = Some out ->
  forall x, in_ranges x out = true <-> exists q, In q req /\ req_covers lastID q x.
Proof. exact del_ranges_exact. Qed.
Print Assumptions c04_del_ranges_exact.

Theorem c04_del_ranges_within : forall lastID req out x,
  del_ranges lastID req = Some out -> in_ranges x out = true ->
  0 <= x <= lastID /\ (x = 0 -> exists h, In (0, h) req).
Proof. exact del_ranges_within. Qed.
Print Assumptions c04_del_ranges_within.

Theorem c04_del_ranges_normal : forall lastID req out,
  del_ranges lastID req = Some out -> normal out.
Proof. exact del_ranges_normal. Qed.
Print Assumptions c04_del_ranges_normal.

Theorem c04_del_ranges_accepts : forall lastID req,
  req <> [] -> Forall (req_valid lastID) req ->
  (forall rs, clip_all lastID req = Some rs -> count_all rs <= max_delete_count) ->
  exists out, del_ranges lastID req = Some out.
Proof. exact del_ranges_accepts. Qed.
Print Assumptions c04_del_ranges_accepts.

Theorem c04_del_ranges_rejects_invalid : forall lastID req q,
  In q req -> ~ req_valid lastID q -> del_ranges lastID req = None.
Proof. exact del_ranges_rejects_invalid. Qed.
Print Assumptions c04_del_ranges_rejects_invalid.

Theorem c04_del_ranges_unrepaired_refuted : ~ del_ranges_exact_statement del_ranges_unrepaired.
Proof. exact del_ranges_unrepaired_refuted. Qed.
Print Assumptions c04_del_ranges_unrepaired_refuted.

(* the one-entry requests of the existing tests cannot tell the two apart *)
Theorem c04_del_ranges_unrepaired_single : forall lastID q,
  del_ranges_unrepaired lastID [q] = del_ranges lastID [q].
Proof. exact del_ranges_unrepaired_single. Qed.
Print Assumptions c04_del_ranges_unrepaired_single.

(* ---- the deletion log ---- *)

Theorem c04_dellog_roundtrip : forall r,
  wf r -> wf (dellog_load (dellog_store r))
          /\ forall x, in_range x (dellog_load (dellog_store r)) = in_range x r.
Proof. exact dellog_roundtrip. Qed.
Print Assumptions c04_dellog_roundtrip.

Theorem c04_report_deleted_exact : forall logs x,
  Forall (Forall nonneg) logs ->
  in_ranges x (report_deleted logs) = existsb (in_ranges x) logs.
Proof. exact report_deleted_exact. Qed.
Print Assumptions c04_report_deleted_exact.

Theorem c04_report_deleted_normal : forall logs,
  Forall (Forall wf) logs -> normal (report_deleted logs).
Proof. exact report_deleted_normal. Qed.
Print Assumptions c04_report_deleted_normal.

(* the log reported for the transactions [reqs] accepted for a user covers
   exactly the IDs those requests denote: no more and no fewer *)
Theorem c04_deletion_log_of_requests : forall (reqs : list (Z * list (Z * Z))) outs x,
  Forall2 (fun rq out => del_ranges (fst rq) (snd rq) = Some out) reqs outs ->
  in_ranges x (report_deleted (stored_log outs)) = true <->
  exists rq q, In rq reqs /\ In q (snd rq) /\ req_covers (fst rq) q x.
Proof. exact deletion_log_of_requests. Qed.
Print Assumptions c04_deletion_log_of_requests.

(* ---- the hypotheses are satisfiable / needed ---- *)

Example c04_ex_request :
  del_ranges 12 [(10, 99); (2, 4); (1, 3); (4, 4); (6, 0); (7, 8)]
  = Some [mkRange 1 5; mkRange 6 8; mkRange 10 13].
Proof. vm_compute. reflexivity. Qed.

Example c04_ex_rejected :
  del_ranges 12 [] = None /\ del_ranges 12 [(13, 0)] = None /\ del_ranges 12 [(0, 0)] = None
  /\ del_ranges 12 [(5, 3)] = None /\ del_ranges 12 [(1, 2); (-1, 0)] = None.
Proof. repeat split; vm_compute; reflexivity. Qed.

Example c04_ex_count_limit :
  del_ranges 3000 [(1, 1500)] = Some [mkRange 1 1500]
  /\ del_ranges 3000 [(1, 600); (700, 1300)] = None
  /\ del_ranges 3000 [(1, 600); (500, 1300)] = Some [mkRange 1 1300].
Proof. repeat split; vm_compute; reflexivity. Qed.

Example c04_ex_nonneg_needed :
  in_ranges (-2) (normalize (sort [mkRange (-3) (-1); mkRange (-1) 0])) = false
  /\ in_ranges (-2) [mkRange (-3) (-1); mkRange (-1) 0] = true.
Proof. exact normalize_exact_needs_nonneg. Qed.

Example c04_ex_log :
  report_deleted (stored_log [[mkRange 1 5; mkRange 6 8]; [mkRange 5 0]; [mkRange 3 9]])
  = [mkRange 1 9].
Proof. vm_compute. reflexivity. Qed.

(* ====================================================================== *)
(* C04, layer 2: history retrieval, permissions, delete transactions, the
   deletion log - over the product model Sys/Topic.v instantiated with the
   range algebra above (Sys/TopicInst.v), for EVERY history.

   Specification (Sys/TopicHist.v): [hspec] = live messages id -> (author,
   content), per-user soft-hidden ids, hard-deleted ids, delete counter;
   user u sees id x iff it is live and not soft-hidden for u ([hs_visible]);
   the ids deleted for u are his soft-hidden ones and the hard-deleted ones
   ([hs_deleted_for]).  Transitions [hs_step]: accepted publish; accepted
   delete, soft = for the requester only / hard = for everyone with the row
   erased, of exactly the ids the request denotes clipped to ids <= lastID
   ([req_ids]); deletion of a subscription forgets that user's own soft
   deletions (the store removes his log rows).  [abs s] reads a specification
   state off the stored message rows and deletion-log rows; [event_of] reads
   the transition off a request, its reply and - for a deletion - the
   requester's effective mode and lastID before it.
   [reach sm s0 h] is the state after history h from the new topic s0.       *)
From Tinode Require Sys.TopicSoftPrivC04.
From Tinode Require Import Pure.Acs Sys.Topic Sys.TopicTac Sys.TopicInst Sys.TopicHist Sys.TopicHistProofs
  Sys.TopicHistInst Sys.TopicHistThm.

(* ---- refinement ---- *)

(* After ANY history (any users, sessions, permission changes, publishes, deletions of any
   range lists, unsubscribe/resubscribe, unload, restart, failing or crashing store calls
   outside the 2nd/3rd store call of a delete request) what the stored rows show IS what the
   specification computes from the accepted requests: nothing else hides or shows a message. *)
Theorem c04_history_refines : forall sm s0 h, hist_init s0 -> hist_ok sm h ->
  heq (abs (st (reach sm s0 h))) (hs_run del_ranges_i norm_ranges_i sm (mkState s0 None 0) h (abs s0)).
Proof. exact history_refines. Qed.
Print Assumptions c04_history_refines.

(* one request = one specification transition, in every state satisfying the invariant *)
Theorem c04_request_refines : forall sm f x o, inv_hist x -> op_ok sm o -> fault_ok f o ->
  heq (abs (st (fst (step_i sm f x o)))) (hs_step (abs (st x)) (event_of sm x o (snd (step_i sm f x o))))
  /\ inv_del (fst (step_i sm f x o)).
Proof. intros sm. exact (step_sim del_ranges_i norm_ranges_i sm dr_exact_i). Qed.
Print Assumptions c04_request_refines.

(* the hypothesis on faults cannot be dropped: a store failure after the first store call of
   a hard delete answers 500 but leaves the message rows erased and the log rows written *)
Theorem c04_refines_any_fault_refuted : ~ refines_any_fault_statement.
Proof. exact refines_any_fault_refuted. Qed.
Print Assumptions c04_refines_any_fault_refuted.

(* what the specification transitions mean for a reader *)
Theorem c04_soft_hides_for_requester_only : forall a u v ids x,
  hs_visible (hs_step a (HDel u false ids)) u x = (if ids x then None else hs_visible a u x) /\
  (v <> u -> hs_visible (hs_step a (HDel u false ids)) v x = hs_visible a v x).
Proof. intros a u v ids x. split; [apply spec_soft_self|apply spec_soft_other]. Qed.
Print Assumptions c04_soft_hides_for_requester_only.

Theorem c04_hard_hides_for_everyone : forall a u v ids x,
  hs_visible (hs_step a (HDel u true ids)) v x = if ids x then None else hs_visible a v x.
Proof. exact spec_hard_all. Qed.
Print Assumptions c04_hard_hides_for_everyone.

Theorem c04_deleted_for_after_delete : forall a u v hard ids x, v <> 0%N ->
  hs_deleted_for (hs_step a (HDel u hard ids)) v x = ((hard || N.eqb v u) && ids x) || hs_deleted_for a v x.
Proof. exact spec_deleted_for. Qed.
Print Assumptions c04_deleted_for_after_delete.

(* ---- {get data} ---- *)

(* After ANY history (any faults and crashes), the answer to {get data since before limit}
   from an attached session of a user with R is: the data frames, then the closing {ctrl}
   (204 if none, else 208 with their count); the frames are strictly newest-first, at most
   min(limit, 100) (100 when limit is 0 or larger); every frame is a message inside
   [since, before) that the specification shows to THAT user, with its author and content;
   every such message is in the answer unless the answer is full and it is older than all of it. *)
Theorem c04_get_data_exact : forall sm s0 h c sid since before limit,
  hist_init s0 -> ca (reach sm s0 h) = Some c -> attached c sid = true ->
  is_reader (user_mode c (sess_uid sm sid)) = true ->
  let s := st (reach sm s0 h) in
  let u := sess_uid sm sid in
  let o := snd (step_i sm NoFault (reach sm s0 h) (OGetData sid since before limit)) in
  let fr := data_of o in
  let lim := Z.to_nat (eff_limit max_msg_results limit) in
  o = map (fun e => (sid, Data (fst (fst e)) (snd (fst e)) (snd e))) fr ++ [(sid, data_closing (length fr))] /\
  (length fr <= lim)%nat /\
  StronglySorted data_gt fr /\
  (forall x a ct, In (x, a, ct) fr -> in_window since before x = true /\ hs_visible (abs s) u x = Some (a, ct)) /\
  (forall x a ct, in_window since before x = true -> hs_visible (abs s) u x = Some (a, ct) ->
     In (x, a, ct) fr \/ (length fr = lim /\ forall e, In e fr -> x < fst (fst e))).
Proof. exact get_data_history. Qed.
Print Assumptions c04_get_data_exact.

Theorem c04_get_data_limit : forall limit,
  0 < eff_limit max_msg_results limit <= max_msg_results /\ (0 < limit -> eff_limit max_msg_results limit <= limit).
Proof. exact limit_bound. Qed.
Print Assumptions c04_get_data_limit.

(* a user without R gets none; a session that is not attached is refused *)
Theorem c04_get_data_needs_read : forall sm f s c n0 sid since before limit, attached c sid = true ->
  is_reader (user_mode c (sess_uid sm sid)) = false ->
  snd (step_i sm f (mkState s (Some c) n0) (OGetData sid since before limit)) = [(sid, Ctrl 204 [(P_what, 1)])].
Proof. exact get_data_needs_read. Qed.
Print Assumptions c04_get_data_needs_read.

Theorem c04_get_data_needs_attach : forall sm f s cx n0 sid since before limit,
  match cx with Some c => attached c sid = false | None => True end ->
  step_i sm f (mkState s cx n0) (OGetData sid since before limit) = (mkState s cx 0, [(sid, Ctrl 403 [])]).
Proof. exact get_data_needs_attach. Qed.
Print Assumptions c04_get_data_needs_attach.

(* ---- {del msg} ---- *)

(* The four outcomes of a delete request (store calls 2 and 3 not failing).  The hard flag is
   decided first: hard-effective = asked hard AND D in the effective mode (want & given);
   otherwise the request is silently soft, and a soft deletion needs R.  Refused 403 iff
   (not hard-effective and no R); 400 iff the range list is refused (layer 1:
   c04_del_ranges_accepts / _rejects_invalid); 500 on a failing first store call; else accepted:
   reply 200 with del = delID+1, written for everyone (user 0) when hard-effective and for the
   requester when soft. *)
Theorem c04_delete_request : forall f s c sid u req hard0,
  fails f 1 = true \/ (fails f 2 = false /\ fails f 3 = false) ->
  let h := del_msg del_ranges_i f s c 0 sid u req hard0 in
  del_denied s c sid u hard0 h \/ del_malformed del_ranges_i s c sid u req hard0 h \/
  del_store_failed del_ranges_i s c sid u req hard0 h \/ del_accepted del_ranges_i s c sid u req hard0 h.
Proof. exact (del_msg_cases del_ranges_i). Qed.
Print Assumptions c04_delete_request.

(* the gate alone, under ANY faults: 403 (nothing changed, no store call) iff
   not (asked hard and D) and not R *)
Theorem c04_delete_gate : forall f s c n sid u req hard0,
  (del_gate hard0 (user_mode c u) = true -> del_msg del_ranges_i f s c n sid u req hard0 = mkH s c n [(sid, Ctrl 403 [])]) /\
  (h_out (del_msg del_ranges_i f s c n sid u req hard0) = [(sid, Ctrl 403 [])] -> del_gate hard0 (user_mode c u) = true).
Proof. exact del_msg_gate. Qed.
Print Assumptions c04_delete_gate.

(* the ranges handed to the store cover exactly the ids the request denotes *)
Theorem c04_delete_ids_exact : forall last req out, del_ranges_i last req = Some out ->
  forall x, covers out x = req_ids last req x.
Proof. exact dr_exact_i. Qed.
Print Assumptions c04_delete_ids_exact.

(* message rows: a soft delete (asked for, or degraded for lack of D) touches none; a hard one
   stamps exactly the live rows the request denotes with the transaction number and erases
   their content; the stored delete counter becomes delID+1 *)
Theorem c04_delete_rows : forall s c sid u req hard0 h, u <> 0%N ->
  del_accepted del_ranges_i s c sid u req hard0 h ->
  t_delid (h_st h) = c_delid c + 1 /\
  if hard0 && is_deleter (user_mode c u)
  then msgs (h_st h) = map (fun m => if (m_delid m =? 0) && req_ids (c_lastid c) req (m_seq m)
                                     then mkMsg (m_seq m) (m_from m) 0%N (c_delid c + 1) else m) (msgs s)
  else msgs (h_st h) = msgs s.
Proof. exact del_accepted_rows. Qed.
Print Assumptions c04_delete_rows.

(* "for the requester only when soft": a request that is not hard-effective (asked soft, or asked
   hard without D and silently made soft), whatever its outcome and under ANY faults, leaves the
   cached record - in particular the deletion mark - of every OTHER user untouched and answers the
   requesting session only; the hard-effective request, by contrast, marks every cached user *)
Theorem c04_soft_private : forall f s c n sid u req hard0 v,
  hard0 && is_deleter (user_mode c u) = false -> v <> u ->
  let h := del_msg del_ranges_i f s c n sid u req hard0 in
  alookup v (c_users (h_ca h)) = alookup v (c_users c) /\ forall fr, In fr (h_out h) -> fst fr = sid.
Proof. exact (Sys.TopicSoftPrivC04.del_msg_soft_private del_ranges_i). Qed.
Print Assumptions c04_soft_private.
Theorem c04_hard_marks_everyone : forall s c sid u req ranges v p,
  is_deleter (user_mode c u) = true -> del_ranges_i (c_lastid c) req = Some ranges ->
  alookup v (c_users c) = Some p ->
  exists p', alookup v (c_users (h_ca (del_msg del_ranges_i NoFault s c 0 sid u req true))) = Some p' /\
             p_delid p' = (c_delid c + 1)%Z.
Proof. exact (Sys.TopicSoftPrivC04.del_msg_hard_marks_everyone del_ranges_i). Qed.
Print Assumptions c04_hard_marks_everyone.

(* delID of the loaded topic is the stored counter: an accepted request gets the NEXT number *)
Theorem c04_delid_next : forall sm s0 h c, hist_init s0 -> hist_ok sm h -> ca (reach sm s0 h) = Some c ->
  c_delid c = t_delid (st (reach sm s0 h)) /\ 0 <= t_delid (st (reach sm s0 h)).
Proof. exact delid_next. Qed.
Print Assumptions c04_delid_next.

(* "soft deletion requires read permission" (the code after 2721db4): under ANY faults, every
   accepted deletion that is not hard-effective - asked soft, or asked hard by a requester
   without D and silently made soft - was made by a requester with R in want & given *)
Theorem c04_soft_needs_read : forall f s c sid u req hard d,
  hard && is_deleter (user_mode c u) = false ->
  h_out (del_msg del_ranges_i f s c 0 sid u req hard) = [(sid, Ctrl 200 [(P_del, d)])] ->
  is_reader (user_mode c u) = true.
Proof. exact soft_needs_read. Qed.
Print Assumptions c04_soft_needs_read.

(* the same for a request of an attached session through [step], in any state *)
Theorem c04_soft_needs_read_step : forall sm f s c n0 sid req hard d, attached c sid = true ->
  hard && is_deleter (user_mode c (sess_uid sm sid)) = false ->
  snd (step_i sm f (mkState s (Some c) n0) (ODelMsg sid req hard)) = [(sid, Ctrl 200 [(P_del, d)])] ->
  is_reader (user_mode c (sess_uid sm sid)) = true.
Proof. exact soft_needs_read_step. Qed.
Print Assumptions c04_soft_needs_read_step.

(* the gate of the code BEFORE 2721db4 ([del_gate_unrepaired]: R asked for only when D is
   missing) is refuted - JWD without R, soft request; it held only for requesters without D;
   the two gates differ exactly for D without R and a soft request *)
Theorem c04_gate_soft_needs_read : gate_soft_needs_read_statement del_gate.
Proof. exact del_gate_soft_needs_read. Qed.
Print Assumptions c04_gate_soft_needs_read.

Theorem c04_gate_unrepaired_refuted : ~ gate_soft_needs_read_statement del_gate_unrepaired.
Proof. exact del_gate_unrepaired_refuted. Qed.
Print Assumptions c04_gate_unrepaired_refuted.

Theorem c04_gate_unrepaired_partial : forall hard0 mode,
  is_deleter mode = false -> del_gate_unrepaired hard0 mode = false -> is_reader mode = true.
Proof. exact del_gate_unrepaired_partial. Qed.
Print Assumptions c04_gate_unrepaired_partial.

Theorem c04_gate_differs : forall hard0 mode,
  del_gate hard0 mode <> del_gate_unrepaired hard0 mode <-> (is_deleter mode = true /\ is_reader mode = false /\ hard0 = false).
Proof. exact del_gate_differs. Qed.
Print Assumptions c04_gate_differs.

(* non-vacuity: a JWD user's soft delete is refused, his hard one accepted; the owner soft-deletes *)
Example c04_ex_soft_needs_read :
  h_out (del_msg del_ranges_i NoFault wit_store wit_cache 0 2%N 2%N [(1, 0)] false) = [(2%N, Ctrl 403 [])] /\
  h_out (del_msg del_ranges_i NoFault wit_store wit_cache 0 2%N 2%N [(1, 0)] true) = [(2%N, Ctrl 200 [(P_del, 1)])] /\
  h_out (del_msg del_ranges_i NoFault wit_store wit_cache 0 1%N 1%N [(1, 0)] false) = [(1%N, Ctrl 200 [(P_del, 1)])].
Proof. exact soft_needs_read_example. Qed.

(* ---- {get del} ---- *)

(* After ANY history (any faults), for a reader, when the selected log rows fit the limit: no
   row selected -> 204; else one {meta del} whose ranges cover exactly the ids named by the
   log rows written for everyone or for THAT user with transaction number in [since, before),
   and whose delid is the largest selected transaction number. *)
Theorem c04_get_del_exact : forall sm s0 h c sid since before limit,
  hist_init s0 -> ca (reach sm s0 h) = Some c -> attached c sid = true ->
  is_reader (user_mode c (sess_uid sm sid)) = true ->
  let s := st (reach sm s0 h) in
  let u := sess_uid sm sid in
  let o := snd (step_i sm NoFault (reach sm s0 h) (OGetDel sid since before limit)) in
  (length (filter (del_sel u since before) (dellog s)) <= Z.to_nat (eff_limit max_results limit))%nat ->
  (o = [(sid, Ctrl 204 [(P_what, 3)])] /\ forall x, logged_sel s u since before x = false) \/
  (exists maxid rs, o = [(sid, MetaDel maxid rs)] /\
     (forall x, covers rs x = logged_sel s u since before x) /\
     (forall d, In d (dellog s) -> del_sel u since before d = true -> d_delid d <= maxid) /\
     (exists d, In d (dellog s) /\ del_sel u since before d = true /\ d_delid d = maxid)).
Proof. exact get_del_history. Qed.
Print Assumptions c04_get_del_exact.

(* an unrestricted query reports exactly the ids deleted for that user: no more, no fewer *)
Theorem c04_get_del_open : forall sm s0 h u since before x, hist_init s0 -> since <= 0 -> before <= 1 ->
  logged_sel (st (reach sm s0 h)) u since before x = hs_deleted_for (abs (st (reach sm s0 h))) u x.
Proof. exact logged_open. Qed.
Print Assumptions c04_get_del_open.

Theorem c04_get_del_needs_read : forall sm f s c n0 sid since before limit, attached c sid = true ->
  is_reader (user_mode c (sess_uid sm sid)) = false ->
  snd (step_i sm f (mkState s (Some c) n0) (OGetDel sid since before limit)) = [(sid, Ctrl 204 [(P_what, 3)])].
Proof. exact get_del_needs_read. Qed.
Print Assumptions c04_get_del_needs_read.

(* in every reachable state, whatever the faults: message numbers are unique and every log row
   is a non-empty range of non-negative ids with a non-negative transaction number *)
Theorem c04_rows_wellformed : forall sm s0 h, hist_init s0 ->
  NoDup (seqs (st (reach sm s0 h))) /\ dellog_wf (st (reach sm s0 h)).
Proof. intros sm s0 h HI. split; [apply reach_nodup|apply reach_wf]; exact HI. Qed.
Print Assumptions c04_rows_wellformed.

(* non-vacuity: two users, three messages; a hard request of a member without D is a soft one
   (only he stops seeing 1, 2); the owner's hard delete of 3, 2 erases them for both; the
   deletion log reported to each covers exactly what was deleted for him *)
Example c04_ex_history :
  let r := run_i [(1%N, 1%N); (2%N, 2%N)] (mkState ex_s0 None 0) ex_hist in
  map (fun o => map (fun e => fst (fst e)) (data_of o)) (skipn 5 (snd r)) =
    [[]; [3]; [3; 2; 1]; []; [1]; []; []] /\
  nth 5 (snd r) [] = [(2%N, Ctrl 200 [(P_del, 1)])] /\
  nth 8 (snd r) [] = [(1%N, Ctrl 200 [(P_del, 2)])] /\
  nth 10 (snd r) [] = [(2%N, MetaDel 2 [(1, 4)])] /\
  nth 11 (snd r) [] = [(1%N, MetaDel 2 [(2, 4)])] /\
  map m_delid (msgs (st (fst r))) = [0; 2; 2].
Proof. exact history_example. Qed.

(* ====================================================================== *)
(* C04, layer 2, requests executed ON BEHALF OF another user ({extra: {obo: u}}).

   "... minus those hard-deleted for everyone or soft-deleted by THAT SAME USER ... another
   user's soft deletions hide nothing": the user of a request is the user it is executed as
   (msg.AsUser): the session's own user, or - for a root session only - the user named by
   extra.obo.  Model: Sys/TopicOboC04.v.  A request is [QReq obo op], or [QSubGet obo ...] for
   {sub get="data del"}; [dispatch_as_c04] is
   Session.dispatch's choice of the acting user (403 for a non-root session naming a user, 400
   for a malformed name); an executed request is one [step] of the product model under the
   session map in which the session stands for the acting user (a root session = a family of
   virtual sessions sharing one attachment); [ostep_c04] / [orun_c04] return [None] outside the
   modelled fragment of a root session's requests (see the head of Sys/TopicOboC04.v);
   [oevent_c04] attributes an accepted publish / deletion to the ACTING user.
   All statements are for every history of (obo, op) requests, any users, sessions, root flags,
   modes and store faults unless a hypothesis says otherwise.                               *)
From Tinode Require Import Sys.TopicOboC04 Sys.TopicOboC04Proofs.

(* ---- who a request is executed as ---- *)

Theorem c04_obo_dispatch : forall sm roots sid ob u, dispatch_as_c04 sm roots sid ob = inl u ->
  (ob = OboNone /\ u = sess_uid sm sid) \/ (ob = OboUser u /\ is_root_c04 roots sid = true /\ u <> 0%N).
Proof. exact dispatch_inl. Qed.
Print Assumptions c04_obo_dispatch.

(* a session that is not root cannot act for anybody else: 403, no store call, nothing changed *)
Theorem c04_obo_needs_root : forall sm roots f x ob o sid, op_sid o = Some sid ->
  has_obo_c04 ob = true -> is_root_c04 roots sid = false ->
  ostep_c04 sm roots f x (QReq ob o) = Some (mkState (st x) (ca x) 0, [(sid, Ctrl 403 [])]).
Proof. exact ostep_needs_root. Qed.
Print Assumptions c04_obo_needs_root.

(* the wrapper is conservative: a history without extra.obo and without root sessions runs
   exactly as the product model of the second part *)
Theorem c04_obo_conservative : forall sm h x,
  orun_c04 sm [] x (map (fun fo => (fst fo, QReq OboNone (snd fo))) h) = Some (run_i sm x h).
Proof. exact orun_plain. Qed.
Print Assumptions c04_obo_conservative.

(* ---- refinement: every accepted request is a specification transition of the ACTING user ---- *)

Theorem c04_obo_history_refines : forall sm roots s0 h x,
  hist_init s0 -> ohist_ok_c04 sm roots h -> oreach_c04 sm roots s0 h = Some x ->
  heq (abs (st x)) (ohs_run_c04 sm roots (mkState s0 None 0) h (abs s0)) /\ inv_hist x.
Proof. exact oreach_refines. Qed.
Print Assumptions c04_obo_history_refines.

Theorem c04_obo_request_refines : forall sm roots x fq x1 o1, inv_hist x -> oreq_ok_c04 sm roots fq ->
  ostep_f_c04 sm roots x fq = Some (x1, o1) ->
  heq (abs (st x1)) (hs_step (abs (st x)) (oevent_c04 sm roots x (snd fq) o1)) /\ inv_hist x1.
Proof. exact ostep_f_sim. Qed.
Print Assumptions c04_obo_request_refines.

(* the transition of an accepted {del msg}: the deletion is the ACTING user's - soft: hidden
   from him only (c04_soft_hides_for_requester_only), hard iff asked and D in HIS mode *)
Theorem c04_obo_delete_is_acting_users : forall sm roots s c n0 sid ob u req hard ou,
  attached c sid = true -> dispatch_as_c04 sm roots sid ob = inl u ->
  oevent_c04 sm roots (mkState s (Some c) n0) (QReq ob (ODelMsg sid req hard)) ou =
  match head_frame ou with
  | Some (Ctrl code [(_, _)]) =>
    if code =? 200 then HDel u (hard && is_deleter (user_mode c u)) (req_ids (c_lastid c) req) else HNone
  | _ => HNone
  end.
Proof. exact obo_del_event. Qed.
Print Assumptions c04_obo_delete_is_acting_users.

(* ---- the three requests depend on the acting user only ---- *)

(* an attached session: {get data} / {get del} / {del msg} are the topic's handlers applied to
   the ACTING user (his mode in the cache, his rows in the deletion log), under any faults,
   whoever owns the session and whoever it is attached as *)
Theorem c04_obo_query_runs_as_acting : forall sm roots f s c n0 sid ob u q, attached c sid = true ->
  dispatch_as_c04 sm roots sid ob = inl u ->
  ostep_c04 sm roots f (mkState s (Some c) n0) (QReq ob (op_of_query_c04 sid q)) =
  Some (let h := handle_query_c04 f s c sid u q in (mkState (h_st h) (Some (h_ca h)) (h_n h), h_out h)).
Proof. exact ostep_query. Qed.
Print Assumptions c04_obo_query_runs_as_acting.

(* two attached sessions acting for the same user (a root session with extra.obo = u and u's own
   session, or two root sessions) get the same frames and leave the same state behind *)
Theorem c04_obo_same_answer : forall sm roots f s c n0 sid1 ob1 sid2 ob2 u q,
  attached c sid1 = true -> attached c sid2 = true ->
  dispatch_as_c04 sm roots sid1 ob1 = inl u -> dispatch_as_c04 sm roots sid2 ob2 = inl u ->
  exists x' o1 o2,
    ostep_c04 sm roots f (mkState s (Some c) n0) (QReq ob1 (op_of_query_c04 sid1 q)) = Some (x', o1) /\
    ostep_c04 sm roots f (mkState s (Some c) n0) (QReq ob2 (op_of_query_c04 sid2 q)) = Some (x', o2) /\
    map snd o1 = map snd o2 /\ Forall (fun e => fst e = sid1) o1 /\ Forall (fun e => fst e = sid2) o2.
Proof. exact obo_same_answer. Qed.
Print Assumptions c04_obo_same_answer.

(* the attached-session test is about the SESSION: not attached -> 403 (get) / 409 (del), nothing
   changed, whoever it acts for and whatever other sessions that user has *)
Theorem c04_obo_needs_attach : forall sm roots f s cx n0 sid ob u q,
  match cx with Some c => attached c sid = false | None => True end ->
  dispatch_as_c04 sm roots sid ob = inl u ->
  ostep_c04 sm roots f (mkState s cx n0) (QReq ob (op_of_query_c04 sid q)) =
  Some (mkState s cx 0, [(sid, Ctrl (match q with QDelMsg _ _ => 409 | _ => 403 end) [])]).
Proof. exact ostep_query_detached. Qed.
Print Assumptions c04_obo_needs_attach.

(* ---- {sub get="data del"} ---- *)

(* the subscription part, then - unless it was refused - replyGetData and replyGetDel for the
   SAME acting user ([sub_get_c04], the model of handleSubscription) *)
Theorem c04_obo_sub_get_runs_as_acting : forall sm roots f x ob sid u want bkg gd gl,
  dispatch_as_c04 sm roots sid ob = inl u ->
  (is_root_c04 roots sid = true -> has_obo_c04 ob = true) ->
  ostep_c04 sm roots f x (QSubGet ob sid want bkg gd gl) =
  Some (sub_get_c04 (sm_as_c04 sm sid u) f x sid u want bkg gd gl).
Proof. exact ostep_sub_get. Qed.
Print Assumptions c04_obo_sub_get_runs_as_acting.

(* without store faults its frames are the subscription reply followed by what {get data} and
   {get del} from the now attached session answer for that user: c04_obo_get_data_exact /
   c04_obo_get_del_exact / c04_obo_same_answer apply to them *)
Theorem c04_obo_sub_get_as_requests : forall sm' x sid want bkg a b l a' b' l' x1 o1 c,
  step_i sm' NoFault x (OSub sid want bkg) = (x1, o1) -> sub_accepted_c04 sid o1 = true ->
  ca x1 = Some c -> attached c sid = true ->
  let r := sub_get_c04 sm' NoFault x sid (sess_uid sm' sid) want bkg (Some (a, b, l)) (Some (a', b', l')) in
  snd r = o1 ++ snd (step_i sm' NoFault x1 (OGetData sid a b l)) ++ snd (step_i sm' NoFault x1 (OGetDel sid a' b' l')) /\
  st (fst r) = st x1 /\ ca (fst r) = ca x1.
Proof. exact sub_get_as_requests. Qed.
Print Assumptions c04_obo_sub_get_as_requests.

Theorem c04_obo_sub_get_refused : forall sm' f x sid u want bkg gd gl,
  sub_accepted_c04 sid (snd (step_i sm' f x (OSub sid want bkg))) = false ->
  sub_get_c04 sm' f x sid u want bkg gd gl = step_i sm' f x (OSub sid want bkg).
Proof. exact sub_get_refused. Qed.
Print Assumptions c04_obo_sub_get_refused.

(* ---- {get data} / {get del} after ANY history with obo requests (any faults) ---- *)

(* the answer is exactly the ACTING user's view of the history per the specification: newest
   first, at most min(limit,100), every frame a message in [since,before) visible to u with its
   author and content, every such message present unless the answer is full and it is older *)
Theorem c04_obo_get_data_exact : forall sm roots s0 h x c sid ob u since before limit,
  hist_init s0 -> oreach_c04 sm roots s0 h = Some x -> ca x = Some c -> attached c sid = true ->
  dispatch_as_c04 sm roots sid ob = inl u -> is_reader (user_mode c u) = true ->
  exists x' o, ostep_c04 sm roots NoFault x (QReq ob (OGetData sid since before limit)) = Some (x', o) /\
  st x' = st x /\
  let fr := data_of o in
  let lim := Z.to_nat (eff_limit max_msg_results limit) in
  o = map (fun e => (sid, Data (fst (fst e)) (snd (fst e)) (snd e))) fr ++ [(sid, data_closing (length fr))] /\
  (length fr <= lim)%nat /\
  StronglySorted data_gt fr /\
  (forall y a ct, In (y, a, ct) fr -> in_window since before y = true /\ hs_visible (abs (st x)) u y = Some (a, ct)) /\
  (forall y a ct, in_window since before y = true -> hs_visible (abs (st x)) u y = Some (a, ct) ->
     In (y, a, ct) fr \/ (length fr = lim /\ forall e, In e fr -> y < fst (fst e))).
Proof. exact obo_get_data_history. Qed.
Print Assumptions c04_obo_get_data_exact.

Theorem c04_obo_get_del_exact : forall sm roots s0 h x c sid ob u since before limit,
  hist_init s0 -> oreach_c04 sm roots s0 h = Some x -> ca x = Some c -> attached c sid = true ->
  dispatch_as_c04 sm roots sid ob = inl u -> is_reader (user_mode c u) = true ->
  (length (filter (del_sel u since before) (dellog (st x))) <= Z.to_nat (eff_limit max_results limit))%nat ->
  exists x' o, ostep_c04 sm roots NoFault x (QReq ob (OGetDel sid since before limit)) = Some (x', o) /\
  st x' = st x /\
  ((o = [(sid, Ctrl 204 [(P_what, 3)])] /\ forall y, logged_sel (st x) u since before y = false) \/
   (exists maxid rs, o = [(sid, MetaDel maxid rs)] /\
      (forall y, covers rs y = logged_sel (st x) u since before y) /\
      (forall d, In d (dellog (st x)) -> del_sel u since before d = true -> d_delid d <= maxid) /\
      (exists d, In d (dellog (st x)) /\ del_sel u since before d = true /\ d_delid d = maxid))).
Proof. exact obo_get_del_history. Qed.
Print Assumptions c04_obo_get_del_exact.

(* the ACTING user has no R: nothing is shown, whatever the session's own user may read *)
Theorem c04_obo_needs_read : forall sm roots f s c n0 sid ob u since before limit, attached c sid = true ->
  dispatch_as_c04 sm roots sid ob = inl u -> is_reader (user_mode c u) = false ->
  ostep_c04 sm roots f (mkState s (Some c) n0) (QReq ob (OGetData sid since before limit)) =
    Some (mkState s (Some c) 0, [(sid, Ctrl 204 [(P_what, 1)])]) /\
  ostep_c04 sm roots f (mkState s (Some c) n0) (QReq ob (OGetDel sid since before limit)) =
    Some (mkState s (Some c) 0, [(sid, Ctrl 204 [(P_what, 3)])]).
Proof. exact obo_query_needs_read. Qed.
Print Assumptions c04_obo_needs_read.

(* with ANY faults, after any obo history: message numbers unique, log rows well formed *)
Theorem c04_obo_rows_wellformed : forall sm roots s0 h x, hist_init s0 -> oreach_c04 sm roots s0 h = Some x ->
  NoDup (seqs (st x)) /\ dellog_wf (st x).
Proof. exact oreach_rows. Qed.
Print Assumptions c04_obo_rows_wellformed.

(* ---- the handler that filters by the SESSION's user is refuted ---- *)

(* "every message sent is visible to the acting user" holds of replyGetData as modelled
   (GetAll(t.name, asUid, ...)) and is refuted for the variant that hands the session's own user
   to the store (GetAll(t.name, sess.uid, ...)): a root session of user 1 reading on behalf of
   user 2 is sent the message user 2 soft-deleted; the two coincide when the session acts for
   its own user, which is why no test with ordinary sessions can tell them apart *)
Theorem c04_obo_shows_only_visible : shows_only_visible_statement (fun f s c n sid su u => get_data f s c n sid u).
Proof. exact get_data_shows_only_visible. Qed.
Print Assumptions c04_obo_shows_only_visible.

Theorem c04_obo_session_user_filter_refuted : ~ shows_only_visible_statement get_data_sessuid_c04.
Proof. exact get_data_sessuid_refuted. Qed.
Print Assumptions c04_obo_session_user_filter_refuted.

Theorem c04_obo_session_user_filter_partial : forall f s c n sid u since before limit,
  get_data_sessuid_c04 f s c n sid u u since before limit = get_data f s c n sid u since before limit.
Proof. exact get_data_sessuid_partial. Qed.
Print Assumptions c04_obo_session_user_filter_partial.

(* non-vacuity: a root session of user 1 attaches, publishes for itself and for user 3,
   soft-deletes 2 for itself and 4, 5 on behalf of user 2; user 2 soft-deletes 1 himself; the
   history and the deletion log read on behalf of 2 equal what 2's own session gets ([3;2]);
   the root's own view is [5;4;3;1], on behalf of 3 everything; obo from a non-root session: 403,
   malformed obo: 400; the hypotheses of the refinement hold of this history *)
Example c04_ex_obo_history :
  exists r, orun_c04 ex_obo_sm [1%N] (mkState ex_obo_s0 None 0) ex_obo_hist = Some r /\
  map (fun o => map (fun e => fst (fst e)) (data_of o)) (firstn 4 (skipn 11 (snd r))) =
    [[3; 2]; [3; 2]; [5; 4; 3; 1]; [5; 4; 3; 2; 1]] /\
  skipn 15 (snd r) = [[(1%N, MetaDel 3 [(1, 0); (4, 6)])]; [(2%N, MetaDel 3 [(1, 0); (4, 6)])]; [(1%N, MetaDel 1 [(2, 0)])];
                      [(2%N, Ctrl 403 [])]; [(1%N, Ctrl 400 [])]; [(1%N, Ctrl 400 [])]] /\
  dellog (st (fst r)) = [mkDel 1 1%N 2 3; mkDel 2 2%N 4 6; mkDel 3 2%N 1 2] /\
  map (fun m => (m_seq m, m_from m)) (msgs (st (fst r))) = [(1, 1%N); (2, 2%N); (3, 3%N); (4, 1%N); (5, 3%N)].
Proof. exact obo_history_example. Qed.

Example c04_ex_obo_history_ok : ohist_ok_c04 ex_obo_sm [1%N] ex_obo_hist.
Proof. exact obo_history_example_ok. Qed.

(* the same history continued with {sub get="data del"} by the root session on behalf of user 2 *)
Example c04_ex_obo_sub_get :
  exists r, orun_c04 ex_obo_sm [1%N] (mkState ex_obo_s0 None 0) ex_obo_hist2 = Some r /\
  skipn 21 (snd r) =
    [[(1%N, Ctrl 200 [])];
     [(1%N, Ctrl 200 []); (1%N, Data 3 3 9); (1%N, Data 2 2 8); (1%N, Ctrl 208 [(P_what, 1); (P_count, 2)]);
      (1%N, MetaDel 3 [(1, 0); (4, 6)])];
     [(1%N, Ctrl 304 [])]; [(2%N, Ctrl 403 [])]].
Proof. exact obo_sub_get_example. Qed.

(* ====================================================================== *)
(* C04, fourth part: "a user without read permission gets none" on topics with CHANNEL subscriptions - whatever
   name (grpXXX / chnXXX / usrXXX / p2pXXX) the request is addressed to and however the session is attached
   (under the group name, under the channel name, on behalf of a user).  Model: the fan-out slice Sys/Fanout.v
   (perUser with isChan, sessions with isChanSub, verifyChannelAccess, attach under either name) + the stored rows
   and replyGetData of Sys/FanoutQueryC01.v + replyGetDel and {sub get=data} of Sys/FanoutHistC04.v.
   Scope of that slice: no {del msg} requests (the deletion log is empty), the store never fails, the topic stays
   loaded.  Statements are for every state / every history of the slice. *)
From Tinode Require Sys.Fanout Sys.FanoutQueryC01 Sys.FanoutQueryC01Proofs Sys.FanoutHistC04 Sys.FanoutHistC04Proofs.
Section ChanC04.
Import Sys.Fanout Sys.FanoutQueryC01 Sys.FanoutQueryC01Proofs Sys.FanoutHistC04 Sys.FanoutHistC04Proofs.
Local Open Scope N_scope.

(* after ANY history, a {get what=data} executed for a user whose want & given lacks R shows no message: the name
   used, the range, the requesting session and the way it is attached are all universally quantified *)
Theorem c04_chan_history_needs_read : forall x0 ops s u name since before limit,
  let x := fst (hrun_c04 x0 ops) in
  read_gate_c04 (q_st x) u = false ->
  forall e, In e (snd (hstep_c04 x (HQ (QGetData s u name since before limit)))) -> is_data_c04 (snd e) = false.
Proof. exact hrun_get_data_needs_read. Qed.
Print Assumptions c04_chan_history_needs_read.

(* the handler itself, in any state: one {ctrl} - 404 (channel name on a topic without channels) or 204 *)
Theorem c04_chan_get_data_needs_read : forall x s u name since before limit,
  read_gate_c04 (q_st x) u = false ->
  q_get_data x s u name since before limit = [(s, QCtrl 404%Z)] \/
  q_get_data x s u name since before limit = [(s, QCtrl 204%Z)].
Proof. exact q_get_data_needs_read. Qed.
Print Assumptions c04_chan_get_data_needs_read.

(* with R: exactly the rows the store contract selects for the ACTING user in [since, before), newest first, at most
   the limit - for channel readers, subscribers and sessions acting on behalf of a user alike *)
Theorem c04_chan_history_exact : forall x0 ops s u name since before limit,
  let x := fst (hrun_c04 x0 ops) in
  has_key s (st_sess (q_st x)) = true ->
  read_gate_c04 (q_st x) u = true -> chan_ok (q_st x) (name_chan_c01q name) = true ->
  shown_c04 (snd (hstep_c04 x (HQ (QGetData s u name since before limit)))) =
  pairs_c04 (Topic.ad_msg_get_all (store_of_c01q (q_msgs x)) u since before limit).
Proof. exact hrun_get_data_exact. Qed.
Print Assumptions c04_chan_history_exact.

(* the name decides nothing about which messages are shown *)
Theorem c04_chan_name_irrelevant : forall x s u n1 n2 since before limit,
  chan_ok (q_st x) (name_chan_c01q n1) = true -> chan_ok (q_st x) (name_chan_c01q n2) = true ->
  shown_c04 (lift_c04 (q_get_data x s u n1 since before limit)) =
  shown_c04 (lift_c04 (q_get_data x s u n2 since before limit)).
Proof. exact q_get_data_name_irrelevant. Qed.
Print Assumptions c04_chan_name_irrelevant.

(* every {data} of an answer is a stored row of this topic, goes to the requesting session under the name the acting
   user knows the topic by, and its author is withheld exactly when the request used the channel name *)
Theorem c04_chan_author_withheld : forall x s u name since before limit k t f q c,
  In (k, QData t f q c) (q_get_data x s u name since before limit) ->
  k = s /\ t = original (q_st x) u /\
  exists m, In m (q_msgs x) /\ Topic.m_seq m = q /\ Topic.m_content m = c /\
            f = (if name_chan_c01q name then 0 else Topic.m_from m).
Proof. exact q_get_data_author. Qed.
Print Assumptions c04_chan_author_withheld.

(* {get what=del}: the same gate; in this slice the log is empty *)
Theorem c04_chan_dellog_needs_read : forall x0 ops s u name since before limit,
  let x := fst (hrun_c04 x0 ops) in
  read_gate_c04 (q_st x) u = false ->
  forall e, In e (snd (hstep_c04 x (HGetDel s u name since before limit))) -> is_metadel_c04 (snd e) = false.
Proof. exact hrun_get_del_needs_read. Qed.
Print Assumptions c04_chan_dellog_needs_read.

Theorem c04_chan_dellog_empty : forall x s u name since before limit,
  q_get_del_c04 x s u name since before limit = [(s, HF (QCtrl 404%Z))] \/
  q_get_del_c04 x s u name since before limit = [(s, HF (QCtrl 204%Z))].
Proof. exact q_get_del_empty_log. Qed.
Print Assumptions c04_chan_dellog_empty.

(* {sub get=data}: the subscription, then the history handler for the same acting user and name in the state the
   subscription left; no R there -> no message *)
Theorem c04_chan_sub_get_is_query : forall x s u name since before limit x1 out,
  h_sub_get_data_c04 x s u name since before limit = (Some x1, out) ->
  (x1 = x /\ out = [(s, HF (QCtrl 404%Z))]) \/
  (q_msgs x1 = q_msgs x /\ attach (q_st x) s u (name_chan_c01q name) = Some (q_st x1) /\
   out = lift_c04 (q_get_data x1 s u name since before limit)).
Proof. exact h_sub_get_data_is_query. Qed.
Print Assumptions c04_chan_sub_get_is_query.

Theorem c04_chan_sub_get_needs_read : forall x s u name since before limit x1 out,
  h_sub_get_data_c04 x s u name since before limit = (Some x1, out) ->
  read_gate_c04 (q_st x1) u = false -> shown_c04 out = [].
Proof. exact h_sub_get_data_needs_read. Qed.
Print Assumptions c04_chan_sub_get_needs_read.

(* the wrapper adds nothing to FanoutQueryC01 on its requests *)
Theorem c04_chan_conservative : forall x o,
  hstep_c04 x (HQ o) = (fst (fst (qstep x o)), lift_c04 (snd (qstep x o))).
Proof. exact hstep_conservative. Qed.
Print Assumptions c04_chan_conservative.

(* REFUTED + PARTIAL: the read gate short-circuited for requests addressed through the channel name
   (`asChan || (given & want).IsReader()`, seeded change C04-r4-3): a subscriber without R reads the history by
   spelling the topic chnXXX; the variant coincides with the handler for every request addressed by the group / p2p
   name and for every reader *)
Theorem c04_chan_aschan_gate_refuted : ~ aschan_gate_statement_c04.
Proof. exact aschan_gate_refuted_c04. Qed.
Print Assumptions c04_chan_aschan_gate_refuted.

Theorem c04_chan_aschan_gate_partial : forall x s u name since before limit,
  name_chan_c01q name = false \/ read_gate_c04 (q_st x) u = true ->
  q_get_data_aschan_c04 x s u name since before limit = q_get_data x s u name since before limit.
Proof. exact aschan_gate_partial_c04. Qed.
Print Assumptions c04_chan_aschan_gate_partial.

(* non-vacuity: channel-enabled group, owner 1 publishes 101, member 2 (given JWPS: no R) attached under the group
   name: 204 under both names, the owner reads message 1 through the channel name; {sub get=data} of channel reader 3
   (first connection) shows message 1 with the author withheld, of member 2 under the group name 204 *)
Example c04_ex_chan_needs_read :
  read_gate_c04 (q_st wh_x_c04) 2 = false /\
  q_get_data wh_x_c04 2 2 TChn 0%Z 0%Z 0%Z = [(2, QCtrl 204%Z)] /\
  q_get_data wh_x_c04 2 2 TGrp 0%Z 0%Z 0%Z = [(2, QCtrl 204%Z)] /\
  shown_c04 (lift_c04 (q_get_data wh_x_c04 1 1 TChn 0%Z 0%Z 0%Z)) = [(1%Z, 101)].
Proof. split; [exact wh_gate_c04|exact wh_real_c04]. Qed.

Example c04_ex_chan_sub_get :
  snd (h_sub_get_data_c04 ws_x_c04 3 3 TChn 0%Z 0%Z 0%Z) = [(3, HF (QData TChn 0 1%Z 101)); (3, HF (QCtrl 208%Z))] /\
  snd (h_sub_get_data_c04 ws_x_c04 2 2 TGrp 0%Z 0%Z 0%Z) = [(2, HF (QCtrl 204%Z))] /\
  fst (h_sub_get_data_c04 ws_x_c04 2 2 TChn 0%Z 0%Z 0%Z) = None.
Proof. exact ws_ok_c04. Qed.
End ChanC04.
