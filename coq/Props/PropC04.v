(* C04, layer 1: the pure range algebra of deletion.
   "A delete request listing ID ranges hides exactly the union of those ranges
    - each range [low, hi) clipped to existing IDs, a range with no upper bound
    or with hi equal to low meaning the single ID low - ... and never any ID
    outside that union, whatever the order, overlap or adjacency of the listed
    ranges" and "the deletion log later reported to a user covers exactly the
    IDs deleted for that user".
   Theorems only; each is closed by [exact] of a lemma of Pure/RangesProofs.v.
   All statements are for lists of ANY length and IDs of any size.
   [normalize] is the array program of RangeSorter.Normalize AFTER the repair
   of findings/C04_normalize.diff; [normalize_unrepaired] is the program of
   /repo as it is and is refuted below. *)
From Coq Require Import ZArith List Bool Permutation Sorted.
From Tinode Require Import Pure.Ranges Pure.RangesProofs.
Import ListNotations.
Open Scope Z_scope.

(* ---- sort.Sort(RangeSorter) ---- *)

Theorem c04_sort_sorted_permutation : forall rs,
  Permutation (sort rs) rs /\ sorted_less (sort rs).
Proof. intros rs. split; [exact (sort_perm rs)|exact (sort_sorted rs)]. Qed.
Print Assumptions c04_sort_sorted_permutation.

(* Less is a total order on values: ANY permutation ordered by Less is the one
   the model computes, so instability of sort.Sort cannot matter *)
Theorem c04_sorted_permutation_unique : forall rs s,
  Permutation s rs -> sorted_less s -> s = sort rs.
Proof. exact sort_unique. Qed.
Print Assumptions c04_sorted_permutation_unique.

(* ---- Normalize (repaired) ---- *)

(* the in-place array loop (index prev, result rs[:prev+1] of the mutated
   slice) computes the plain recursive merge *)
Theorem c04_normalize_program : forall rs, normalize rs = normalize_fun rs.
Proof. exact normalize_fun_eq. Qed.
Print Assumptions c04_normalize_program.

(* exactly the union: no ID lost, no ID added; for any sorted permutation *)
Theorem c04_normalize_exact_any : forall rs s x,
  Forall nonneg rs -> Permutation s rs -> sorted_less s ->
  in_ranges x (normalize s) = in_ranges x rs.
Proof. exact normalize_exact_any. Qed.
Print Assumptions c04_normalize_exact_any.

Theorem c04_normalize_exact : forall rs x,
  Forall nonneg rs -> in_ranges x (normalize (sort rs)) = in_ranges x rs.
Proof. exact normalize_exact. Qed.
Print Assumptions c04_normalize_exact.

(* the result is a list of non-empty ranges, each ending at least one ID
   before the next begins *)
Theorem c04_normalize_normal_any : forall rs s,
  Forall wf rs -> Permutation s rs -> sorted_less s -> normal (normalize s).
Proof. exact normalize_normal_any. Qed.
Print Assumptions c04_normalize_normal_any.

Theorem c04_normal_disjoint : forall l1 a l2 b l3 x,
  normal (l1 ++ a :: l2 ++ b :: l3) ->
  upper a < low b /\ (in_range x a = true -> in_range x b = true -> False)
  /\ in_range (upper a) a = false /\ in_range (upper a) b = false.
Proof. exact normal_disjoint. Qed.
Print Assumptions c04_normal_disjoint.

Theorem c04_normal_sorted : forall l, normal l -> sorted_less l.
Proof. exact normal_sorted_less. Qed.
Print Assumptions c04_normal_sorted.

Theorem c04_normal_nonempty : forall l r, normal l -> In r l -> in_range (low r) r = true.
Proof. exact normal_nonempty. Qed.
Print Assumptions c04_normal_nonempty.

Theorem c04_normalize_length : forall s, (length (normalize s) <= length s)%nat.
Proof. exact normalize_length. Qed.
Print Assumptions c04_normalize_length.

(* normalising again changes nothing *)
Theorem c04_normalize_fixpoint : forall l, normal l -> normalize l = l.
Proof. exact normalize_normal_id. Qed.
Print Assumptions c04_normalize_fixpoint.

Theorem c04_normalize_idempotent : forall rs,
  Forall wf rs -> normalize (sort (normalize (sort rs))) = normalize (sort rs).
Proof. exact normalize_idempotent. Qed.
Print Assumptions c04_normalize_idempotent.

(* ---- Normalize as it is in /repo: refuted ---- *)

Theorem c04_normalize_unrepaired_refuted : ~ normalize_exact_statement normalize_unrepaired.
Proof. exact normalize_unrepaired_refuted. Qed.
Print Assumptions c04_normalize_unrepaired_refuted.

Theorem c04_normalize_repaired_statement : normalize_exact_statement normalize.
Proof.
  intros rs x Hw. apply normalize_exact. eapply Forall_impl; [|exact Hw]. exact wf_nonneg.
Qed.
Print Assumptions c04_normalize_repaired_statement.

Theorem c04_normalize_unrepaired_witnesses :
  normalize_unrepaired [mkRange 1 3; mkRange 2 4; mkRange 10 12] = [mkRange 1 4; mkRange 2 4]
  /\ normalize_unrepaired [mkRange 1 3; mkRange 4 5] = [mkRange 1 5]
  /\ normalize_unrepaired [mkRange 1 3; mkRange 3 0] = [mkRange 1 3]
  /\ normalize_unrepaired [mkRange 1 0; mkRange 1 0; mkRange 5 0] = [mkRange 1 0; mkRange 1 0].
Proof. exact normalize_unrepaired_witnesses. Qed.
Print Assumptions c04_normalize_unrepaired_witnesses.

(* ---- replyDelMsg: what reaches store.Messages.DeleteList ---- *)

Theorem c04_del_ranges_exact : forall lastID req out,
  del_ranges lastID req = Some out ->
  forall x, in_ranges x out = true <-> exists q, In q req /\ req_covers lastID q x.
Proof. exact del_ranges_exact. Qed.
Print Assumptions c04_del_ranges_exact.

Theorem c04_del_ranges_within : forall lastID req out x,
  del_ranges lastID req = Some out -> in_ranges x out = true ->
  0 <= x <= lastID /\ (x = 0 -> exists h, In (0, h) req).
Proof. exact del_ranges_within. Qed.
Print Assumptions c04_del_ranges_within.

Theorem c04_del_ranges_normal : forall lastID req out,
  del_ranges lastID req = Some out -> normal out.
Proof. exact del_ranges_normal. Qed.
Print Assumptions c04_del_ranges_normal.

Theorem c04_del_ranges_accepts : forall lastID req,
  req <> [] -> Forall (req_valid lastID) req ->
  (forall rs, clip_all lastID req = Some rs -> count_all rs <= max_delete_count) ->
  exists out, del_ranges lastID req = Some out.
Proof. exact del_ranges_accepts. Qed.
Print Assumptions c04_del_ranges_accepts.

Theorem c04_del_ranges_rejects_invalid : forall lastID req q,
  In q req -> ~ req_valid lastID q -> del_ranges lastID req = None.
Proof. exact del_ranges_rejects_invalid. Qed.
Print Assumptions c04_del_ranges_rejects_invalid.

Theorem c04_del_ranges_unrepaired_refuted : ~ del_ranges_exact_statement del_ranges_unrepaired.
Proof. exact del_ranges_unrepaired_refuted. Qed.
Print Assumptions c04_del_ranges_unrepaired_refuted.

(* the one-entry requests of the existing tests cannot tell the two apart *)
Theorem c04_del_ranges_unrepaired_single : forall lastID q,
  del_ranges_unrepaired lastID [q] = del_ranges lastID [q].
Proof. exact del_ranges_unrepaired_single. Qed.
Print Assumptions c04_del_ranges_unrepaired_single.

(* ---- the deletion log ---- *)

Theorem c04_dellog_roundtrip : forall r,
  wf r -> wf (dellog_load (dellog_store r))
          /\ forall x, in_range x (dellog_load (dellog_store r)) = in_range x r.
Proof. exact dellog_roundtrip. Qed.
Print Assumptions c04_dellog_roundtrip.

Theorem c04_report_deleted_exact : forall logs x,
  Forall (Forall nonneg) logs ->
  in_ranges x (report_deleted logs) = existsb (in_ranges x) logs.
Proof. exact report_deleted_exact. Qed.
Print Assumptions c04_report_deleted_exact.

Theorem c04_report_deleted_normal : forall logs,
  Forall (Forall wf) logs -> normal (report_deleted logs).
Proof. exact report_deleted_normal. Qed.
Print Assumptions c04_report_deleted_normal.

(* the log reported for the transactions [reqs] accepted for a user covers
   exactly the IDs those requests denote: no more and no fewer *)
Theorem c04_deletion_log_of_requests : forall (reqs : list (Z * list (Z * Z))) outs x,
  Forall2 (fun rq out => del_ranges (fst rq) (snd rq) = Some out) reqs outs ->
  in_ranges x (report_deleted (stored_log outs)) = true <->
  exists rq q, In rq reqs /\ In q (snd rq) /\ req_covers (fst rq) q x.
Proof. exact deletion_log_of_requests. Qed.
Print Assumptions c04_deletion_log_of_requests.

(* ---- the hypotheses are satisfiable / needed ---- *)

Example c04_ex_request :
  del_ranges 12 [(10, 99); (2, 4); (1, 3); (4, 4); (6, 0); (7, 8)]
  = Some [mkRange 1 5; mkRange 6 8; mkRange 10 13].
Proof. vm_compute. reflexivity. Qed.

Example c04_ex_rejected :
  del_ranges 12 [] = None /\ del_ranges 12 [(13, 0)] = None /\ del_ranges 12 [(0, 0)] = None
  /\ del_ranges 12 [(5, 3)] = None /\ del_ranges 12 [(1, 2); (-1, 0)] = None.
Proof. repeat split; vm_compute; reflexivity. Qed.

Example c04_ex_count_limit :
  del_ranges 3000 [(1, 1500)] = Some [mkRange 1 1500]
  /\ del_ranges 3000 [(1, 600); (700, 1300)] = None
  /\ del_ranges 3000 [(1, 600); (500, 1300)] = Some [mkRange 1 1300].
Proof. repeat split; vm_compute; reflexivity. Qed.

Example c04_ex_nonneg_needed :
  in_ranges (-2) (normalize (sort [mkRange (-3) (-1); mkRange (-1) 0])) = false
  /\ in_ranges (-2) [mkRange (-3) (-1); mkRange (-1) 0] = true.
Proof. exact normalize_exact_needs_nonneg. Qed.

Example c04_ex_log :
  report_deleted (stored_log [[mkRange 1 5; mkRange 6 8]; [mkRange 5 0]; [mkRange 3 9]])
  = [mkRange 1 9].
Proof. vm_compute. reflexivity. Qed.
