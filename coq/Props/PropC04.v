From Coq Require Import ZArith List Bool.
From Tinode Require Import Pure.Ranges Pure.RangesProofs.
Import ListNotations.
Open Scope Z_scope.

Theorem c04_normalize_unrepaired_refuted : ~ normalize_exact_statement normalize_unrepaired.
Proof. exact normalize_unrepaired_refuted. Qed.
Print Assumptions c04_normalize_unrepaired_refuted.
