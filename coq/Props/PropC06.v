(* C06  A group topic has exactly one owner at all times.
   Theorems only, about the topic model Sys/Topic.v (one group topic: store rows, cache,
   {sub} / {set sub} / {leave unsub} / {del sub} on the attached and on the offline path,
   unload, restart, failing/crashing store calls) and, for the owner-only requests that are
   outside that model's alphabet, about the gate model Sys/OwnerGate.v.

   Vocabulary (Sys/TopicOwner.v, Sys/TopicOwnerProofs.v):
     smode s u        = Some (want, given, deleted) of u's stored subscription row, None if there is none
     store_owners s   = users of the non-deleted rows with O in want & given, in row order
     cache_owners c   = users of the cached entries with O in want & given
     sinv s           = well-formed store: exactly one effective owner, equal to topics.owner (non-zero),
                        no other row (deleted or not) has O in want, user ids are unique, the default
                        access and the accounts' default modes have no O (enforced by topic/account creation)
     oinv_state sm x  = sinv of the store plus, when the topic is loaded: cached owner = topics.owner, cache and
                        store agree on who is subscribed, on every given mode and on the O bit of every want
                        mode, attached sessions belong to cached users
     actor_ok sm o    = the request comes from a session logged in as a non-zero user
     asks_owner o     = the request names an explicit mode containing O
     fault_safe (f,o) = f = NoFault or asks_owner o = false
     op_user sm o     = the acting user;  asks_op sm o = the actor's own {sub}/{set sub} with O in the mode;
     is_set_op sm o t = o is {set sub} naming another user t;
     fault_safe_c06x sm (f,o) = fault_safe (f,o) or o is a {set sub} naming another user (any mode, O included):
                        the only faulted requests left out are the actor's OWN {sub}/{set sub} naming O;
     acks_c06x fr     = fr is a 200-with-acs or a ctrl below 400.
   Gate with population (Sys/OwnerGateC06x.v): gate_del_c06x reads the topic category and the
   subscriber counts exactly as hub.topicUnreg does ((p2p AND count < 2) shortcut). *)
From Coq Require Import ZArith NArith List Bool.
From Tinode Require Import Base.Util Pure.Acs Sys.Topic Sys.TopicOwner Sys.TopicOwnerProofs Sys.OwnerGate Sys.OwnerGateProofs.
From Tinode Require Import Sys.TopicOwnerC06x Sys.OwnerGateC06x Sys.OwnerGateC06xProofs.
Import ListNotations.
Open Scope N_scope.

Section C06.
Variable dr : Z -> list (Z * Z) -> option (list (Z * Z)).
Variable nr : list (Z * Z) -> list (Z * Z).
Variable sm : sessmap.

(* The invariant holds in every state reached from a well-formed store by any history in which
   no FAULTED request names O (fault-free histories are a special case). *)
Theorem c06_reachable : forall s h, sinv s -> hist_ok sm h ->
  oinv_state sm (fst (run dr nr sm (mkState s None 0) h)).
Proof. intros s h SI H. exact (run_owner dr nr sm h (mkState s None 0) SI H). Qed.

(* Exactly one owner at all times: after every fault-free history of any length, the stored
   subscriptions and, when the topic is loaded, the cached ones have exactly one effective owner,
   and it is the user named by topics.owner / Topic.owner. *)
Theorem c06_one_owner : forall s h,
  sinv s -> Forall (fun fo => actor_ok sm (snd fo)) h -> Forall (fun fo => fst fo = NoFault) h ->
  let x := fst (run dr nr sm (mkState s None 0) h) in
  store_owners (st x) = [t_owner (st x)] /\
  match ca x with Some c => cache_owners c = [c_owner c] /\ c_owner c = t_owner (st x) | None => True end.
Proof. intros s h SI A B. exact (run_one_owner dr nr sm s h SI (hist_ok_nofault sm h A B)). Qed.

(* No request by another user removes, bans or demotes the owner: the owner's stored row (want,
   given, deleted flag) is exactly as before and topics.owner is unchanged - unless the request
   is the acceptance of a transfer by a user whose previous grant has O. *)
Theorem c06_owner_not_demoted_by_others : forall x fo,
  oinv_state sm x -> actor_ok sm (snd fo) -> fault_safe fo -> op_user sm (snd fo) <> t_owner (st x) ->
  let x' := fst (step_f dr nr sm x fo) in
  (smode (st x') (t_owner (st x)) = smode (st x) (t_owner (st x)) /\ t_owner (st x') = t_owner (st x)) \/
  (asks_op sm (snd fo) /\ t_owner (st x') = op_user sm (snd fo) /\
   exists w g, smode (st x) (op_user sm (snd fo)) = Some (w, g, false) /\ is_owner g = true /\ is_owner w = false).
Proof. exact (step_owner_kept dr nr sm). Qed.

(* The owner cannot unsubscribe: the request is refused and nothing changes, whatever the fault plan. *)
Theorem c06_owner_cannot_leave : forall f x sid,
  oinv_state sm x -> sess_uid sm sid = t_owner (st x) ->
  exists code, (400 <= code)%Z /\
    step dr nr sm f x (OLeave sid true) = (mkState (st x) (ca x) 0, [(sid, Ctrl code [])]).
Proof. exact (owner_leave_refused dr nr sm). Qed.

(* The owner cannot give ownership up: after any request of the owner (attached or offline path,
   any mode string) topics.owner is unchanged and the owner's row is live with O in want and given. *)
Theorem c06_owner_keeps_ownership : forall x fo,
  oinv_state sm x -> actor_ok sm (snd fo) -> fault_safe fo -> op_user sm (snd fo) = t_owner (st x) ->
  let x' := fst (step_f dr nr sm x fo) in
  t_owner (st x') = t_owner (st x) /\
  exists w g, smode (st x') (t_owner (st x)) = Some (w, g, false) /\ is_owner w = true /\ is_owner g = true.
Proof. exact (step_owner_self dr nr sm). Qed.

(* Ownership moves only by acceptance: if topics.owner changes at a step, the actor asked for O
   explicitly in his own {sub}/{set sub}, his previous live row had O in given (and not in want), he
   is the new owner, and the previous owner is left with O neither in want nor in given. *)
Theorem c06_transfer : forall x fo,
  oinv_state sm x -> actor_ok sm (snd fo) -> fault_safe fo ->
  let x' := fst (step_f dr nr sm x fo) in
  t_owner (st x') <> t_owner (st x) ->
  asks_op sm (snd fo) /\ t_owner (st x') = op_user sm (snd fo) /\
  (exists w g, smode (st x) (op_user sm (snd fo)) = Some (w, g, false) /\ is_owner g = true /\ is_owner w = false) /\
  (exists w' g', smode (st x') (t_owner (st x)) = Some (w', g', false) /\ is_owner w' = false /\ is_owner g' = false).
Proof. exact (step_transfer dr nr sm). Qed.

(* O enters the given mode of a user only by a {set sub} of the current owner naming that user;
   a row that already had O in given (soft-deleted rows included: re-subscription restores the
   previous grant) is the only other source. *)
Theorem c06_grant_by_owner_only : forall x fo v w' g' d',
  oinv_state sm x -> actor_ok sm (snd fo) -> fault_safe fo ->
  let x' := fst (step_f dr nr sm x fo) in
  smode (st x') v = Some (w', g', d') -> is_owner g' = true -> ~ had_given_O (smode (st x) v) ->
  op_user sm (snd fo) = t_owner (st x) /\ is_set_op sm (snd fo) v.
Proof. exact (step_grant dr nr sm). Qed.

(* With store faults: the statement for histories in which faulted requests do not name O. *)
Theorem c06_one_owner_faults_partial : forall s h, sinv s -> hist_ok sm h ->
  let x := fst (run dr nr sm (mkState s None 0) h) in
  store_owners (st x) = [t_owner (st x)] /\
  match ca x with Some c => cache_owners c = [c_owner c] /\ c_owner c = t_owner (st x) | None => True end.
Proof. exact (run_one_owner dr nr sm). Qed.

(* ---- store faults on the OFFER of ownership ---- *)
(* A {set sub} naming another user, sent by an attached session, that is not acknowledged (refused,
   or its store call failed and no reply is sent) grants nothing: the store and the cache are
   exactly as before - in ANY state, under ANY fault plan.  (anotherUserSub writes the cached
   given mode only after store.Subs.Update went through.) *)
Theorem c06_failed_offer_grants_nothing : forall f x sid t mode c,
  ca x = Some c -> attached c sid = true -> t <> 0 -> t <> sess_uid sm sid ->
  (forall fr, In (sid, fr) (snd (step dr nr sm f x (OSetSub sid t mode))) -> acks_c06x fr = false) ->
  st (fst (step dr nr sm f x (OSetSub sid t mode))) = st x /\
  ca (fst (step dr nr sm f x (OSetSub sid t mode))) = ca x.
Proof. exact (step_failed_offer_c06x dr nr sm). Qed.

(* The invariant, hence exactly one owner, after every history whose faulted requests are anything
   but the actor's own {sub}/{set sub} naming O: faulted offers of ownership are covered. *)
Theorem c06_one_owner_offer_faults : forall s h, sinv s -> hist_ok_c06x sm h ->
  let x := fst (run dr nr sm (mkState s None 0) h) in
  store_owners (st x) = [t_owner (st x)] /\
  match ca x with Some c => cache_owners c = [c_owner c] /\ c_owner c = t_owner (st x) | None => True end.
Proof. exact (run_one_owner_c06x dr nr sm). Qed.

(* Ownership moves only by the acceptance of a grant that is in the STORE: at a step of such a
   history topics.owner changes only if the actor asked for O in his own request and his stored live
   row had O in given (not in want) BEFORE the step; he is then the owner and the previous owner
   keeps O neither in want nor in given.  With c06_failed_offer_grants_nothing: an offer whose store
   write failed cannot be accepted. *)
Theorem c06_transfer_needs_stored_grant : forall x fo,
  oinv_state sm x -> actor_ok sm (snd fo) -> fault_safe_c06x sm fo ->
  let x' := fst (step_f dr nr sm x fo) in
  t_owner (st x') <> t_owner (st x) ->
  asks_op sm (snd fo) /\ t_owner (st x') = op_user sm (snd fo) /\
  (exists w g, smode (st x) (op_user sm (snd fo)) = Some (w, g, false) /\ is_owner g = true /\ is_owner w = false) /\
  (exists w' g', smode (st x') (t_owner (st x)) = Some (w', g', false) /\ is_owner w' = false /\ is_owner g' = false).
Proof. exact (step_transfer_c06x dr nr sm). Qed.

(* and whoever topics.owner names after such a step has a live stored row with O in want and given *)
Theorem c06_owner_row_after_step : forall x fo,
  oinv_state sm x -> actor_ok sm (snd fo) -> fault_safe_c06x sm fo ->
  let x' := fst (step_f dr nr sm x fo) in
  exists w g, smode (st x') (t_owner (st x')) = Some (w, g, false) /\ is_owner w = true /\ is_owner g = true.
Proof. exact (step_owner_stays_c06x dr nr sm). Qed.
End C06.

(* The full statement over ALL fault plans is REFUTED by the faithful model (known finding
   stored-owner-count-2-after-store-fault): the acceptance of a transfer makes three separate store
   writes; when the second one fails the accepting user already has O in want and given while the
   previous owner still has it. *)
Definition c06_one_owner_faults_statement : Prop :=
  forall sm s h, sinv s -> Forall (fun fo => actor_ok sm (snd fo)) h ->
    let x := fst (run (fun _ _ => None) (fun x => x) sm (mkState s None 0) h) in
    store_owners (st x) = [t_owner (st x)].

Definition c06_w_store : store :=
  ad_sub_create (ad_sub_create (mkStore true 0 0 0 47 0 [] [] [] [(1, 47); (2, 47)]) 1 255 255) 2 47 255.
Definition c06_w_sess : sessmap := [(1, 1); (2, 2)].
Definition c06_w_full : list N := [74; 82; 87; 80; 65; 83; 68; 79].   (* "JRWPASDO" *)

Example c06_w_store_ok : sinv c06_w_store.
Proof.
  apply sinv_add_row; [|discriminate|reflexivity].
  apply sinv_new_topic; try reflexivity; try discriminate.
  intros u acc. cbn. destruct (u =? 1); [intros H; inversion H; reflexivity|].
  destruct (u =? 2); [intros H; inversion H; reflexivity|discriminate].
Qed.

Theorem c06_one_owner_faults_refuted : ~ c06_one_owner_faults_statement.
Proof.
  intros H.
  specialize (H c06_w_sess c06_w_store [(NoFault, OSub 2 [] false); (FailAt 2, OSetSub 2 0 c06_w_full)] c06_w_store_ok).
  assert (Forall (fun fo => actor_ok c06_w_sess (snd fo)) [(NoFault, OSub 2 [] false); (FailAt 2, OSetSub 2 0 c06_w_full)]) as A
    by (repeat constructor; cbn; discriminate).
  specialize (H A). vm_compute in H. discriminate H.
Qed.

(* Owner-only requests (gate model Sys/OwnerGate.v): a {del topic}, {set desc public|trusted|defacs}
   or {set tags} is accepted with a topic-wide effect only from the user the code takes for the
   owner on that path (Topic.owner when the topic is loaded, O in the stored want & given otherwise);
   by sinv_eff_owner_iff / oinv_cached_owner_iff both readings name the one owner of c06_one_owner. *)
Theorem c06_owner_only_ops : forall k r code, (g_attached r = true -> g_loaded r = true) ->
  gate k r = GAll code -> g_is_owner r = true /\ code = 200%Z.
Proof. exact gate_all_owner. Qed.

Theorem c06_owner_only_ops_set_attached : forall k r code, k <> GDelTopic -> gate k r = GAll code -> g_attached r = true.
Proof. exact gate_set_attached. Qed.

Theorem c06_owner_readings_agree : forall sm s c u, oinv sm s c ->
  (c_owner c = u <-> u = t_owner s) /\
  ((exists w g, smode s u = Some (w, g, false) /\ is_owner (N.land w g) = true) <-> u = t_owner s).
Proof. intros sm s c u I. split; [exact (oinv_cached_owner_iff sm s c u I)|apply sinv_eff_owner_iff; apply I]. Qed.

(* {del what=topic} with the population of the topic (Sys/OwnerGateC06x.v: category, subscriber
   counts as read by hub.topicUnreg): a GROUP topic is deleted for everybody only at the request of
   the user the code takes for its owner, whatever the number of subscribers - the "last
   subscriber" shortcut is the p2p one. *)
Theorem c06_group_deleted_by_owner_only : forall r code, dx_p2p r = false ->
  gate_del_c06x r = GAll code -> dx_is_owner r = true /\ code = 200%Z.
Proof. exact gate_del_group_owner_c06x. Qed.

Theorem c06_del_gate_counts_not_read_on_groups : forall r, dx_p2p r = false ->
  (dx_subscribed r = true -> dx_count_s r <> 0) -> gate_del_c06x r = gate GDelTopic (dx_greq r).
Proof. exact gate_del_group_refines_c06x. Qed.

Theorem c06_p2p_last_subscriber_shortcut : forall r, dx_p2p r = true -> dx_loaded r = true -> dx_owner_c r = false ->
  ((exists code, gate_del_c06x r = GAll code) <-> dx_count_c r < 2).
Proof. exact gate_del_p2p_loaded_c06x. Qed.

Theorem c06_group_member_only_leaves : forall r, dx_p2p r = false -> dx_is_owner r = false -> dx_subscribed r = true ->
  dx_count_s r <> 0 -> gate_del_c06x r = GOwn 200%Z.
Proof. exact gate_del_group_member_c06x. Qed.

Print Assumptions c06_reachable.
Print Assumptions c06_one_owner.
Print Assumptions c06_owner_not_demoted_by_others.
Print Assumptions c06_owner_cannot_leave.
Print Assumptions c06_owner_keeps_ownership.
Print Assumptions c06_transfer.
Print Assumptions c06_grant_by_owner_only.
Print Assumptions c06_one_owner_faults_partial.
Print Assumptions c06_one_owner_faults_refuted.
Print Assumptions c06_owner_only_ops.
Print Assumptions c06_owner_only_ops_set_attached.
Print Assumptions c06_owner_readings_agree.
Print Assumptions c06_failed_offer_grants_nothing.
Print Assumptions c06_one_owner_offer_faults.
Print Assumptions c06_transfer_needs_stored_grant.
Print Assumptions c06_owner_row_after_step.
Print Assumptions c06_group_deleted_by_owner_only.
Print Assumptions c06_del_gate_counts_not_read_on_groups.
Print Assumptions c06_p2p_last_subscriber_shortcut.
Print Assumptions c06_group_member_only_leaves.

(* the hypotheses are satisfiable, and the laws are not vacuous *)
Example c06_ex_initial_state_ok : sinv c06_w_store /\ hist_ok c06_w_sess [(NoFault, OSub 2 [] false); (NoFault, OSetSub 2 0 c06_w_full)].
Proof. split; [exact c06_w_store_ok|]. repeat constructor; cbn; discriminate. Qed.

Example c06_ex_transfer_happens :
  let x := fst (run (fun _ _ => None) (fun x => x) c06_w_sess (mkState c06_w_store None 0)
                    [(NoFault, OSub 2 [] false); (NoFault, OSetSub 2 0 c06_w_full)]) in
  t_owner (st x) = 2 /\ store_owners (st x) = [2] /\ option_map cache_owners (ca x) = Some [2] /\
  smode (st x) 1 = Some (127, 127, false).
Proof. vm_compute. repeat split. Qed.

Example c06_ex_gate :
  gate GDelTopic (mkGreq true true true true true false) = GAll 200%Z /\
  gate GDelTopic (mkGreq true true false false true false) = GOwn 200%Z /\
  gate GSetTags (mkGreq true true false false true true) = GNone 403%Z /\
  gate GSetTrusted (mkGreq true true true true true false) = GNone 403%Z /\
  gate (GSetDefacs true) (mkGreq true true true true true false) = GNone 400%Z.
Proof. repeat split. Qed.

(* a failed offer followed by an acceptance: the history is covered by c06_one_owner_offer_faults
   (not by c06_one_owner_faults_partial), the acceptance is refused and the owner stays *)
Definition c06x_w_store : store :=
  ad_sub_create (ad_sub_create (mkStore true 0 0 0 47 0 [] [] [] [(1, 47); (2, 47)]) 1 255 255) 2 47 47.
Definition c06x_w_hist : list (fault * op) :=
  [(NoFault, OSub 1 [] false); (NoFault, OSub 2 [] false); (FailAt 1, OSetSub 1 2 c06_w_full); (NoFault, OSetSub 2 0 c06_w_full)].

Example c06x_ex_failed_offer_hist_ok : hist_ok_c06x c06_w_sess c06x_w_hist /\ ~ hist_ok c06_w_sess c06x_w_hist.
Proof.
  split.
  - unfold hist_ok_c06x, c06x_w_hist.
    constructor; [split; [cbn; discriminate|left; left; reflexivity]|].
    constructor; [split; [cbn; discriminate|left; left; reflexivity]|].
    constructor; [split; [cbn; discriminate|]|].
    + right. exists 2. exists 1, c06_w_full. cbn. repeat split; discriminate.
    + constructor; [split; [cbn; discriminate|left; left; reflexivity]|constructor].
  - intros H. inversion H as [|? ? _ H1]; subst. inversion H1 as [|? ? _ H2]; subst.
    inversion H2 as [|? ? [_ [F|F]] _]; subst; discriminate F.
Qed.

Example c06x_ex_failed_offer_then_acceptance :
  let r := run (fun _ _ => None) (fun x => x) c06_w_sess (mkState c06x_w_store None 0) c06x_w_hist in
  t_owner (st (fst r)) = 1 /\ store_owners (st (fst r)) = [1] /\ option_map cache_owners (ca (fst r)) = Some [1] /\
  smode (st (fst r)) 2 = Some (47, 47, false) /\
  nth 2 (snd r) [] = [] /\ nth 3 (snd r) [] = [(2, Ctrl 403 [])].
Proof. vm_compute. repeat split. Qed.

Example c06x_ex_gate :
  gate_del_c06x (mkDreqC06x false true false 1 false false 1) = GNone 304%Z /\
  gate_del_c06x (mkDreqC06x true true false 1 false false 1) = GAll 200%Z /\
  gate_del_c06x (mkDreqC06x false true true 1 true true 1) = GAll 200%Z /\
  gate_del_c06x (mkDreqC06x false false false 0 true false 1) = GOwn 200%Z /\
  gate_del_c06x (mkDreqC06x true false false 0 true false 1) = GAll 200%Z.
Proof. repeat split. Qed.
