(* C06  A group topic has exactly one owner at all times.
   Theorems only, about the topic model Sys/Topic.v (one group topic: store rows, cache,
   {sub} / {set sub} / {leave unsub} / {del sub} on the attached and on the offline path,
   unload, restart, failing/crashing store calls) and, for the owner-only requests that are
   outside that model's alphabet, about the gate model Sys/OwnerGate.v.

   Vocabulary (Sys/TopicOwner.v, Sys/TopicOwnerProofs.v):
     smode s u        = Some (want, given, deleted) of u's stored subscription row, None if there is none
     store_owners s   = users of the non-deleted rows with O in want & given, in row order
     cache_owners c   = users of the cached entries with O in want & given
     sinv s           = well-formed store: exactly one effective owner, equal to topics.owner (non-zero),
                        no other row (deleted or not) has O in want, user ids are unique, the default
                        access and the accounts' default modes have no O (enforced by topic/account creation)
     oinv_state sm x  = sinv of the store plus, when the topic is loaded: cached owner = topics.owner, cache and
                        store agree on who is subscribed, on every given mode and on the O bit of every want
                        mode, attached sessions belong to cached users
     actor_ok sm o    = the request comes from a session logged in as a non-zero user
     asks_owner o     = the request names an explicit mode containing O
     fault_safe (f,o) = f = NoFault or asks_owner o = false
     op_user sm o     = the acting user;  asks_op sm o = the actor's own {sub}/{set sub} with O in the mode;
     is_set_op sm o t = o is {set sub} naming another user t. *)
From Coq Require Import ZArith NArith List Bool.
From Tinode Require Import Base.Util Pure.Acs Sys.Topic Sys.TopicOwner Sys.TopicOwnerProofs Sys.OwnerGate Sys.OwnerGateProofs.
Import ListNotations.
Open Scope N_scope.

Section C06.
Variable dr : Z -> list (Z * Z) -> option (list (Z * Z)).
Variable nr : list (Z * Z) -> list (Z * Z).
Variable sm : sessmap.

(* The invariant holds in every state reached from a well-formed store by any history in which
   no FAULTED request names O (fault-free histories are a special case). *)
Theorem c06_reachable : forall s h, sinv s -> hist_ok sm h ->
  oinv_state sm (fst (run dr nr sm (mkState s None 0) h)).
Proof. intros s h SI H. exact (run_owner dr nr sm h (mkState s None 0) SI H). Qed.

(* Exactly one owner at all times: after every fault-free history of any length, the stored
   subscriptions and, when the topic is loaded, the cached ones have exactly one effective owner,
   and it is the user named by topics.owner / Topic.owner. *)
Theorem c06_one_owner : forall s h,
  sinv s -> Forall (fun fo => actor_ok sm (snd fo)) h -> Forall (fun fo => fst fo = NoFault) h ->
  let x := fst (run dr nr sm (mkState s None 0) h) in
  store_owners (st x) = [t_owner (st x)] /\
  match ca x with Some c => cache_owners c = [c_owner c] /\ c_owner c = t_owner (st x) | None => True end.
Proof. intros s h SI A B. exact (run_one_owner dr nr sm s h SI (hist_ok_nofault sm h A B)). Qed.

(* No request by another user removes, bans or demotes the owner: the owner's stored row (want,
   given, deleted flag) is exactly as before and topics.owner is unchanged - unless the request
   is the acceptance of a transfer by a user whose previous grant has O. *)
Theorem c06_owner_not_demoted_by_others : forall x fo,
  oinv_state sm x -> actor_ok sm (snd fo) -> fault_safe fo -> op_user sm (snd fo) <> t_owner (st x) ->
  let x' := fst (step_f dr nr sm x fo) in
  (smode (st x') (t_owner (st x)) = smode (st x) (t_owner (st x)) /\ t_owner (st x') = t_owner (st x)) \/
  (asks_op sm (snd fo) /\ t_owner (st x') = op_user sm (snd fo) /\
   exists w g, smode (st x) (op_user sm (snd fo)) = Some (w, g, false) /\ is_owner g = true /\ is_owner w = false).
Proof. exact (step_owner_kept dr nr sm). Qed.

(* The owner cannot unsubscribe: the request is refused and nothing changes, whatever the fault plan. *)
Theorem c06_owner_cannot_leave : forall f x sid,
  oinv_state sm x -> sess_uid sm sid = t_owner (st x) ->
  exists code, (400 <= code)%Z /\
    step dr nr sm f x (OLeave sid true) = (mkState (st x) (ca x) 0, [(sid, Ctrl code [])]).
Proof. exact (owner_leave_refused dr nr sm). Qed.

(* The owner cannot give ownership up: after any request of the owner (attached or offline path,
   any mode string) topics.owner is unchanged and the owner's row is live with O in want and given. *)
Theorem c06_owner_keeps_ownership : forall x fo,
  oinv_state sm x -> actor_ok sm (snd fo) -> fault_safe fo -> op_user sm (snd fo) = t_owner (st x) ->
  let x' := fst (step_f dr nr sm x fo) in
  t_owner (st x') = t_owner (st x) /\
  exists w g, smode (st x') (t_owner (st x)) = Some (w, g, false) /\ is_owner w = true /\ is_owner g = true.
Proof. exact (step_owner_self dr nr sm). Qed.

(* Ownership moves only by acceptance: if topics.owner changes at a step, the actor asked for O
   explicitly in his own {sub}/{set sub}, his previous live row had O in given (and not in want), he
   is the new owner, and the previous owner is left with O neither in want nor in given. *)
Theorem c06_transfer : forall x fo,
  oinv_state sm x -> actor_ok sm (snd fo) -> fault_safe fo ->
  let x' := fst (step_f dr nr sm x fo) in
  t_owner (st x') <> t_owner (st x) ->
  asks_op sm (snd fo) /\ t_owner (st x') = op_user sm (snd fo) /\
  (exists w g, smode (st x) (op_user sm (snd fo)) = Some (w, g, false) /\ is_owner g = true /\ is_owner w = false) /\
  (exists w' g', smode (st x') (t_owner (st x)) = Some (w', g', false) /\ is_owner w' = false /\ is_owner g' = false).
Proof. exact (step_transfer dr nr sm). Qed.

(* O enters the given mode of a user only by a {set sub} of the current owner naming that user;
   a row that already had O in given (soft-deleted rows included: re-subscription restores the
   previous grant) is the only other source. *)
Theorem c06_grant_by_owner_only : forall x fo v w' g' d',
  oinv_state sm x -> actor_ok sm (snd fo) -> fault_safe fo ->
  let x' := fst (step_f dr nr sm x fo) in
  smode (st x') v = Some (w', g', d') -> is_owner g' = true -> ~ had_given_O (smode (st x) v) ->
  op_user sm (snd fo) = t_owner (st x) /\ is_set_op sm (snd fo) v.
Proof. exact (step_grant dr nr sm). Qed.

(* With store faults: the statement for histories in which faulted requests do not name O. *)
Theorem c06_one_owner_faults_partial : forall s h, sinv s -> hist_ok sm h ->
  let x := fst (run dr nr sm (mkState s None 0) h) in
  store_owners (st x) = [t_owner (st x)] /\
  match ca x with Some c => cache_owners c = [c_owner c] /\ c_owner c = t_owner (st x) | None => True end.
Proof. exact (run_one_owner dr nr sm). Qed.
End C06.

(* The full statement over ALL fault plans is REFUTED by the faithful model (known finding
   stored-owner-count-2-after-store-fault): the acceptance of a transfer makes three separate store
   writes; when the second one fails the accepting user already has O in want and given while the
   previous owner still has it. *)
Definition c06_one_owner_faults_statement : Prop :=
  forall sm s h, sinv s -> Forall (fun fo => actor_ok sm (snd fo)) h ->
    let x := fst (run (fun _ _ => None) (fun x => x) sm (mkState s None 0) h) in
    store_owners (st x) = [t_owner (st x)].

Definition c06_w_store : store :=
  ad_sub_create (ad_sub_create (mkStore true 0 0 0 47 0 [] [] [] [(1, 47); (2, 47)]) 1 255 255) 2 47 255.
Definition c06_w_sess : sessmap := [(1, 1); (2, 2)].
Definition c06_w_full : list N := [74; 82; 87; 80; 65; 83; 68; 79].   (* "JRWPASDO" *)

Example c06_w_store_ok : sinv c06_w_store.
Proof.
  apply sinv_add_row; [|discriminate|reflexivity].
  apply sinv_new_topic; try reflexivity; try discriminate.
  intros u acc. cbn. destruct (u =? 1); [intros H; inversion H; reflexivity|].
  destruct (u =? 2); [intros H; inversion H; reflexivity|discriminate].
Qed.

Theorem c06_one_owner_faults_refuted : ~ c06_one_owner_faults_statement.
Proof.
  intros H.
  specialize (H c06_w_sess c06_w_store [(NoFault, OSub 2 [] false); (FailAt 2, OSetSub 2 0 c06_w_full)] c06_w_store_ok).
  assert (Forall (fun fo => actor_ok c06_w_sess (snd fo)) [(NoFault, OSub 2 [] false); (FailAt 2, OSetSub 2 0 c06_w_full)]) as A
    by (repeat constructor; cbn; discriminate).
  specialize (H A). vm_compute in H. discriminate H.
Qed.

(* Owner-only requests (gate model Sys/OwnerGate.v): a {del topic}, {set desc public|trusted|defacs}
   or {set tags} is accepted with a topic-wide effect only from the user the code takes for the
   owner on that path (Topic.owner when the topic is loaded, O in the stored want & given otherwise);
   by sinv_eff_owner_iff / oinv_cached_owner_iff both readings name the one owner of c06_one_owner. *)
Theorem c06_owner_only_ops : forall k r code, (g_attached r = true -> g_loaded r = true) ->
  gate k r = GAll code -> g_is_owner r = true /\ code = 200%Z.
Proof. exact gate_all_owner. Qed.

Theorem c06_owner_only_ops_set_attached : forall k r code, k <> GDelTopic -> gate k r = GAll code -> g_attached r = true.
Proof. exact gate_set_attached. Qed.

Theorem c06_owner_readings_agree : forall sm s c u, oinv sm s c ->
  (c_owner c = u <-> u = t_owner s) /\
  ((exists w g, smode s u = Some (w, g, false) /\ is_owner (N.land w g) = true) <-> u = t_owner s).
Proof. intros sm s c u I. split; [exact (oinv_cached_owner_iff sm s c u I)|apply sinv_eff_owner_iff; apply I]. Qed.

Print Assumptions c06_reachable.
Print Assumptions c06_one_owner.
Print Assumptions c06_owner_not_demoted_by_others.
Print Assumptions c06_owner_cannot_leave.
Print Assumptions c06_owner_keeps_ownership.
Print Assumptions c06_transfer.
Print Assumptions c06_grant_by_owner_only.
Print Assumptions c06_one_owner_faults_partial.
Print Assumptions c06_one_owner_faults_refuted.
Print Assumptions c06_owner_only_ops.
Print Assumptions c06_owner_only_ops_set_attached.
Print Assumptions c06_owner_readings_agree.

(* the hypotheses are satisfiable, and the laws are not vacuous *)
Example c06_ex_initial_state_ok : sinv c06_w_store /\ hist_ok c06_w_sess [(NoFault, OSub 2 [] false); (NoFault, OSetSub 2 0 c06_w_full)].
Proof. split; [exact c06_w_store_ok|]. repeat constructor; cbn; discriminate. Qed.

Example c06_ex_transfer_happens :
  let x := fst (run (fun _ _ => None) (fun x => x) c06_w_sess (mkState c06_w_store None 0)
                    [(NoFault, OSub 2 [] false); (NoFault, OSetSub 2 0 c06_w_full)]) in
  t_owner (st x) = 2 /\ store_owners (st x) = [2] /\ option_map cache_owners (ca x) = Some [2] /\
  smode (st x) 1 = Some (127, 127, false).
Proof. vm_compute. repeat split. Qed.

Example c06_ex_gate :
  gate GDelTopic (mkGreq true true true true true false) = GAll 200%Z /\
  gate GDelTopic (mkGreq true true false false true false) = GOwn 200%Z /\
  gate GSetTags (mkGreq true true false false true true) = GNone 403%Z /\
  gate GSetTrusted (mkGreq true true true true true false) = GNone 403%Z /\
  gate (GSetDefacs true) (mkGreq true true true true true false) = GNone 400%Z.
Proof. repeat split. Qed.
