(* C12  Secrets cannot be forged, outlive their validity, or be guessed by brute force.
   Theorems only; each is closed by [exact] of a lemma of Pure/TokenProofs.v,
   Pure/CodeProofs.v, Pure/SecretsProofs.v.

   The keyed hashes (HMAC-SHA256 for tokens, HMAC-MD5 for API keys), bcrypt
   verification, strings.ToLower and the login/password policies are universally
   quantified functions ([mac], [cmp], [lower], ...): every theorem holds for
   every such function; where the code relies on a property of it (output
   length of the MAC, idempotence of lower-casing) the property is an explicit
   premise.  What the theorems do NOT say: that producing a valid pair
   (data, mac key data) without the key is hard.  [c12_token_mutation_is_forgery]
   and [c12_apikey_sound] reduce every acceptance of a non-issued secret to
   such a pair; the hardness of finding one (HMAC security) is part of the
   trusted base. *)
From Coq Require Import NArith ZArith List Bool.
From Tinode Require Import Base.Base64Lite Pure.Token Pure.TokenProofs Pure.Code Pure.CodeProofs
  Pure.ApiKey Pure.Basic Pure.SecretsProofs Sys.Relogin Sys.ReloginProofs.
Import ListNotations.
Open Scope N_scope.

(* ------------------------------ tokens ------------------------------ *)

(* an accepted token is at least 50 bytes, its bytes 18..50 are the MAC of its
   first 18 bytes under the server key, those bytes are the encoding of the
   fields read, the serial is the configured one, it has not expired at [now]
   (with the one second of slack of the source), the level is in range, and the
   result is exactly (uid, level, features) of the signed fields *)
Theorem c12_token_accept_sound :
  forall (mac : list N -> list N -> list N) key sn now tok r,
  is_bytes tok ->
  authenticate mac key sn now tok = TOk r ->
  let f := decode_fields (tok_data tok) in
  (50 <= length tok)%nat /\
  tok_sig tok = mac key (tok_data tok) /\
  encode_fields f = tok_data tok /\
  f_level f <= 30 /\
  Z.of_N (f_serial f) = sn /\
  (now + second <= Z.of_N (f_expires f) * second)%Z /\
  r = mkR (f_uid f) (f_level f) (f_features f).
Proof. exact accept_sound. Qed.
Print Assumptions c12_token_accept_sound.

(* an issued token authenticates, until its expiry field, as exactly the record it was issued for *)
Theorem c12_token_roundtrip :
  forall (mac : list N -> list N -> list N) key sn deflt now0 g tok exp now,
  (forall k d, length (mac k d) = 32%nat) ->
  (0 <= sn < 65536)%Z -> (0 <= g_level g <= 30)%Z -> g_uid g < 2 ^ 64 -> g_features g < 2 ^ 16 ->
  gen_secret mac key sn deflt now0 g = Some (tok, exp) ->
  (now + second <= expiry_field exp * second)%Z ->
  authenticate mac key sn now tok = TOk (mkR (g_uid g) (Z.to_N (g_level g)) (g_features g)).
Proof. exact roundtrip. Qed.
Print Assumptions c12_token_roundtrip.

(* whatever the signer issued ([issued] = any set of (data, signature) pairs):
   if the first 50 bytes of an accepted token are not one of them, the token
   exhibits a valid (data, MAC) pair the signer never produced - a MAC forgery.
   Covers every single- and multi-bit mutation and every re-assembly. *)
Theorem c12_token_mutation_is_forgery :
  forall (mac : list N -> list N -> list N) key sn now (issued : list (list N * list N)) tok' r,
  is_bytes tok' ->
  ~ In (firstn 50 tok') (map (fun p => fst p ++ snd p) issued) ->
  authenticate mac key sn now tok' = TOk r ->
  mac key (tok_data tok') = tok_sig tok' /\ ~ In (tok_data tok', tok_sig tok') issued.
Proof. exact mutation_is_forgery. Qed.
Print Assumptions c12_token_mutation_is_forgery.

Theorem c12_token_truncated_refused :
  forall (mac : list N -> list N -> list N) key sn now tok,
  (length tok < 50)%nat -> authenticate mac key sn now tok = TErr TMalformed.
Proof. exact truncated_refused. Qed.
Print Assumptions c12_token_truncated_refused.

Theorem c12_token_foreign_key_refused :
  forall (mac : list N -> list N -> list N) key key' sn now f,
  length (mac key' (encode_fields f)) = 32%nat ->
  mac key' (encode_fields f) <> mac key (encode_fields f) ->
  authenticate mac key sn now (encode_fields f ++ mac key' (encode_fields f)) = TErr TFailed.
Proof. exact foreign_key_refused. Qed.
Print Assumptions c12_token_foreign_key_refused.

Theorem c12_token_expired_refused :
  forall (mac : list N -> list N -> list N) key sn now tok r,
  (Z.of_N (f_expires (decode_fields (tok_data tok))) * second < now + second)%Z ->
  authenticate mac key sn now tok <> TOk r.
Proof. exact expired_refused. Qed.
Print Assumptions c12_token_expired_refused.

(* accepted at [now] -> now is before the instant asked for at issue: neither
   the uint32 wrap of the expiry second (lifetimes reaching beyond 2106), nor
   the int64 wrap of expire_in * 1e9, nor the millisecond rounding can produce
   a LATER validity than requested (they can only shorten it: fail-safe) *)
Theorem c12_token_never_outlives :
  forall (mac : list N -> list N -> list N) key sn sn' expire_in now0 g tok exp now r,
  (0 <= now0)%Z -> (0 < expire_in)%Z ->
  gen_secret mac key sn (default_lifetime expire_in) now0 g = Some (tok, exp) ->
  authenticate mac key sn' now tok = TOk r ->
  (now < now0 + requested_lifetime expire_in g)%Z.
Proof. exact never_outlives. Qed.
Print Assumptions c12_token_never_outlives.

(* wrong serial: the serial travels as uint16, the configuration holds an int *)
Definition c12_token_wrong_serial_statement : Prop :=
  forall (mac : list N -> list N -> list N), (forall k d, length (mac k d) = 32%nat) ->
  forall key sn sn' exp g now r, sn' <> sn ->
  authenticate mac key sn' now (issue_at mac key sn exp g) <> TOk r.

(* FINDING (findings/C12.md, token-serial-alias): a server configured with serial 5
   accepts the tokens issued under serial 65541 *)
Theorem c12_token_wrong_serial_refuted : ~ c12_token_wrong_serial_statement.
Proof. exact wrong_serial_refuted. Qed.
Print Assumptions c12_token_wrong_serial_refuted.

(* ... and that is the only way: refused unless the serials agree modulo 65536;
   in particular always refused when the issuing serial is within uint16 *)
Theorem c12_token_wrong_serial_partial :
  forall (mac : list N -> list N -> list N) key sn sn' exp g now r,
  (forall k d, length (mac k d) = 32%nat) ->
  sn' <> (sn mod 65536)%Z ->
  authenticate mac key sn' now (issue_at mac key sn exp g) <> TOk r.
Proof. exact issued_wrong_serial_refused. Qed.
Print Assumptions c12_token_wrong_serial_partial.

(* a server whose configured serial is outside 0..65535 refuses every token, its own included *)
Theorem c12_token_serial_out_of_range_refuses_all :
  forall (mac : list N -> list N -> list N) key sn now tok r,
  is_bytes tok -> ~ (0 <= sn < 65536)%Z -> authenticate mac key sn now tok <> TOk r.
Proof. exact serial_out_of_range_refuses_all. Qed.
Print Assumptions c12_token_serial_out_of_range_refuses_all.

(* ------------------------------ API keys ------------------------------ *)

(* a valid key decodes (URL-safe base64, CR/LF skipped) to bytes whose tail is
   the MAC of the first 8 bytes under the server's salt: any accepted key not
   produced with the salt exhibits a MAC forgery *)
Theorem c12_apikey_sound :
  forall (mac : list N -> list N -> list N) salt key r,
  check_api_key mac salt key = AKValid r ->
  decoded_len (length key) = 24%nat /\
  exists data, b64url_decode key = Some data /\
    nth 0 data 0 = 1 /\ (8 <= length data)%nat /\
    skipn 8 data = mac salt (firstn 8 data) /\
    r = (nth 7 data 0 =? 1).
Proof. exact apikey_sound. Qed.
Print Assumptions c12_apikey_sound.

Theorem c12_apikey_unsigned_refused :
  forall (mac : list N -> list N -> list N) salt key data,
  b64url_decode key = Some data ->
  skipn 8 data <> mac salt (firstn 8 data) ->
  forall r, check_api_key mac salt key <> AKValid r.
Proof. exact apikey_unsigned_refused. Qed.
Print Assumptions c12_apikey_unsigned_refused.

(* "refused" as an orderly answer *)
Definition c12_apikey_no_panic_statement : Prop :=
  forall (mac : list N -> list N -> list N) salt key, check_api_key mac salt key <> AKPanic.

(* FINDING (findings/C12.md, apikey-panic): 32 line feeds, or "AQAA" and 28 line feeds *)
Theorem c12_apikey_no_panic_refuted : ~ c12_apikey_no_panic_statement.
Proof. exact apikey_no_panic_refuted. Qed.
Print Assumptions c12_apikey_no_panic_refuted.

(* with the proposed repair there is no panic, and nothing else changes *)
Theorem c12_apikey_fixed_no_panic :
  forall (mac : list N -> list N -> list N) salt key, check_api_key_fixed mac salt key <> AKPanic.
Proof. exact apikey_fixed_no_panic. Qed.
Print Assumptions c12_apikey_fixed_no_panic.

Theorem c12_apikey_fixed_spec :
  forall (mac : list N -> list N -> list N) salt key,
  (forall k d, length (mac k d) = 16%nat) ->
  check_api_key_fixed mac salt key =
  match check_api_key mac salt key with AKPanic => AKRefused | r => r end.
Proof. exact apikey_fixed_spec. Qed.
Print Assumptions c12_apikey_fixed_spec.

(* ------------------------------ reset codes ------------------------------ *)
(* every sequence of GenSecret / Authenticate / time steps, any credentials
   interleaved; K = the cache key of one credential *)

(* between two GenSecret for a credential at most one Authenticate succeeds *)
Theorem c12_code_once :
  forall K cfg ops st, wf (cs_store st) -> no_gen K ops -> (succ_count K cfg st ops <= 1)%nat.
Proof. intros K cfg ops st. exact (once K cfg ops st). Qed.
Print Assumptions c12_code_once.

(* after max_retries failed attempts no guess - not even the right one -
   succeeds until the next GenSecret for that credential *)
Theorem c12_code_lockout :
  forall K cfg ops1 ops2 st,
  wf (cs_store st) -> linv K 0 st -> no_gen K (ops1 ++ ops2) ->
  (cc_max_retries cfg <= Z.of_nat (fail_count K cfg st ops1))%Z ->
  succ_count K cfg (fst (crun cfg st ops1)) ops2 = O.
Proof. exact lockout. Qed.
Print Assumptions c12_code_lockout.

(* the premises of the two theorems hold in every state reachable from the empty cache *)
Theorem c12_code_reachable :
  forall cfg ops K, let st := fst (crun cfg cinit ops) in wf (cs_store st) /\ linv K 0 st.
Proof.
  intros cfg ops K. destruct init_reach as [W C].
  destruct (run_reach cfg ops cinit W C) as [W1 C1]. split; [exact W1|exact (counts_linv K _ C1)].
Qed.
Print Assumptions c12_code_reachable.

(* a code is not usable beyond its life time *)
Definition c12_code_expiry_statement : Prop :=
  forall cfg st secret st' uid cred code,
  wf (cs_store st) -> split_colon secret = Some (code, cred) ->
  cstep cfg st (CAuth secret) = (st', CAuthOk uid cred) ->
  exists e, cget (key_of_cred cred) (cs_store st) = Some e /\ (cs_now st - cc_lifetime cfg <= ce_created e)%Z.

(* FINDING (findings/C12.md, code-outlives-lifetime): expire_in 10 s, right code accepted after 24 s *)
Theorem c12_code_expiry_refuted : ~ c12_code_expiry_statement.
Proof. exact code_expiry_refuted. Qed.
Print Assumptions c12_code_expiry_refuted.

(* with the proposed repair (stale rows expired before the lookup) the statement holds *)
Theorem c12_code_expiry_fixed :
  forall cfg st secret st' uid cred code,
  wf (cs_store st) -> split_colon secret = Some (code, cred) ->
  cstep_fixed cfg st (CAuth secret) = (st', CAuthOk uid cred) ->
  exists e, cget (key_of_cred cred) (cs_store st) = Some e /\ (cs_now st - cc_lifetime cfg <= ce_created e)%Z.
Proof. exact code_expiry_fixed. Qed.
Print Assumptions c12_code_expiry_fixed.

(* ------------------------------ login / password ------------------------------ *)
(* [cmp] = bcrypt.CompareHashAndPassword as a three-valued oracle over ARBITRARY stored bytes:
   BcMatch (nil) / BcMismatch (ErrMismatchedHashAndPassword) / BcError e (every other error:
   hash too short, bad prefix, newer version, unparsable or out-of-range cost, bad salt ...) *)

Theorem c12_basic_auth_sound :
  forall (lower : list N -> list N) login_ok pw_ok (cmp : list N -> list N -> bcres)
         st secret st' uid lvl,
  bstep lower login_ok pw_ok cmp st (BAuth secret) = (st', BAuthOk uid lvl) ->
  exists u p r, split_colon secret = Some (u, p) /\
    bget (lower u) (bs_store st) = Some r /\
    cmp (br_hash r) p = BcMatch /\
    uid = br_uid r /\ lvl = br_level r /\ uid <> 0 /\
    (match br_expires r with Some e => (bs_now st <= e)%Z | None => True end) /\
    st' = st.
Proof. exact basic_auth_sound. Qed.
Print Assumptions c12_basic_auth_sound.

(* a wrong password or an unknown login never authenticates (relative to [cmp]): anything but
   the oracle's "match" - mismatch AND every error - is refused *)
Theorem c12_basic_wrong_never :
  forall (lower : list N -> list N) login_ok pw_ok (cmp : list N -> list N -> bcres) st secret u p,
  split_colon secret = Some (u, p) ->
  (bget (lower u) (bs_store st) = None \/
   exists r, bget (lower u) (bs_store st) = Some r /\ cmp (br_hash r) p <> BcMatch) ->
  exists e, bstep lower login_ok pw_ok cmp st (BAuth secret) = (st, BErr e).
Proof.
  intros lower login_ok pw_ok cmp st secret u p S [G|[r [G V]]].
  - exists BEFailed. exact (basic_unknown_login_never lower login_ok pw_ok cmp st secret u p S G).
  - exact (basic_wrong_password_never lower login_ok pw_ok cmp st secret u p r S G V).
Qed.
Print Assumptions c12_basic_wrong_never.

(* for EVERY state - every stored record, ANY bytes in its secret - and every password: the
   authenticator returns success only if the oracle says match for exactly the bytes stored under
   the lower-cased login and the password presented *)
Theorem c12_basic_authenticates_only_on_match :
  forall (lower : list N -> list N) login_ok pw_ok (cmp : list N -> list N -> bcres)
         st secret u p r st' uid lvl,
  split_colon secret = Some (u, p) -> bget (lower u) (bs_store st) = Some r ->
  bstep lower login_ok pw_ok cmp st (BAuth secret) = (st', BAuthOk uid lvl) ->
  cmp (br_hash r) p = BcMatch.
Proof. exact basic_authenticates_only_on_match. Qed.
Print Assumptions c12_basic_authenticates_only_on_match.

(* ... in particular never on an oracle error (the check does not fail open) *)
Theorem c12_basic_never_on_oracle_error :
  forall (lower : list N -> list N) login_ok pw_ok (cmp : list N -> list N -> bcres)
         st secret u p r e,
  split_colon secret = Some (u, p) -> bget (lower u) (bs_store st) = Some r ->
  cmp (br_hash r) p = BcError e ->
  exists e', bstep lower login_ok pw_ok cmp st (BAuth secret) = (st, BErr e').
Proof. exact basic_never_on_oracle_error. Qed.
Print Assumptions c12_basic_never_on_oracle_error.

(* stored bytes rejected by bcrypt's header check ([bc_header] = newFromHash: shorter than 59
   bytes incl. empty / nil, first byte not '$', major version above '2', cost not two decimal
   digits / sign+digit, cost outside 4..31) authenticate with NO password at all.  Premise: the
   oracle reports the error of its own header check (CompareHashAndPassword begins with
   newFromHash); tested on every run against the real library. *)
Theorem c12_basic_malformed_hash_never_authenticates :
  forall (lower : list N -> list N) login_ok pw_ok (cmp : list N -> list N -> bcres)
         st secret u p r e,
  (forall h q e0, bc_header h = Some e0 -> cmp h q = BcError e0) ->
  split_colon secret = Some (u, p) -> bget (lower u) (bs_store st) = Some r ->
  bc_header (br_hash r) = Some e ->
  exists e', bstep lower login_ok pw_ok cmp st (BAuth secret) = (st, BErr e').
Proof. exact basic_malformed_hash_never. Qed.
Print Assumptions c12_basic_malformed_hash_never_authenticates.

(* the store anomaly: ANY bytes written over the secret of an existing login's row ([BRaw]); the
   login then authenticates with a password only if the oracle matches those bytes *)
Theorem c12_basic_raw_secret_then_auth :
  forall (lower : list N -> list N) login_ok pw_ok (cmp : list N -> list N -> bcres)
         st uid hash secret u p r,
  split_colon secret = Some (u, p) -> bget (lower u) (bs_store st) = Some r -> br_uid r = uid ->
  exists st1, bstep lower login_ok pw_ok cmp st (BRaw uid hash) = (st1, BRawOk) /\
    bget (lower u) (bs_store st1) = Some (mkBR (br_uid r) (br_level r) hash (br_expires r)) /\
    (cmp hash p <> BcMatch -> exists e', bstep lower login_ok pw_ok cmp st1 (BAuth secret) = (st1, BErr e')).
Proof. exact basic_raw_then_auth. Qed.
Print Assumptions c12_basic_raw_secret_then_auth.

(* the index expressions of newFromHash are guarded by its length test *)
Theorem c12_bcrypt_header_no_index_panic : forall h, bc_header h <> Some BcIndexPanic.
Proof. exact bc_header_no_panic. Qed.
Print Assumptions c12_bcrypt_header_no_index_panic.

(* login names are unique regardless of letter case: every reachable store, all
   operation sequences (add, update incl. rename, authenticate, time, raw secret writes) *)
Theorem c12_login_case_insensitive_unique :
  forall (lower : list N -> list N) login_ok pw_ok (cmp : list N -> list N -> bcres),
  (forall s, lower (lower s) = lower s) ->
  forall ops k1 r1 k2 r2,
  let s := bs_store (fst (brun lower login_ok pw_ok cmp binit ops)) in
  In (k1, r1) s -> In (k2, r2) s -> lower k1 = lower k2 -> k1 = k2 /\ r1 = r2.
Proof. exact logins_unique. Qed.
Print Assumptions c12_login_case_insensitive_unique.

Theorem c12_login_other_case_refused :
  forall (lower : list N -> list N) login_ok pw_ok (cmp : list N -> list N -> bcres)
         st uid lvl secret hash lt u p r,
  split_colon secret = Some (u, p) -> bget (lower u) (bs_store st) = Some r ->
  exists e, bstep lower login_ok pw_ok cmp st (BAdd uid lvl secret hash lt) = (st, BErr e).
Proof. exact add_other_case_refused. Qed.
Print Assumptions c12_login_other_case_refused.

(* ------------------------------ non-vacuity ------------------------------ *)
Definition ex_mac (k d : list N) : list N := repeat (le_val k mod 256 + le_val d mod 251) 32.

Example c12_ex_roundtrip :
  let g := mkG 12345 20 1 0 in
  match gen_secret ex_mac [7] 5 (default_lifetime 3600) 1790000000000000000 g with
  | Some (tok, _) => authenticate ex_mac [7] 5 1790000000000000000 tok = TOk (mkR 12345 20 1)
                     /\ authenticate ex_mac [7] 6 1790000000000000000 tok = TErr TFailed
                     /\ authenticate ex_mac [7] 5 1790003600000000000 tok = TErr TExpired
                     /\ authenticate ex_mac [7] 5 1790000000000000000 (firstn 49 tok) = TErr TMalformed
  | None => False
  end.
Proof. vm_compute. repeat split. Qed.

Example c12_ex_code :
  let cfg := mkCC 2 10000000000 in
  snd (crun cfg cinit [CGen [97] 9 0 [49; 50]; CAuth [49; 51; 58; 97]; CAuth [49; 50; 58; 97]; CAuth [49; 50; 58; 97]])
  = [CGenOk [49; 50]; CErr CEFailed; CAuthOk 9 [97]; CErr CEFailed].
Proof. reflexivity. Qed.

(* login / password: a well-formed header, the anomaly classes, and the authenticator above an
   oracle that satisfies the premise of [c12_basic_malformed_hash_never_authenticates] *)
Definition ex_bc_hash : list N := [36; 50; 97; 36; 48; 52; 36; 81; 99; 69; 97; 71; 112; 98; 79; 75; 72; 46; 115; 73; 80; 78; 109; 111; 46; 55; 71; 89; 101; 79; 48; 78; 117; 77; 85; 51; 70; 113; 89; 56; 98; 51; 85; 77; 82; 78; 56; 108; 83; 83; 81; 97; 121; 105; 80; 100; 82; 104; 82; 54].
Definition ex_cmp (h p : list N) : bcres :=
  match bc_header h with Some e => BcError e | None => if bytes_eqb p [112; 119] then BcMatch else BcMismatch end.
Example c12_ex_bcrypt_header :
  bc_header ex_bc_hash = None /\ bc_header [] = Some BcTooShort /\ bc_header (firstn 58 ex_bc_hash) = Some BcTooShort
  /\ bc_header (firstn 59 ex_bc_hash) = None /\ bc_header (ex_bc_hash ++ [120]) = None
  /\ bc_header (120 :: tl ex_bc_hash) = Some BcPrefix /\ bc_header (36 :: 51 :: skipn 2 ex_bc_hash) = Some BcVersion
  /\ bc_header (firstn 4 ex_bc_hash ++ [48; 51] ++ skipn 6 ex_bc_hash) = Some BcCostRange
  /\ bc_header (firstn 4 ex_bc_hash ++ [51; 50] ++ skipn 6 ex_bc_hash) = Some BcCostRange
  /\ bc_header (firstn 4 ex_bc_hash ++ [43; 52] ++ skipn 6 ex_bc_hash) = None
  /\ bc_header (firstn 4 ex_bc_hash ++ [32; 52] ++ skipn 6 ex_bc_hash) = Some BcCostSyntax
  /\ bc_header (repeat 112 60) = Some BcPrefix.
Proof. vm_compute. repeat split. Qed.
Example c12_ex_basic_raw :
  let idf := fun x : list N => x in
  let tt := fun _ : list N => true in
  snd (brun idf tt tt ex_cmp binit
         [BAdd 1 20 [97; 58; 112; 119] ex_bc_hash 0; BAuth [97; 58; 112; 119]; BAuth [97; 58; 120];
          BRaw 1 []; BAuth [97; 58; 112; 119]; BAuth [97; 58];
          BRaw 1 (firstn 30 ex_bc_hash); BAuth [97; 58; 112; 119];
          BRaw 1 ex_bc_hash; BAuth [97; 58; 112; 119]; BRaw 2 []])
  = [BAddOk 20; BAuthOk 1 20; BErr BEFailed; BRawOk; BErr BEFailed; BErr BEFailed; BRawOk; BErr BEFailed;
     BRawOk; BAuthOk 1 20; BErr BENotFound].
Proof. vm_compute. reflexivity. Qed.

Example c12_ex_code_lockout :
  let cfg := mkCC 2 10000000000 in
  snd (crun cfg cinit [CGen [97] 9 0 [49; 50]; CAuth [49; 51; 58; 97]; CAuth [49; 52; 58; 97]; CAuth [49; 50; 58; 97]])
  = [CGenOk [49; 50]; CErr CEFailed; CErr CEFailed; CErr CEFailed].
Proof. reflexivity. Qed.

(* ------------------------------ token re-issuance on {login} ------------------------------ *)
(* Session.login / Session.onLogin (Sys/Relogin.v): which token is handed back after a login by
   token, by reset code, by password; with which user, level, feature flags and expiry.
   [tok_fields] = the signed fields of a token, [tok_expiry] its expiry second,
   [tok_restricted] = the no-login feature bit (auth.FeatureNoLogin) is signed into it.
   Every theorem holds for every keyed hash, configuration, environment (user state,
   validators), starting session, and instant. *)
Open Scope Z_scope.

(* (ii) presenting a restricted token never authenticates the session: every branch of login *)
Theorem c12_relogin_restricted_never_authenticates :
  forall (mac : list N -> list N -> list N) c env s clk tok,
  tok_restricted tok = true ->
  fst (login mac c env s clk (SecToken tok)) = s.
Proof. exact restricted_never_authenticates. Qed.
Print Assumptions c12_relogin_restricted_never_authenticates.

(* one login with a restricted token, processed promptly (clock readings ordered, less than
   0.9995 s from the expiry check to GenSecret): the session is left alone, the token handed back
   is restricted, signed for the same user and level, and expires no later than - in fact in
   the very second in which - the presented token expires *)
Theorem c12_relogin_restricted_step :
  forall (mac : list N -> list N -> list N) c env s clk tok s' code tok' exp,
  tok_restricted tok = true -> prompt clk ->
  login mac c env s clk (SecToken tok) = (s', mkLO code (Some (tok', exp))) ->
  s' = s /\ tok_restricted tok' = true /\
  f_uid (tok_fields tok') = (f_uid (tok_fields tok) mod 2 ^ 64)%N /\
  f_level (tok_fields tok') = f_level (tok_fields tok) /\
  tok_expiry tok' <= tok_expiry tok /\
  (tok_expiry tok < 2 ^ 32 -> tok_expiry tok' = tok_expiry tok).
Proof. exact restricted_step. Qed.
Print Assumptions c12_relogin_restricted_step.

(* (i)+(ii) ARBITRARY chains of logins: [chain mac c tok0 tok] = tok is tok0 or was handed back by
   a (prompt) login - any session, any environment, any instant - that presented a token of the
   chain.  Every token derived from a restricted secret is restricted, for the same level (and
   user), and its expiry second never exceeds that of the secret the chain started from. *)
Theorem c12_relogin_chain :
  forall (mac : list N -> list N -> list N) c tok0 tok,
  chain mac c tok0 tok -> tok_restricted tok0 = true ->
  tok_restricted tok = true /\ tok_expiry tok <= tok_expiry tok0 /\
  f_level (tok_fields tok) = f_level (tok_fields tok0) /\
  ((f_uid (tok_fields tok0) < 2 ^ 64)%N -> f_uid (tok_fields tok) = f_uid (tok_fields tok0)).
Proof. exact chain_restricted. Qed.
Print Assumptions c12_relogin_chain.

(* ... hence no token of the chain is accepted (by any key / serial) at or after the expiry
   instant of the secret the chain started from: exchanging a restricted secret again and
   again buys no time *)
Theorem c12_relogin_chain_never_outlives :
  forall (mac : list N -> list N -> list N) c tok0 tok key sn now r,
  chain mac c tok0 tok -> tok_restricted tok0 = true ->
  authenticate mac key sn now tok = TOk r ->
  now + second <= tok_expiry tok0 * second.
Proof. exact chain_never_outlives. Qed.
Print Assumptions c12_relogin_chain_never_outlives.

(* the same over HISTORIES: a list of logins, each with its own session, environment and clock,
   each presenting either an independently obtained secret ([Indep]) or the token handed back by
   an earlier login of the list ([Earlier j]); [descends reqs i k] = login k presents the token of
   a login that presents the token of ... login i.  Whatever else happens in the history, a token
   that descends from a restricted one is restricted and does not expire later, ... *)
Theorem c12_relogin_history :
  forall (mac : list N -> list N -> list N) c reqs i k ti tk,
  (forall r, In r reqs -> prompt (rq_clk r)) ->
  descends reqs i k ->
  out_tok (nth i (history mac c reqs) no_out) = Some ti ->
  out_tok (nth k (history mac c reqs) no_out) = Some tk ->
  tok_restricted ti = true ->
  tok_restricted tk = true /\ tok_expiry tk <= tok_expiry ti.
Proof. exact history_restricted. Qed.
Print Assumptions c12_relogin_history.

(* ... and the login that presents it leaves its session as it was *)
Theorem c12_relogin_history_never_authenticates :
  forall (mac : list N -> list N -> list N) c reqs j k r tj,
  nth_error reqs k = Some r -> rq_src r = Earlier j -> (j < k)%nat ->
  out_tok (nth j (history mac c reqs) no_out) = Some tj -> tok_restricted tj = true ->
  fst (nth k (history mac c reqs) no_out) = rq_sess r.
Proof. exact history_never_authenticates. Qed.
Print Assumptions c12_relogin_history_never_authenticates.

(* the statement without the promptness premise *)
Definition c12_relogin_never_outlives_statement : Prop := relogin_never_outlives_statement.

(* the faithful model refutes it: the remaining lifetime is measured by time.Until inside
   Authenticate and added to a LATER time.Now() inside GenSecret; a login that stalls for two
   seconds between the two hands back a token that expires two seconds later (witness) *)
Theorem c12_relogin_never_outlives_refuted : ~ c12_relogin_never_outlives_statement.
Proof. exact relogin_never_outlives_refuted. Qed.
Print Assumptions c12_relogin_never_outlives_refuted.

(* ... and that is all there is to it: for ANY clock the excess is at most the time the login
   itself took between the two readings plus the half millisecond of rounding, provided
   time.Until still saw a positive remaining lifetime (the premise excludes exactly the case
   [relogin_zero_remaining_gets_default] below) *)
Theorem c12_relogin_never_outlives_partial :
  forall (mac : list N -> list N -> list N) c env s clk tok s' code tok' exp,
  tok_restricted tok = true ->
  0 <= t_auth clk -> t_until clk <= t_gen clk -> t_until clk < tok_expiry tok * second ->
  login mac c env s clk (SecToken tok) = (s', mkLO code (Some (tok', exp))) ->
  s' = s /\ tok_restricted tok' = true /\
  f_uid (tok_fields tok') = (f_uid (tok_fields tok) mod 2 ^ 64)%N /\
  f_level (tok_fields tok') = f_level (tok_fields tok) /\
  tok_expiry tok' * second <= tok_expiry tok * second + (t_gen clk - t_until clk) + 500000.
Proof. exact restricted_step_general. Qed.
Print Assumptions c12_relogin_never_outlives_partial.

(* remaining lifetime exactly 0 ns at time.Until (needs more than a second between two
   statements of Authenticate): GenSecret reads 0 as "default": model-only observation *)
Example c12_relogin_zero_remaining_gets_default :
  let clk := mkClk wT (wT + 3600 * second) (wT + 3600 * second) in
  match login wmac wcfg wenv (mkSess 0 0) clk (SecToken wtok) with
  | (_, mkLO _ (Some (tok', _))) => tok_expiry tok' = tok_expiry wtok + 1209600 /\ tok_restricted tok' = true
  | _ => False
  end.
Proof. exact relogin_zero_remaining_gets_default. Qed.

(* (iii) a full login - any scheme; record without the no-login bit, user in state OK, nothing
   left to validate: the session is authenticated as exactly the record's user and level, and
   the token handed back is GenSecret of (that user, that level, features + validated,
   Lifetime 0 = the CONFIGURED lifetime counted from this login) *)
Theorem c12_relogin_full_login :
  forall (mac : list N -> list N -> list N) c env s clk sec rec,
  s_uid s = 0%N -> sec <> SecUnknownScheme ->
  authenticate_secret mac c env clk sec = ARec rec ->
  le_state_ok env = true ->
  has_feature (g_features rec) feature_nologin = false ->
  (has_feature (g_features rec) feature_validated = true \/ le_unvalidated env = false) ->
  login mac c env s clk sec =
  (mkSess (g_uid rec) (g_level rec),
   mkLO LOk200 (Some (issue_at mac (tc_key c) (tc_serial c) (round_ms (t_gen clk + tc_lifetime c))
                        (mkG (g_uid rec) (g_level rec) (N.lor (g_features rec) feature_validated) 0),
                      round_ms (t_gen clk + tc_lifetime c)))).
Proof. exact full_login. Qed.
Print Assumptions c12_relogin_full_login.

(* ... and that token is not accepted beyond the configured lifetime counted from the login *)
Theorem c12_relogin_full_login_bound :
  forall (mac : list N -> list N -> list N) c env s clk sec rec s' code tok exp key' sn' now r,
  0 <= t_gen clk -> 0 < tc_lifetime c ->
  s_uid s = 0%N -> sec <> SecUnknownScheme ->
  authenticate_secret mac c env clk sec = ARec rec ->
  le_state_ok env = true ->
  has_feature (g_features rec) feature_nologin = false ->
  (has_feature (g_features rec) feature_validated = true \/ le_unvalidated env = false) ->
  login mac c env s clk sec = (s', mkLO code (Some (tok, exp))) ->
  authenticate mac key' sn' now tok = TOk r ->
  now < t_gen clk + tc_lifetime c.
Proof. exact full_login_bound. Qed.
Print Assumptions c12_relogin_full_login_bound.

(* a login by reset code never authenticates the session; the token handed back is restricted,
   level None, for the user the code was made for, with the code authenticator's lifetime
   counted from the login *)
Theorem c12_relogin_code_login :
  forall (mac : list N -> list N -> list N) c env s clk uid,
  s_uid s = 0%N -> le_state_ok env = true -> 0 < le_code_lifetime env ->
  let exp := round_ms (t_gen clk + le_code_lifetime env) in
  login mac c env s clk (SecCode (Some uid)) =
  (s, mkLO (if le_unvalidated env then LValidate300 else LOk200)
           (Some (issue_at mac (tc_key c) (tc_serial c) exp
                    (mkG uid 0 (if le_unvalidated env then feature_nologin
                                else N.lor feature_nologin feature_validated) (le_code_lifetime env)),
                  exp))).
Proof. exact code_login. Qed.
Print Assumptions c12_relogin_code_login.

(* measured against the expiry of the CODE (generated at [created], presented within its life
   time) the token handed back is late: statement, refuted by the faithful model (the code
   authenticator reports its full lifetime, not the remaining one: code made at T, presented at
   T+600 s, token accepted at T+1200 s, code lifetime 900 s) ... *)
Definition c12_relogin_code_statement : Prop := relogin_code_statement.
Theorem c12_relogin_code_refuted : ~ c12_relogin_code_statement.
Proof. exact relogin_code_refuted. Qed.
Print Assumptions c12_relogin_code_refuted.

(* ... what holds: not accepted beyond one code lifetime counted from the LOGIN (so less than two
   code lifetimes from the code's creation; the code is single-use - c12_code_once - and every
   token derived from this one is bounded by it - c12_relogin_chain - so it cannot be repeated) *)
Theorem c12_relogin_code_partial :
  forall (mac : list N -> list N -> list N) c env s clk uid s' code tok exp key' sn' now r,
  0 <= t_gen clk -> 0 < le_code_lifetime env ->
  login mac c env s clk (SecCode (Some uid)) = (s', mkLO code (Some (tok, exp))) ->
  authenticate mac key' sn' now tok = TOk r ->
  now < t_gen clk + le_code_lifetime env.
Proof. exact code_login_bound. Qed.
Print Assumptions c12_relogin_code_partial.

(* the temporary token handed to a credential validator when a credential is added to an existing
   account (replyUpdateUser, Topic.replySetCred): restricted, level None, for that user, and not
   accepted beyond 24 h from its issue; by c12_relogin_chain the same holds for everything it is
   exchanged for *)
Theorem c12_tmp_token_update_cred :
  forall (mac : list N -> list N -> list N) c now uid tok exp,
  tmp_token mac c now (update_cred_rec uid) = Some (tok, exp) ->
  tok_restricted tok = true /\ f_level (tok_fields tok) = 0%N /\ f_uid (tok_fields tok) = (uid mod 2 ^ 64)%N /\
  forall key' sn' now' r, 0 <= now -> authenticate mac key' sn' now' tok = TOk r -> now' < now + tmp_token_lifetime.
Proof. exact tmp_token_update. Qed.
Print Assumptions c12_tmp_token_update_cred.

(* the one made when an account is created (replyCreateUser) carries NO no-login bit and level
   Auth: it is a 24 h login token (as the code is; presenting it is a full login) *)
Theorem c12_tmp_token_create_account :
  forall (mac : list N -> list N -> list N) c now uid tok exp,
  tmp_token mac c now (create_cred_rec uid) = Some (tok, exp) ->
  tok_restricted tok = false /\ f_level (tok_fields tok) = 20%N /\ f_uid (tok_fields tok) = (uid mod 2 ^ 64)%N /\
  forall key' sn' now' r, 0 <= now -> authenticate mac key' sn' now' tok = TOk r -> now' < now + tmp_token_lifetime.
Proof. exact tmp_token_create. Qed.
Print Assumptions c12_tmp_token_create_account.

(* non-vacuity: a restricted one hour token exchanged twice, 100 s and 1000 s after issue, on
   fresh sessions: both times restricted, same expiry second, session not authenticated; the
   same token without the no-login bit authenticates and is renewed for two weeks *)
Example c12_ex_relogin :
  let clk1 := mkClk (wT + 100 * second) (wT + 100 * second + 20000) (wT + 100 * second + 900000) in
  let clk2 := mkClk (wT + 1000 * second) (wT + 1000 * second + 20000) (wT + 1000 * second + 900000) in
  match login wmac wcfg wenv (mkSess 0 0) clk1 (SecToken wtok) with
  | (s1, mkLO LOk200 (Some (tok1, _))) =>
    s1 = mkSess 0 0 /\ tok_restricted tok1 = true /\ tok_expiry tok1 = tok_expiry wtok /\
    match login wmac wcfg wenv (mkSess 0 0) clk2 (SecToken tok1) with
    | (s2, mkLO LOk200 (Some (tok2, _))) =>
      s2 = mkSess 0 0 /\ tok_restricted tok2 = true /\ tok_expiry tok2 = tok_expiry wtok
    | _ => False
    end
  | _ => False
  end /\
  match login wmac wcfg wenv (mkSess 0 0) clk1
          (SecToken (issue_at wmac [7%N] 5 (wT + 3600 * second) (mkG 12345 20 0 0))) with
  | (s1, mkLO LOk200 (Some (tok1, _))) =>
    s1 = mkSess 12345 20 /\ tok_restricted tok1 = false /\ tok_expiry tok1 = 1790000000 + 100 + 1209600
  | _ => False
  end.
Proof. vm_compute. repeat split. Qed.

(* a history of three logins, the second and third presenting what the previous one handed back *)
Example c12_ex_history :
  let clk n := mkClk (wT + n * second) (wT + n * second + 20000) (wT + n * second + 900000) in
  let rq s n := mkRq s wenv (mkSess 0 0) (clk n) in
  let reqs := [rq (Indep (SecToken wtok)) 100; rq (Earlier 0%nat) 1000; rq (Earlier 1%nat) 3000] in
  descends reqs 0 2 /\
  match map out_tok (history wmac wcfg reqs) with
  | [Some a; Some b; Some d] => tok_expiry d = tok_expiry wtok /\ tok_restricted d = true /\ a = b /\ b = d
  | _ => False
  end.
Proof.
  split.
  - eapply desc_step; [eapply desc_step; [apply desc_refl| | |]| | |]; try reflexivity; repeat constructor.
  - vm_compute. repeat split.
Qed.
