(* C08 (description part)  The live topic state and the stored state never diverge, for the fields
   that Sys/Topic.v does not model: default access, public / trusted content, tags, per-user private
   content (and the cached owner, want, given they depend on).
   Model: Sys/TopicDesc.v (one group topic: store rows, Topic cache, {sub} {leave} {set desc} {set tags}
   {get desc} {get tags} unload restart, fault plans).  Theorems only; each is closed by [exact] of a
   lemma of Sys/TopicDescProofs.v.  All statements are over arbitrary states / histories: any number of
   users, sessions, requests, any fault plan.

   [coherent_desc x]: the store is well-formed (one row per user, no O in the default access, sorted tags)
   and, when the topic is loaded, every cached description field equals [load_desc (dst x)], the cache the
   load path (initTopicGrp + loadSubscribers) builds from the stored rows.
   [dinv sm x] = [coherent_desc x] + every attached session belongs to a cached user (the inductive invariant). *)
From Coq Require Import ZArith NArith List Bool.
From Tinode Require Import Base.Util Pure.Acs Sys.Topic Sys.TopicDesc Sys.TopicDescProofs.
Import ListNotations.
Open Scope Z_scope.

(* ---- the invariant ---- *)

Theorem c08d_invariant_is_coherence : forall sm x, dinv sm x -> coherent_desc x.
Proof. exact dinv_coherent. Qed.
Print Assumptions c08d_invariant_is_coherence.

(* what the load path builds is coherent with the rows it was built from *)
Theorem c08d_load_coherent : forall s, wf_store s -> coherent_cache s (load_desc s).
Proof. exact coherent_load. Qed.
Print Assumptions c08d_load_coherent.

Theorem c08d_coherent_init : forall sm s, wf_store s -> dinv sm (mkDState s None 0).
Proof. intros sm s H. split; [exact H|exact I]. Qed.
Print Assumptions c08d_coherent_init.

(* Full statement: every request under every fault plan keeps the cache coherent with the store. *)
Definition c08d_step_coherent_statement : Prop := step_coherent_statement.

(* The faithful model REFUTES it, in three ways (each reproduced on the real server, findings/C08_desc.md):
   {set desc private} from a session that is not attached while the topic is loaded; *)
Theorem c08d_step_coherent_refuted : ~ c08d_step_coherent_statement.
Proof. exact step_coherent_refuted_offline. Qed.
Print Assumptions c08d_step_coherent_refuted.
(* an attached {set desc} that writes the topic row and the subscription row, second write failing; *)
Theorem c08d_step_coherent_refuted_partly_stored : ~ c08d_step_coherent_statement.
Proof. exact step_coherent_refuted_partly_stored. Qed.
Print Assumptions c08d_step_coherent_refuted_partly_stored.
(* {sub} of a user whose soft-deleted subscription row holds a private value. *)
Theorem c08d_step_coherent_refuted_resubscribe : ~ c08d_step_coherent_statement.
Proof. exact step_coherent_refuted_resubscribe. Qed.
Print Assumptions c08d_step_coherent_refuted_resubscribe.

(* Outside these triggers ([dtrigger] is a decidable test on the request, the state and the fault plan)
   every request of the alphabet under every fault plan keeps the invariant. *)
Theorem c08d_step_coherent_partial : forall sm f x o,
  dinv sm x -> dtrigger sm f x o = false -> dinv sm (fst (dstep_f sm x (f, o))).
Proof. exact dstep_f_inv. Qed.
Print Assumptions c08d_step_coherent_partial.

(* hence along whole histories (any length) *)
Theorem c08d_history_coherent : forall sm h x,
  dinv sm x -> dbenign sm x h -> dinv sm (fst (drun sm x h)).
Proof. exact drun_inv. Qed.
Print Assumptions c08d_history_coherent.

(* a crash during ANY request (the three triggers included, no hypothesis on the request) leaves a coherent
   state: the store is well-formed, the cache is gone and the next load builds it from the store *)
Theorem c08d_crash_coherent : forall sm k x o, dinv sm x -> dinv sm (fst (dstep_f sm x (CrashAt k, o))).
Proof. exact crash_coherent. Qed.
Print Assumptions c08d_crash_coherent.

(* ---- reload invisibility ---- *)

(* In a coherent state the answer to {get desc} / {get tags} (attached or not, any fault plan on the query)
   is the same with the topic unloaded and loaded back right before the query. *)
Theorem c08d_reload_invisible : forall sm f x q,
  coherent_desc x -> is_query q = true -> snd (dstep sm f x q) = snd (dstep sm f (dreload x) q).
Proof. exact reload_invisible_query. Qed.
Print Assumptions c08d_reload_invisible.

(* ... after any history without the triggers, from any well-formed store *)
Theorem c08d_reload_invisible_after_history : forall sm h s f q,
  wf_store s -> dbenign sm (mkDState s None 0) h -> is_query q = true ->
  let x := fst (drun sm (mkDState s None 0) h) in
  snd (dstep sm f x q) = snd (dstep sm f (dreload x) q).
Proof. exact reload_invisible_after. Qed.
Print Assumptions c08d_reload_invisible_after_history.

(* queries change neither the store nor the cache *)
Theorem c08d_query_no_change : forall sm f x q, is_query q = true ->
  dst (fst (dstep sm f x q)) = dst x /\ dca (fst (dstep sm f x q)) = dca x.
Proof. exact query_no_change. Qed.
Print Assumptions c08d_query_no_change.

(* ---- ack => stored ---- *)

(* tags: a 200 to {set tags} means the stored tags are the normalized request (no hypothesis at all) *)
Theorem c08d_ack_tags_stored : forall sm f x sid tags,
  acked sid (snd (dstep sm f x (DSetTags sid tags))) ->
  normalize_tags tags = Some (d_tags (dst (fst (dstep sm f x (DSetTags sid tags))))).
Proof. exact ack_tags_stored. Qed.
Print Assumptions c08d_ack_tags_stored.

(* description: full statement *)
Definition c08d_ack_implies_stored_statement : Prop := ack_implies_stored_statement.
(* refuted: a non-attached {set desc private=DEL} is acknowledged and the marker is stored as a value; *)
Theorem c08d_ack_implies_stored_refuted : ~ c08d_ack_implies_stored_statement.
Proof. exact ack_implies_stored_refuted_del. Qed.
Print Assumptions c08d_ack_implies_stored_refuted.
(* a non-attached {set desc public, private} is acknowledged and the public part is dropped *)
Theorem c08d_ack_implies_stored_refuted_public : ~ c08d_ack_implies_stored_statement.
Proof. exact ack_implies_stored_refuted_public. Qed.
Print Assumptions c08d_ack_implies_stored_refuted_public.
(* it holds for every request of an attached session, under every fault plan *)
Theorem c08d_ack_implies_stored_partial : forall sm f x c sid defacs pub tru priv,
  dinv sm x -> dca x = Some c -> dattached c sid = true -> dsess_uid sm sid <> 0%N ->
  acked sid (snd (dstep sm f x (DSetDesc sid defacs pub tru priv))) ->
  desc_stored (dst x) (dst (fst (dstep sm f x (DSetDesc sid defacs pub tru priv)))) (dsess_uid sm sid) defacs pub tru priv.
Proof. exact ack_desc_stored_attached. Qed.
Print Assumptions c08d_ack_implies_stored_partial.
(* and for a non-attached session that sends only a private value other than the DEL marker *)
Theorem c08d_ack_implies_stored_partial_offline : forall sm f x sid defacs pub tru priv,
  (forall c, dca x = Some c -> dattached c sid = false) -> dsess_uid sm sid <> 0%N ->
  defacs = None -> pub = 0%N -> tru = 0%N -> priv <> 1%N ->
  acked sid (snd (dstep sm f x (DSetDesc sid defacs pub tru priv))) ->
  desc_stored (dst x) (dst (fst (dstep sm f x (DSetDesc sid defacs pub tru priv)))) (dsess_uid sm sid) defacs pub tru priv.
Proof. exact ack_desc_stored_offline. Qed.
Print Assumptions c08d_ack_implies_stored_partial_offline.

(* ---- reject => no change ---- *)

Definition c08d_reject_no_change_statement : Prop := reject_no_change_statement.
(* refuted: the 500 after the failed second write leaves the topic row changed *)
Theorem c08d_reject_no_change_refuted : ~ c08d_reject_no_change_statement.
Proof. exact reject_no_change_refuted. Qed.
Print Assumptions c08d_reject_no_change_refuted.
(* it holds whenever the second adapter call of the request does not fail: every 4xx/5xx answer to
   {set desc} {set tags} {get desc} {get tags} leaves the store AND the cache exactly as they were *)
Theorem c08d_reject_no_change_partial : forall sm f x o,
  dinv sm x -> fails f 2 = false -> is_set_or_query o = true ->
  rejected (dop_sid o) (snd (dstep sm f x o)) ->
  dst (fst (dstep sm f x o)) = dst x /\ dca (fst (dstep sm f x o)) = dca x.
Proof. exact reject_no_change. Qed.
Print Assumptions c08d_reject_no_change_partial.

(* ---- the hypotheses are satisfiable; a non-trivial history ---- *)

Example c08d_witness_store_wf : wf_store w_store.
Proof. exact w_store_wf. Qed.

(* 15 requests (subscribe, default access + public + private, a failed write, tags with duplicates / upper case /
   a short tag, a private value cleared, a crash, a query, unsubscribe, unload, subscribe again): no trigger on the way *)
Example c08d_witness_history_benign : dbenign w_sm w_init w_h2.
Proof. exact w_h2_benign. Qed.

Example c08d_witness_history_final :
  let x := fst (drun w_sm w_init w_h2) in
  dinv w_sm x /\ d_auth (dst x) = 15%N /\ d_pub (dst x) = 8%N /\ d_tags (dst x) = [10%N; 13%N] /\
  dca x <> None /\ snd (drun w_sm w_init [(NoFault, DSub 1 0); (NoFault, DSetDesc 1 None 8 0 9)]) = [[(1%N, DCtrl 200)]; [(1%N, DCtrl 200)]].
Proof. exact w_h2_final. Qed.
