(* C10 Presence converges to the truth and never leaks.
   Model: Sys/Pres.v ('me', p2p and group topics of several users, the network of inter-topic
   notifications with per-(sender,destination) FIFO order and arbitrary interleaving; LOSSLESS-NETWORK
   hypothesis: no hub/topic queue overflows - a notification is dropped only when its destination topic is
   not loaded, as hub.go:247-263 does).  Lemmas: Sys/PresProofs.v.  Theorems only. *)
From Coq Require Import List NArith ZArith Bool.
From Tinode Require Import Sys.Pres Sys.PresProofs Sys.PresLeak Sys.PresStuckC10 Sys.PresStuckC10Proofs.
Import ListNotations.
Open Scope N_scope.

(* ---------------------------------------------------------------- never leaks (SAFETY, every state, every step) *)

(* Only the delivery of a notification hands {pres} frames to sessions, and every {pres} frame handed out by a p2p
   or group topic goes to an attached session whose user's cached mode (want & given) has P unless what is acs or
   gone - the exemptions of passesPresenceFilters (topic.go:230-235) are exactly these two; every frame handed out
   by a 'me' topic goes to an attached session of its owner.  `entitled_at` evaluates this in the state in
   which the delivering topic ran its handler.  The one other operation that hands frames to sessions is a
   {note} (Note): the {info} read/recv/kp frames go to attached sessions of users whose mode has R
   (`entitled_note`, evaluated right after the note: the note changes marks, never modes).  For ALL states and
   operations, hence all histories and interleavings (`reach` is not even needed). *)
Theorem c10_no_leak : forall s o, Forall (entitled_at s o) (snd (step s o)).
Proof. exact no_leak_all. Qed.
Print Assumptions c10_no_leak.

(* lifted to histories: after any history h, whatever comes next *)
Theorem c10_no_leak_histories : forall h o, Forall (entitled_at (fst (run init h)) o) (snd (step (fst (run init h)) o)).
Proof. intros h o. exact (no_leak_all _ o). Qed.
Print Assumptions c10_no_leak_histories.

(* In every reachable state the sessions attached to a p2p/group topic belong to users who are current,
   non-deleted subscribers (evictUser detaches the sessions of removed and banned users) ... *)
Theorem c10_members : forall s, reach s -> members_ok s.
Proof. exact members_ok_reach. Qed.
Print Assumptions c10_members.

(* ... hence, for all histories and interleavings: a {pres} frame handed out by a p2p/group topic reaches only
   sessions of CURRENT NON-DELETED subscribers whose want & given has P (acs and gone excepted: P is not
   required for these two, membership still is); a frame handed out by a 'me' topic reaches its owner only.
   Strangers and removed users never get a frame. *)
Theorem c10_no_leak_reachable : forall s i g rest sid user top src w,
  reach s -> take_nth i [] (s_net s) = Some (g, rest) ->
  In (Frame sid user top src w) (snd (step s (Deliver i))) ->
  match top with
  | TMe u => user = u
  | t => exists x, get_top s t = Some x /\ In (sid, user) (t_sess x) /\ cached x user = true /\
                   (is_info w = false -> exempt w = false -> is_presencer (p_mode (get_pud x user)) = true)
  end.
Proof. exact no_leak_reach. Qed.
Print Assumptions c10_no_leak_reachable.

(* ... and the {info} frames a p2p/group topic makes from a {note} of an attached session reach only attached
   sessions of CURRENT NON-DELETED subscribers whose mode has R (in-topic receipts need R, not P: topic.go:1291). *)
Theorem c10_no_leak_note : forall s sid0 u0 r w0 seq sid user top src w,
  reach s -> In (Frame sid user top src w) (snd (step s (Note sid0 u0 r w0 seq))) ->
  is_info w = true /\
  exists x, get_top (fst (step s (Note sid0 u0 r w0 seq))) top = Some x /\ In (sid, user) (t_sess x) /\
            cached x user = true /\ is_reader (p_mode (get_pud x user)) = true.
Proof. exact no_leak_note_reach. Qed.
Print Assumptions c10_no_leak_note.

(* At the SOURCE: a notification which a p2p/group topic addresses to its subscribers' 'me' topics
   (presSubsOffline: on/off/msg/del/upd/...) goes only to non-deleted subscribers whose mode has P; the
   exemptions of presOfflineFilter (pres.go:708-719) are exactly: acs, gone, and upd for joiners. *)
Theorem c10_no_leak_source : forall z t x w c fsrc ftgt sk oo g,
  In g (pres_subs_offline z t x w c fsrc ftgt sk oo) ->
  exists uid p, m_dst g = TMe uid /\ In (uid, p) (t_users x) /\ p_deleted p = false /\ m_what g = w /\
    (exempt w = false -> is_presencer (p_mode p) = true \/ (w = WUpd /\ is_joiner (p_mode p) = true)).
Proof. exact pres_subs_offline_addressed. Qed.
Print Assumptions c10_no_leak_source.

Theorem c10_no_leak_source_single : forall t uid mode w c sk oo g,
  In g (pres_single_offline t uid mode w c sk oo) ->
  exists m, mode = Some m /\ m_dst g = TMe uid /\ m_what g = w /\
    (exempt w = false -> is_presencer m = true \/ (w = WUpd /\ is_joiner m = true)).
Proof. exact pres_single_offline_addressed. Qed.
Print Assumptions c10_no_leak_source_single.

(* infoSubsOffline (pres.go:479-501), {info} read / recv / kp to the subscribers' 'me' topics: only to NON-DELETED
   subscribers whose mode has P and R, with Src = the name under which that subscriber knows the topic. *)
Theorem c10_no_leak_source_info : forall t x from w sk g,
  In g (info_subs_offline t x from w sk) ->
  exists uid p, m_dst g = TMe uid /\ In (uid, p) (t_users x) /\ p_deleted p = false /\ m_what g = w /\
    is_presencer (p_mode p) = true /\ is_reader (p_mode p) = true /\
    m_src g = original t uid /\ m_sender g = t /\ m_zombie g = false.
Proof. exact info_subs_offline_addressed. Qed.
Print Assumptions c10_no_leak_source_info.

(* EVERY notification a step puts in flight, whatever the operation (publish, {note}, message deletion,
   subscribe, leave, unsubscribe, eviction, ban, mute, unload, delivery of another notification ...): a message
   in flight after the step was in flight before, or is `fresh_ok`: if it carries CONTENT (anything but on / off
   / ?unkn / ?none / gone / acs) and goes to a 'me' topic, then its sender is a p2p/group topic in whose state
   right after the step the addressee is a non-deleted subscriber with P (upd: or J), and R too for an {info},
   and Src is that subscriber's name for the topic; an {info} goes to 'me' topics only. *)
Theorem c10_no_leak_emitted : forall s o g,
  reach s -> In g (s_net (fst (step s o))) -> In g (s_net s) \/ fresh_ok (fst (step s o)) g.
Proof. exact step_emits_reach. Qed.
Print Assumptions c10_no_leak_emitted.

(* hence, over all histories: every content notification in flight in a reachable state was addressed like that
   in some reachable state *)
Theorem c10_no_leak_in_flight : forall s, reach s -> Forall sent_ok (s_net s).
Proof. exact in_flight_reach. Qed.
Print Assumptions c10_no_leak_in_flight.

Theorem c10_info_only_to_me : forall s g,
  reach s -> In g (s_net s) -> is_info (m_what g) = true -> exists uid, m_dst g = TMe uid.
Proof. exact info_only_to_me. Qed.
Print Assumptions c10_info_only_to_me.

(* END TO END (all histories, all interleavings): a 'me' topic hands a content notification to its owner's
   sessions without any check of its own (procPresReq passes it through: PresLeak.proc_content), so the
   sender's check is the only one - and it holds: whenever a session receives on 'me' a {pres} msg / del / read
   / recv / upd or an {info} read / recv / kp with source `src`, then in some reachable state a p2p/group
   topic t with `src` = its name as this user sees it had this user as a NON-DELETED subscriber whose mode has P
   (upd: or J), and R for {info}.  A user who deleted the subscription (p2p: the perUser entry stays, with
   deleted = true and the old want/given), was evicted, or never subscribed, gets none of them. *)
Theorem c10_no_leak_content_end_to_end : forall s i g rest sid user u src w,
  reach s -> take_nth i [] (s_net s) = Some (g, rest) ->
  In (Frame sid user (TMe u) src w) (snd (step s (Deliver i))) -> is_content w = true ->
  user = u /\
  exists t s0 x p,
    (match t with TMe _ => False | _ => True end) /\ reach s0 /\ get_top s0 t = Some x /\
    In (u, p) (t_users x) /\ p_deleted p = false /\
    (is_presencer (p_mode p) = true \/ (w = WUpd /\ is_joiner (p_mode p) = true)) /\
    (is_info w = true -> is_reader (p_mode p) = true) /\ src = original t u.
Proof. exact no_leak_content_me. Qed.
Print Assumptions c10_no_leak_content_end_to_end.

(* the scenario "one p2p party deletes the subscription, the topic stays loaded, the other party types and reads":
   the removed user's session gets "gone" and nothing after it, although the deleted entry keeps P and R *)
Example c10_removed_user_example :
  (forall sid top src w, In (Frame sid 1 top src w) (snd (run init h_removed)) -> sid = 3 ->
     w = WOn \/ w = WOff \/ w = WGone \/ w = WMsg) /\
  In (Frame 3 1 (TMe 1) (TMe 2) WGone) (snd (run init h_removed)) /\
  s_net (fst (run init h_removed)) = [] /\
  exists x p, get_top (fst (run init h_removed)) (TP2P 1 2) = Some x /\ aget N.eqb 1 (t_users x) = Some p /\
              p_deleted p = true /\ is_presencer (p_mode p) = true /\ is_reader (p_mode p) = true /\
              t_loaded x = true.
Proof. exact removed_gets_nothing. Qed.

(* the hypotheses of c10_no_leak_content_end_to_end are satisfiable: a detached subscriber with P and R gets the
   key press notification on 'me' *)
Example c10_receipt_example : In (Frame 3 1 (TMe 1) (TMe 2) WIKp) (snd (run init h_receipt)).
Proof. exact receipt_delivered. Qed.

(* On 'me': an on/off of a contact reaches the owner's sessions only through an entry that is enabled
   (enabled = the owner's P in the related topic, loadContacts / +en / +dis) or is being enabled. *)
Theorem c10_no_leak_me_gate : forall self subs from w c wr w',
  r_what (proc_pres_req true self subs from w c wr) = Some w' -> (w = WOn \/ w = WOff) ->
  match aget tname_eqb from subs with
  | Some p => ps_en p = true \/ c = CEn \/ (c = CRem /\ w = WOn)
  | None => c = CEn
  end.
Proof. exact proc_me_gate. Qed.
Print Assumptions c10_no_leak_me_gate.

(* "never to banned users" is NOT what the filters give: removing J but not P from `given` evicts the user
   from the topic but the notifications on 'me' keep flowing (finding pres-to-banned-user). *)
Theorem c10_no_leak_banned_refuted :
  In (Frame 2 2 (TMe 2) (TGrp 1) WMsg) (snd (run init h_banned)) /\
  exists x p, get_top (fst (run init h_banned)) (TGrp 1) = Some x /\ aget N.eqb 2 (t_users x) = Some p /\
              p_deleted p = false /\ is_joiner (p_given p) = false /\ s_net (fst (run init h_banned)) = [].
Proof. exact banned_still_notified. Qed.
Print Assumptions c10_no_leak_banned_refuted.

(* ---------------------------------------------------------------- online counters *)

(* full statement: PresProofs.c10_online_count_statement :=
     forall s, reach s -> online_ok s
   online_ok: in every 'me', p2p and group topic, online(u) = number of attached foreground sessions of u (>= 0). *)
Theorem c10_online_count_refuted : ~ c10_online_count_statement.
Proof. exact online_count_refuted. Qed.
Print Assumptions c10_online_count_refuted.

(* SLOW CONSUMERS (Sys/PresStuckC10.v).  A session whose outbound queue is full is detached by the topic in the
   middle of a fan-out (broadcastToSessions, topic.go:1326-1337 -> unregisterSession -> handleLeaveRequest:
   online--).  xinv_c10x s := online_ok s (every 'me', p2p and group topic: online(u) = number of attached
   foreground sessions of u) /\ no session attached twice.
   (1) the drop itself keeps the invariant, in EVERY state (not only reachable ones), for any session, user, topic: *)
Theorem c10_online_count_drop : forall s sid u t, xinv_c10x s -> xinv_c10x (drop_c10x s sid u t).
Proof. exact drop_xinv. Qed.
Print Assumptions c10_online_count_drop.

(* (2) every handler that fans out - {note} (handleNoteBroadcast), {pub} (saveAndBroadcastMessage), the delivery
   of a routed {pres}/{info} (handleServerMsg/handlePresence) - keeps it, with ANY set of stuck sessions, from
   EVERY state: the handler's own writes of perUser precede the fan-out, the drops come last; clogging and
   unclogging do not touch the counters. *)
Theorem c10_online_count_fanout : forall xs o,
  fanout_xop_c10x o -> xinv_c10x (fst xs) -> xinv_c10x (fst (fst (xstep_c10x xs o))).
Proof. exact xstep_fanout_xinv. Qed.
Print Assumptions c10_online_count_fanout.

(* (3) hence for all histories of such operations, of any length, in any order, from any state with the invariant *)
Theorem c10_online_count_fanout_histories : forall h xs,
  Forall fanout_xop_c10x h -> xinv_c10x (fst xs) -> xinv_c10x (fst (fst (xrun_c10x xs h))).
Proof. exact xrun_fanout_xinv. Qed.
Print Assumptions c10_online_count_fanout_histories.

(* (4) without stuck sessions the extended step IS the step of Sys/Pres.v (everything proved above about
   Pres.step still speaks about the model that is run against the code) *)
Theorem c10_stuck_conservative : forall s o, xstep_c10x (s, []) (XOp o) = ((fst (step s o), []), snd (step s o)).
Proof. exact xstep_conservative. Qed.
Print Assumptions c10_stuck_conservative.

(* (5) the order matters: the same {note} handler with the write-back `t.perUser[asUid] = pud` placed AFTER the
   fan-out (xstep_late_c10x) breaks the count on a reachable state - user 1 with two foreground sessions in a
   group, one stuck, the other sends {note read}: online stays 2 with 1 session attached. *)
Theorem c10_online_count_stale_writeback_refuted : ~ late_writeback_statement_c10x.
Proof. exact stale_writeback_breaks_online_count. Qed.
Print Assumptions c10_online_count_stale_writeback_refuted.

Example c10_stuck_drop_example :
  let xs := fst (xrun_c10x xinit_c10x h_stuck_c10x) in
  let xs1 := fst (xstep_c10x xs (XOp (Note 2 1 (RGrp 1) WIRead 1))) in
  (online_of_c10x (fst xs) (TGrp 1) 1 = 2 /\ attached_of_c10x (fst xs) (TGrp 1) 1 = 2)%Z /\
  (online_of_c10x (fst xs1) (TGrp 1) 1 = 1 /\ attached_of_c10x (fst xs1) (TGrp 1) 1 = 1)%Z.
Proof. exact stuck_drop_example. Qed.

(* ---------------------------------------------------------------- convergence *)

(* full statement: PresProofs.c10_converges_statement :=
     forall s, reach s -> quiescent s -> converged s
   quiescent: empty network, no pending fan-out, every idle topic unloaded;
   converged: for p2p partners u v with P on both sides and me(v) loaded,
              perSubs_v(u).online = true <-> me(u) has a foreground session attached; and for every member u
              (with P) of a group g with me(u) loaded, perSubs_u(g).online = true <-> g has an attached session. *)
(* REFUTED for all schedules, without any permission change: handleTopicTimeout sends hub.unreg before the
   "off" fan-out, which can then overtake the "on" of the re-created topic (finding converges-unload-race). *)
Theorem c10_converges_refuted : ~ c10_converges_statement.
Proof. exact converges_refuted_race. Qed.
Print Assumptions c10_converges_refuted.

(* The model follows the code WITH the repair findings/C10_p2p_unmute.diff (notifySubChange sends "?unkn+en"
   for an un-muted p2p subscription too).  About the code BEFORE it (step_unrepaired / run_unrepaired) the
   statement is refuted by mute + un-mute: the un-muting user's contact entry stays disabled. *)
Theorem c10_converges_p2p_unmute_unrepaired_refuted : ~ c10_converges_statement_unrepaired.
Proof. exact converges_p2p_unmute_unrepaired_refuted. Qed.
Print Assumptions c10_converges_p2p_unmute_unrepaired_refuted.

(* ... and with the repair the same history ends with the entry enabled and online. *)
Theorem c10_p2p_unmute_repaired :
  quiescent_b (fst (run init (h_unmute ++ [D; D; D]))) = true /\
  exists m, get_me (fst (run init (h_unmute ++ [D; D; D]))) 1 = Some m /\
            aget tname_eqb (TMe 2) (me_subs m) = Some (mkPsd true true).
Proof. exact p2p_unmute_repaired. Qed.
Print Assumptions c10_p2p_unmute_repaired.

(* the hypotheses are satisfiable: quiescent reachable states exist, and convergence holds on the plain handshake *)
Example c10_quiescent_example :
  quiescent (fst (run init [Att 1 1 RMe false; Att 2 2 RMe false; Att 1 1 (RP2P 2) false; D; D; D; D])).
Proof. apply quiescent_b_sound. vm_compute. reflexivity. Qed.
