(* C10 - placeholder while the proofs are being written *)
From Tinode Require Import Sys.Pres.
Theorem c10_placeholder : True. Proof. exact I. Qed.
Print Assumptions c10_placeholder.
